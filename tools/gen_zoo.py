#!/usr/bin/env python3
"""Generates harness/zoo_gen.go: a zoo of declared Go types for the inference families
(C04, C09, C16).  Deterministic (seeded); the harness reads names, tags, kinds and
embedding by reflection, so only the category labels are carried alongside.

categories
  plain        C04's domain, no JSON-name or Go-name conflicts between fields reachable through embedding
  conflict     name conflicts through embedding (finding O-6)
  taggedembed  an embedded struct with a json tag (finding O-7)
  bigint       contains big.Int (finding O-7: encodes as a number, schema says string)
  invalidtag   a json tag name encoding/json rejects (isValidTag)
  nonstructembed  an embedded non-struct type (outside the domain)
  recursive    recursive types (For must report an error)
  unsupported  chan/func/complex/non-string map keys somewhere
  unexportedptr an embedded pointer to an unexported struct type (decoding cannot allocate it; finding O-9)
"""
import random, sys

rnd = random.Random(20260930)
out = []
decls = []       # (name, category)
SCALARS = ["bool", "int", "int8", "int16", "int32", "int64", "uint", "uint8", "uint16", "uint32", "uint64", "float32", "float64", "string", "uintptr"]
NAMED_SCALARS = [("ZI8", "int8"), ("ZU16", "uint16"), ("ZStr", "string"), ("ZF", "float64"), ("ZB", "bool"), ("ZI", "int"), ("zlower", "int32")]
for n, u in NAMED_SCALARS:
    out.append("type %s %s" % (n, u))
out.append("type ZKey string")

counter = [0]
def fresh(prefix="Z"):
    counter[0] += 1
    return "%s%d" % (prefix, counter[0])

def scalar():
    return rnd.choice(SCALARS + [n for n, _ in NAMED_SCALARS[:6]])

def typ(depth, structs):
    """a field type expression; structs: names of declared plain struct types usable as components"""
    r = rnd.random()
    if depth <= 0 or r < 0.45:
        return scalar()
    if r < 0.55:
        return "*" + typ(depth - 1, structs)
    if r < 0.67:
        e = typ(depth - 1, structs)
        return "[]" + ("uint16" if e == "uint8" else e)   # []byte encodes as a base64 string: outside the domain
    if r < 0.72:
        return "[%d]%s" % (rnd.choice([0, 1, 2, 3]), typ(depth - 1, structs))
    if r < 0.80:
        return "map[%s]%s" % (rnd.choice(["string", "string", "ZKey"]), typ(depth - 1, structs))
    if r < 0.85:
        return "any"
    if r < 0.88:
        return "time.Time"
    if r < 0.90:
        return "*time.Time"
    if r < 0.96 and structs:
        s = rnd.choice(structs)
        return rnd.choice(["", "*", "[]"]) + s
    # an anonymous struct type
    return "struct {\n" + "\n".join("\t\t" + f for f in fields(depth - 1, structs, 1 + rnd.randrange(2), "Q")) + "\n\t}"

NAMES = ["a", "b", "c", "name", "id", "X", "a b", "é", "a.b", "$x", "x-y", "A", "n1", "_u", "~t", "10"]
def tag(used):
    r = rnd.random()
    if r < 0.30:
        return ""
    opts = rnd.choice(["", "", ",omitempty", ",omitzero", ",omitempty,omitzero", ","])
    if r < 0.40:
        return ' `json:"%s"`' % opts if opts else ""
    if r < 0.45:
        return ' `json:"-"`'
    if r < 0.48:
        return ' `json:"-,"`' if "-" not in used and not used.add("-") else ""
    for _ in range(10):
        n = rnd.choice(NAMES)
        if n not in used:
            used.add(n)
            d = ' jsonschema:"%s"' % rnd.choice(["a description", "desc with = inside"]) if rnd.random() < 0.15 else ""
            return ' `json:"%s%s"%s`' % (n, opts, d)
    return ""

def fields(depth, structs, n, prefix):
    fs = []
    used = set()
    for i in range(n):
        nm = "%s%d" % (prefix, i) if rnd.random() < 0.9 else "%s%d" % (prefix.lower(), i)
        used.add(nm)
        fs.append("%s %s%s" % (nm, typ(depth, structs), tag(used)))
    return fs

def declare(name, body, cat):
    out.append("type %s struct {\n%s\n}" % (name, "\n".join("\t" + f for f in body)))
    decls.append((name, cat))

# 1. plain leaf structs, then plain structs embedding them
plain = []
for i in range(40):
    nm = fresh("ZP")
    declare(nm, fields(2, plain[:], 1 + rnd.randrange(5), "F"), "plain")
    plain.append(nm)
lowerplain = []
for i in range(6):
    nm = fresh("zq")      # unexported struct types with exported fields
    declare(nm, fields(1, [], 1 + rnd.randrange(3), "G%d_" % i), "plain")
    lowerplain.append(nm)
# embedding without conflicts: field names carry the struct's own number, tags come from disjoint pools
def embed_fields(host, embeds, extra):
    fs = []
    for e in embeds:
        fs.append(e)
    used = set()
    for i in range(extra):
        fs.append("%s_%d %s%s" % (host, i, typ(1, plain[:10]), tag_unique(host, i)))
    rnd.shuffle(fs)
    return fs
def tag_unique(host, i):
    r = rnd.random()
    if r < 0.5:
        return ""
    return ' `json:"%s_%d_j%s"`' % (host.lower(), i, rnd.choice(["", ",omitempty", ",omitzero"]))
leafs = []
for i in range(14):
    nm = fresh("ZL")
    declare(nm, ["%s_%d %s%s" % (nm, j, typ(1, []), tag_unique(nm, j)) for j in range(1 + rnd.randrange(3))], "plain")
    leafs.append(nm)
for i in range(30):
    nm = fresh("ZE")
    k = 1 + rnd.randrange(2)
    es = rnd.sample(leafs + lowerplain[:3], k)
    embeds = [rnd.choice(["", "*"]) + e for e in es]
    cat = "plain"
    if any(e.startswith("*z") for e in embeds):
        cat = "unexportedptr"
    declare(nm, embed_fields(nm, embeds, rnd.randrange(3)), cat)
    if cat == "plain" and rnd.random() < 0.5:
        leafs.append(nm)   # deeper embedding chains

# 2. conflicts (O-6)
out.append('''type ZCInner struct {
	A string `json:"a"`
	B int
}
type ZCInner2 struct {
	N int `json:"n"`
	B string
}
type ZCInner3 struct {
	N bool `json:"n"`
}''')
declare("ZC1", ['X int `json:"a"`', "ZCInner"], "conflict")
declare("ZC2", ["ZCInner2", "ZCInner3"], "conflict")
declare("ZC3", ["ZCInner", "ZCInner2"], "conflict")          # B at the same depth, untagged twice: both dropped
declare("ZC4", ['A int `json:"y"`', "ZCInner"], "conflict")  # Go name A hides ZCInner.A for reflect, not for encoding/json
declare("ZC5", ["ZCInner", 'Z int `json:"B"`'], "conflict")
declare("ZC6", ["*ZCInner2", 'N2 string `json:"n"`', "ZCInner3"], "conflict")
declare("ZC7", ['P int `json:"p"`', 'Q int `json:"p"`'], "conflict")
declare("ZC8", ["ZC1", "ZCInner3"], "conflict")

# 2b. a systematic sweep of name conflicts: outer fields and embedded structs (one or two levels)
# whose Go names and tag names are drawn from one small pool, tagged or not, of differing types
POOL = ["A", "B", "a", "b"]
TYPES = ["int", "string", "bool", "[]int8", "*float64"]
def conflict_struct(prefix, depth):
    nm = fresh(prefix)
    fs = []
    goused = set()
    for i in range(1 + rnd.randrange(2)):
        g = rnd.choice(["A", "B", "C", "D"])
        if g in goused:
            continue
        goused.add(g)
        t = rnd.choice(TYPES)
        r = rnd.random()
        if r < 0.45:
            fs.append("%s %s" % (g, t))
        elif r < 0.9:
            fs.append('%s %s `json:"%s%s"`' % (g, t, rnd.choice(POOL), rnd.choice(["", ",omitempty"])))
        else:
            fs.append('%s %s `json:"-"`' % (g, t))
    if depth > 0:
        for i in range(rnd.randrange(3)):
            inner = conflict_struct(prefix, depth - 1)
            if inner in goused:
                continue
            goused.add(inner)
            fs.append(rnd.choice(["", "*"]) + inner)
    rnd.shuffle(fs)
    out.append("type %s struct {\n%s\n}" % (nm, "\n".join("\t" + f for f in fs)))
    return nm
for i in range(40):
    n = conflict_struct("ZX", 2)
    decls.append((n, "conflict"))
declare("ZC9", ["B string", "ZCInner3b"], "conflict")
# three and four levels of untagged embedding, fields declared in non-alphabetical order (PropertyOrder = declaration order)
declare("ZDeepIn", ["Zeta int", "Mid string", "Alpha bool", "Beta *int8 `json:\"beta,omitempty\"`"], "plain")
declare("ZDeepL3", ["ZDeepIn"], "plain")
declare("ZDeepL2", ["ZDeepL3", "Yy int"], "plain")
declare("ZDeepL1", ["Xx string", "ZDeepL2"], "plain")
declare("ZDeep3", ["First int", "ZDeepL2", "Last int"], "plain")
declare("ZDeep4", ["First int", "ZDeepL1", "Last int"], "plain")
declare("ZDeep4p", ["*ZDeepL1", "Omega int", "Aa int"], "plain")
# diamonds: one struct reached twice at the same depth, by value, by pointer and mixed (its fields cancel)
declare("ZDI", ["X int", 'W string `json:"w"`'], "plain")
declare("ZDLv", ["ZDI"], "plain")
declare("ZDRv", ["ZDI"], "plain")
declare("ZDLp", ["*ZDI"], "plain")
declare("ZDRp", ["*ZDI"], "plain")
declare("ZD1", ["ZDLv", "ZDRv", "Y int"], "conflict")
declare("ZD2", ["ZDLp", "ZDRp", "Y int"], "conflict")
declare("ZD3", ["ZDLv", "ZDRp", "Y int"], "conflict")
declare("ZD4", ["*ZDLp", "ZDRp", "Y int", "X2 int"], "conflict")   # the deeper field is tagged with the name of an untagged shallower one
out.append("""type ZCInner3b struct {
	X int `json:"B"`
	N int
}""")
# a type occurring several times, first through a pointer / with a description
declare("ZTwice2", ["P *ZP2 `jsonschema:\"the first\"`", "V ZP2", "L []ZP2"], "plain")
declare("ZTwice3", ["M map[string]*ZL47", "V ZL47 `json:\"v,omitempty\"`", "ZL48", "W *ZL48"], "plain")

# 3. tagged embedding and embedded non-structs (O-7 / outside)
declare("ZT1", ['ZCInner `json:"e"`'], "plain")
declare("ZT2", ['*ZCInner3 `json:"p,omitempty"`', "K int"], "plain")
declare("ZT3", ['ZCInner `json:"-"`', "K int"], "plain")
declare("ZT4", ['ZCInner2 `json:"inner"`', "ZCInner3", "B bool"], "conflict")
declare("ZN1", ["ZI8", "K int"], "plain")
declare("ZN2", ["*ZStr"], "plain")
# 4. big.Int
declare("ZBI1", ["V big.Int"], "bigint")
declare("ZBI2", ["V *big.Int `json:\"v,omitempty\"`", "W int"], "bigint")
# 5. invalid tag names
declare("ZV1", ["A int `json:\"it's\"`"], "plain")
declare("ZV2", ["A int `json:\"a\\\\b\"`", "B string `json:\"ok\"`"], "plain")
declare("ZV3", ["A int `json:\"a\\\"q\"`"], "plain")
declare("ZV4", ["A int `json:\"×\"`"], "plain")
# numeric runes that are not decimal digits (superscripts, fractions): not valid in a tag name either
declare("ZV5", ["Area int32 `json:\"m²\"`", "Half string `json:\"x½y\"`", "K int `json:\"k9\"`"], "plain")
declare("ZV6", ["P *int8 `json:\"¹,omitempty\"`", "Q []string `json:\"¾\"`", "Ok bool `json:\"ok_é\"`"], "plain")
# 6. recursive
out.append('''type ZR1 struct {
	Next *ZR1 `json:"next,omitempty"`
	V    int
}
type ZR2 struct{ B *ZR3 }
type ZR3 struct{ A []ZR2 }
type ZR4 struct{ M map[string]ZR4 }
type ZR5 struct {
	*ZR5
	V int
}
type ZR6 struct{ In struct{ Deep []*ZR6 } }''')
for n in ["ZR1", "ZR2", "ZR3", "ZR4", "ZR5", "ZR6"]:
    decls.append((n, "recursive"))
declare("ZR7", ["Head ZR1", "K int"], "recursive")
# 7. unsupported kinds
declare("ZU1", ["C chan int"], "unsupported")
declare("ZU2", ["A int", "F func()", "B string"], "unsupported")
declare("ZU3", ["M map[int]string"], "unsupported")
declare("ZU4", ["D []map[string]*struct{ Z complex128 }", "K int"], "unsupported")
declare("ZU5", ["ZU1", "K int"], "unsupported")
declare("ZU6", ["P *[]chan bool `json:\"p\"`"], "unsupported")
# named unsupported types occurring several times in one type (dropped every time with IgnoreInvalidTypes, never a cycle)
out.append("type ZCb func()")
out.append("type ZSet map[int]bool")
out.append("type ZCh chan int")
out.append("type ZC128 complex128")
declare("ZU7", ["A ZCb", "B ZCb", "K int"], "unsupported")
declare("ZU8", ["S1 ZSet", "P *ZSet", "L []ZSet", "K string"], "unsupported")
declare("ZU9", ["C ZCh `json:\"c\"`", "D []ZCh", "M map[string]ZCh", "E ZCh"], "unsupported")
declare("ZU10", ["X ZC128", "Y *ZC128", "In struct{ Z ZC128 }", "K int"], "unsupported")
# unsupported fields that carry a jsonschema description tag (skipped with IgnoreInvalidTypes before the tag is used)
declare("ZU11", ["F func() `jsonschema:\"a callback\"`", "K int `jsonschema:\"kept\"`"], "unsupported")
declare("ZU12", ["C chan int `json:\"c\" jsonschema:\"a channel\"`", "M map[int]string `jsonschema:\"keyed by int\"`", "L []ZCb `json:\"l,omitempty\" jsonschema:\"callbacks\"`", "S string"], "unsupported")
# 8. more plain: slog.Level, deep nesting, arrays, every scalar
declare("ZAll", ["F%d %s" % (i, s) for i, s in enumerate(SCALARS)], "plain")
declare("ZAllPtr", ["F%d *%s `json:\"f%d,omitempty\"`" % (i, s, i) for i, s in enumerate(SCALARS)], "plain")
declare("ZLvl", ["L slog.Level", "T time.Time", "P *time.Time `json:\"p\"`"], "plain")
declare("ZDeep", ["A [][]map[string][2]*int16", "B map[ZKey][]any", "C *[]*string", "D [0]int", "E map[string]map[string]bool"], "plain")
declare("ZDash", ["A int `json:\"-\"`", "B int `json:\"-,\"`", "C int `json:\",omitempty\"`", "D int `json:\"d,omitzero\"`", "e int", "F int `json:\"f,\"`"], "plain")
declare("ZEmpty", [], "plain")
declare("ZTwice", ["A ZP1", "B ZP1", "C []ZP1", "D *ZP1"], "plain")   # a type occurring several times
# named scalars reached through pointers several times (TypeSchemas entries get "null" added at each occurrence)
declare("ZPtrs1", ["A *ZI8", "B *ZI8", "C []*ZStr", "D map[string]*ZStr", "E *ZU16"], "plain")
declare("ZPtrs2", ["P *ZStr `json:\"p\"`", "Q **ZStr `json:\"q,omitempty\"`", "R *ZI", "S []*ZI"], "plain")
declare("ZPtrs3", ["ZPtrs1", "X *ZU16", "Y *ZB", "Z *ZF"], "plain")
# embedded structs whose tag has options but no (valid) name: still flattened
declare("ZEO1", ["ZCInner `json:\",omitempty\"`", "K int"], "plain")
declare("ZEO2", ["*ZCInner3 `json:\",omitzero\"`", "K2 string"], "plain")
declare("ZEO3", ["ZCInner2 `json:\"a'b\"`", "ZCInner3 `json:\",\"`"], "conflict")
# json.Number: a named string that encoding/json writes and reads as a number
declare("ZNum", ["N json.Number", "P *json.Number `json:\"p,omitempty\"`", "L []json.Number", "M map[string]json.Number", "K int"], "plain")
# byte arrays: encoding/json writes [N]uint8 as a JSON array of numbers (only byte SLICES become base64 strings)
out.append("type ZSum [4]byte")
declare("ZBytesArr", ["Sum [4]byte", "H [0]uint8", "P *[2]uint8 `json:\"p,omitempty\"`", "M map[string][3]uint8", "L [][2]byte", "N ZSum", "Q *ZSum"], "plain")

src = ["// Code generated by tools/gen_zoo.py; DO NOT EDIT.", "", "package main", "", "import (", '\t"encoding/json"', '\t"log/slog"', '\t"math/big"', '\t"reflect"', '\t"time"', ")", "",
       "var _ json.Number", "var _ = slog.LevelInfo", "var _ big.Int", "var _ time.Time", ""]
src += out
src.append("")
src.append("type zooEntry struct {\n\tName string\n\tT    reflect.Type\n\tCat  string\n}")
src.append("")
src.append("var zoo = []zooEntry{")
for n, c in decls:
    src.append('\t{"%s", reflect.TypeFor[%s](), "%s"},' % (n, n, c))
# non-struct roots
for e, c in [("[]ZP1", "plain"), ("*ZP2", "plain"), ("map[string]ZP3", "plain"), ("[2]ZI8", "plain"), ("int8", "plain"), ("uint64", "plain"), ("*string", "plain"), ("any", "plain"), ("[]any", "plain"), ("map[string]any", "plain"),
             ("ZStr", "plain"), ("*ZI8", "plain"), ("time.Time", "plain"), ("chan int", "unsupported"), ("map[int]int", "unsupported"), ("[]*ZR1", "recursive"), ("***int32", "plain"), ("[]float32", "plain"), ("[4]byte", "plain"), ("ZSum", "plain"), ("*[2]uint8", "plain"), ("map[string][1]byte", "plain"), ("json.Number", "plain"), ("[]*json.Number", "plain")]:
    src.append('\t{"%s", reflect.TypeFor[%s](), "%s"},' % (e, e, c))
src.append("}")
open(sys.argv[1], "w").write("\n".join(src) + "\n")
