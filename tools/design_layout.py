#!/usr/bin/env python3
"""Regenerates the file listing of DESIGN.md section 4.1 and the size figures of section 0.1 from the tree."""
import os, re, glob
root='/verif/coq'
files=[l.strip() for l in open(root+'/_CoqProject') if l.strip().endswith('.v')]
files+=sorted('gen/'+os.path.basename(f) for f in glob.glob(root+'/gen/Ob*.v'))
files+=sorted('props/'+os.path.basename(f) for f in glob.glob(root+'/props/*.v'))
seen=set(); rows=[]; tl=0; nl=0
for f in files:
    if f in seen: continue
    seen.add(f)
    src=open(os.path.join(root,f)).read()
    tl+=src.count('\n')
    nl+=len(re.findall(r'^\s*(Lemma|Theorem|Corollary|Example|Fact)\b', src, re.M))
    m=re.search(r'\(\*\*?\s*(.*?)\*\)', src, re.S)
    d=' '.join(m.group(1).split()) if m else ''
    d=re.split(r'(?<=[a-z\)\]])\.\s', d)[0][:150]
    rows.append((f, src.count('\n'), d))
block='```\n'+'\n'.join('%-24s %5d  %s'%r for r in rows)+'\n```\n'
p='/verif/DESIGN.md'; s=open(p).read()
i=s.index('### 4.1 Layout'); j=s.index('### 4.2 ')
head=s[i:j].split('\n')[0]
new=head+'\n\n(The listing below is generated from the tree by `tools/design_layout.py`: file, lines, first sentence of its header comment.)\n\n'+block+'\n'
s=s[:i]+new+s[j:]
s=re.sub(r'\(`coq/`, \d+ files incl\. props, ~[\d ]+ lines, ~\d+ lemmas/theorems', '(`coq/`, %d files incl. props, ~%s lines, ~%d lemmas/theorems'%(len(rows), format(round(tl,-2),',').replace(',',' '), nl), s)
open(p,'w').write(s)
print(len(rows), tl, nl)
