#!/bin/sh
# usage: tools/confirm_seed.sh SRC_WORKTREE NAME PROPERTY "NEEDS"
# confirms a seeded change in a fresh scratch worktree of /repo's HEAD and stores it under /verif/seeded/NAME
set -e
src=$1; name=$2; prop=$3; needs=$4
export GOFLAGS=-mod=mod GOPROXY=off GOSUMDB=off GOTOOLCHAIN=local
wt=/tmp/wtc-$$
git -C /repo worktree add -q $wt HEAD
trap 'git -C /repo worktree remove --force $wt' EXIT
cd $wt
git apply $src/patch.diff
cp $src/jsonschema/seeded_demo_test.go jsonschema/
r1=$(go test -vet=off -count=1 -skip '^TestSeededDemo$' ./... 2>&1 | tail -1)
r2=$(go test -vet=off -count=1 -run '^TestSeededDemo$' ./jsonschema 2>&1 | tail -1)
git apply -R $src/patch.diff
r3=$(go test -vet=off -count=1 -run '^TestSeededDemo$' ./jsonschema 2>&1 | tail -1)
echo "suite with change: $r1"; echo "demo with change: $r2"; echo "demo without: $r3"
case "$r1" in ok*) ;; *) echo "REJECT: suite fails"; exit 1;; esac
case "$r2" in FAIL*|*FAIL*) ;; *) echo "REJECT: demo does not fail"; exit 1;; esac
case "$r3" in ok*) ;; *) echo "REJECT: demo fails without the change"; exit 1;; esac
d=/verif/seeded/$name
mkdir -p $d
cp $src/patch.diff $d/patch.diff
cp $src/jsonschema/seeded_demo_test.go $d/seeded_demo_test.go
[ -f $src/NOTES.md ] && cp $src/NOTES.md $d/NOTES.md
python3 - "$d" "$prop" "$needs" "$r1" "$r2" "$r3" <<'P'
import json,sys
d,prop,needs,r1,r2,r3=sys.argv[1:]
json.dump({"property":prop,"needs_to_manifest":needs,
 "confirmed":{"where":"fresh scratch worktree of /repo HEAD (removed afterwards)",
  "suite_with_change":r1,"demo_with_change":r2,"demo_without_change":r3,
  "commands":["git apply patch.diff","go test -vet=off -count=1 -skip '^TestSeededDemo$' ./...","go test -vet=off -count=1 -run '^TestSeededDemo$' ./jsonschema","git apply -R patch.diff","go test -vet=off -count=1 -run '^TestSeededDemo$' ./jsonschema"]}},
 open(d+"/meta.json","w"),indent=1)
P
echo "stored $d"
