#!/bin/sh
# usage: tools/try_mutant.sh PATCH ID...   -- applies PATCH to /repo, runs the quick checks, reverts
# evidence files are rewritten by every run: keep the clean-tree ones aside and put them back afterwards
rm -rf /root/scratch/evidence.keep && mkdir -p /root/scratch && cp -r /verif/evidence /root/scratch/evidence.keep
patch=$1; shift
cd /repo && git apply "$patch" || { echo "patch does not apply"; exit 2; }
cd /verif
for id in "$@"; do
  out=$(./check "$id" 2>&1 | grep -E "VIOLATION|failing input|^$id " | head -4)
  echo "[$id] $out"
done
cd /repo && git checkout -- . && git status --short | head -3
rm -rf /verif/evidence && cp -r /root/scratch/evidence.keep /verif/evidence
