#!/bin/sh
# usage: tools/thorough_all.sh [ID...]  -- the thorough tier of every property (or the given ones), one after the other,
# one summary line each.  With VERIF_REPO set the checks read that tree instead of /repo (used from `vp run --with-repo`,
# where the snapshot of /verif is built first: ./setup.sh).  Evidence files of the quick tier are put back afterwards.
cd "$(dirname "$0")/.."
export GOFLAGS=-mod=mod GOPROXY=off GOSUMDB=off GOTOOLCHAIN=local
[ -x ocaml/modelrun ] || ./setup.sh > .work-setup.log 2>&1 || { echo "setup failed"; tail -20 .work-setup.log; exit 1; }
rm -rf .evidence.keep && cp -r evidence .evidence.keep
ids="$@"; [ -n "$ids" ] || ids="C20 C19 C18 C17 C15 C12 C11 C08 C07 C06 C05 C02 C03 C16 C09 C04 C14 C13 C10 C01"
for id in $ids; do
  s=$(date +%s)
  timeout 7200 ./check $id --tier thorough > .thorough-$id.log 2>&1
  rc=$?
  echo "$id rc=$rc $(( $(date +%s) - s ))s $(grep -v conda .thorough-$id.log | tail -1 | cut -c1-200)"
  grep -E "VIOLATION|failing input|disagreement" .thorough-$id.log | head -8
done
rm -rf evidence && mv .evidence.keep evidence
echo ALLDONE
