"""Per-property configuration of ./check: generator families (harness family, model driver
family, sizes per tier), the rule that makes a case non-trivial, and the trusted base
specific to the property."""
PROPS = {
 "C19": dict(
  families=[dict(name="order", model="marshal", quick=2000, thorough=40000)],
  ignore_keys=["same"],
  rule="Schema values with 0-8 properties from a 15-name pool (incl. '', '~', '/', non-ASCII, digits) x PropertyOrder lists "
       "(none, permutation, subset, superset with absent names, only absent, duplicates, empty), nested to depth 2, each marshalled 5 times; "
       "non-trivial: >= 2 properties and a non-empty order; distinct by (property count, order length, output bytes)",
  trusted_base=["encoding/json text layer (JSON text <-> ordered document) and its sorting of map keys are modelled, not verified"],
  assumptions=["Go map iteration order is modelled as the order of an association list with distinct keys"],
 ),
}
