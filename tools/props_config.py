"""Per-property configuration of ./check: generator families (harness family, model driver
family, sizes per tier), the rule that makes a case non-trivial, and the trusted base
specific to the property."""
PROPS = {
 "C19": dict(
  families=[dict(name="order", model="marshal", quick=2000, thorough=40000)],
  rule="Schema values with 0-8 properties from a 15-name pool (incl. '', '~', '/', non-ASCII, digits) x PropertyOrder lists "
       "(none, permutation, subset, superset with absent names, only absent, duplicates, empty), nested to depth 2, each marshalled 5 times; "
       "non-trivial: >= 2 properties and a non-empty order; distinct by (property count, order length, output bytes)",
  trusted_base=["encoding/json text layer (JSON text <-> ordered document) and its sorting of map keys are modelled, not verified"],
  assumptions=["Go map iteration order is modelled as the order of an association list with distinct keys"],
 ),

 "C01": dict(
  obligations=["ObSchema", "ObOrder"],
  families=[dict(name="suite2020", model="val", quick=0, thorough=0),
            dict(name="val", model="val", quick=1200, thorough=30000),
            dict(name="uneval", model="val", quick=400, thorough=10000),
            dict(name="unevalt", model="val", quick=600, thorough=15000)],
  ignore_keys=["calls"],
  rule="schema documents over the full 2020-12 keyword set (G-val: 1-4 keywords per object from 40 choices, nesting <= 4, $defs/$ref/$anchor with instance-descending recursion, shared pools of 6 names / 9 strings / 18 numbers incl. +-2^53, 9 regexps), 14 instances per schema (6 schema-guided, 6 single-point mutations, 2 random); plus every group of the official 2020-12 suite with its expected verdicts; "
       "non-trivial: >= 3 distinct keywords in the document; distinct by keyword multiset",
  trusted_base=["regexp (oracle table shipped with each case: compiles?, MatchString)", "encoding/json text layer", "IEEE-754 division for multipleOf on the property's restricted domain (dyadic operands, exact quotient)"],
  assumptions=["instances are JSON values decoded by encoding/json into any (canonical representation); other representations are C08",
               "multipleOf operands outside the property's domain are not generated (big instance numbers are dropped when the document uses multipleOf)"],
 ),
 "C02": dict(
  obligations=["ObSchema", "ObOrder"],
  families=[dict(name="suite7", model="val", quick=0, thorough=0),
            dict(name="d7", model="val", quick=1200, thorough=30000),
            dict(name="ref7", model="val", quick=900, thorough=20000)],
  ignore_keys=["calls"],
  rule="family ref7: the universes of family ref (root, embedded resources, loader documents with and without canonical ids, chains/diamonds/cycles) read as draft-07 - definitions, fragment-only $id as anchors, $id with an empty fragment, loaded documents without $schema under a draft-07 root; draft-07 documents (G-val with the draft-07 profile: definitions, dependencies in both forms, items in both forms, additionalItems, $ref with siblings; both $schema spellings), 14 instances each; plus every group of the official draft-07 suite with expected verdicts; non-trivial: >= 3 distinct keywords; distinct by keyword multiset",
  trusted_base=["regexp oracle", "encoding/json text layer"],
  assumptions=["the vocabulary is the union the package knows: 2020-12-only keywords inside draft-07 documents are honoured by both the code and the specification function"],
 ),
 "C06": dict(
  families=[dict(name="dyn", model="val", quick=1500, thorough=30000),
            dict(name="suite2020", model="val", quick=0, thorough=0)],
  rule="G-dyn: chains of 1-5 schema resources (embedded or loader-supplied), each with $dynamicAnchor / $anchor / nothing named 'node', entered through $ref / allOf / anyOf / if-then hops, final $dynamicRef (or $ref) in fragment, resource-relative or pointer form; marker constants identify the chosen target; each Resolved validates a history of 2x(markers+2) calls; non-trivial: >= 2 resources and >= 2 candidate targets; distinct by document hash",
  trusted_base=["net/url (Parse, ResolveReference) modelled on a restricted alphabet", "encoding/json text layer"],
  assumptions=["universes are coherent: the loader returns a fresh copy of the same document for a URI"],
 ),
 "C07": dict(
  obligations=["ObSchema", "ObOrder"],
  families=[dict(name="uneval", model="val", quick=1000, thorough=40000),
            dict(name="unevalt", model="val", quick=1500, thorough=40000),
            dict(name="val", model="val", quick=300, thorough=10000)],
  ignore_keys=["calls"],
  rule="G-val with the unevaluated profile (2-4 keywords per object, biased to properties/patternProperties/additionalProperties/prefixItems/items/contains/in-place applicators/$ref/unevaluated*), instances over a pool of 6 names and small item pools; non-trivial: >= 3 distinct keywords; distinct by keyword multiset",
  trusted_base=["regexp oracle", "encoding/json text layer"],
  assumptions=[],
 ),
 "C08": dict(
  families=[dict(name="repr", model="val", quick=800, thorough=20000)],
  ignore_keys=["calls"],
  rule="(schema, JSON value) pairs x 4 representations each (canonical + 3 random: numeric kind per leaf among 14 incl. float32/json.Number/named int, []any / typed slice / Go array, map[string]any / typed element / named key type, pointer and interface wrapping, nil pointers for null); non-trivial: some representation differs from the canonical one and the schema has >= 2 keywords; distinct by (keyword multiset, number of differing representations)",
  trusted_base=["reflect (kinds, Convert for named key types)", "the abstraction Go value -> gv performed by the harness (sxOfValue)"],
  assumptions=["nil slices, nil maps and struct instances are outside the domain, as the property states"],
 ),
 "C11": dict(
  obligations=[],
  families=[dict(name="equal", model="equal", quick=1500, thorough=40000)],
  ignore_keys=["hasheq"],
  rule="12 pairs per case of JSON values in independently drawn representations: identical values, near misses (x vs x.0, 2^53 vs 2^53+1, NFC vs NFD, permuted object members, single-leaf mutations), unrelated values; non-trivial: >= 3 pairs whose representations differ; distinct by case hash",
  trusted_base=["math/big (Rat comparison)", "reflect", "the abstraction Go value -> gv performed by the harness"],
  assumptions=["well-formed representations: no NaN/Inf, json.Number holding a literal big.Rat parses"],
 ),
 "C12": dict(
  families=[dict(name="equal", model="equal", quick=800, thorough=20000),
            dict(name="repr", model="val", quick=500, thorough=10000),
            dict(name="val", model="val", quick=400, thorough=10000)],
  ignore_keys=["calls", "hasheq"],
  rule="enum/const/uniqueItems inside G-val documents against instances in mixed representations (duplicates injected), verdicts under the per-call seed of the package vs the model's arbitrary bucket function; plus the hash law on value pairs through the verif hook (model-equal streams must give equal hashes under one seed); non-trivial as in C08/C11",
  trusted_base=["hash/maphash (an arbitrary function of seed and bytes written)", "math/big normalisation of Rat"],
  assumptions=[],
 ),

 "C03": dict(
  families=[dict(name="ref", model="val", quick=1500, thorough=40000),
            dict(name="uri", model="uri", quick=3000, thorough=60000),
            dict(name="suite2020", model="val", quick=0, thorough=0)],
  rule="G-ref: universes with a root ($id none/absolute/dir/urn/trailing slash; BaseURI empty/absolute), 0-2 embedded resources (relative, absolute-path, absolute, urn, ../ and ./ ids) each with inner pointer and anchor targets, 0-2 loader documents (relative/deep/../ retrieval URIs, optional canonical $id alias, links back to earlier documents and to the root: chains, diamonds, cycles; loader failure on 1/14 of URIs; Loader nil in 1/12), up to 6 references in every syntactic form plus 1/7 invalid ones; each candidate target has a unique const marker and the verdict matrix {h_i: marker_k} reads off the reached target; loader calls compared as sequences; "
       "family uri: (base, ref) pairs against net/url (Parse, ResolveReference, String, Fragment, IsAbs); non-trivial: >= 1 embedded or loader document and >= 2 references; distinct by document hash",
  partial="no lexical designation specification is proved against the resolver model yet; loader-once and termination are observed on every case (call sequences compared) but not proved",
  trusted_base=["net/url modelled by uri/Uri.v on a restricted alphabet (compared with net/url on every run)", "encoding/json text layer"],
  assumptions=["coherent universes: the loader returns a fresh copy of one document per URI", "duplicate $id within a document is not generated"],
 ),
 "C17": dict(
  families=[dict(name="ptr", model="val", quick=1500, thorough=40000),
            dict(name="ref", model="val", quick=500, thorough=10000)],
  rule="G-ptr: trees of up to 14 nodes with subschemas under every schema-holding keyword of both drafts (incl. array-form items and schema-valued dependencies), keyed by 26 hostile strings ('', '/', '~', '~0', '~01', '%', '%25', spaces, non-ASCII, digits, '-', '+1', keyword names), up to 7 references written as the percent-encoded RFC 6901 pointer of a location, 1/3 of cases with one invalid pointer (trailing slash, '-', signs, leading zeros, out of range, bad escapes, absent keyword, case variants, through non-schema fields); node k rejects exactly {m_k: 0}; non-trivial: >= 3 nodes; distinct by document hash",
  trusted_base=["net/url fragment percent-decoding (modelled with UTF-8 decoding in uri/Uri.v; compared on every run)", "strconv.Atoi replaced by the model's digit parser (agreement checked by the ptr family)"],
  assumptions=[],
 ),

 "C05": dict(
  families=[dict(name="schemago", model="roundtrip", quick=2000, thorough=50000),
            dict(name="docrt", model="docrt", quick=2000, thorough=50000)],
  rule="schemago: Schema values with 1-5 randomly chosen fields per node set in every way the Go type allows (nil/empty/one/several containers, pointer to nil, Go ints inside []any, nested schemas to depth 2), exclusivity rules respected 9 times in 10, Marshal -> Unmarshal -> Marshal with the laws (same bytes without PropertyOrder / same JSON value with it; same verdict vector on 15 pool instances) evaluated on the package's outputs and the marshalled document compared with the model's; "
       "docrt: documents of both drafts (G-val) and hostile documents (every keyword with values of every JSON type, nulls, integer spellings 2.0 / 1e2 / 2^31, case variants) through Unmarshal -> Marshal, outcome classes and re-marshalled document compared with the model, re-acceptance and verdict laws on the implementation; non-trivial: >= 3 populated fields; distinct by output hash",
  partial="the general round-trip theorem over the whole Schema record is not proved (only boolean forms, determinism of map outputs, the order formula); the direction JSON -> Go -> JSON relies on the correspondence of the generated codec model and on the laws",
  trusted_base=["encoding/json text layer and struct codec rules transcribed in sch/CodecBase.v and the generated sch/Codec.v", "float64 formatting/parsing (numbers compared by value)"],
  assumptions=["schemas that Resolve refuses are not compared by verdict vector (they accept and reject nothing)", "nil children inside []*Schema / map[string]*Schema are not generated (trees)"],
 ),
 "C18": dict(
  families=[dict(name="decor", model="decor", quick=2500, thorough=60000)],
  rule="G-val documents of both drafts, decorated at random subschemas (0-2 decorations each) with: title/description/$comment, default (any JSON), examples, deprecated/readOnly/writeOnly, format/contentEncoding/contentMediaType, contentSchema (asserting-looking schemas), an unreferenced $defs/definitions entry, unknown names (incl. '', 'x y', U+017F), and 25 case variants of standard keywords with values of every JSON type; 10 instances (guided + mutations); the law 'same Unmarshal acceptance, same Resolve outcome, same verdict vector' is evaluated on the package for base vs decorated, and both documents go through the model; non-trivial: at least one decoration applied; distinct by (keyword multiset, decoration kinds)",
  trusted_base=["regexp oracle", "encoding/json text layer"],
  assumptions=["a legacy 'definitions' block next to '$defs' is not generated (known finding O-16: refused by basicChecks)"],
 ),

 "C20": dict(
  families=[dict(name="clone", model="marshal", quick=2500, thorough=60000)],
  rule="Schema trees from G-schema-go (depth 3, every field class) with extra subschemas forced under additionalItems, schema-valued dependencies, array-form items, definitions, contentSchema, propertyNames, dependentSchemas, unevaluatedItems; nil and empty containers included; laws evaluated on the package: clone marshals to the same bytes, no *Schema is shared (pointer sets computed by walking every struct field by type), original+clone under one allOf parent resolves exactly when the original does and the original twice under one parent never resolves, scribbling over every object of either tree leaves the other's bytes unchanged; non-trivial: >= 3 Schema objects; distinct by (object count, output hash)",
  trusted_base=["the correspondence between the heap model's kids list and reflection over schemaFieldInfos (tied by the field-class obligation and by the laws)", "encoding/json for the byte comparison"],
  assumptions=["trees only: Marshal and CloneSchemas on cyclic graphs overflow the stack and are outside the claimed entry points"],
 ),

 "C15": dict(
  families=[dict(name="defaults", model="defaults", quick=2500, thorough=60000)],
  rule="schemas with defaults of every JSON type at depth <= 3 of properties, with and without required (incl. required names that are not properties), on object and non-object subschemas, occasionally a default that violates its schema or a $dynamicRef; ValidateDefaults on in half of the cases; 7 instances per schema (every generated subset of properties present, non-objects at any position, {}), ApplyDefaults applied twice; observables: Unmarshal/Resolve outcome, resulting instance (canonical JSON) compared with the model; laws on the package: idempotent, extends; non-trivial: >= 1 default below >= 1 properties; distinct by document hash",
  trusted_base=["encoding/json decoding of the default into the element type", "reflect map operations"],
  assumptions=["canonical instances (map[string]any); typed element types and structs are outside the model"],
 ),

 "C14": dict(
  obligations=["ObSchema", "ObWrites", "ObRanges"],
  families=[dict(name="pure", model="val", quick=1200, thorough=40000, twice=True),
            dict(name="purego", model="marshal", quick=1500, thorough=40000, twice=True)],
  rule="cases of the val/uneval/d7/ref/dyn/repr generators (kind in the note); per case: reflection snapshot (every field) of the Schema, of every document the caching loader handed out and of every instance before and after; Resolve twice on the same Schema plus once on a fresh Unmarshal, verdict vectors of all three and of a repeated run compared; 4 further runs on instances rebuilt with new maps in shuffled insertion order (each range draws a new iteration order); Marshal before, between and after plus 3 repeats; family purego: Schema values built in Go (PropertyOrder incl. strangers/duplicates, Extra, all subschema-holding fields) snapshotted before the package sees them, Marshal x5, Resolve, CloneSchemas, Marshal again, document and key order compared with the model; each family is run in two processes (other hash seeds) and the observation files are compared byte for byte (verdicts, loader calls, hash of the marshalled bytes); verdicts also compared with the model; non-trivial as in the underlying family",
  partial="independence of the verdict from the iteration order of the schema's maps (spec_eval_srel, with the obligation that validate ranges over no other map), from the order of instance maps, from the seed, and Marshal's independence of map order are theorems; that Resolve builds related environments from schemas that differ in map order is not proved (its tables are keyed by sorted children); purity is by construction in the model and decided by snapshots on the package",
  trusted_base=["reflection snapshot walks every struct field, map entry and slice element (unexported fields included)", "Go randomises map iteration per range statement and hash seeds per process"],
  assumptions=[],
 ),

 "C13": dict(
  obligations=["ObSchema", "ObWrites"],
  families=[dict(name="conc", model="val", quick=250, thorough=6000, race=True)],
  ignore_keys=["calls"],
  rule="binary built with -race (GORACE=halt_on_error=1); per case (val/uneval/d7/ref/dyn/repr/defaults generators) one Schema and one Resolved shared by 8 goroutines: validators over all instances in both directions and repeated, incl. struct-shaped instances of a reflect.StructOf type created for the case (cold process-wide tables), goroutines that Resolve/Marshal/CloneSchemas the shared Schema, goroutines that ApplyDefaults on their own copies; every goroutine's results compared with the same calls made one after another; verdicts also compared with the model; non-trivial as in the underlying family",
  partial="the Go memory model, the scheduler and sync.Map are outside the model: that the code's steps have the form the theorem is about (shared state only read, memo entries a function of the key) is checked by the write-footprint obligation (syntactic: assignments and mutating calls through receivers, parameters, package variables; aliases are not followed) and observed by the race detector on the schedules the runs produce",
  trusted_base=["Go race detector (happens-before, on executed schedules)", "go/ast write-footprint extraction (harness/srcfacts.go)"],
  assumptions=["user-supplied Loader functions are per goroutine"],
 ),

 "C10": dict(
  obligations=["ObSchema", "ObPanics"],
  families=[dict(name="robust", model="none", quick=1500, thorough=40000),
            dict(name="ref", model="val", quick=600, thorough=20000),
            dict(name="dyn", model="val", quick=400, thorough=10000),
            dict(name="ptr", model="val", quick=500, thorough=10000),
            dict(name="repr", model="val", quick=500, thorough=10000),
            dict(name="val", model="val", quick=600, thorough=10000),
            dict(name="equal", model="equal", quick=500, thorough=10000),
            dict(name="infer", model="infer", quick=900, thorough=20000)],
  laws=["law_returns", "law_c10"],
  ignore_keys=["calls", "hasheq"],
  rule="family robust: per case 6-36 calls of one kind - bytes (Unmarshal on mutated schema documents: truncation, byte flips, every keyword of the Schema struct given every JSON type incl. out-of-range numbers and lone surrogates, nesting 50..100000 deep, noise; whatever is accepted is Resolved), graph (Resolve, then Validate/ApplyDefaults where no in-place cycle exists, on Go Schema graphs with nil children in slices and maps, shared pointers, cycles, malformed URIs/pointers/anchors/regexps/$schema, conflicting fields, odd BaseURI), loader (loaders that fail, return nil, the root itself, back-references, wrong documents, other drafts, an unbounded universe), inst (Validate, ApplyDefaults(&x) on 60 odd Go values: typed nils, NaN/Inf, bad json.Number literals, structs, arrays, non-string-key maps, chan/func/complex, big.Int...), types (ForType on 40 declared types incl. recursive/mutually recursive/unsupported kinds at depth, run-time struct types, TypeSchemas with nil entries, IgnoreInvalidTypes on/off; results Resolved); outcome classes ok/err/panic/hang(10 s) per call, a dying process (stack overflow) is attributed to the running case; families ref/dyn/ptr/repr/equal/infer: outcome classes incl. panics compared with the model (which has Panic results; For/ForType on the type zoo incl. unsupported fields with tags and options); documented preconditions respected: ApplyDefaults takes a pointer, ForType a non-nil type, Marshal/CloneSchemas/String are not C10 entry points",
  partial="no-panic/termination is proved for Validate on resolved schemas only; Unmarshal, Resolve, ApplyDefaults and For are decided by correspondence and by the every-call-returns law on adversarial inputs",
  trusted_base=["recover() and a 10 s deadline as panic/hang detectors", "go/ast extraction of panic/assert sites"],
  assumptions=["schema recursion passes through an instance-descending keyword (the harness filters in-place cycles before Validate)"],
 ),

 "C04": dict(
  families=[dict(name="infer", model="infer", quick=2500, thorough=60000)],
  laws=["law_c04"],
  rule="family infer: a type of the zoo (harness/zoo_gen.go, generated by tools/gen_zoo.py: ~150 declared struct types over every scalar kind, named scalars, pointers, slices, arrays incl. [0]T, string- and named-string-keyed maps, any, time.Time/slog.Level/big.Int, anonymous struct types, json tags with names incl. odd and invalid ones, '-', '-,', omitempty, omitzero, trailing commas, jsonschema tags, embedded structs by value and pointer up to 3 levels incl. unexported types, JSON-name and Go-name conflicts through embedding, tagged and non-struct embedded fields, recursive and mutually recursive types, unsupported kinds at depth) x ForOptions (IgnoreInvalidTypes, typeschemasnull, TypeSchemas entries for named types occurring in the type: faithful, unfaithful, type-less, nil, invalid for embedding) x 6 typed values (zero values, nils, empty and 20-element containers, min/max of every sized integer, float32/float64 extremes) x 15 single-point mutations of their encodings (dropped key, added key, swapped JSON type, integers at and past every bound, null, changed array length); compared with the model: outcome, the marshalled schema document, every encoding (model of encoding/json against the real encoder), every verdict; law: every encoding of a value of a type of the domain (categories plain and conflict, faithful TypeSchemas, no nil maps, no nil embedded pointers, default debug setting) validates",
  partial="",
  trusted_base=["encoding/json's encoder (modelled: field selection, omitempty, nil handling; the model's encodings are compared with the real ones on every case)", "reflection-based rendering of types and values for the model (harness/geninfer.go)"],
  assumptions=["floats are identified with the rational their shortest decimal denotes (what the encoder prints)", "the installed encoding/json (go1.23) has no omitzero: such fields are always emitted"],
 ),
 "C09": dict(
  families=[dict(name="infer", model="infer", quick=2500, thorough=60000)],
  laws=["law_c09"],
  rule="family infer: a type of the zoo (harness/zoo_gen.go, generated by tools/gen_zoo.py: ~150 declared struct types over every scalar kind, named scalars, pointers, slices, arrays incl. [0]T, string- and named-string-keyed maps, any, time.Time/slog.Level/big.Int, anonymous struct types, json tags with names incl. odd and invalid ones, '-', '-,', omitempty, omitzero, trailing commas, jsonschema tags, embedded structs by value and pointer up to 3 levels incl. unexported types, JSON-name and Go-name conflicts through embedding, tagged and non-struct embedded fields, recursive and mutually recursive types, unsupported kinds at depth) x ForOptions (IgnoreInvalidTypes, typeschemasnull, TypeSchemas entries for named types occurring in the type: faithful, unfaithful, type-less, nil, invalid for embedding) x 6 typed values (zero values, nils, empty and 20-element containers, min/max of every sized integer, float32/float64 extremes) x 15 single-point mutations of their encodings (dropped key, added key, swapped JSON type, integers at and past every bound, null, changed array length); compared with the model: outcome, the marshalled schema document, every encoding (model of encoding/json against the real encoder), every verdict; law: a mutated document that the inferred schema accepts decodes into the type with DisallowUnknownFields (types without marshaler types and without TypeSchemas)",
  partial="the decoder is a model (inf/Decode.v) compared with the real decoder on every mutated document of its domain, not verified code; the schema side is proved to be conforms(type, document) and conforms implies the decoder model accepts",
  trusted_base=["encoding/json's decoder as the oracle of 'decodes into T'"],
  assumptions=["integers of mutated documents stay within int64 (the property's domain)"],
 ),
 "C16": dict(
  families=[dict(name="infer", model="infer", quick=2500, thorough=60000)],
  laws=["law_c16"],
  rule="family infer: a type of the zoo (harness/zoo_gen.go, generated by tools/gen_zoo.py: ~150 declared struct types over every scalar kind, named scalars, pointers, slices, arrays incl. [0]T, string- and named-string-keyed maps, any, time.Time/slog.Level/big.Int, anonymous struct types, json tags with names incl. odd and invalid ones, '-', '-,', omitempty, omitzero, trailing commas, jsonschema tags, embedded structs by value and pointer up to 3 levels incl. unexported types, JSON-name and Go-name conflicts through embedding, tagged and non-struct embedded fields, recursive and mutually recursive types, unsupported kinds at depth) x ForOptions (IgnoreInvalidTypes, typeschemasnull, TypeSchemas entries for named types occurring in the type: faithful, unfaithful, type-less, nil, invalid for embedding) x 6 typed values (zero values, nils, empty and 20-element containers, min/max of every sized integer, float32/float64 extremes) x 15 single-point mutations of their encodings (dropped key, added key, swapped JSON type, integers at and past every bound, null, changed array length); compared with the model: outcome, the marshalled schema document, every encoding (model of encoding/json against the real encoder), every verdict; laws: two calls give equal documents; no Schema object is shared between two results, within one result, or with a TypeSchemas entry (reflection over every field); Resolve accepts the result; for root structs PropertyOrder equals the member order encoding/json writes for a value with no empty field, properties are exactly those members, required is exactly the members whose tag has neither omitempty nor omitzero",
  partial="",
  trusted_base=["encoding/json's encoder as the oracle for names and order"],
  assumptions=[],
 ),
}
