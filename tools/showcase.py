#!/usr/bin/env python3
"""pretty-print a case line from a cases.sx file: showcase.py FILE ID"""
import sys,re
def parse(s):
    toks=re.findall(r'\(|\)|[^\s()]+',s); pos=0
    def val():
        nonlocal pos
        t=toks[pos]; pos+=1
        if t=='(':
            l=[]
            while toks[pos]!=')': l.append(val())
            pos+=1; return l
        return t
    return val()
def s_of(l): return ''.join(chr(int(c)) for c in l)
def doc(x):
    t=x[0]
    if t=='null': return 'null'
    if t=='t': return 'true'
    if t=='f': return 'false'
    if t=='n':
        n,d=int(x[2]),int(x[3]); return str(n) if d==1 else '%s/%s'%(n,d)
    if t=='s': return '"'+s_of(x[1:])+'"'
    if t=='a': return '['+', '.join(doc(e) for e in x[1:])+']'
    if t=='o': return '{'+', '.join('"%s": %s'%(s_of(m[0]),doc(m[1])) for m in x[1:])+'}'
def gv(x):
    t=x[0]
    if t=='nil': return 'nil'
    if t=='b': return 'true' if x[1]=='1' else 'false'
    if t=='i': return 'int(%s)'%x[1]
    if t in('fl','jn'):
        n,d=int(x[1]),int(x[2]); v=str(n) if d==1 else '%s/%s'%(n,d); return v if t=='fl' else 'jn(%s)'%v
    if t=='str': return '"'+s_of(x[1:])+'"'
    if t=='arr': return '['+', '.join(gv(e) for e in x[1:])+']'
    if t=='map': return '{'+', '.join('"%s": %s'%(s_of(m[0]),gv(m[1])) for m in x[1:])+'}'
    if t=='ind': return '*'+gv(x[1])
for line in open(sys.argv[1]):
    if not line.startswith('(case '+sys.argv[2]+' '): continue
    c=parse(line)
    for f in c[2:]:
        if f[0]=='doc': print('doc:',doc(f[1]))
        elif f[0]=='insts':
            for i,g in enumerate(f[1:]): print(' inst',i,gv(g))
        elif f[0]=='loader' and f[1]!='none':
            for e in f[1][1:]: print(' loader',s_of(e[0]), e[1] if e[1]=='err' else doc(e[1]))
        elif f[0]=='rx': pass
        elif f[0]=='base': print('base:',s_of(f[1]))
        else: print(f[0], f[1:] if len(str(f))<300 else '...')
