#!/usr/bin/env python3
"""Writes MANIFEST.json from tools/props_config.py and tools/manifest_text.py."""
import json, os, sys
sys.path.insert(0, os.path.dirname(os.path.abspath(__file__)))
from props_config import PROPS
from manifest_text import TEXT, PENDING
ROOT = os.path.dirname(os.path.dirname(os.path.abspath(__file__)))
ids = [json.loads(l)["id"] for l in open(os.path.join(ROOT, "properties.jsonl"))]
checks, na = [], []
for pid in ids:
    if pid in PROPS and pid in TEXT:
        t = TEXT[pid]
        checks.append({
            "property_id": pid,
            "quick_cmd": "./check %s --tier quick" % pid,
            "thorough_cmd": "./check %s --tier thorough" % pid,
            "evidence_file": "evidence/%s.json" % pid,
            "replay_cmd_template": "./check %s --replay {path}" % pid,
            "engine": "coq-model+correspondence",
            "level_claimed": {"category": "proof", "text": t["level"], "design_ref": t.get("design", "DESIGN.md section 6 (%s)" % pid)},
            "level_note": t["note"],
            "technique": t.get("technique", "machine-checked proof in Coq over an executable model, tied to the code by a differential correspondence check and regenerated source facts"),
        })
    else:
        na.append({"property_id": pid, "reason": PENDING.get(pid, "check not built yet in this session; see DESIGN.md section 6 for the planned theorems")})
m = {
    "version": 1,
    "setup_cmd": "./setup.sh",
    "hooks": {"guard": "verif", "enable": "go build -tags verif (the harness module replaces github.com/google/jsonschema-go by /repo)",
              "baseline_off_cmd": "cd /repo && GOFLAGS=-mod=mod GOPROXY=off GOSUMDB=off go test -vet=off -count=1 ./...",
              "source_commits": ["03db6c79c715471e3a7901eb1c0f5a33725f234f"], "add_only": True},
    "engines": [{"name": "coq-model+correspondence", "path": "coq/, ocaml/, harness/, check",
                 "serves_properties": [c["property_id"] for c in checks],
                 "kind_free_text": "Coq 8.16.1 development (model, specifications, theorems) + extracted OCaml model runner + Go harness that generates cases and runs the package; ./check orchestrates"}],
    "checks": checks,
    "not_applicable": na,
    "notes": "Proof-based verification; see DESIGN.md. Known findings in known_findings.json.",
}
json.dump(m, open(os.path.join(ROOT, "MANIFEST.json"), "w"), indent=1)
print("claimed:", [c["property_id"] for c in checks])
