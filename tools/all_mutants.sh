#!/bin/sh
# usage: tools/all_mutants.sh  -- every stored seeded change against the quick check of its property
# evidence files are rewritten by every run: keep the clean-tree ones aside and put them back afterwards
rm -rf /root/scratch/evidence.keep && mkdir -p /root/scratch && cp -r /verif/evidence /root/scratch/evidence.keep
cd /verif
for d in seeded/*/; do
  n=$(basename $d); id=$(python3 -c "import json;print(json.load(open('$d/meta.json'))['property'])")
  cd /repo && git apply /verif/$d/patch.diff || { echo "$n: patch does not apply"; cd /verif; continue; }
  cd /verif
  if ./check $id 2>&1 | grep -q "^VIOLATION property=$id"; then echo "$n: DETECTED by $id"; else echo "$n: MISSED by $id"; fi
  cd /repo && git checkout -- . ; cd /verif
done
git -C /repo status --short | head -3
rm -rf /verif/evidence && cp -r /root/scratch/evidence.keep /verif/evidence
