#!/bin/sh
# usage: tools/all_mutants.sh  -- every stored seeded change against the quick check of its property
# (with VERIF_REPO set, the checkout the changes are applied to and the checks read; default /repo).
# evidence files are rewritten by every run: keep the clean-tree ones aside and put them back afterwards
cd "$(dirname "$0")/.."
V=$(pwd)
R=${VERIF_REPO:-/repo}
export GOFLAGS=-mod=mod GOPROXY=off GOSUMDB=off GOTOOLCHAIN=local
[ -x ocaml/modelrun ] || ./setup.sh > .work-setup.log 2>&1 || { echo "setup failed"; tail -20 .work-setup.log; exit 1; }
rm -rf .evidence.keepm && cp -r evidence .evidence.keepm
for d in seeded/*/; do
  n=$(basename $d); id=$(python3 -c "import json;print(json.load(open('$d/meta.json'))['property'])")
  git -C "$R" apply "$V/$d/patch.diff" || { echo "$n: patch does not apply"; continue; }
  if ./check $id 2>&1 | grep -q "^VIOLATION property=$id"; then echo "$n: DETECTED by $id"; else echo "$n: MISSED by $id"; fi
  git -C "$R" checkout -- .
done
git -C "$R" status --short | head -3
rm -rf evidence && mv .evidence.keepm evidence
echo ALLDONE
