TEXT = {
 "C19": dict(
  level="Theorems over the Coq model of MarshalJSON/orderedProperties: the keys of the marshalled \"properties\" object equal the formula (listed names that exist, in list order, then the rest ascending) for every Schema value and every PropertyOrder list; duplicates give an error; every map-typed output site is a function of the key/value set, for all iteration orders. The model is tied to the code by the correspondence run (marshalled document and per-location key order compared on generated Schema values) and by the regenerated struct-field and wrapper-struct tables.",
  note="Trusted: Coq kernel; extraction (ExtrOcamlBasic); OCaml driver and Go harness glue; encoding/json's text layer and key sorting are modelled. Determinism is proved per output site plus root-level congruence, not as one global congruence theorem over all 65 fields.",
 ),
}
TEXT.update({
 "C01": dict(
  level="Theorem validate_refines (Coq, no axioms): for every fuel, dynamic scope, schema object and instance in any well-formed Go representation, whenever the 2020-12 specification function spec_eval is defined the evaluator model returns exactly its verdict and evaluated sets; spec_eval is proved monotone in fuel (a well-defined partial function). The specification is validated against the expected verdicts of the whole official suite; the model is tied to the code by the differential correspondence (document -> Unmarshal -> Resolve -> Validate) on generated documents with interacting keywords.",
  note="Trusted: the transcription of the 2020-12 rules in val/Spec.v (checked against 1,095 official expectations each run), regexp as an oracle table, the JSON text layer, float division for multipleOf on the restricted domain. Fuel sufficiency (termination for instance-descending recursion) is not proved: the theorem is conditional on the specification being defined at the fuel used; the correspondence runs use fuel 200 and report any out-of-fuel result.",
 ),
 "C02": dict(
  level="The same refinement theorem instantiated at draft-07 (the specification switches $ref-masks-siblings, array-form items/additionalItems and dependencies on the draft flag), draft detection and refusal of unsupported $schema values as theorems, inheritance of the root's draft by loaded documents shown on the model and by correspondence; the draft-07 specification is validated against the 909 official expectations each run.",
  note="Trusted as C01. The inheritance rule is definitional in the resolver model (draft of a loaded document = root's when it declares none) and is tied to the code by the d7/ref correspondence families; no separate lexical specification of identification is proved yet (see C03).",
 ),
 "C06": dict(
  level="The dynamic scope is an argument of the refinement theorem (validate_refines holds for every stack); the code's stack walk equals the specification's scope lookup, which provably selects the outermost declaring resource and falls back to the lexical target; reuse of a Resolved is by construction in the model and checked on call histories by the correspondence.",
  note="Trusted: the resolver model's static classification of $dynamicRef (dynamic iff the lexical target carries a $dynamicAnchor of that name) is tied by correspondence, not by a theorem against a lexical specification.",
 ),
 "C07": dict(
  level="The sigma component of validate_refines: on success the code's compressed bookkeeping denotes exactly the specification's evaluated property and item sets, unevaluated* is applied to exactly the complement (theorem over the loop), and a failed subschema contributes nothing.",
  note="Trusted as C01.",
 ),
 "C08": dict(
  level="Corollary of validate_refines: two well-formed representations with the same denotation get the same verdict, equal to that of the canonical decoding; jsonType/jsonNumber/equalValue are proved functions of the denotation.",
  note="The model abstracts representation details the repaired code no longer inspects (static element/key types, pointer vs interface); that abstraction (harness sxOfValue) is exercised by the repr family across 14 numeric kinds and typed containers.",
 ),
 "C11": dict(
  level="Theorem: equalValue x y = true iff the denoted JSON values are related by the declarative jeq (numbers by Qeq, objects as finite maps), for all well-formed representations; jeq is proved an equivalence, hence Equal is reflexive, symmetric and transitive.",
  note="Trusted: math/big exactness, reflect; the Go-value abstraction of the harness.",
 ),
 "C12": dict(
  level="Theorems: enum/const are existsb/Equal; the hash law (Equal values write identical data); the uniqueItems bucket algorithm returns 'no two elements Equal' for EVERY bucket function, by an invariant over the bucket table; verdicts are independent of the seed.",
  note="Trusted: maphash as an arbitrary function of the bytes written; the verif hook VerifHashValue for the implementation-side hash law check.",
 ),
})
TEXT.update({
 "C03": dict(
  level="PARTIAL. Proved: the fragment half of designation (a JSON Pointer fragment resolves to exactly the location it spells and to nothing else); the tables resolveURIs builds are the lexical ones of the specification (C03_tables_lexical over the inductive scoping rule Lex: a subschema with a non-fragment $id starts a resource whose URI is the $id resolved against the enclosing resource's URI, every other subschema and every anchor belongs to the lexically enclosing resource; draft-07 fragment $id = anchor, $id beside $ref ignored); a reference inside a document is resolved against the URI of its lexically enclosing resource, selects a resource of the document by URI, then an anchor declared lexically inside that resource or a pointer from its root (C03_ref_designates); the Loader is asked at most once per URI (C03_loader_once), the Resolved is rooted at the schema given, documents are only appended, resolution never panics and terminates on reference cycles between loaded documents (props/C10.v). Not proved: that the lexical base is a function of the location (needs distinct locations), references that leave the document, net/url. The resolver state machine is an executable Coq function compared with the package on generated universes: outcome class, reached target through unique markers, loader call sequence.",
  note="Trusted: net/url as transcribed in uri/Uri.v (validated against net/url on 3,000+ pairs per run); the generator's coverage of reference forms and topologies bounds what the correspondence can show.",
 ),
 "C17": dict(
  level="Theorems: for every schema tree whose nodes pass basicChecks (Resolve checks this) and every location enumerated by the children table (regenerated from /repo's Schema struct), the rendered RFC 6901 pointer dereferences to exactly that subschema (C17_addressable); escaping, rendering/parsing and decimal indexes round-trip for all strings and numbers; whatever a pointer resolves to is the subschema at the recorded location (C17_only).",
  note="Trusted: percent-decoding of the fragment by net/url (modelled, compared); strconv.Atoi vs the model's digit parser (compared on signed/padded/overflowing inputs by the ptr family). The theorem is about dereferenceJSONPointer on the resource root; that the resolver applies it to the right root is part of C03.",
 ),
})
TEXT.update({
 "C05": dict(
  level="PARTIAL. The codec is a Coq model generated from the field table that the source-facts obligations re-check against /repo's Schema struct and wrapper structs on every run; proved about it: boolean forms round-trip, the properties order formula, every map-typed output is a function of the key/value set. Not proved: the general round-trip theorem. Both directions are decided per generated case by (a) model = package on outcome classes and marshalled documents and (b) the round-trip laws evaluated on the package's own outputs.",
  note="Trusted: encoding/json's struct rules as transcribed (omitempty, exact-name members, null handling, last duplicate wins), number text layer. Without a theorem the for-all claim rests on the sample; stated as partial in the evidence.",
 ),
 "C18": dict(
  level="Theorems: the evaluation step of a schema object is identical for any two schema objects that agree on the asserting fields (so title, description, $comment, default, examples, deprecated, readOnly, writeOnly, format, content*, $defs/definitions, unknown keywords are never read), and a member whose name is not exactly a keyword never touches a field nor fails Unmarshal. The whole-document congruence (decorated document resolves to an environment that validates identically) is decided by the non-interference law on the package and by the correspondence of both documents.",
  note="Trusted as C01. Known finding O-16 (legacy definitions next to $defs is refused) is outside the generated decorations.",
 ),
})
TEXT.update({
 "C20": dict(
  level="Theorems over a heap model of CloneSchemas (allocation, pointer graphs): the clone denotes the same tree, every object reachable from it is freshly allocated (disjoint from the original at every depth), the original objects are untouched. The model's 'subschema pointers of an object' are the fields of class *Schema / []*Schema / map[string]*Schema of the regenerated struct table. On the package the four laws (same bytes, no shared pointer, common parent resolves, mutation independence in both directions) are evaluated for every generated tree.",
  note="The heap model abstracts the non-schema fields as an opaque payload copied by value (CloneSchemas shares their slices/maps, as documented). Trusted: reflection-driven iteration in the Go code corresponds to the model's kids list - exercised by forcing subschemas under every schema-holding field.",
 ),
})
TEXT.update({
 "C15": dict(
  level="Theorems over the Coq transcription of applyDefaults/validateDefaults: the result extends the instance (present values kept), required properties and undeclared names are never added, non-objects are untouched, and Resolve with ValidateDefaults succeeds exactly when every default of the root tree validates against its declaring subschema (no $dynamicRef, supported $schema). Idempotence (C15_idempotent, for instances and property maps with distinct keys) and the exact value inserted for an absent property (C15_inserted) are proved as well; the laws idempotent/extends are also evaluated on the package for every case.",
  note="Canonical instances (map[string]any) only; typed element types and structs are outside the model. Trusted: json.Unmarshal of defaults, reflect.",
 ),
})
TEXT.update({
 "C14": dict(
  level="Theorems: the verdict is independent of the hash function (any seed, any process); is the same for JSON-equal instances, i.e. independent of the order in which any map of the instance lists its members and of number representation (spec_eval_comp over the whole specification, C14_instance_order); is independent of the order in which the maps of the schema hold their entries - properties, patternProperties, dependentSchemas, dependentRequired, dependencies in both forms, at every depth and in every schema a reference leads to (C14_schema_map_order: environments related by srel/erel, a generated relation over all 65 fields, give the same verdict; obligation gen/ObRanges.v, regenerated from the sources on every run: state.validate ranges over no other map); Schema.Resolve itself maps schema trees and Loader documents that differ only in the order of map entries to the same outcome, the same Loader calls in the same order and erel-related Resolved values (C14_resolve_map_order, C14_resolve_validate_map_order: Resolve followed by Validate gives one verdict whatever order Go ranges its maps in); is a function of the resolved schema and the JSON value alone; and Marshal's output is independent of the order in which any map is listed. Purity (nothing is written to the Schema tree, the loader's documents or the instance) holds in the model by construction (immutable values) and is decided for the package by the correspondence family pure: reflection snapshots before/after, three Resolves, repeated and rebuilt-map validations, repeated Marshal, and a second process whose observation file must be byte-identical.",
  note="Partial: the memory effects of the package are observed by snapshots, which trust the reflection walk.",
 ),
})
TEXT.update({
 "C13": dict(
  level="Theorem (conc/ConcFacts.v): for goroutines that only read the shared value (the Resolved, a Schema tree, options) and consult memo tables whose entries are a function of the key - computing and possibly storing the entry on a miss, with lost stores allowed - every schedule leaves every goroutine in the state it reaches running alone for as many steps, and the tables only ever hold the function's values; instantiated for any number of Validate calls per goroutine on one model Resolved. The tie: the write-footprint ledger (every write through a receiver, parameter or package variable, extracted by go/ast on every run, must equal the classified ledger: per-call values, Resolve-time tables, init-time, memo Store) and a -race harness sharing one Schema/Resolved among 8 goroutines whose results must equal the sequential ones.",
  note="Partial: memory model/scheduler/sync.Map trusted; race detector sees executed schedules only; alias writes are invisible to the syntactic ledger.",
 ),
})
TEXT.update({
 "C10": dict(
  level="Theorems: C10_unmarshal_total (Unmarshal returns a schema or an error on every document; the budget always suffices); C10_resolve_no_panic (no internal lookup of the resolver - bases, resource URIs, the cache of loaded documents, the per-document location tables - can fail: the model's Panic branches are unreachable for every schema tree, base URI, regexp oracle and loader table) and C10_resolve_returns (with a budget above the length of the loader's table Resolve returns a Resolved or an error: a loaded document is cached before its references are followed, so self- and mutually-referential loader documents terminate; the tree walk's budget size(s) always suffices, children_size generated for all 19 subschema-holding fields); C10_fortype_returns (the model of For/ForType has no panicking branch and returns a schema, nothing or an error for every type nested less than 64 deep, whatever the options and TypeSchemas); C10_validate_returns (Validate returns Ok or Err whenever the specification defines a verdict) and an unsupported $schema is an error. Every explicit panic/assert site of the sources is accounted for by the obligation gen/ObPanics.v (regenerated on every run). For, ApplyDefaults on odd Go values and the adversarial inputs are decided by correspondence: outcome classes (ok/err/panic/hang) of families ref, dyn, ptr, repr against the model, and the law 'every call returns' of family robust (arbitrary bytes, malformed Schema graphs, hostile loaders, odd Go values, recursive and unsupported types).",
  note="Partial: totality is proved for Unmarshal, Resolve and (where the specification is defined) Validate on tree-shaped schemas; pointer graphs with sharing/cycles, For on recursive types and reflection over odd Go values are covered by robustness testing with panic and hang detection.",
 ),
})
TEXT.update({
 "C04": dict(
  level="Theorem C04_main (inf/C04Main.v, ~750 lines): for every Go type T of the domain, every well-typed value v and its encoding j under the model of encoding/json (field selection by JSON-name dominance through embedding, omitempty, omitzero on or off, nil pointers/slices/interfaces as null, embedded structs by value and pointer), the schema the transcription of forType returns for T accepts j under the specification function at every location and dynamic scope - hence (C04_validate) the model's Validate returns nil. Induction over the type with the struct case by a fold invariant (properties = selected fields in order, names pairwise distinct) and a read-along-index lemma. The three models (Go types/values, encoding/json, forType) are tied to the package and to the real encoder on every run: schema document, every encoding and every verdict compared on ~2500 generated (type, options, values) cases.",
  note="C04_domain states the domain as a computable condition dom o T (defined types have no TypeSchemas entry, marshaler types have their string entry, no embedded struct replaced, unexported embedded types carry no json name) plus wt on values; the per-struct side conditions are proved for every type (json_fields_ok, json_fields_ext, json_fields_local). IgnoreInvalidTypes off, default debug setting. big.Int is a known finding (O-7b).",
 ),
 "C09": dict(
  level="Theorems: C09_verdict - for every type of the computable domain dom the verdict of the schema ForType returns, on ANY JSON value, is conforms(type, value), a computable function of the Go type alone (right JSON type, exact range of a sized integer, array length, elements/member values conforming in turn, no undeclared struct member, every member without omitempty/omitzero present, null only behind a pointer or for a slice); C09_end_to_end (For, Resolve, Validate = conforms); C09_encodings_conform; C09_conforms_decodes / C09_accepted_decode - a model of when encoding/json with DisallowUnknownFields decodes a JSON value into a type without error (inf/Decode.v: null anywhere, integers within the kind's range, float32 within range, exact then case-folded member names, unknown members refused, extra array elements dropped) and the proof that whatever the inferred schema accepts, that decoder takes - for types without marshaler types and float32 (finding O-9a), integers within int64, objects without duplicate members. Correspondence: the package's verdicts on every mutated document are compared with the model's Validate and with conforms itself (spec_mv / spec_v); the decoder model is compared with the real decoder on every mutated document of its domain (spec_impl_decall: ~4800 decode outcomes per quick run, both successes and refusals); law: an accepted document decodes.",
  note="Partial only in that encoding/json's decoder is a model validated differentially rather than verified code; marshaler types (time.Time ...) are outside the decoder model. Known findings O-9a (float32 range), O-9b (unexported embedded pointer).",
 ),
 "C16": dict(
  level="Theorems: C16_struct_fields - the properties of a struct's schema are exactly the fields encoding/json selects (json_fields, itself validated against the real encoder), under their JSON names, in field order (PropertyOrder), each with the field type's inferred schema, required exactly without omitempty/omitzero, additionalProperties false; C16_names_distinct; C16_cycle (a defined type met again during its own inference is an error at once); C16_nothing_dropped (IgnoreInvalidTypes off). Determinism and freshness hold in the model by construction (a function returning an immutable tree) and are decided for the package by laws of family infer: two calls give equal documents, no *Schema is shared between results, within a result or with TypeSchemas (reflection over all fields), Resolve accepts the result, names/order/required against the real encoder.",
  note="TypeSchemas substitution and pointer-null handling are covered by correspondence (schema documents compared with the model on every case), not by a separate theorem.",
 ),
})
PENDING = {}
