TEXT = {
 "C19": dict(
  level="Theorems over the Coq model of MarshalJSON/orderedProperties: the keys of the marshalled \"properties\" object equal the formula (listed names that exist, in list order, then the rest ascending) for every Schema value and every PropertyOrder list; duplicates give an error; every map-typed output site is a function of the key/value set, for all iteration orders. The model is tied to the code by the correspondence run (marshalled document and per-location key order compared on generated Schema values) and by the regenerated struct-field and wrapper-struct tables.",
  note="Trusted: Coq kernel; extraction (ExtrOcamlBasic); OCaml driver and Go harness glue; encoding/json's text layer and key sorting are modelled. Determinism is proved per output site plus root-level congruence, not as one global congruence theorem over all 65 fields.",
 ),
}
PENDING = {}
