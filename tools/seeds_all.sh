#!/bin/sh
# usage: tools/seeds_all.sh SEED...  -- the quick tier of every property under other random seeds (VERIF_SEED), one line each
cd "$(dirname "$0")/.."
export GOFLAGS=-mod=mod GOPROXY=off GOSUMDB=off GOTOOLCHAIN=local
[ -x ocaml/modelrun ] || ./setup.sh > .work-setup.log 2>&1 || { echo "setup failed"; tail -20 .work-setup.log; exit 1; }
rm -rf .evidence.keep && cp -r evidence .evidence.keep
for seed in "$@"; do
  for i in 01 02 03 04 05 06 07 08 09 10 11 12 13 14 15 16 17 18 19 20; do
    out=$(VERIF_SEED=$seed ./check C$i 2>&1 | grep -v conda)
    echo "seed=$seed $(echo "$out" | tail -1 | cut -c1-160)"
    echo "$out" | grep -E "VIOLATION|failing input|disagreement" | head -5
  done
done
rm -rf evidence && mv .evidence.keep evidence
echo ALLDONE
