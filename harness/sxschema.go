package main

import (
	"encoding/json"
	"fmt"
	"math/big"
	"reflect"
	"sort"
	"strings"

	js "github.com/google/jsonschema-go/jsonschema"
)

// sxSchema renders a Schema value (a tree) for the model: only non-zero fields, nil and
// empty containers distinguished. Map entries are written in sorted key order (the model's
// results do not depend on it: theorems C14_perm / C19_deterministic).
func sxSchema(s *js.Schema) string {
	var b strings.Builder
	writeSxSchema(&b, s)
	return b.String()
}

func sortedMapKeys(v reflect.Value) []string {
	ks := make([]string, 0, v.Len())
	for _, k := range v.MapKeys() {
		ks = append(ks, k.String())
	}
	sort.Strings(ks)
	return ks
}

func writeSxSchema(b *strings.Builder, s *js.Schema) {
	if s == nil {
		panic("sxSchema: nil schema (trees only)")
	}
	b.WriteString("(sch")
	v := reflect.ValueOf(s).Elem()
	t := v.Type()
	schemaP := reflect.TypeFor[*js.Schema]()
	for i := 0; i < t.NumField(); i++ {
		f := t.Field(i)
		fv := v.Field(i)
		if fv.IsZero() {
			continue
		}
		fmt.Fprintf(b, " (%s ", f.Name)
		switch {
		case f.Type == reflect.TypeFor[json.RawMessage]():
			d, err := parseDoc(fv.Bytes())
			if err != nil {
				panic(err)
			}
			b.WriteString(sxDoc(d))
		case f.Type.Kind() == reflect.String:
			b.WriteString("(" + sxStr(fv.String()) + ")")
		case f.Type.Kind() == reflect.Bool:
			b.WriteString("1")
		case f.Type == reflect.TypeFor[[]any]():
			b.WriteString("(")
			for j := 0; j < fv.Len(); j++ {
				if j > 0 {
					b.WriteByte(' ')
				}
				b.WriteString(sxOfValue(fv.Index(j)))
			}
			b.WriteString(")")
		case f.Type == reflect.TypeFor[*any]():
			b.WriteString(sxOfValue(fv.Elem()))
		case f.Type == reflect.TypeFor[*float64]():
			r := new(big.Rat)
			r.SetFloat64(fv.Elem().Float())
			fmt.Fprintf(b, "(%s %s)", r.Num().String(), r.Denom().String())
		case f.Type == reflect.TypeFor[*int]():
			fmt.Fprintf(b, "%d", fv.Elem().Int())
		case f.Type == reflect.TypeFor[[]string]():
			b.WriteString("(")
			for j := 0; j < fv.Len(); j++ {
				if j > 0 {
					b.WriteByte(' ')
				}
				b.WriteString("(" + sxStr(fv.Index(j).String()) + ")")
			}
			b.WriteString(")")
		case f.Type == reflect.TypeFor[map[string]bool]():
			b.WriteString("(")
			for j, k := range sortedMapKeys(fv) {
				if j > 0 {
					b.WriteByte(' ')
				}
				bit := 0
				if fv.MapIndex(reflect.ValueOf(k)).Bool() {
					bit = 1
				}
				fmt.Fprintf(b, "((%s) %d)", sxStr(k), bit)
			}
			b.WriteString(")")
		case f.Type == reflect.TypeFor[map[string][]string]():
			b.WriteString("(")
			for j, k := range sortedMapKeys(fv) {
				if j > 0 {
					b.WriteByte(' ')
				}
				fmt.Fprintf(b, "((%s) (", sxStr(k))
				sl := fv.MapIndex(reflect.ValueOf(k))
				for q := 0; q < sl.Len(); q++ {
					if q > 0 {
						b.WriteByte(' ')
					}
					b.WriteString("(" + sxStr(sl.Index(q).String()) + ")")
				}
				b.WriteString("))")
			}
			b.WriteString(")")
		case f.Type == schemaP:
			writeSxSchema(b, fv.Interface().(*js.Schema))
		case f.Type == reflect.SliceOf(schemaP):
			b.WriteString("(")
			for j := 0; j < fv.Len(); j++ {
				if j > 0 {
					b.WriteByte(' ')
				}
				writeSxSchema(b, fv.Index(j).Interface().(*js.Schema))
			}
			b.WriteString(")")
		case f.Type == reflect.MapOf(reflect.TypeFor[string](), schemaP):
			b.WriteString("(")
			for j, k := range sortedMapKeys(fv) {
				if j > 0 {
					b.WriteByte(' ')
				}
				fmt.Fprintf(b, "((%s) ", sxStr(k))
				writeSxSchema(b, fv.MapIndex(reflect.ValueOf(k)).Interface().(*js.Schema))
				b.WriteString(")")
			}
			b.WriteString(")")
		case f.Type == reflect.TypeFor[map[string]any]():
			b.WriteString("(")
			for j, k := range sortedMapKeys(fv) {
				if j > 0 {
					b.WriteByte(' ')
				}
				fmt.Fprintf(b, "((%s) %s)", sxStr(k), sxOfValue(fv.MapIndex(reflect.ValueOf(k))))
			}
			b.WriteString(")")
		default:
			panic("sxSchema: unsupported field type " + f.Type.String())
		}
		b.WriteString(")")
	}
	b.WriteString(")")
}
