package main

import (
	"fmt"
	"math/big"
	"sort"
	"strings"
)

// Generator G-val: schema documents over the full keyword set with shared small pools,
// so that keywords interact; instances are derived from the schema (guided) and then
// mutated, so that verdicts are mixed and decided deep inside the schema.

var (
	namePool = []string{"a", "b", "c", "d", "e", "ab"}
	strPool  = []string{"", "a", "ab", "abc", "b", "é", "日本語", "a b", "x"}
	numPool  = []string{"0", "1", "-1", "2", "3", "4", "1.5", "0.5", "2.5", "10", "-2", "7", "9007199254740992", "-9007199254740992", "9007199254740991", "1.0", "2.0", "100", "1e2", "1.5e1", "100e-2", "2E3", "1.0e0", "-1E+1", "25e-1",
		"-0", "-0.0", "9223372036854775808", "18446744073709551615", "-9223372036854775808", "9223372036854775807", "1e19"}
	multPool  = []string{"1", "2", "0.5", "0.25", "3", "1.5", "4"}
	patPool   = []string{"^a", "b$", "^[a-c]+$", "a|é", ".", "^$", "^(ab)+$", "[0-9]", "^\\p{L}+$"}
	typePool  = []string{"null", "boolean", "integer", "number", "string", "array", "object"}
	countPool = []string{"0", "1", "2", "3"}
)

type genCtx struct {
	r         *rng
	draft7    bool
	ndefs     int  // $defs d0..d{n-1}
	uneval    bool // profile: bias towards unevaluated* interactions
	noRef     bool
	noAnnot   bool // no non-asserting keywords (families whose base document must be undecorated)
	anchors   bool // emit $anchor on defs and refer to them by anchor as well
	bogus     bool // a "$id": "#bogus" was put beside a $ref (draft-07)
	smallNums bool // instance numbers stay small (set when the document uses multipleOf: the property's
	// domain is "quotient below 2^53 where the float arithmetic is exact")
}

func (g *genCtx) num() string {
	for {
		n := pick(g.r, numPool)
		if !g.smallNums || !bigLit(n) {
			return n
		}
	}
}

func (g *genCtx) value(depth int) Doc {
	r := g.r
	k := r.intn(7)
	if depth <= 0 && k >= 5 {
		k = r.intn(5)
	}
	switch k {
	case 0:
		return DNull{}
	case 1:
		return DBool(r.chance(1, 2))
	case 2, 3:
		return DNum(g.num())
	case 4:
		return DStr(pick(r, strPool))
	case 5:
		n := r.intn(4)
		a := DArr{}
		for i := 0; i < n; i++ {
			a = append(a, g.value(depth-1))
		}
		return a
	default:
		o := DObj{}
		for _, nm := range shuffled(r, namePool)[:r.intn(4)] {
			o = append(o, DMem{nm, g.value(depth - 1)})
		}
		return o
	}
}

func (g *genCtx) defsKey() string {
	if g.draft7 {
		return "definitions"
	}
	return "$defs"
}

func (g *genCtx) refTo(i int) string {
	if g.anchors && g.r.chance(1, 3) {
		return fmt.Sprintf("#anc%d", i)
	}
	return fmt.Sprintf("#/%s/d%d", g.defsKey(), i)
}

// schema generates a subschema. inplaceMin is the smallest $defs index that may be
// referenced from an in-place position (keeps in-place reference chains acyclic).
func (g *genCtx) schema(depth int, inplaceMin int) Doc {
	r := g.r
	if depth <= 0 || r.chance(1, 8) {
		switch r.intn(6) {
		case 0:
			return DBool(true)
		case 1:
			return DBool(false)
		case 2:
			return DObj{{"type", DStr(pick(r, typePool))}}
		case 3:
			return DObj{{"const", g.value(1)}}
		case 4:
			if !g.noRef && g.ndefs > inplaceMin {
				return DObj{{"$ref", DStr(g.refTo(inplaceMin + r.intn(g.ndefs-inplaceMin)))}}
			}
			return DObj{{"minimum", DNum(pick(r, numPool))}}
		default:
			return DObj{}
		}
	}
	o := DObj{}
	has := map[string]bool{}
	add := func(k string, v Doc) {
		if !has[k] {
			has[k] = true
			o = append(o, DMem{k, v})
		}
	}
	sub := func() Doc { return g.schema(depth-1, inplaceMin) } // in-place child
	desc := func() Doc { return g.schema(depth-1, 0) }         // child at a deeper instance location
	list := func(f func() Doc, lo, hi int) Doc {
		n := lo + r.intn(hi-lo+1)
		a := DArr{}
		for i := 0; i < n; i++ {
			a = append(a, f())
		}
		return a
	}
	nkw := 1 + r.intn(4)
	if g.uneval {
		nkw = 2 + r.intn(3)
	}
	for i := 0; i < nkw; i++ {
		k := r.intn(40)
		if g.uneval && r.chance(1, 2) {
			k = 20 + r.intn(20)
		}
		switch k {
		case 0:
			add("type", DStr(pick(r, typePool)))
		case 1:
			ts := DArr{}
			for _, t := range shuffled(r, typePool)[:1+r.intn(3)] {
				ts = append(ts, DStr(t))
			}
			add("type", ts)
		case 2:
			add("enum", list(func() Doc { return g.value(1) }, 0, 3))
		case 3:
			add("const", g.value(2))
		case 4:
			add("minimum", DNum(pick(r, numPool)))
		case 5:
			add("maximum", DNum(pick(r, numPool)))
		case 6:
			add("exclusiveMinimum", DNum(pick(r, numPool)))
		case 7:
			add("exclusiveMaximum", DNum(pick(r, numPool)))
		case 8:
			if r.chance(1, 12) {
				// a zero divisor is not refused by Unmarshal or Resolve: every number fails it, nothing panics
				add("multipleOf", DNum(pick(r, []string{"0", "-0", "0.0"})))
			} else {
				add("multipleOf", DNum(pick(r, multPool)))
			}
		case 9:
			add("minLength", DNum(pick(r, countPool)))
		case 10:
			add("maxLength", DNum(pick(r, countPool)))
		case 11:
			add("pattern", DStr(pick(r, patPool)))
		case 12:
			add("minItems", DNum(pick(r, countPool)))
		case 13:
			add("maxItems", DNum(pick(r, countPool)))
		case 14:
			add("uniqueItems", DBool(r.chance(3, 4)))
		case 15:
			add("minProperties", DNum(pick(r, countPool)))
		case 16:
			add("maxProperties", DNum(pick(r, countPool)))
		case 17:
			add("required", toDoc(shuffled(r, namePool)[:r.intn(3)]))
		case 18:
			m := DObj{}
			for _, nm := range shuffled(r, namePool)[:1+r.intn(2)] {
				m = append(m, DMem{nm, toDoc(shuffled(r, namePool)[:r.intn(3)])})
			}
			if g.draft7 {
				add("dependencies", m)
			} else {
				add("dependentRequired", m)
			}
		case 19:
			add("propertyNames", desc())
		case 20, 21:
			m := DObj{}
			for _, nm := range shuffled(r, namePool)[:1+r.intn(3)] {
				m = append(m, DMem{nm, desc()})
			}
			add("properties", m)
		case 22:
			m := DObj{}
			for _, p := range shuffled(r, patPool)[:1+r.intn(2)] {
				m = append(m, DMem{p, desc()})
			}
			add("patternProperties", m)
		case 23:
			add("additionalProperties", desc())
		case 24:
			if g.draft7 {
				if r.chance(1, 2) {
					// the tuple form with additionalItems, the empty tuple included
					if r.chance(1, 3) {
						add("items", DArr{})
					}
					ai := pick(r, []Doc{DBool(false), desc(), DObj{{"type", DStr("string")}}})
					if !g.noRef && g.ndefs > inplaceMin && r.chance(1, 3) {
						// a reference with a sibling that alone would reject everything: draft-07 ignores the sibling
						ai = DObj{{"$ref", DStr(g.refTo(inplaceMin + r.intn(g.ndefs-inplaceMin)))}, {"not", pick(r, []Doc{DObj{}, DBool(true)})}}
					}
					add("additionalItems", ai)
				}
				add("items", list(desc, 0, 3))
			} else {
				add("prefixItems", list(desc, 0, 3))
			}
		case 25:
			add("items", desc())
		case 26:
			if g.draft7 {
				add("additionalItems", desc())
			} else {
				add("contains", desc())
			}
		case 27:
			add("contains", desc())
			if r.chance(1, 2) {
				add("minContains", DNum(pick(r, countPool)))
			}
			if r.chance(1, 2) {
				add("maxContains", DNum(pick(r, countPool)))
			}
		case 28:
			add("allOf", list(sub, 0, 3))
		case 29:
			add("anyOf", list(sub, 0, 3))
		case 30:
			add("oneOf", list(sub, 0, 3))
		case 31:
			add("not", sub())
		case 32:
			add("if", sub())
			if r.chance(2, 3) {
				add("then", sub())
			}
			if r.chance(2, 3) {
				add("else", sub())
			}
		case 33:
			m := DObj{}
			for _, nm := range shuffled(r, namePool)[:1+r.intn(2)] {
				m = append(m, DMem{nm, sub()})
			}
			if g.draft7 {
				add("dependencies", m)
			} else {
				add("dependentSchemas", m)
			}
		case 34, 35:
			if !g.draft7 {
				add("unevaluatedProperties", desc())
			} else {
				add("additionalProperties", desc())
			}
		case 36, 37:
			if !g.draft7 {
				add("unevaluatedItems", desc())
			} else {
				add("additionalItems", desc())
			}
		case 38, 39:
			if !g.noRef && g.ndefs > inplaceMin {
				add("$ref", DStr(g.refTo(inplaceMin+r.intn(g.ndefs-inplaceMin))))
				if g.draft7 && r.chance(1, 3) {
					// draft-07: everything beside $ref is ignored, a fragment-only $id (an anchor) included
					if r.chance(1, 2) {
						add("$id", DStr("#bogus"))
						g.bogus = true
					} else {
						add("$id", DStr(fmt.Sprintf("#anc%d", r.intn(g.ndefs))))
					}
				}
				if g.draft7 && r.chance(1, 4) {
					// ... and a sibling that alone would reject everything (what false unmarshals to)
					add("not", pick(r, []Doc{DObj{}, DBool(true)}))
				}
			} else {
				add("then", sub())
			}
		}
	}
	if !g.noAnnot && r.chance(1, 6) {
		// non-asserting keywords ride along: they must never change a verdict (C18, C01)
		switch r.intn(5) {
		case 0, 1:
			add("default", g.value(1))
		case 2:
			add(pick(r, []string{"title", "description", "$comment"}), DStr(pick(r, strPool)))
		case 3:
			add(pick(r, []string{"readOnly", "writeOnly", "deprecated"}), DBool(true))
		default:
			add("format", DStr(pick(r, []string{"date", "email", "nonsense"})))
		}
	}
	return o
}

// document builds a root schema with $defs.
func (g *genCtx) document(depth int) Doc {
	root := g.schema(depth, 0)
	o, ok := root.(DObj)
	if !ok {
		o = DObj{{"allOf", DArr{root}}}
	}
	if g.ndefs > 0 {
		defs := DObj{}
		for i := 0; i < g.ndefs; i++ {
			d := g.schema(depth-1, i+1)
			if g.anchors {
				ak, av := "$anchor", fmt.Sprintf("anc%d", i)
				if g.draft7 {
					ak, av = "$id", "#"+av // draft-07: a fragment-only $id is a plain-name anchor
				}
				if od, ok := d.(DObj); ok {
					if _, isRef := od.get("$ref"); !(g.draft7 && isRef) {
						d = append(DObj{{ak, DStr(av)}}, od...)
					}
				} else {
					d = DObj{{ak, DStr(av)}, {"allOf", DArr{d}}}
				}
			}
			defs = append(defs, DMem{fmt.Sprintf("d%d", i), d})
		}
		o = append(o, DMem{g.defsKey(), defs})
	}
	if _, hasNot := o.get("not"); g.draft7 && g.bogus && !hasNot && g.r.chance(1, 2) {
		// a reference to the name that only an ignored $id declares: Resolve must fail
		o = append(o, DMem{"not", DObj{{"not", DObj{{"$ref", DStr("#bogus")}}}}})
	}
	if g.draft7 {
		sv := pick(g.r, []string{"http://json-schema.org/draft-07/schema#", "https://json-schema.org/draft-07/schema#"})
		if g.r.chance(1, 6) {
			// a $schema value the package does not support: Validate must refuse, not fall back to another draft
			sv = pick(g.r, []string{"http://json-schema.org/draft-07/schema", "https://json-schema.org/draft-07/schema", "http://json-schema.org/draft-04/schema#",
				"http://json-schema.org/draft-06/schema#", "https://json-schema.org/draft/2019-09/schema", "https://json-schema.org/draft/2020-12/schema#",
				"HTTP://json-schema.org/draft-07/schema#", "http://json-schema.org/draft-07/schema##", "#", "draft-07"})
		}
		o = append(DObj{{"$schema", DStr(sv)}}, o...)
	} else if g.r.chance(1, 10) {
		o = append(DObj{{"$schema", DStr("https://json-schema.org/draft/2020-12/schema")}}, o...)
	}
	return o
}

// guided instance: a value shaped by what the schema looks at.
func (g *genCtx) instFor(root Doc, s Doc, depth int) Doc {
	r := g.r
	o, ok := s.(DObj)
	if !ok || depth <= 0 || r.chance(1, 10) {
		return g.value(1)
	}
	if v, ok := o.get("const"); ok && r.chance(4, 5) {
		return v
	}
	if v, ok := o.get("enum"); ok && r.chance(4, 5) {
		if a, ok := v.(DArr); ok && len(a) > 0 {
			return pick(r, []Doc(a))
		}
	}
	if v, ok := o.get("$ref"); ok && r.chance(4, 5) {
		if t := g.followRef(root, string(v.(DStr))); t != nil {
			return g.instFor(root, t, depth-1)
		}
	}
	for _, k := range []string{"allOf", "anyOf", "oneOf"} {
		if v, ok := o.get(k); ok && r.chance(1, 2) {
			if a, ok := v.(DArr); ok && len(a) > 0 {
				return g.instFor(root, pick(r, []Doc(a)), depth)
			}
		}
	}
	for _, k := range []string{"then", "else", "if"} {
		if v, ok := o.get(k); ok && r.chance(1, 3) {
			return g.instFor(root, v, depth)
		}
	}
	typ := ""
	if v, ok := o.get("type"); ok {
		switch t := v.(type) {
		case DStr:
			typ = string(t)
		case DArr:
			if len(t) > 0 {
				typ = string(pick(r, []Doc(t)).(DStr))
			}
		}
	}
	if typ == "" {
		for _, m := range o {
			switch m.K {
			case "properties", "required", "patternProperties", "additionalProperties", "unevaluatedProperties", "propertyNames", "minProperties", "maxProperties", "dependentRequired", "dependentSchemas", "dependencies":
				typ = "object"
			case "items", "prefixItems", "contains", "minItems", "maxItems", "uniqueItems", "unevaluatedItems", "additionalItems":
				typ = "array"
			case "minimum", "maximum", "multipleOf", "exclusiveMinimum", "exclusiveMaximum":
				typ = "number"
			case "minLength", "maxLength", "pattern":
				typ = "string"
			}
			if typ != "" && r.chance(2, 3) {
				break
			}
		}
	}
	switch typ {
	case "object":
		out := DObj{}
		seen := map[string]bool{}
		put := func(k string, v Doc) {
			if !seen[k] {
				seen[k] = true
				out = append(out, DMem{k, v})
			}
		}
		if v, ok := o.get("properties"); ok {
			if po, ok := v.(DObj); ok {
				for _, m := range po {
					if r.chance(7, 10) {
						put(m.K, g.instFor(root, m.V, depth-1))
					}
				}
			}
		}
		if v, ok := o.get("required"); ok {
			if a, ok := v.(DArr); ok {
				for _, e := range a {
					if r.chance(9, 10) {
						put(string(e.(DStr)), g.value(1))
					}
				}
			}
		}
		for _, nm := range namePool {
			if r.chance(1, 5) {
				var sub Doc = DObj{}
				for _, k := range []string{"additionalProperties", "unevaluatedProperties"} {
					if v, ok := o.get(k); ok {
						sub = v
					}
				}
				put(nm, g.instFor(root, sub, depth-1))
			}
		}
		return out
	case "array":
		out := DArr{}
		var prefix DArr
		for _, k := range []string{"prefixItems", "items"} {
			if v, ok := o.get(k); ok {
				if a, ok := v.(DArr); ok {
					prefix = a
				}
			}
		}
		for _, ps := range prefix {
			if r.chance(9, 10) {
				out = append(out, g.instFor(root, ps, depth-1))
			}
		}
		var rest Doc = DObj{}
		for _, k := range []string{"unevaluatedItems", "additionalItems", "contains", "items"} {
			if v, ok := o.get(k); ok {
				if _, isArr := v.(DArr); !isArr && r.chance(2, 3) {
					rest = v
				}
			}
		}
		for n := r.intn(3); n > 0; n-- {
			out = append(out, g.instFor(root, rest, depth-1))
		}
		if r.chance(1, 6) && len(out) > 0 {
			out = append(out, out[r.intn(len(out))]) // a duplicate, for uniqueItems
		}
		if r.chance(1, 8) {
			// the same number twice under different spellings (and, after repValue, different Go types)
			pr := pick(r, [][2]string{{"0", "-0"}, {"1", "1.0"}, {"9223372036854775808", "9.223372036854775808e18"}, {"18446744073709551615", "18446744073709551615"},
				{"-0.0", "0"}, {"100", "1e2"}, {"9007199254740992", "9007199254740992.0"}})
			out = append(out, DNum(pr[0]), DNum(pr[1]))
		}
		if r.chance(1, 8) {
			// a bucket with three entries: unequal values for which hashValue writes the same
			// bytes under every seed (null/false, true/"\x01", ["a","b"]/["ab",""]), around a real duplicate
			pairs := [][2]Doc{{DNull{}, DBool(false)}, {DBool(true), DStr("\x01")}, {DArr{DStr("a"), DStr("b")}, DArr{DStr("ab"), DStr("")}}}
			p := pick(r, pairs)
			x, y := p[r.intn(2)], p[0]
			if docEq(x, y) {
				y = p[1]
			}
			tri := []Doc{x, y, x}
			if r.chance(1, 3) {
				tri = []Doc{x, y, y}
			} else if r.chance(1, 3) {
				tri = []Doc{x, y}
			}
			at := 0
			if len(out) > 0 {
				at = r.intn(len(out) + 1)
			}
			no := append(DArr{}, out[:at]...)
			no = append(no, tri...)
			out = append(no, out[at:]...)
		}
		return out
	case "number", "integer":
		return DNum(g.num())
	case "string":
		return DStr(pick(r, strPool))
	case "boolean":
		return DBool(r.chance(1, 2))
	case "null":
		return DNull{}
	}
	return g.value(2)
}

func (g *genCtx) followRef(root Doc, ref string) Doc {
	ro, ok := root.(DObj)
	if !ok {
		return nil
	}
	defs, ok := ro.get(g.defsKey())
	if !ok {
		return nil
	}
	do, ok := defs.(DObj)
	if !ok {
		return nil
	}
	if i := strings.LastIndex(ref, "/"); i >= 0 {
		if d, ok := do.get(ref[i+1:]); ok {
			return d
		}
	}
	if strings.HasPrefix(ref, "#anc") {
		if d, ok := do.get("d" + ref[4:]); ok {
			return d
		}
	}
	return nil
}

// mutate makes a single-point change to an instance.
func (g *genCtx) mutate(d Doc) Doc {
	r := g.r
	switch x := d.(type) {
	case DObj:
		if len(x) > 0 && r.chance(1, 3) {
			i := r.intn(len(x))
			return append(append(DObj{}, x[:i]...), x[i+1:]...)
		}
		if r.chance(1, 2) {
			nm := pick(r, namePool)
			if _, has := x.get(nm); !has {
				return append(append(DObj{}, x...), DMem{nm, g.value(1)})
			}
		}
		if len(x) > 0 {
			i := r.intn(len(x))
			y := append(DObj{}, x...)
			y[i] = DMem{x[i].K, g.mutate(x[i].V)}
			return y
		}
	case DArr:
		if len(x) > 0 && r.chance(1, 3) {
			i := r.intn(len(x))
			return append(append(DArr{}, x[:i]...), x[i+1:]...)
		}
		if r.chance(1, 3) {
			return append(append(DArr{}, x...), g.value(1))
		}
		if len(x) > 0 {
			i := r.intn(len(x))
			y := append(DArr{}, x...)
			y[i] = g.mutate(x[i])
			return y
		}
	case DNum:
		return DNum(g.num())
	case DStr:
		return DStr(pick(r, strPool))
	}
	return g.value(1)
}

func keywordsOf(d Doc, into map[string]int) {
	switch x := d.(type) {
	case DArr:
		for _, e := range x {
			keywordsOf(e, into)
		}
	case DObj:
		for _, m := range x {
			into[m.K]++
			keywordsOf(m.V, into)
		}
	}
}

func shapeOf(d Doc) string {
	kw := map[string]int{}
	keywordsOf(d, kw)
	ks := make([]string, 0, len(kw))
	for k, n := range kw {
		ks = append(ks, fmt.Sprintf("%s%d", k, n))
	}
	sort.Strings(ks)
	return strings.Join(ks, ",")
}

func genValCase(r *rng, id string, profile string) *ValCase {
	g := &genCtx{r: r, ndefs: r.intn(4), anchors: r.chance(1, 3)}
	switch profile {
	case "uneval":
		g.uneval = true
	case "d7":
		g.draft7 = true
		g.anchors = r.chance(1, 2)
	}
	doc := g.document(2 + r.intn(2))
	var fixed []Doc
	if profile != "uneval" && r.chance(1, 5) {
		// a small schema decided by one or two keywords, densely decorated with non-asserting
		// and unknown keywords, with enumerated instances (see gendecor.go)
		var base Doc
		switch r.intn(4) {
		case 0, 1:
			base, fixed = g.smallObjDoc()
		case 2:
			base, fixed = g.smallArrDoc()
		default:
			base, fixed = g.smallScalarDoc()
		}
		if g.draft7 {
			base = append(DObj{{"$schema", DStr("http://json-schema.org/draft-07/schema#")}}, base.(DObj)...)
		}
		dc := &decorator{r: r, d7: g.draft7, kinds: map[string]int{}}
		doc = dc.schemaPos(base)
	}
	c := &ValCase{ID: id, Doc: doc, NoLoader: true, HSeed: r.intn(1000)}
	kws := map[string]int{}
	keywordsOf(doc, kws)
	g.smallNums = kws["multipleOf"] > 0
	var insts []Doc
	insts = append(insts, fixed...)
	for i := 0; i < 6 && fixed == nil; i++ {
		insts = append(insts, g.instFor(doc, doc, 3))
	}
	for i := 0; i < 6; i++ {
		insts = append(insts, g.mutate(insts[r.intn(len(insts))]))
	}
	insts = append(insts, g.value(2), g.value(1))
	for _, d := range insts {
		if g.smallNums && hasBigNumber(d) {
			continue // outside the domain: multipleOf is only claimed where float division is exact
		}
		c.Insts = append(c.Insts, canonInst(d))
	}
	kw := map[string]int{}
	keywordsOf(doc, kw)
	nt := 0
	if len(kw) >= 3 {
		nt = 1
	}
	c.Note = fmt.Sprintf("nontrivial=%d shape=%s", nt, shapeOf(doc))
	return c
}

func init() {
	families["val"] = func(r *rng, id string) Case { return genValCase(r, id, "val") }
	families["uneval"] = func(r *rng, id string) Case { return genValCase(r, id, "uneval") }
	families["d7"] = func(r *rng, id string) Case { return genValCase(r, id, "d7") }
}

func hasBigNumber(d Doc) bool {
	switch x := d.(type) {
	case DNum:
		return bigLit(string(x))
	case DArr:
		for _, e := range x {
			if hasBigNumber(e) {
				return true
			}
		}
	case DObj:
		for _, m := range x {
			if hasBigNumber(m.V) {
				return true
			}
		}
	}
	return false
}

func docEq(a, b Doc) bool { return renderJSON(a) == renderJSON(b) }

// bigLit: the literal denotes a number of magnitude >= 10^9 (spelling does not matter: 1e19 counts)
func bigLit(lit string) bool {
	r := ratOf(lit)
	return new(big.Rat).Abs(r).Cmp(big.NewRat(1000000000, 1)) >= 0
}
