package main

import (
	"encoding/json"
	"fmt"
	"sort"
	"strings"

	js "github.com/google/jsonschema-go/jsonschema"
)

// Family decor (C18): a schema document and the same document decorated, at random
// subschemas, with non-asserting keywords (well-typed values) and unknown keywords (any
// JSON value, including case variants of standard keywords).
var singleSchemaKW = map[string]bool{"not": true, "if": true, "then": true, "else": true, "additionalItems": true, "contains": true,
	"unevaluatedItems": true, "additionalProperties": true, "propertyNames": true, "unevaluatedProperties": true, "contentSchema": true}
var arraySchemaKW = map[string]bool{"allOf": true, "anyOf": true, "oneOf": true, "prefixItems": true}
var mapSchemaKW = map[string]bool{"$defs": true, "definitions": true, "properties": true, "patternProperties": true, "dependentSchemas": true}

type decorator struct {
	r     *rng
	d7    bool
	kinds map[string]int
	kf    string
}

// schemaPos decorates the subschema d; schemaPosB additionally biases the decoration
// towards one keyword, used where a sibling or parent keyword refers to this position
// (a property that the parent requires gets a default, and so on).
func (dc *decorator) schemaPos(d Doc) Doc { return dc.schemaPosB(d, "") }

func (dc *decorator) schemaPosB(d Doc, boost string) Doc {
	o, ok := d.(DObj)
	if b, isBool := d.(DBool); isBool && bool(b) && dc.r.chance(1, 2) {
		// the boolean schema true is the empty object: it can be decorated too
		o, ok = DObj{}, true
	}
	if !ok {
		return d
	}
	required := map[string]bool{}
	if rq, ok := o.get("required"); ok {
		if a, ok := rq.(DArr); ok {
			for _, e := range a {
				if s, ok := e.(DStr); ok {
					required[string(s)] = true
				}
			}
		}
	}
	out := DObj{}
	has := map[string]bool{}
	for _, m := range o {
		has[m.K] = true
	}
	for _, m := range o {
		v := m.V
		switch {
		case singleSchemaKW[m.K]:
			v = dc.schemaPos(v)
		case arraySchemaKW[m.K]:
			if a, ok := v.(DArr); ok {
				na := DArr{}
				for _, e := range a {
					na = append(na, dc.schemaPos(e))
				}
				v = na
			}
		case mapSchemaKW[m.K]:
			if mo, ok := v.(DObj); ok {
				nm := DObj{}
				for _, mm := range mo {
					b := ""
					if m.K == "properties" && required[mm.K] && dc.r.chance(1, 2) {
						b = "default"
					} else if m.K == "properties" && dc.r.chance(1, 8) {
						b = pick(dc.r, []string{"readOnly", "writeOnly", "deprecated", "default"})
					}
					nm = append(nm, DMem{mm.K, dc.schemaPosB(mm.V, b)})
				}
				v = nm
			}
		case m.K == "items":
			if a, ok := v.(DArr); ok {
				na := DArr{}
				for _, e := range a {
					na = append(na, dc.schemaPos(e))
				}
				v = na
			} else {
				v = dc.schemaPos(v)
			}
		case m.K == "dependencies":
			if mo, ok := v.(DObj); ok {
				nm := DObj{}
				for _, mm := range mo {
					if _, isArr := mm.V.(DArr); isArr {
						nm = append(nm, mm)
					} else {
						nm = append(nm, DMem{mm.K, dc.schemaPos(mm.V)})
					}
				}
				v = nm
			}
		}
		out = append(out, DMem{m.K, v})
	}
	r := dc.r
	g := &genCtx{r: r}
	add := func(k string, v Doc, kind string) {
		if !has[k] {
			has[k] = true
			dc.kinds[kind]++
			if r.chance(1, 2) {
				out = append(out, DMem{k, v})
			} else {
				out = append(DObj{{k, v}}, out...)
			}
		}
	}
	switch boost {
	case "default":
		add("default", g.value(2), "default")
		dc.kinds["required+default"]++
	case "readOnly", "writeOnly", "deprecated":
		add(boost, DBool(true), "flag")
	}
	if len(out) == 1 && (has["$ref"] || has["$dynamicRef"]) && r.chance(1, 2) {
		// a subschema that is nothing but a reference: any decoration makes it "more than a reference"
		if r.chance(1, 5) {
			add("deprecated", DBool(r.chance(1, 2)), "bare-ref")
		} else {
			add(pick(r, []string{"title", "$comment", "description", "x-note"}), pick(r, []Doc{DStr("t"), DStr("")}), "bare-ref")
		}
	}
	for n := r.intn(3); n > 0 && r.chance(1, 2); n-- {
		switch r.intn(14) {
		case 0:
			add(pick(r, []string{"title", "description", "$comment"}), DStr(pick(r, strPool)), "text")
		case 1:
			add("default", g.value(2), "default")
		case 2:
			if r.chance(1, 4) {
				// an example is any JSON value: numbers outside float64 included (the same for default)
				big := pick(r, []Doc{DNum("1e400"), DNum("-1e999"), DObj{{"a", DArr{DNum("1"), DNum("12345678901234567890e380")}}}})
				if r.chance(1, 2) {
					add("examples", DArr{g.value(1), big}, "examples")
				} else {
					add("default", big, "default")
				}
			} else {
				add("examples", DArr{g.value(1), g.value(2)}, "examples")
			}
		case 3:
			add(pick(r, []string{"deprecated", "readOnly", "writeOnly"}), DBool(r.chance(1, 2)), "flag")
			if r.chance(1, 2) {
				// non-asserting keywords in combination
				for _, k := range []string{"readOnly", "writeOnly", "deprecated"} {
					add(k, DBool(true), "flag")
				}
			}
		case 4:
			add(pick(r, []string{"format", "contentEncoding", "contentMediaType"}), DStr(pick(r, []string{"date", "email", "base64", "application/json", "nonsense"})), "format")
		case 5:
			add("contentSchema", pick(r, []Doc{DBool(false), DObj{{"type", DStr("integer")}}, DObj{{"required", toDoc([]string{"zz"})}}}), "contentSchema")
		case 6:
			key := "$defs"
			if dc.d7 {
				key = "definitions"
			}
			if !has["$defs"] && !has["definitions"] {
				add(key, DObj{{"unused", pick(r, []Doc{DBool(false), DObj{{"type", DStr("null")}}, DObj{{"minimum", DNum("100")}}})}}, "defs")
			}
		case 7, 8:
			uv := g.value(2)
			if r.chance(1, 4) {
				// any JSON value: numbers outside float64 included
				uv = pick(r, []Doc{DNum("1e400"), DNum("-1e999"), DArr{DNum("0.5"), DNum("12345678901234567890e380")}, DObj{{"a", DArr{DNum("1"), DNum("-1e999")}}}})
			}
			add(pick(r, []string{"x-foo", "unknownKeyword", "$unknown", "ſ", "x y", ""}), uv, "unknown")
		case 9, 10, 11:
			// names that differ from a standard keyword only in letter case (or by a folding character)
			add(pick(r, []string{"Type", "TYPE", "MinLength", "minlength", "REQUIRED", "Required", "Enum", "CONST", "Not", "AllOf", "itemſ", "Items", "Properties",
				"additionalproperties", "$Ref", "$REF", "Minimum", "maxItems ", "Pattern", "uniqueitems", "Title", "Default", "$Defs", "Format", "unevaluatedproperties"}),
				pick(r, []Doc{g.value(2), DStr("string"), DNum("5"), DBool(false), DArr{DStr("zz")}, DObj{{"type", DStr("null")}}, DNull{}}), "casevariant")
		case 12:
			add("examples", DArr{}, "examples")
		default:
			add("default", DNull{}, "default")
		}
	}
	return out
}

type DecorCase struct {
	ID        string
	Base, Dec Doc
	Insts     []Inst
	Note      string
}

func rxTables(docs []Doc, insts []Inst) string {
	pats, strs := map[string]bool{}, map[string]bool{}
	for _, d := range docs {
		collectPatterns(d, pats, strs)
	}
	for _, in := range insts {
		collectInstStrings(in.V, strs)
	}
	var b strings.Builder
	tmp := &ValCase{}
	_ = tmp
	b.WriteString("(rx (ok")
	type cre = interface{ MatchString(string) bool }
	compiled := map[string]cre{}
	for _, p := range sortedKeys(pats) {
		re, err := compileRx(p)
		ok := 0
		if err == nil {
			ok = 1
			compiled[p] = re
		}
		fmt.Fprintf(&b, " ((%s) %d)", sxStr(p), ok)
	}
	b.WriteString(") (match")
	for _, p := range sortedKeys(pats) {
		re := compiled[p]
		if re == nil {
			continue
		}
		for _, s := range sortedKeys(strs) {
			m := 0
			if re.MatchString(s) {
				m = 1
			}
			fmt.Fprintf(&b, " ((%s) (%s) %d)", sxStr(p), sxStr(s), m)
		}
	}
	b.WriteString("))")
	return b.String()
}

func (c *DecorCase) sx() string {
	var b strings.Builder
	fmt.Fprintf(&b, "(case %s (doc %s) (doc2 %s) %s (insts", c.ID, sxDoc(c.Base), sxDoc(c.Dec), rxTables([]Doc{c.Base, c.Dec}, c.Insts))
	for _, in := range c.Insts {
		b.WriteString(" " + in.Sx)
	}
	b.WriteString("))")
	return b.String()
}
func (c *DecorCase) note() string   { return c.Note }
func (c *DecorCase) expect() string { return "" }

func verdictsOf(doc Doc, insts []Inst) (unm, res, v string) {
	var s js.Schema
	if err := json.Unmarshal([]byte(renderJSON(doc)), &s); err != nil {
		return "err", "", ""
	}
	var rs *js.Resolved
	var err error
	if o := guarded(func() { rs, err = s.Resolve(nil) }); o != "" {
		return "ok", o, ""
	}
	if err != nil {
		return "ok", "err", ""
	}
	var b strings.Builder
	for _, in := range insts {
		var verr error
		if guarded(func() { verr = rs.Validate(in.V) }) != "" {
			b.WriteByte('P')
		} else if verr == nil {
			b.WriteByte('V')
		} else {
			b.WriteByte('I')
		}
	}
	return "ok", "ok", b.String()
}

func (c *DecorCase) runImpl() string {
	u1, r1, v1 := verdictsOf(c.Base, c.Insts)
	u2, r2, v2 := verdictsOf(c.Dec, c.Insts)
	lawAcc, lawSame := "1", "1"
	if u1 == "ok" && u2 != "ok" {
		lawAcc = "0"
	}
	if u1 == "ok" && u2 == "ok" && (r1 != r2 || v1 != v2) {
		lawSame = "0"
	}
	return fmt.Sprintf("%s unm=%s res=%s v=%s unm2=%s res2=%s v2=%s law_accepts=%s law_same=%s", c.ID, u1, r1, v1, u2, r2, v2, lawAcc, lawSame)
}

func init() {
	families["decor"] = func(r *rng, id string) Case {
		g := &genCtx{r: r, ndefs: r.intn(3)}
		if r.chance(1, 4) {
			g.draft7 = true
		}
		base := g.document(2 + r.intn(2))
		var fixed []Doc
		var dynInsts []Inst
		if r.chance(2, 5) {
			// a small schema with enumerated instances, densely decorated
			switch r.intn(4) {
			case 0, 1:
				base, fixed = g.smallObjDoc()
			case 2:
				base, fixed = g.smallArrDoc()
			default:
				base, fixed = g.smallScalarDoc()
			}
			if g.draft7 {
				base = append(DObj{{"$schema", DStr("http://json-schema.org/draft-07/schema#")}}, base.(DObj)...)
			}
		}
		if !g.draft7 && r.chance(2, 5) {
			// several embedded resources with $dynamicRef / $ref hops between them (family dyn, no
			// loader documents): a decoration must not change which schemas enter the dynamic scope
			for try := 0; try < 30; try++ {
				if vc := genDynCase(r, id); len(vc.Universe) == 0 && len(vc.Insts) > 0 {
					base = vc.Doc
					dynInsts, fixed = vc.Insts, []Doc{}
					break
				}
			}
		}
		kws := map[string]int{}
		keywordsOf(base, kws)
		g.smallNums = kws["multipleOf"] > 0
		dc := &decorator{r: r, d7: g.draft7, kinds: map[string]int{}}
		dec := dc.schemaPos(base)
		c := &DecorCase{ID: id, Base: base, Dec: dec}
		for _, d := range fixed {
			c.Insts = append(c.Insts, canonInst(d))
		}
		c.Insts = append(c.Insts, dynInsts...)
		for i := 0; i < 5 && fixed == nil; i++ {
			d := g.instFor(base, base, 3)
			if !(g.smallNums && hasBigNumber(d)) {
				c.Insts = append(c.Insts, canonInst(d))
			}
		}
		for i := 0; i < 5 && len(c.Insts) > 0 && fixed == nil; i++ {
			d := g.mutate(pickDocOf(r, c.Insts, g))
			if !(g.smallNums && hasBigNumber(d)) {
				c.Insts = append(c.Insts, canonInst(d))
			}
		}
		ks := []string{}
		for k, n := range dc.kinds {
			ks = append(ks, fmt.Sprintf("%s%d", k, n))
		}
		sort.Strings(ks)
		nt := 0
		if len(dc.kinds) > 0 {
			nt = 1
		}
		c.Note = fmt.Sprintf("nontrivial=%d shape=%s|%s", nt, shapeOf(base), strings.Join(ks, "."))
		return c
	}
}

// smallObjDoc: a small object schema whose verdict is decided by one or two keywords over
// the names a, b, c, with instances enumerating subsets of those names - so that a
// decoration on any position that interacts with required/properties/dependentRequired/
// additionalProperties shows in a verdict.
func (g *genCtx) smallObjDoc() (Doc, []Doc) {
	r := g.r
	leaf := func() Doc {
		return pick(r, []Doc{DBool(true), DObj{}, DObj{{"type", DStr("integer")}}, DObj{{"minimum", DNum("0")}}, DObj{{"type", DStr("string")}}, DObj{{"const", DNum("1")}}})
	}
	names := []string{"a", "b", "c"}
	props := DObj{}
	for _, nm := range names[:1+r.intn(3)] {
		props = append(props, DMem{nm, leaf()})
	}
	o := DObj{{"properties", props}}
	if r.chance(3, 4) {
		o = append(o, DMem{"required", toDoc(shuffled(r, names)[:1+r.intn(2)])})
	}
	switch r.intn(8) {
	case 0:
		o = append(o, DMem{"additionalProperties", DBool(false)})
	case 1:
		o = append(o, DMem{"dependentRequired", DObj{{pick(r, names), toDoc([]string{pick(r, names)})}}})
	case 2:
		o = append(o, DMem{"minProperties", DNum(pick(r, []string{"1", "2"}))})
	case 3:
		o = append(o, DMem{"patternProperties", DObj{{"^[ab]$", leaf()}}})
	case 4:
		o = append(o, DMem{"unevaluatedProperties", DBool(false)})
	case 5:
		o = append(o, DMem{"propertyNames", DObj{{"maxLength", DNum("1")}}})
	case 6:
		o = DObj{{"allOf", DArr{o, DObj{{"properties", DObj{{pick(r, names), leaf()}}}}}}}
	}
	if r.chance(1, 3) {
		o = append(DObj{{"type", DStr("object")}}, o...)
	}
	vals := []Doc{DNum("1"), DNum("0"), DNum("-1"), DStr("s"), DNum("1.5"), DNull{}}
	var insts []Doc
	for mask := 0; mask < 8; mask++ {
		in := DObj{}
		for i, nm := range names {
			if mask&(1<<i) != 0 {
				in = append(in, DMem{nm, vals[r.intn(2+r.intn(len(vals)-1))]})
			}
		}
		insts = append(insts, in)
	}
	insts = append(insts, DObj{{"zz", DNum("1")}}, DNum("1"), DArr{})
	return o, insts
}

// smallArrDoc / smallScalarDoc: the same idea for arrays and scalars.
func (g *genCtx) smallArrDoc() (Doc, []Doc) {
	r := g.r
	leaf := func() Doc {
		return pick(r, []Doc{DBool(true), DObj{{"type", DStr("integer")}}, DObj{{"minimum", DNum("1")}}, DObj{{"const", DStr("s")}}})
	}
	o := DObj{}
	if r.chance(2, 3) {
		o = append(o, DMem{"prefixItems", DArr{leaf(), leaf()}[:1+r.intn(2)]})
	}
	switch r.intn(7) {
	case 0:
		o = append(o, DMem{"items", leaf()})
	case 6:
		// what contains matched counts as evaluated for unevaluatedItems (also when it is `true`)
		o = append(o, DMem{"contains", pick(r, []Doc{DBool(true), DObj{}, leaf()})}, DMem{"minContains", DNum(pick(r, []string{"0", "1", "2"}))}, DMem{"unevaluatedItems", DBool(false)})
	case 1:
		o = append(o, DMem{"contains", leaf()}, DMem{"minContains", DNum(pick(r, []string{"0", "1", "2"}))})
	case 2:
		o = append(o, DMem{"uniqueItems", DBool(true)})
	case 3:
		o = append(o, DMem{"minItems", DNum("2")})
	case 4:
		o = append(o, DMem{"unevaluatedItems", DBool(false)})
	default:
		o = append(o, DMem{"maxItems", DNum("2")}, DMem{"items", leaf()})
	}
	vals := []Doc{DNum("1"), DNum("0"), DStr("s"), DNum("2"), DNum("1.0")}
	var insts []Doc
	for n := 0; n <= 3; n++ {
		for k := 0; k < 2; k++ {
			a := DArr{}
			for i := 0; i < n; i++ {
				a = append(a, pick(r, vals))
			}
			insts = append(insts, a)
		}
	}
	insts = append(insts, DStr("s"))
	return o, insts
}

func (g *genCtx) smallScalarDoc() (Doc, []Doc) {
	r := g.r
	o := DObj{}
	for _, k := range shuffled(r, []int{0, 1, 2, 3, 4, 5, 6})[:1+r.intn(2)] {
		switch k {
		case 0:
			o = append(o, DMem{"type", DStr(pick(r, []string{"integer", "number", "string", "null", "boolean"}))})
		case 1:
			o = append(o, DMem{"minimum", DNum(pick(r, []string{"0", "1", "2"}))})
		case 2:
			o = append(o, DMem{"maxLength", DNum(pick(r, []string{"0", "1", "2"}))})
		case 3:
			o = append(o, DMem{"enum", DArr{DNum("1"), DStr("a"), DNull{}}})
		case 4:
			o = append(o, DMem{"const", pick(r, []Doc{DNum("1"), DStr("ab"), DBool(false)})})
		case 5:
			o = append(o, DMem{"not", DObj{{"type", DStr(pick(r, []string{"integer", "string"}))}}})
		default:
			o = append(o, DMem{"anyOf", DArr{DObj{{"type", DStr("string")}}, DObj{{"minimum", DNum("1")}}}})
		}
	}
	insts := []Doc{DNum("0"), DNum("1"), DNum("2"), DNum("1.5"), DStr(""), DStr("a"), DStr("ab"), DStr("abc"), DNull{}, DBool(false), DBool(true)}
	return o, insts
}

func pickDocOf(r *rng, insts []Inst, g *genCtx) Doc {
	// re-derive a document from a canonical instance
	in := pick(r, insts)
	bs, _ := json.Marshal(in.V)
	d, err := parseDoc(bs)
	if err != nil {
		return g.value(1)
	}
	return d
}
