package main

import (
	"encoding/json"
	"fmt"
	"strings"

	js "github.com/google/jsonschema-go/jsonschema"
)

// Family decor (C18): a schema document and the same document decorated, at random
// subschemas, with non-asserting keywords (well-typed values) and unknown keywords (any
// JSON value, including case variants of standard keywords).
var singleSchemaKW = map[string]bool{"not": true, "if": true, "then": true, "else": true, "additionalItems": true, "contains": true,
	"unevaluatedItems": true, "additionalProperties": true, "propertyNames": true, "unevaluatedProperties": true, "contentSchema": true}
var arraySchemaKW = map[string]bool{"allOf": true, "anyOf": true, "oneOf": true, "prefixItems": true}
var mapSchemaKW = map[string]bool{"$defs": true, "definitions": true, "properties": true, "patternProperties": true, "dependentSchemas": true}

type decorator struct {
	r     *rng
	d7    bool
	kinds map[string]int
	kf    string
}

func (dc *decorator) schemaPos(d Doc) Doc {
	o, ok := d.(DObj)
	if !ok {
		return d
	}
	out := DObj{}
	has := map[string]bool{}
	for _, m := range o {
		has[m.K] = true
	}
	for _, m := range o {
		v := m.V
		switch {
		case singleSchemaKW[m.K]:
			v = dc.schemaPos(v)
		case arraySchemaKW[m.K]:
			if a, ok := v.(DArr); ok {
				na := DArr{}
				for _, e := range a {
					na = append(na, dc.schemaPos(e))
				}
				v = na
			}
		case mapSchemaKW[m.K]:
			if mo, ok := v.(DObj); ok {
				nm := DObj{}
				for _, mm := range mo {
					nm = append(nm, DMem{mm.K, dc.schemaPos(mm.V)})
				}
				v = nm
			}
		case m.K == "items":
			if a, ok := v.(DArr); ok {
				na := DArr{}
				for _, e := range a {
					na = append(na, dc.schemaPos(e))
				}
				v = na
			} else {
				v = dc.schemaPos(v)
			}
		case m.K == "dependencies":
			if mo, ok := v.(DObj); ok {
				nm := DObj{}
				for _, mm := range mo {
					if _, isArr := mm.V.(DArr); isArr {
						nm = append(nm, mm)
					} else {
						nm = append(nm, DMem{mm.K, dc.schemaPos(mm.V)})
					}
				}
				v = nm
			}
		}
		out = append(out, DMem{m.K, v})
	}
	r := dc.r
	g := &genCtx{r: r}
	add := func(k string, v Doc, kind string) {
		if !has[k] {
			has[k] = true
			dc.kinds[kind]++
			if r.chance(1, 2) {
				out = append(out, DMem{k, v})
			} else {
				out = append(DObj{{k, v}}, out...)
			}
		}
	}
	for n := r.intn(3); n > 0 && r.chance(1, 2); n-- {
		switch r.intn(14) {
		case 0:
			add(pick(r, []string{"title", "description", "$comment"}), DStr(pick(r, strPool)), "text")
		case 1:
			add("default", g.value(2), "default")
		case 2:
			add("examples", DArr{g.value(1), g.value(2)}, "examples")
		case 3:
			add(pick(r, []string{"deprecated", "readOnly", "writeOnly"}), DBool(r.chance(1, 2)), "flag")
		case 4:
			add(pick(r, []string{"format", "contentEncoding", "contentMediaType"}), DStr(pick(r, []string{"date", "email", "base64", "application/json", "nonsense"})), "format")
		case 5:
			add("contentSchema", pick(r, []Doc{DBool(false), DObj{{"type", DStr("integer")}}, DObj{{"required", toDoc([]string{"zz"})}}}), "contentSchema")
		case 6:
			key := "$defs"
			if dc.d7 {
				key = "definitions"
			}
			if !has["$defs"] && !has["definitions"] {
				add(key, DObj{{"unused", pick(r, []Doc{DBool(false), DObj{{"type", DStr("null")}}, DObj{{"minimum", DNum("100")}}})}}, "defs")
			}
		case 7, 8:
			add(pick(r, []string{"x-foo", "unknownKeyword", "$unknown", "ſ", "x y", ""}), g.value(2), "unknown")
		case 9, 10, 11:
			// names that differ from a standard keyword only in letter case (or by a folding character)
			add(pick(r, []string{"Type", "TYPE", "MinLength", "minlength", "REQUIRED", "Required", "Enum", "CONST", "Not", "AllOf", "itemſ", "Items", "Properties",
				"additionalproperties", "$Ref", "$REF", "Minimum", "maxItems ", "Pattern", "uniqueitems", "Title", "Default", "$Defs", "Format", "unevaluatedproperties"}),
				pick(r, []Doc{g.value(2), DStr("string"), DNum("5"), DBool(false), DArr{DStr("zz")}, DObj{{"type", DStr("null")}}, DNull{}}), "casevariant")
		case 12:
			add("examples", DArr{}, "examples")
		default:
			add("default", DNull{}, "default")
		}
	}
	return out
}

type DecorCase struct {
	ID        string
	Base, Dec Doc
	Insts     []Inst
	Note      string
}

func rxTables(docs []Doc, insts []Inst) string {
	pats, strs := map[string]bool{}, map[string]bool{}
	for _, d := range docs {
		collectPatterns(d, pats, strs)
	}
	for _, in := range insts {
		collectInstStrings(in.V, strs)
	}
	var b strings.Builder
	tmp := &ValCase{}
	_ = tmp
	b.WriteString("(rx (ok")
	type cre = interface{ MatchString(string) bool }
	compiled := map[string]cre{}
	for _, p := range sortedKeys(pats) {
		re, err := compileRx(p)
		ok := 0
		if err == nil {
			ok = 1
			compiled[p] = re
		}
		fmt.Fprintf(&b, " ((%s) %d)", sxStr(p), ok)
	}
	b.WriteString(") (match")
	for _, p := range sortedKeys(pats) {
		re := compiled[p]
		if re == nil {
			continue
		}
		for _, s := range sortedKeys(strs) {
			m := 0
			if re.MatchString(s) {
				m = 1
			}
			fmt.Fprintf(&b, " ((%s) (%s) %d)", sxStr(p), sxStr(s), m)
		}
	}
	b.WriteString("))")
	return b.String()
}

func (c *DecorCase) sx() string {
	var b strings.Builder
	fmt.Fprintf(&b, "(case %s (doc %s) (doc2 %s) %s (insts", c.ID, sxDoc(c.Base), sxDoc(c.Dec), rxTables([]Doc{c.Base, c.Dec}, c.Insts))
	for _, in := range c.Insts {
		b.WriteString(" " + in.Sx)
	}
	b.WriteString("))")
	return b.String()
}
func (c *DecorCase) note() string   { return c.Note }
func (c *DecorCase) expect() string { return "" }

func verdictsOf(doc Doc, insts []Inst) (unm, res, v string) {
	var s js.Schema
	if err := json.Unmarshal([]byte(renderJSON(doc)), &s); err != nil {
		return "err", "", ""
	}
	var rs *js.Resolved
	var err error
	if o := guarded(func() { rs, err = s.Resolve(nil) }); o != "" {
		return "ok", o, ""
	}
	if err != nil {
		return "ok", "err", ""
	}
	var b strings.Builder
	for _, in := range insts {
		var verr error
		if guarded(func() { verr = rs.Validate(in.V) }) != "" {
			b.WriteByte('P')
		} else if verr == nil {
			b.WriteByte('V')
		} else {
			b.WriteByte('I')
		}
	}
	return "ok", "ok", b.String()
}

func (c *DecorCase) runImpl() string {
	u1, r1, v1 := verdictsOf(c.Base, c.Insts)
	u2, r2, v2 := verdictsOf(c.Dec, c.Insts)
	lawAcc, lawSame := "1", "1"
	if u1 == "ok" && u2 != "ok" {
		lawAcc = "0"
	}
	if u1 == "ok" && u2 == "ok" && (r1 != r2 || v1 != v2) {
		lawSame = "0"
	}
	return fmt.Sprintf("%s unm=%s res=%s v=%s unm2=%s res2=%s v2=%s law_accepts=%s law_same=%s", c.ID, u1, r1, v1, u2, r2, v2, lawAcc, lawSame)
}

func init() {
	families["decor"] = func(r *rng, id string) Case {
		g := &genCtx{r: r, ndefs: r.intn(3)}
		if r.chance(1, 4) {
			g.draft7 = true
		}
		base := g.document(2 + r.intn(2))
		kws := map[string]int{}
		keywordsOf(base, kws)
		g.smallNums = kws["multipleOf"] > 0
		dc := &decorator{r: r, d7: g.draft7, kinds: map[string]int{}}
		dec := dc.schemaPos(base)
		c := &DecorCase{ID: id, Base: base, Dec: dec}
		for i := 0; i < 5; i++ {
			d := g.instFor(base, base, 3)
			if !(g.smallNums && hasBigNumber(d)) {
				c.Insts = append(c.Insts, canonInst(d))
			}
		}
		for i := 0; i < 5 && len(c.Insts) > 0; i++ {
			d := g.mutate(pickDocOf(r, c.Insts, g))
			if !(g.smallNums && hasBigNumber(d)) {
				c.Insts = append(c.Insts, canonInst(d))
			}
		}
		ks := []string{}
		for k, n := range dc.kinds {
			ks = append(ks, fmt.Sprintf("%s%d", k, n))
		}
		nt := 0
		if len(dc.kinds) > 0 {
			nt = 1
		}
		c.Note = fmt.Sprintf("nontrivial=%d shape=%s|%s", nt, shapeOf(base), strings.Join(ks, "."))
		return c
	}
}

func pickDocOf(r *rng, insts []Inst, g *genCtx) Doc {
	// re-derive a document from a canonical instance
	in := pick(r, insts)
	bs, _ := json.Marshal(in.V)
	d, err := parseDoc(bs)
	if err != nil {
		return g.value(1)
	}
	return d
}
