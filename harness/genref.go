package main

import (
	"fmt"
	"net/url"
	"strings"
)

// Generator G-ref (C03, C17): universes of documents with embedded resources, anchors
// and references in every syntactic form. Every candidate target carries a unique
// "const" marker; every reference sits under properties/h<i>, so the verdict matrix
// {h<i>: marker<k>} reads off the target each reference reached.

type refTarget struct {
	marker string
	refs   []string // reference strings (relative to the root's base) designating it
}

func resolveURI(base, ref string) string {
	b, err := url.Parse(base)
	if err != nil {
		return ref
	}
	r, err := url.Parse(ref)
	if err != nil {
		return ref
	}
	u := b.ResolveReference(r)
	u.Fragment = ""
	return u.String()
}

func genRefCase(r *rng, id string) *ValCase {
	mk := 0
	newMarker := func() string { mk++; return fmt.Sprintf("m%d", mk) }
	target := func(extra ...DMem) (Doc, string) {
		m := newMarker()
		o := DObj{{"const", DStr(m)}}
		o = append(o, extra...)
		return o, m
	}
	rootID := pick(r, []string{"", "http://x.test/root.json", "http://x.test/dir/root.json", "urn:example:root", "http://x.test/"})
	baseOpt := pick(r, []string{"", "", "http://base.test/b/doc.json", "http://base.test/b/doc.json", "http://base.test/b/../c/./doc.json", "http://base.test/x/.."})
	effBase := baseOpt
	if rootID != "" {
		effBase = resolveURI(baseOpt, rootID)
	}
	absolute := strings.Contains(effBase, ":")
	var targets []refTarget
	defs := DObj{}
	// plain pointer targets
	for i := 0; i < 1+r.intn(2); i++ {
		t, m := target()
		name := pick(r, []string{"t", "a/b", "m~n", "x y", "é", "%25", "", "a+b", "c++", "a b"}) + fmt.Sprint(i)
		defs = append(defs, DMem{name, t})
		targets = append(targets, refTarget{m, []string{"#/$defs/" + pointerEscape(name)}})
	}
	if r.chance(1, 5) {
		for _, nm := range []string{"p+q", "p q"} {
			t, m := target()
			defs = append(defs, DMem{nm, t})
			targets = append(targets, refTarget{m, []string{"#/$defs/" + pointerEscape(nm)}})
		}
	}
	// anchors in the root resource
	if r.chance(2, 3) {
		t, m := target(DMem{"$anchor", DStr("rootanc")})
		defs = append(defs, DMem{"anch", t})
		targets = append(targets, refTarget{m, []string{"#rootanc", "#/$defs/anch"}})
	}
	// embedded resources (need an absolute base unless their own id is absolute)
	embIDs := []string{"sub.json", "dir/sub2.json", "/abs.json", "http://other.test/o.json", "urn:uuid:e1", "../up.json", "./dot.json"}
	nemb := r.intn(3)
	for i := 0; i < nemb; i++ {
		eid := pick(r, embIDs)
		if !absolute && !strings.Contains(eid, ":") {
			eid = "http://other.test/o" + fmt.Sprint(i) + ".json"
		}
		euri := resolveURI(effBase, eid)
		inner, mi := target()
		anc, ma := target(DMem{"$anchor", DStr("ea")})
		// the same relative reference text in every embedded resource: it means something else in each
		selfForm := pick(r, []string{"#/$defs/inner", "#ea", "#/$defs/inner", "#", "#"})
		res, mr := target(DMem{"$id", DStr(eid)}, DMem{"$defs", DObj{{"inner", inner}, {"anc", anc}, {"self", DObj{{"$ref", DStr(selfForm)}}}}})
		selfMarker := mi
		switch selfForm {
		case "#ea":
			selfMarker = ma
		case "#":
			selfMarker = mr // the empty fragment: the root of THIS resource, not of the document
		}
		name := fmt.Sprintf("e%d", i)
		defs = append(defs, DMem{name, res})
		refForms := []string{eid, euri}
		if strings.HasPrefix(eid, "sub") {
			refForms = append(refForms, "./"+eid, "zz/../"+eid)
		}
		if d := dotty(r, euri); d != "" {
			refForms = append(refForms, d, d) // an absolute reference that is not in normal form
		}
		targets = append(targets,
			refTarget{mr, append(refForms, "#/$defs/"+name)},
			refTarget{mi, []string{eid + "#/$defs/inner", "#/$defs/" + name + "/$defs/inner"}},
			refTarget{ma, []string{eid + "#ea", euri + "#ea"}},
			refTarget{selfMarker, []string{eid + "#/$defs/self", "#/$defs/" + name + "/$defs/self"}})
	}
	// loader documents
	c := &ValCase{ID: id, Base: baseOpt, HSeed: 0}
	nrem := r.intn(3)
	var remoteURIs, canons []string
	backOf := map[int]int{}
	for i := 0; i < nrem; i++ {
		rel := pick(r, []string{"remote", "r/deep/remote", "../other/remote"}) + fmt.Sprint(i) + ".json"
		if !absolute {
			rel = "http://remote.test/" + fmt.Sprint(i) + ".json"
		}
		ruri := resolveURI(effBase, rel)
		remoteURIs = append(remoteURIs, ruri)
		inner, mi := target()
		anc, ma := target(DMem{"$anchor", DStr("ra")})
		rdoc := DObj{}
		var mr string
		tdoc, mm := target()
		mr = mm
		rdoc = append(rdoc, tdoc.(DObj)...)
		canon := ""
		if r.chance(1, 2) {
			cid := pick(r, []string{fmt.Sprintf("http://canon.test/c%d.json", i), fmt.Sprintf("v2/c%d.json", i), fmt.Sprintf("../k%d.json", i), fmt.Sprintf("/root%d.json", i)})
			canon = resolveURI(ruri, cid) // the canonical URI: $id resolved against the retrieval URI
			rdoc = append(DObj{{"$id", DStr(cid)}}, rdoc...)
		}
		canons = append(canons, canon)
		rdefs := DObj{{"inner", inner}, {"anc", anc}}
		// links between remote documents: chains, diamonds, cycles
		if i > 0 && r.chance(1, 2) {
			k := r.intn(i)
			backOf[i] = k
			target := remoteURIs[k]
			if canons[k] != "" && r.chance(1, 2) {
				target = canons[k] // an already loaded document, by its canonical URI
			}
			rdefs = append(rdefs, DMem{"back", DObj{{"$ref", DStr(target + "#ra")}}})
		}
		if r.chance(1, 3) {
			rdefs = append(rdefs, DMem{"toroot", DObj{{"$ref", DStr(effBase + "#/$defs/" + pointerEscape(defs[0].K))}}})
		}
		// a resource embedded in the loaded document: its URI names it only inside that document;
		// a reference to the same URI from another document asks the loader (which may know a
		// different, standalone document under that URI)
		var embURI, embMarker, aloneMarker string
		if r.chance(1, 2) {
			eid := fmt.Sprintf("emb%d.json", i)
			baseOfDoc := ruri
			if canon != "" {
				baseOfDoc = canon
			}
			embURI = resolveURI(baseOfDoc, eid)
			et, em := target(DMem{"$id", DStr(eid)})
			embMarker = em
			rdefs = append(rdefs, DMem{"embres", et})
			if r.chance(2, 3) {
				at, am := target()
				aloneMarker = am
				c.Universe = append(c.Universe, UniDoc{embURI, at})
			}
		}
		rdoc = append(rdoc, DMem{"$defs", rdefs})
		if embURI != "" {
			targets = append(targets, refTarget{embMarker, []string{rel + "#/$defs/embres"}})
			if aloneMarker != "" {
				targets = append(targets, refTarget{aloneMarker, []string{embURI}})
			} else if r.chance(1, 3) {
				targets = append(targets, refTarget{"-", []string{embURI}}) // nobody knows it: Resolve must fail
			}
		}
		if r.chance(1, 14) {
			c.Universe = append(c.Universe, UniDoc{ruri, nil}) // the loader fails for this URI
		} else {
			c.Universe = append(c.Universe, UniDoc{ruri, rdoc})
		}
		remForms := []string{rel, ruri}
		if d := dotty(r, ruri); d != "" {
			remForms = append(remForms, d)
		}
		targets = append(targets,
			refTarget{mr, remForms},
			refTarget{mi, []string{rel + "#/$defs/inner"}},
			refTarget{ma, []string{rel + "#ra", ruri + "#ra"}})
		if canon != "" && r.chance(1, 4) {
			// the canonical id is only known once the document has been loaded
			targets = append(targets, refTarget{ma, []string{canon + "#ra"}})
		}
	}
	// cycles between loaded documents by retrieval URI: a document that is referred back to also refers
	// forward (both may declare an $id of their own: the cache must know them by the URI they were asked for)
	for i := 1; i < nrem; i++ {
		k, ok := backOf[i]
		if !ok || !r.chance(1, 2) {
			continue
		}
		for ui := range c.Universe {
			if c.Universe[ui].URI != remoteURIs[k] {
				continue
			}
			if d, ok := c.Universe[ui].Doc.(DObj); ok {
				for mi := range d {
					if d[mi].K == "$defs" {
						d[mi].V = append(d[mi].V.(DObj), DMem{"fwd", DObj{{"$ref", DStr(remoteURIs[i] + "#ra")}}})
					}
				}
			}
		}
	}
	if r.chance(1, 12) {
		c.NoLoader = true
	}
	// reference holders
	props := DObj{}
	nh := 0
	hold := func(ref string) {
		props = append(props, DMem{fmt.Sprintf("h%d", nh), DObj{{"$ref", DStr(ref)}}})
		nh++
	}
	for _, t := range shuffled(r, targets) {
		if nh >= 6 {
			break
		}
		hold(pick(r, t.refs))
	}
	if r.chance(1, 7) {
		hold(pick(r, []string{"#/definitions/" + pointerEscape(defs[0].K), "#/definitions/" + pointerEscape(defs[0].K), "#/nope", "#nope", "missing.json", "#/$defs/" + pointerEscape(defs[0].K) + "/const", "#/$defs", "#/$defs/-1", "#/properties/h0/$ref", "%zz", "#/$defs/~2", "#a%"}))
	}
	if r.chance(1, 6) && len(defs) > 0 {
		hold("#") // the root itself (recursion through a property)
	}
	if r.chance(1, 6) {
		// an anchor name under the wrong resource: anchors are scoped to the resource that declares
		// them (the root's "rootanc", an embedded resource's "ea", a loaded document's "ra"), so
		// none of these designates anything and Resolve must fail
		var wrong []string
		for _, t := range targets {
			for _, ref := range t.refs {
				switch {
				case strings.HasSuffix(ref, "#ea"), strings.HasSuffix(ref, "#ra"):
					wrong = append(wrong, strings.TrimSuffix(strings.TrimSuffix(ref, "ea"), "ra")+"rootanc", "#"+ref[len(ref)-2:])
				}
			}
		}
		if len(wrong) > 0 {
			hold(pick(r, wrong))
		}
	}
	root := DObj{}
	if rootID != "" {
		root = append(root, DMem{"$id", DStr(rootID)})
	}
	root = append(root, DMem{"properties", props}, DMem{"$defs", defs})
	c.Doc = root
	// instances: every holder x every marker (capped), plus a non-marker value
	markers := make([]string, 0, mk)
	for i := 1; i <= mk; i++ {
		markers = append(markers, fmt.Sprintf("m%d", i))
	}
	for h := 0; h < nh; h++ {
		for _, m := range markers {
			c.Insts = append(c.Insts, canonInst(DObj{{fmt.Sprintf("h%d", h), DStr(m)}}))
		}
	}
	c.Insts = append(c.Insts, canonInst(DObj{{"h0", DNum("1")}}))
	nt := 0
	if nemb+nrem >= 1 && nh >= 2 {
		nt = 1
	}
	c.Note = fmt.Sprintf("nontrivial=%d shape=id%q.base%q.emb%d.rem%d.h%d.%x", nt, rootID, baseOpt, nemb, nrem, nh, fnv(renderJSON(root)))
	return c
}

func pointerEscape(s string) string {
	s = strings.ReplaceAll(s, "~", "~0")
	s = strings.ReplaceAll(s, "/", "~1")
	// percent-encode what a URI fragment cannot carry
	var b strings.Builder
	for _, c := range []byte(s) {
		switch {
		case c == '%' || c == ' ' || c == '"' || c >= 0x80 || c < 0x20:
			fmt.Fprintf(&b, "%%%02X", c)
		default:
			b.WriteByte(c)
		}
	}
	return b.String()
}

// Generator G-dyn (C06): chains of schema resources, each optionally declaring the
// dynamic anchor "node" (or a plain anchor of the same name), entered through in-place
// hops; the last one holds the $dynamicRef.
func genDynCase(r *rng, id string) *ValCase {
	n := 1 + r.intn(5)
	mk := 0
	type res struct{ id string }
	base := "http://d.test/"
	defs := DObj{}
	var markers []string
	remote := -1
	if r.chance(1, 4) {
		remote = r.intn(n)
	}
	c := &ValCase{ID: id}
	inPlaceHolder := false
	needSide := false
	// a quiet chain: no resource on the main route declares the anchor, the lexical target lives in
	// a resource that is never entered, and a second route passes through a declaring resource -
	// the same keyword falls back to its lexical target on one route and binds dynamically on the other
	quiet := r.chance(1, 4)
	if quiet && n < 2 {
		n = 2
	}
	// resources entered through a pointer into their interior: their root is never evaluated, yet
	// they are on the dynamic scope (their anchors count)
	interior := make([]bool, n+1)
	for k := 1; k < n; k++ {
		interior[k] = r.chance(1, 3)
	}
	hopTo := func(k int) string {
		if interior[k] {
			return fmt.Sprintf("r%d#/$defs/entry", k)
		}
		return fmt.Sprintf("r%d", k)
	}
	resDoc0 := func(k int) DObj { return nil }
	_ = resDoc0
	resDoc := func(k int) (out DObj) {
		defer func() {
			if !interior[k] {
				return
			}
			// move everything but $id and $defs below $defs/entry
			id, _ := out.get("$id")
			defsV, _ := out.get("$defs")
			entry := DObj{}
			for _, m := range out {
				if m.K != "$id" && m.K != "$defs" {
					entry = append(entry, m)
				}
			}
			nd := DObj{}
			if dv, ok := defsV.(DObj); ok {
				nd = append(nd, dv...)
			}
			nd = append(nd, DMem{"entry", entry})
			out = DObj{{"$id", id}, {"$defs", nd}}
		}()
		o := DObj{{"$id", DStr(fmt.Sprintf("%sr%d", base, k))}}
		sub := DObj{}
		kindOfRes := r.intn(4)
		if quiet {
			kindOfRes = 2 + r.intn(2)
		}
		switch kindOfRes {
		case 0, 1:
			mk++
			m := fmt.Sprintf("m%d", mk)
			markers = append(markers, m)
			sub = append(sub, DMem{"n", DObj{{"$dynamicAnchor", DStr("node")}, {"const", DStr(m)}}})
		case 2:
			mk++
			m := fmt.Sprintf("m%d", mk)
			markers = append(markers, m)
			sub = append(sub, DMem{"n", DObj{{"$anchor", DStr("node")}, {"const", DStr(m)}}})
		}
		if k+1 < n {
			hop := DObj{{"$ref", DStr(hopTo(k + 1))}}
			switch r.intn(4) {
			case 0:
				o = append(o, DMem{"$ref", DStr(hopTo(k + 1))})
			case 1:
				o = append(o, DMem{"allOf", DArr{hop}})
			case 2:
				o = append(o, DMem{"anyOf", DArr{DBool(false), hop}})
			default:
				o = append(o, DMem{"if", DBool(true)}, DMem{"then", hop})
			}
		} else {
			form := pick(r, []string{"#node", "#node", fmt.Sprintf("r%d#node", r.intn(n)), "#/$defs/n", fmt.Sprintf("r%d", r.intn(n)), "side#node", "side#node"})
			if quiet {
				form = "side#node"
			}
			if form == "side#node" {
				// the lexical target lives in a resource that is never entered: only the dynamic
				// scope (which includes the holder's own resource) can pick another one
				needSide = true
			}
			if form == "#/$defs/n" && len(sub) == 0 {
				form = "#node"
			}
			if form == "#node" && len(sub) == 0 {
				// an initially unresolvable fragment is a Resolve error: keep it rare
				if r.chance(3, 4) {
					mk++
					m := fmt.Sprintf("m%d", mk)
					markers = append(markers, m)
					sub = append(sub, DMem{"n", DObj{{"$dynamicAnchor", DStr("node")}, {"const", DStr(m)}}})
				}
			}
			kw := "$dynamicRef"
			if r.chance(1, 6) {
				kw = "$ref"
			}
			if r.chance(1, 3) && strings.Contains(form, "node") {
				// the reference sits on the resource root itself: the holder is the first schema of
				// its resource to be entered, and belongs to its own dynamic scope
				if _, has := o.get("$ref"); !has || kw != "$ref" {
					o = append(o, DMem{kw, DStr(form)})
					inPlaceHolder = true
				} else {
					o = append(o, DMem{"properties", DObj{{"x", DObj{{kw, DStr(form)}}}}})
				}
			} else {
				o = append(o, DMem{"properties", DObj{{"x", DObj{{kw, DStr(form)}}}}})
			}
		}
		if len(sub) > 0 {
			o = append(o, DMem{"$defs", sub})
		}
		return o
	}
	var root DObj
	for k := 0; k < n; k++ {
		d := resDoc(k)
		switch {
		case k == 0:
			root = d
		case k == remote:
			c.Universe = append(c.Universe, UniDoc{fmt.Sprintf("%sr%d", base, k), d})
		default:
			defs = append(defs, DMem{fmt.Sprintf("r%d", k), d})
		}
	}
	if needSide {
		mk++
		m := fmt.Sprintf("m%d", mk)
		markers = append(markers, m)
		defs = append(defs, DMem{"side", DObj{{"$id", DStr(base + "side")}, {"$defs", DObj{{"n", DObj{{"$dynamicAnchor", DStr("node")}, {"const", DStr(m)}}}}}}})
	}
	if len(defs) > 0 {
		// merge with the root's own $defs
		if v, ok := root.get("$defs"); ok {
			merged := append(DObj{}, v.(DObj)...)
			merged = append(merged, defs...)
			for i := range root {
				if root[i].K == "$defs" {
					root[i].V = merged
				}
			}
		} else {
			root = append(root, DMem{"$defs", defs})
		}
	}
	// a second route into the last resource, through another intermediate resource that may
	// declare its own dynamic anchor: the same $dynamicRef keyword is then reached under two
	// different dynamic scopes within one Validate call
	two := n >= 2 && (quiet || r.chance(1, 2))
	if two {
		mk++
		m := fmt.Sprintf("m%d", mk)
		markers = append(markers, m)
		alt := DObj{{"$id", DStr(base + "alt")}, {"$ref", DStr(hopTo(n - 1))},
			{"$defs", DObj{{"n", DObj{{"$dynamicAnchor", DStr("node")}, {"const", DStr(m)}}}}}}
		for i := range root {
			if root[i].K == "$defs" {
				root[i].V = append(append(DObj{}, root[i].V.(DObj)...), DMem{"alt", alt})
			}
		}
		if _, ok := root.get("$defs"); !ok {
			root = append(root, DMem{"$defs", DObj{{"alt", alt}}})
		}
		// the root validates member "y" through the alternative route: {"y": {"x": marker}}
		if pv, ok := root.get("properties"); ok {
			for i := range root {
				if root[i].K == "properties" {
					root[i].V = append(append(DObj{}, pv.(DObj)...), DMem{"y", DObj{{"$ref", DStr("alt")}}})
				}
			}
		} else {
			root = append(root, DMem{"properties", DObj{{"y", DObj{{"$ref", DStr("alt")}}}}})
		}
	}
	c.Doc = root
	if two {
		for _, m1 := range markers {
			for _, m2 := range markers {
				c.Insts = append(c.Insts, canonInst(DObj{{"x", DStr(m1)}, {"y", DObj{{"x", DStr(m2)}}}}))
			}
		}
	}
	if inPlaceHolder {
		for _, m := range markers {
			c.Insts = append(c.Insts, canonInst(DStr(m)))
		}
	}
	// a history of calls on one Resolved: every marker, twice, interleaved with a stranger
	for rep := 0; rep < 2; rep++ {
		for _, m := range markers {
			c.Insts = append(c.Insts, canonInst(DObj{{"x", DStr(m)}}))
		}
		c.Insts = append(c.Insts, canonInst(DObj{{"x", DNum("0")}}), canonInst(DObj{}))
	}
	nt := 0
	if n >= 2 && len(markers) >= 2 {
		nt = 1
	}
	c.Note = fmt.Sprintf("nontrivial=%d shape=n%d.rem%d.%x", nt, n, remote, fnv(renderJSON(root)))
	return c
}

func init() {
	families["ref"] = func(r *rng, id string) Case { return genRefCase(r, id) }
	// the same universes read as draft-07: definitions, fragment-only $id as anchors, $id with an empty
	// fragment, loaded documents that declare no $schema (they inherit the root's draft)
	families["ref7"] = func(r *rng, id string) Case {
		c := genRefCase(r, id)
		c.Doc = toDraft7(r, c.Doc, true)
		for i := range c.Universe {
			if c.Universe[i].Doc != nil {
				c.Universe[i].Doc = toDraft7(r, c.Universe[i].Doc, false)
			}
		}
		c.Note += ".d7"
		return c
	}
	families["dyn"] = func(r *rng, id string) Case { return genDynCase(r, id) }
}

// dotty: the same absolute hierarchical URI with dot segments in its path ("" when there is no path to put them in)
func dotty(r *rng, uri string) string {
	i := strings.Index(uri, "://")
	if i < 0 {
		return ""
	}
	j := strings.LastIndex(uri, "/")
	if j < i+3 {
		return ""
	}
	return uri[:j+1] + pick(r, []string{"zz/../", "./", "a/b/../../", "./zz/../"}) + uri[j+1:]
}

// toDraft7 rewrites a 2020-12 universe document into its draft-07 reading.
func toDraft7(r *rng, d Doc, root bool) Doc {
	var conv func(d Doc, top bool) Doc
	conv = func(d Doc, top bool) Doc {
		switch x := d.(type) {
		case DArr:
			out := make(DArr, len(x))
			for i, e := range x {
				out[i] = conv(e, false)
			}
			return out
		case DObj:
			_, hasID := x.get("$id")
			out := DObj{}
			if top && root {
				out = append(out, DMem{"$schema", DStr(pick(r, []string{"http://json-schema.org/draft-07/schema#", "https://json-schema.org/draft-07/schema#"}))})
			}
			for _, m := range x {
				switch {
				case m.K == "$defs":
					out = append(out, DMem{"definitions", conv(m.V, false)})
				case m.K == "$anchor" && !hasID:
					if sv, ok := m.V.(DStr); ok {
						out = append(out, DMem{"$id", DStr("#" + string(sv))})
					}
				case m.K == "$anchor":
					// a resource root cannot carry both: the anchor is dropped (references to it fail in both readings)
				case m.K == "$id":
					if sv, ok := m.V.(DStr); ok && !strings.Contains(string(sv), "#") && r.chance(1, 3) {
						out = append(out, DMem{"$id", DStr(string(sv) + "#")}) // an empty fragment is no fragment
					} else {
						out = append(out, m)
					}
				case m.K == "$ref" || m.K == "$dynamicRef":
					if sv, ok := m.V.(DStr); ok {
						out = append(out, DMem{m.K, DStr(strings.ReplaceAll(string(sv), "/$defs/", "/definitions/"))})
					} else {
						out = append(out, m)
					}
				default:
					out = append(out, DMem{m.K, conv(m.V, false)})
				}
			}
			return out
		}
		return d
	}
	return conv(d, true)
}
