package main

import (
	"encoding/json"
	"fmt"
	"os"
	"path/filepath"
	"sort"
	"strings"
)

// The official JSON-Schema-Test-Suite files under /repo/jsonschema/testdata, as cases.
// They serve as an oracle that is independent of both the package and the model.
func repoDir() string {
	if d := os.Getenv("VERIF_REPO"); d != "" {
		return d
	}
	return "/repo"
}

func suiteUniverse() []UniDoc {
	root := filepath.Join(repoDir(), "jsonschema", "testdata", "remotes")
	var out []UniDoc
	filepath.Walk(root, func(p string, info os.FileInfo, err error) error {
		if err != nil || info.IsDir() || !strings.HasSuffix(p, ".json") {
			return nil
		}
		data, err := os.ReadFile(p)
		if err != nil {
			return nil
		}
		d, err := parseDoc(data)
		if err != nil {
			return nil
		}
		rel, _ := filepath.Rel(root, p)
		out = append(out, UniDoc{"http://localhost:1234/" + filepath.ToSlash(rel), d})
		return nil
	})
	for _, m := range []struct{ prefix, dir string }{
		{"https://json-schema.org/draft/2020-12/", "meta-schemas/draft2020-12"},
		{"https://json-schema.org/draft-07/", "meta-schemas/draft7"},
		{"http://json-schema.org/draft-07/", "meta-schemas/draft7"},
	} {
		dir := filepath.Join(repoDir(), "jsonschema", m.dir)
		filepath.Walk(dir, func(p string, info os.FileInfo, err error) error {
			if err != nil || info.IsDir() || !strings.HasSuffix(p, ".json") {
				return nil
			}
			data, _ := os.ReadFile(p)
			d, err := parseDoc(data)
			if err != nil {
				return nil
			}
			rel, _ := filepath.Rel(dir, p)
			out = append(out, UniDoc{m.prefix + strings.TrimSuffix(filepath.ToSlash(rel), ".json"), d})
			return nil
		})
	}
	sort.Slice(out, func(i, j int) bool { return out[i].URI < out[j].URI })
	return out
}

func suiteCases(draft string) []*ValCase {
	dir, schemaURI := "draft2020-12", ""
	if draft == "7" {
		dir, schemaURI = "draft7", "https://json-schema.org/draft-07/schema#"
	}
	files, _ := filepath.Glob(filepath.Join(repoDir(), "jsonschema", "testdata", dir, "*.json"))
	sort.Strings(files)
	uni := suiteUniverse()
	var cases []*ValCase
	for _, f := range files {
		data, err := os.ReadFile(f)
		if err != nil {
			continue
		}
		var groups []struct {
			Description string
			Schema      json.RawMessage
			Tests       []struct {
				Description string
				Data        json.RawMessage
				Valid       bool
			}
		}
		if err := json.Unmarshal(data, &groups); err != nil {
			continue
		}
		for gi, g := range groups {
			d, err := parseDoc(g.Schema)
			if err != nil {
				continue
			}
			// testValidate sets $schema on the root when absent
			if o, ok := d.(DObj); ok && schemaURI != "" {
				if _, has := o.get("$schema"); !has {
					d = append(DObj{{"$schema", DStr(schemaURI)}}, o...)
				}
			}
			if !dyadicMultipleOf(d) {
				continue // outside the property's domain: multipleOf operands are dyadic rationals
			}
			c := &ValCase{ID: fmt.Sprintf("suite%s-%s-%d", draft, strings.TrimSuffix(filepath.Base(f), ".json"), gi),
				Doc: d, Universe: uni, Note: g.Description}
			var exp strings.Builder
			for _, t := range g.Tests {
				td, err := parseDoc(t.Data)
				if err != nil {
					continue
				}
				c.Insts = append(c.Insts, canonInst(td))
				if t.Valid {
					exp.WriteByte('V')
				} else {
					exp.WriteByte('I')
				}
			}
			c.Expect = exp.String()
			cases = append(cases, c)
		}
	}
	return cases
}

// dyadicMultipleOf reports whether every "multipleOf" value in the document is a dyadic rational.
func dyadicMultipleOf(d Doc) bool {
	switch x := d.(type) {
	case DArr:
		for _, e := range x {
			if !dyadicMultipleOf(e) {
				return false
			}
		}
	case DObj:
		for _, m := range x {
			if m.K == "multipleOf" {
				if n, ok := m.V.(DNum); ok {
					den := ratOf(string(n)).Denom()
					if den.BitLen()-1 != int(den.TrailingZeroBits()) {
						return false
					}
				}
			}
			if !dyadicMultipleOf(m.V) {
				return false
			}
		}
	}
	return true
}
