package main

import "reflect"

func collectStringsReflect(v any, into map[string]bool) {
	walkStrings(reflect.ValueOf(v), into)
}
func walkStrings(v reflect.Value, into map[string]bool) {
	if !v.IsValid() {
		return
	}
	switch v.Kind() {
	case reflect.Interface, reflect.Pointer:
		if !v.IsNil() {
			walkStrings(v.Elem(), into)
		}
	case reflect.String:
		into[v.String()] = true
	case reflect.Slice, reflect.Array:
		for i := 0; i < v.Len(); i++ {
			walkStrings(v.Index(i), into)
		}
	case reflect.Map:
		it := v.MapRange()
		for it.Next() {
			walkStrings(it.Key(), into)
			walkStrings(it.Value(), into)
		}
	}
}
