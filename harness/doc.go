package main

import (
	"bytes"
	"encoding/json"
	"fmt"
	"math/big"
	"sort"
	"strconv"
	"strings"
)

// Doc is a JSON document: member order and duplicates are kept, numbers keep their literal.
type Doc interface{ isDoc() }
type (
	DNull struct{}
	DBool bool
	DNum  string // the JSON number literal
	DStr  string
	DArr  []Doc
	DMem  struct {
		K string
		V Doc
	}
	DObj []DMem
)

func (DNull) isDoc() {}
func (DBool) isDoc() {}
func (DNum) isDoc()  {}
func (DStr) isDoc()  {}
func (DArr) isDoc()  {}
func (DObj) isDoc()  {}

func obj(kv ...any) DObj {
	var o DObj
	for i := 0; i+1 < len(kv); i += 2 {
		o = append(o, DMem{kv[i].(string), toDoc(kv[i+1])})
	}
	return o
}
func toDoc(v any) Doc {
	switch x := v.(type) {
	case Doc:
		return x
	case nil:
		return DNull{}
	case bool:
		return DBool(x)
	case int:
		return DNum(strconv.Itoa(x))
	case string:
		return DStr(x)
	case []Doc:
		return DArr(x)
	case []string:
		var a DArr
		for _, s := range x {
			a = append(a, DStr(s))
		}
		if a == nil {
			a = DArr{}
		}
		return a
	}
	panic(fmt.Sprintf("toDoc: %T", v))
}
func (o DObj) get(k string) (Doc, bool) {
	for _, m := range o {
		if m.K == k {
			return m.V, true
		}
	}
	return nil, false
}

// JSON text
func renderJSON(d Doc) string {
	var b strings.Builder
	writeJSON(&b, d)
	return b.String()
}
func writeJSON(b *strings.Builder, d Doc) {
	switch x := d.(type) {
	case DNull:
		b.WriteString("null")
	case DBool:
		if x {
			b.WriteString("true")
		} else {
			b.WriteString("false")
		}
	case DNum:
		b.WriteString(string(x))
	case DStr:
		bs, _ := json.Marshal(string(x))
		b.Write(bs)
	case DArr:
		b.WriteByte('[')
		for i, e := range x {
			if i > 0 {
				b.WriteByte(',')
			}
			writeJSON(b, e)
		}
		b.WriteByte(']')
	case DObj:
		b.WriteByte('{')
		for i, m := range x {
			if i > 0 {
				b.WriteByte(',')
			}
			bs, _ := json.Marshal(m.K)
			b.Write(bs)
			b.WriteByte(':')
			writeJSON(b, m.V)
		}
		b.WriteByte('}')
	default:
		panic("writeJSON")
	}
}

// parseDoc reads JSON text into a Doc (order-preserving).
func parseDoc(text []byte) (Doc, error) {
	dec := json.NewDecoder(strings.NewReader(string(text)))
	dec.UseNumber()
	d, err := parseDocTok(dec)
	if err != nil {
		return nil, err
	}
	if dec.More() {
		return nil, fmt.Errorf("trailing data")
	}
	return d, nil
}
func parseDocTok(dec *json.Decoder) (Doc, error) {
	t, err := dec.Token()
	if err != nil {
		return nil, err
	}
	switch x := t.(type) {
	case nil:
		return DNull{}, nil
	case bool:
		return DBool(x), nil
	case json.Number:
		return DNum(string(x)), nil
	case string:
		return DStr(x), nil
	case json.Delim:
		switch x {
		case '[':
			a := DArr{}
			for dec.More() {
				e, err := parseDocTok(dec)
				if err != nil {
					return nil, err
				}
				a = append(a, e)
			}
			if _, err := dec.Token(); err != nil {
				return nil, err
			}
			return a, nil
		case '{':
			o := DObj{}
			for dec.More() {
				kt, err := dec.Token()
				if err != nil {
					return nil, err
				}
				v, err := parseDocTok(dec)
				if err != nil {
					return nil, err
				}
				o = append(o, DMem{kt.(string), v})
			}
			if _, err := dec.Token(); err != nil {
				return nil, err
			}
			return o, nil
		}
	}
	return nil, fmt.Errorf("unexpected token %v", t)
}

// S-expressions for the model
func sxStr(s string) string {
	var b strings.Builder
	for i, r := range []rune(s) {
		if i > 0 {
			b.WriteByte(' ')
		}
		b.WriteString(strconv.Itoa(int(r)))
	}
	return b.String()
}
func ratOf(lit string) *big.Rat {
	r, ok := new(big.Rat).SetString(lit)
	if !ok {
		panic("bad number literal " + lit)
	}
	return r
}
func numForm(lit string) string {
	if strings.Contains(lit, ".") {
		return "f"
	}
	if strings.ContainsAny(lit, "eE") {
		return "e"
	}
	return "i"
}
func sxDoc(d Doc) string {
	var b strings.Builder
	writeSxDoc(&b, d)
	return b.String()
}
func writeSxDoc(b *strings.Builder, d Doc) {
	switch x := d.(type) {
	case DNull:
		b.WriteString("(null)")
	case DBool:
		if x {
			b.WriteString("(t)")
		} else {
			b.WriteString("(f)")
		}
	case DNum:
		// every number of a schema document is read into a float64 (or an int32): the
		// model gets the exact value of that float64
		r := ratOfFloat64Lit(string(x))
		fmt.Fprintf(b, "(n %s %s %s)", numForm(string(x)), r.Num().String(), r.Denom().String())
	case DStr:
		b.WriteString("(s")
		if x != "" {
			b.WriteByte(' ')
			b.WriteString(sxStr(string(x)))
		}
		b.WriteByte(')')
	case DArr:
		b.WriteString("(a")
		for _, e := range x {
			b.WriteByte(' ')
			writeSxDoc(b, e)
		}
		b.WriteByte(')')
	case DObj:
		b.WriteString("(o")
		for _, m := range x {
			b.WriteString(" ((")
			b.WriteString(sxStr(m.K))
			b.WriteString(") ")
			writeSxDoc(b, m.V)
			b.WriteByte(')')
		}
		b.WriteByte(')')
	}
}

// canonical printing of a document for observations (numbers by value, binary digits)
func ratBits(r *big.Rat) string {
	n := r.Num()
	s := "0"
	if n.Sign() > 0 {
		s = "+" + n.Text(2)
	} else if n.Sign() < 0 {
		s = "-" + new(big.Int).Abs(n).Text(2)
	}
	return s + "/" + r.Denom().Text(2)
}
func dotted(s string) string { return strings.ReplaceAll(sxStr(s), " ", ".") }

// canonDoc prints a document for comparison: numbers by value; object members sorted by
// name (member order of a schema object is not an observable of any property) except inside
// the value of a "properties" member, whose order C19 prescribes.
func canonDoc(d Doc) string { return canonDocP(d, false) }

func canonDocP(d Doc, keepOrder bool) string {
	switch x := d.(type) {
	case DNull:
		return "null"
	case DBool:
		if x {
			return "t"
		}
		return "f"
	case DNum:
		// every number of a schema document is a float64 to the package
		return "n" + ratBits(ratOfFloat64Lit(string(x)))
	case DStr:
		return "s[" + dotted(string(x)) + "]"
	case DArr:
		parts := make([]string, len(x))
		for i, e := range x {
			parts[i] = canonDocP(e, false)
		}
		return "a(" + strings.Join(parts, ",") + ")"
	case DObj:
		ms := append(DObj{}, x...)
		if !keepOrder {
			sort.SliceStable(ms, func(i, j int) bool { return ms[i].K < ms[j].K })
		}
		parts := make([]string, len(ms))
		for i, m := range ms {
			parts[i] = "[" + dotted(m.K) + "]:" + canonDocP(m.V, m.K == "properties")
		}
		return "o(" + strings.Join(parts, ",") + ")"
	}
	panic("canonDoc")
}

// collect strings: all string values and member names
func collectStrings(d Doc, into map[string]bool) {
	switch x := d.(type) {
	case DStr:
		into[string(x)] = true
	case DArr:
		for _, e := range x {
			collectStrings(e, into)
		}
	case DObj:
		for _, m := range x {
			into[m.K] = true
			collectStrings(m.V, into)
		}
	}
}

// collectPatterns gathers every string that the package may compile as a regexp:
// values of "pattern" and member names of "patternProperties" objects, at any depth.
// Strings under "default" are collected into defaults (they are validated by ValidateDefaults).
func collectPatterns(d Doc, pats map[string]bool, defaults map[string]bool) {
	switch x := d.(type) {
	case DArr:
		for _, e := range x {
			collectPatterns(e, pats, defaults)
		}
	case DObj:
		for _, m := range x {
			if m.K == "pattern" {
				if s, ok := m.V.(DStr); ok {
					pats[string(s)] = true
				}
			}
			if m.K == "patternProperties" {
				if o, ok := m.V.(DObj); ok {
					for _, mm := range o {
						pats[mm.K] = true
					}
				}
			}
			if m.K == "default" {
				collectStrings(m.V, defaults)
			}
			collectPatterns(m.V, pats, defaults)
		}
	}
}

func sortedKeys(m map[string]bool) []string {
	ks := make([]string, 0, len(m))
	for k := range m {
		ks = append(ks, k)
	}
	sort.Strings(ks)
	return ks
}

// canonJSONExact prints a JSON value for comparison: numbers by their exact value, members sorted.
func canonJSONExact(d Doc) string {
	switch x := d.(type) {
	case DNull:
		return "null"
	case DBool:
		if x {
			return "t"
		}
		return "f"
	case DNum:
		return "n" + ratBits(ratOf(string(x)))
	case DStr:
		return "s[" + dotted(string(x)) + "]"
	case DArr:
		parts := make([]string, len(x))
		for i, e := range x {
			parts[i] = canonJSONExact(e)
		}
		return "a(" + strings.Join(parts, ",") + ")"
	case DObj:
		ms := append(DObj{}, x...)
		sort.SliceStable(ms, func(i, j int) bool { return ms[i].K < ms[j].K })
		parts := make([]string, len(ms))
		for i, m := range ms {
			parts[i] = "[" + dotted(m.K) + "]:" + canonJSONExact(m.V)
		}
		return "o(" + strings.Join(parts, ",") + ")"
	}
	panic("canonJSONExact")
}

// decodeExact decodes JSON text into map[string]any / []any / json.Number / string / bool / nil.
func decodeExact(text []byte) any {
	dec := json.NewDecoder(bytes.NewReader(text))
	dec.UseNumber()
	var x any
	if err := dec.Decode(&x); err != nil {
		return nil
	}
	return x
}
