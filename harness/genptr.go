package main

import (
	"fmt"
	"math/big"
	"strconv"
	"strings"
)

// Generator G-ptr (C17): a tree with subschemas under every schema-holding keyword of
// both drafts, keyed by hostile strings, and one $ref per location written as the RFC 6901
// pointer of that location (percent-encoded as a URI fragment), plus invalid pointers.
// Node k rejects exactly the instances {"m<k>": 0} (through dependentRequired, or the
// array form of dependencies in draft-07), so the verdict matrix identifies the target.

var ptrKeyPool = []string{"", "/", "~", "~0", "~1", "~01", "%", "%25", " ", "a b", "é", "日本", "0", "1", "-", "+1", "01", "a/b", "a~b", "#", "?", "\"", "\\", "A", "not", "properties"}
var ptrPatPool = []string{"^a", "b$", ".", "^$", "a|b", "[0-9]", "~", "/", "%"}

type ptrGen struct {
	r      *rng
	d7     bool
	n      int
	locs   []string // rendered pointers of every node
	marker []string
}

func (g *ptrGen) node(depth int, ptr string) Doc {
	k := g.n
	g.n++
	g.locs = append(g.locs, ptr)
	m := fmt.Sprintf("m%d", k)
	g.marker = append(g.marker, m)
	o := DObj{}
	depKey := "dependentRequired"
	if g.d7 {
		depKey = "dependencies"
	}
	deps := DObj{{m, DArr{DStr("zz")}}}
	if depth > 0 {
		singles := []string{"items", "contains", "additionalProperties", "propertyNames", "contentSchema", "not", "if", "then", "else"}
		arrays := []string{"allOf", "anyOf", "oneOf"}
		maps := []string{"properties", "patternProperties"}
		if g.d7 {
			singles = append(singles, "additionalItems")
			arrays = append(arrays, "items")
			maps = append(maps, "definitions", "dependencies")
		} else {
			singles = append(singles, "unevaluatedItems", "unevaluatedProperties")
			arrays = append(arrays, "prefixItems")
			maps = append(maps, "$defs", "dependentSchemas")
		}
		used := map[string]bool{}
		for i := g.r.intn(4); i > 0 && g.n < 14; i-- {
			switch g.r.intn(3) {
			case 0:
				kw := pick(g.r, singles)
				if used[kw] || (kw == "items" && used["items"]) {
					continue
				}
				// in-place keywords are kept rare: they make a node reject more than its own marker
				if (kw == "not" || kw == "if" || kw == "then" || kw == "else") && !g.r.chance(1, 4) {
					continue
				}
				used[kw] = true
				o = append(o, DMem{kw, g.node(depth-1, ptr+"/"+pointerEscape(kw))})
			case 1:
				kw := pick(g.r, arrays)
				if used[kw] {
					continue
				}
				if kw != "prefixItems" && kw != "items" && !g.r.chance(1, 3) {
					continue
				}
				used[kw] = true
				a := DArr{}
				for j := 0; j < 1+g.r.intn(3); j++ {
					a = append(a, g.node(depth-1, fmt.Sprintf("%s/%s/%d", ptr, kw, j)))
				}
				o = append(o, DMem{kw, a})
			default:
				kw := pick(g.r, maps)
				if used[kw] {
					continue
				}
				used[kw] = true
				mm := DObj{}
				pool := ptrKeyPool
				if kw == "patternProperties" {
					pool = ptrPatPool
				}
				for _, key := range shuffled(g.r, pool)[:1+g.r.intn(3)] {
					mm = append(mm, DMem{key, g.node(depth-1, ptr+"/"+pointerEscape(kw)+"/"+pointerEscape(key))})
				}
				if kw == "dependencies" {
					deps = append(deps, mm...)
				} else {
					o = append(o, DMem{kw, mm})
				}
			}
		}
	}
	o = append(o, DMem{depKey, deps})
	return o
}

func genPtrCase(r *rng, id string) *ValCase {
	g := &ptrGen{r: r, d7: r.chance(1, 3)}
	tree := g.node(3, "#/"+map[bool]string{true: "definitions", false: "$defs"}[g.d7]+"/t")
	props := DObj{}
	nh := 0
	hold := func(ref string) {
		props = append(props, DMem{fmt.Sprintf("h%d", nh), DObj{{"$ref", DStr(ref)}}})
		nh++
	}
	order := shuffled(r, g.locs)
	for i, l := range order {
		if i >= 7 {
			break
		}
		hold(l)
	}
	if r.chance(1, 3) {
		// a near miss of a valid pointer: a non-canonical spelling that must not alias it
		l := pick(r, g.locs)
		var cands []string
		if i := strings.LastIndex(l, "/"); i >= 0 {
			last := l[i+1:]
			head := l[:i+1]
			if strings.Contains(last, "~0") {
				cands = append(cands, head+strings.Replace(last, "~0", "~", 1), head+strings.Replace(last, "~0", "~2", 1))
			}
			if strings.Contains(last, "~1") {
				cands = append(cands, head+strings.Replace(last, "~1", "~", 1))
			}
			if last != "" && last[0] >= '0' && last[0] <= '9' && !strings.Contains(head[:len(head)-1], "properties") && !strings.Contains(head, "efs/") && !strings.Contains(head, "definitions/") && !strings.Contains(head, "dependen") {
				cands = append(cands, head+"+"+last, head+"0"+last, head+last+" ", head+"-"+last)
				// the index plus a multiple of 2^64 / 2^32: must not wrap around to the same element
				if n, err := strconv.Atoi(last); err == nil {
					cands = append(cands, head+new(big.Int).Add(new(big.Int).Lsh(big.NewInt(1), 64), big.NewInt(int64(n))).String(),
						head+new(big.Int).Add(new(big.Int).Lsh(big.NewInt(1), 32), big.NewInt(int64(n))).String())
				}
			}
			cands = append(cands, l+"~", head+strings.ToUpper(last))
		}
		if len(cands) > 0 {
			hold(pick(r, cands))
		}
	}
	if r.chance(1, 3) {
		// an array element addressed by its index plus a multiple of 2^64 or 2^32: never the element
		var idxLocs []string
		for _, l := range g.locs {
			i := strings.LastIndex(l, "/")
			if i < 0 || i+1 >= len(l) {
				continue
			}
			last, head := l[i+1:], l[:i+1]
			if _, err := strconv.Atoi(last); err == nil && last[0] != '-' && last[0] != '+' &&
				(strings.HasSuffix(head, "Of/") || strings.HasSuffix(head, "prefixItems/") || strings.HasSuffix(head, "/items/")) {
				idxLocs = append(idxLocs, l)
			}
		}
		if len(idxLocs) > 0 {
			l := pick(r, idxLocs)
			i := strings.LastIndex(l, "/")
			n, _ := strconv.Atoi(l[i+1:])
			sh := pick(r, []uint{64, 64, 32, 63, 65})
			hold(l[:i+1] + new(big.Int).Add(new(big.Int).Lsh(big.NewInt(1), sh), big.NewInt(int64(n))).String())
		}
	}
	if r.chance(1, 4) {
		base := pick(r, g.locs)
		bad := pick(r, []string{base + "/", base + "/nope", base + "/dependentRequired", base + "/allOf/-", base + "/allOf/+0", base + "/allOf/00",
			base + "/allOf/99", base + "/prefixItems/-1", base + "/allOf/18446744073709551616", base + "/allOf/18446744073709551617", base + "/prefixItems/18446744073709551616",
			base + "/allOf/4294967296", base + "/allOf/4294967297", base + "/anyOf/99999999999999999999", base + "/allOf/0x0", base + "/allOf/1_0", base + "/allOf/1e0", base + "/properties/~2", base + "/properties/~", base + "/NOT", base + "/not", base + "/items/0/0",
			strings.Replace(base, "/t", "/T", 1), base + "/$defs", base + "/type", "#/", "#//", base + "/properties/%", base + "/if/then"})
		hold(bad)
	}
	defsKey := "$defs"
	root := DObj{}
	if g.d7 {
		defsKey = "definitions"
		root = append(root, DMem{"$schema", DStr("http://json-schema.org/draft-07/schema#")})
	}
	defs := DObj{{"t", tree}}
	if r.chance(1, 3) && len(g.locs) > 1 {
		// an anchor spelled like the JSON pointer of another subschema: a fragment that begins with
		// '/' is a pointer, it must reach the location it spells and never this anchor
		spelled := strings.TrimPrefix(pick(r, g.locs[1:]), "#")
		decoy := DObj{{"$anchor", DStr(spelled)}, {"required", toDoc([]string{"decoy"})}}
		if g.d7 {
			decoy = DObj{{"$id", DStr("#" + spelled)}, {"required", toDoc([]string{"decoy"})}}
		}
		if r.chance(1, 2) {
			defs = append(DObj{{"a_decoy", decoy}}, defs...)
		} else {
			defs = append(defs, DMem{"z_decoy", decoy})
		}
		hold("#" + spelled)
	}
	root = append(root, DMem{"properties", props}, DMem{defsKey, defs})
	c := &ValCase{ID: id, Doc: root, NoLoader: true}
	for h := 0; h < nh; h++ {
		for _, m := range g.marker {
			c.Insts = append(c.Insts, canonInst(DObj{{fmt.Sprintf("h%d", h), DObj{{m, DNum("0")}}}}))
		}
	}
	c.Insts = append(c.Insts, canonInst(DObj{{"h0", DObj{}}}))
	nt := 0
	if g.n >= 3 {
		nt = 1
	}
	c.Note = fmt.Sprintf("nontrivial=%d shape=d7%v.n%d.h%d.%x", nt, g.d7, g.n, nh, fnv(renderJSON(root)))
	return c
}

func init() {
	families["ptr"] = func(r *rng, id string) Case { return genPtrCase(r, id) }
}
