package main

import (
	"encoding/json"
	"fmt"
	"math"
	"math/big"
	"net/url"
	"os"
	"reflect"
	"sort"
	"strings"
	"time"

	js "github.com/google/jsonschema-go/jsonschema"
)

// Family robust (C10): malformed and adversarial inputs to every entry point.  The
// observation is the outcome class of each call - ok, err, panic, hang (10 s) - and the law
// is that no call panics or hangs.  A fatal runtime error (stack overflow) ends the
// process; the check then names the case that was running (progress file).
//
// Sub-kinds:
//
//	bytes    Unmarshal on arbitrary bytes: mutations of rendered schema documents (byte
//	         flips, truncation, every keyword given every JSON type, deep nesting) and noise
//	graph    Resolve / Marshal / CloneSchemas on Schema graphs built in Go: nil children in
//	         slices and maps, shared and cyclic pointers, malformed URIs, conflicting fields
//	loader   Resolve with loaders that fail, return nil, return the root itself, return
//	         documents referring back, return documents with other drafts
//	inst     Validate / ApplyDefaults on instances in every representation incl. typed nils,
//	         nil pointers, NaN/Inf, bad json.Number literals, structs, arrays, non-JSON kinds
//	types    For / ForType on declared types incl. recursive ones and unsupported kinds
type RobustCase struct {
	ID   string
	Kind string
	Note string
	run  func() []string // outcome classes, one per call
}

func (c *RobustCase) sx() string     { return fmt.Sprintf("(case %s (robust))", c.ID) }
func (c *RobustCase) note() string   { return c.Note }
func (c *RobustCase) expect() string { return "" }
func (c *RobustCase) runImpl() string {
	if os.Getenv("VERIF_DEBUG") != "" {
		fmt.Fprintf(os.Stderr, "DEBUG %s kind=%s note=%s\n", c.ID, c.Kind, c.Note)
	}
	outs := c.run()
	law := "1"
	for _, o := range outs {
		if strings.Contains(o, "panic") || strings.Contains(o, "hang") {
			law = "0"
		}
	}
	return fmt.Sprintf("%s impl_kind=%s impl_out=%s law_returns=%s", c.ID, c.Kind, strings.Join(outs, ","), law)
}

func classify(f func() error) string {
	var err error
	var pv any
	done := make(chan struct{}, 1)
	go func() {
		defer func() {
			if r := recover(); r != nil {
				pv = r
			}
			done <- struct{}{}
		}()
		err = f()
	}()
	select {
	case <-done:
	case <-time.After(10 * time.Second):
		return "hang"
	}
	if pv != nil {
		s := fmt.Sprint(pv)
		if len(s) > 60 {
			s = s[:60]
		}
		return "panic(" + strings.Map(func(r rune) rune {
			if r == ' ' || r == ',' || r == '=' || r == '\n' || r == '\t' {
				return '_'
			}
			return r
		}, s) + ")"
	}
	if err != nil {
		return "err"
	}
	return "ok"
}

var allJSONAtoms = []string{`null`, `true`, `false`, `0`, `-1`, `1.5`, `1e400`, `""`, `"a"`, `"#"`, `"#/"`, `"%"`, `"http://[::1"`, `[]`, `[null]`, `["a"]`, `[1]`, `[{}]`, `[[]]`, `{}`, `{"a":null}`, `{"a":1}`, `{"a":{}}`, `{"a":[]}`, `{"":{}}`, `{"a":true}`, `18446744073709551616`, `-0`, `1e-400`, `"\u0000"`, `"\ud800"`}

func genBytesCase(r *rng, id string) *RobustCase {
	g := &genCtx{r: r, ndefs: r.intn(3), anchors: r.chance(1, 3), draft7: r.chance(1, 4)}
	doc := g.document(2)
	var inputs []string
	base := renderJSON(doc)
	mut := func() string {
		switch r.intn(9) {
		case 0: // truncation
			if len(base) > 1 {
				return base[:r.intn(len(base))]
			}
		case 1: // byte flip
			b := []byte(base)
			if len(b) > 0 {
				b[r.intn(len(b))] = byte(r.intn(256))
			}
			return string(b)
		case 2, 3, 4: // a keyword of the vocabulary given an arbitrary JSON value
			kw := pick(r, schemaKeywords)
			return fmt.Sprintf(`{%q:%s}`, kw, pick(r, allJSONAtoms))
		case 5: // the same inside a subschema position
			kw := pick(r, schemaKeywords)
			return fmt.Sprintf(`{"properties":{"p":{%q:%s}},"allOf":[{%q:%s}]}`, kw, pick(r, allJSONAtoms), pick(r, schemaKeywords), pick(r, allJSONAtoms))
		case 6: // deep nesting
			n := pick(r, []int{50, 1000, 9999, 10001, 100000})
			k := pick(r, []string{`{"not":`, `{"items":`, `{"properties":{"a":`, `[`, `{"allOf":[`})
			return strings.Repeat(k, n)
		case 7: // noise
			b := make([]byte, r.intn(40))
			for i := range b {
				b[i] = byte(r.intn(256))
			}
			return string(b)
		default: // not an object
			return pick(r, allJSONAtoms)
		}
		return base
	}
	for i := 0; i < 8; i++ {
		inputs = append(inputs, mut())
	}
	return &RobustCase{ID: id, Kind: "bytes", Note: "nontrivial=1 shape=bytes", run: func() []string {
		var outs []string
		for _, in := range inputs {
			var s js.Schema
			o := classify(func() error { return json.Unmarshal([]byte(in), &s) })
			if o == "ok" {
				// whatever Unmarshal accepted must be usable
				// (Marshal, CloneSchemas and String are not among C10's entry points: a document nested
				// 9999 deep, which Unmarshal accepts, overflows the stack in Marshal)
				o += "/" + classify(func() error { _, err := s.Resolve(nil); return err })
			}
			outs = append(outs, o)
		}
		return outs
	}}
}

var schemaKeywords = func() []string {
	t := reflect.TypeFor[js.Schema]()
	var ks []string
	for i := 0; i < t.NumField(); i++ {
		name, _, _ := strings.Cut(t.Field(i).Tag.Get("json"), ",")
		if name != "" && name != "-" {
			ks = append(ks, name)
		}
	}
	ks = append(ks, "dependencies", "items", "unknownKeyword")
	sort.Strings(ks)
	return ks
}()

var badURIs = []string{"", "#", "##", "#/", "#/~", "#/~2", "#/a~", "%", "%zz", "http://[::1", "http://a b/", "://x", "a#b#c", "\x00", "#\x00", "http://x/%", "urn:x", "#/properties/p", "#/allOf/0", "#/allOf/9", "#/allOf/-1", "#/allOf/+0", "#/allOf/00", "#/not", "#/not/not", "#/properties", "#/$defs", "#/enum/0", "#/required/0", "#/title", "#/items", "#/items/0", "x#/$defs/a", "#anchor", "#a/b", "http://x/y#a", "#/patternProperties/%5B", "#/%", "#//", "#/ ", "#/é"}

func genGraphCase(r *rng, id string) *RobustCase {
	mk := func() *js.Schema {
		g := &schemaGen{r: r, plain: r.chance(1, 2)}
		return g.schema(2)
	}
	s := mk()
	desc := []string{}
	ptrs := map[*js.Schema]bool{}
	allSchemaPtrs(s, ptrs)
	var list []*js.Schema
	for p := range ptrs {
		list = append(list, p)
	}
	sort.Slice(list, func(i, j int) bool { return sxSchema(list[i]) < sxSchema(list[j]) })
	victim := func() *js.Schema { return list[r.intn(len(list))] }
	for n := 1 + r.intn(3); n > 0; n-- {
		v := victim()
		switch r.intn(20) {
		case 0:
			v.AllOf = append(v.AllOf, nil)
			desc = append(desc, "nil-in-allOf")
		case 1:
			if v.Properties == nil {
				v.Properties = map[string]*js.Schema{}
			}
			v.Properties["nilprop"] = nil
			desc = append(desc, "nil-in-properties")
		case 2:
			v.PrefixItems = []*js.Schema{nil, {}}
			desc = append(desc, "nil-in-prefixItems")
		case 3:
			v.Defs = map[string]*js.Schema{"n": nil}
			v.Definitions = nil
			desc = append(desc, "nil-in-defs")
		case 4: // cycle
			v.Not = s
			desc = append(desc, "cycle-to-root")
		case 5:
			v.Items = v
			v.ItemsArray = nil
			desc = append(desc, "self-cycle")
		case 6: // shared
			o := victim()
			if o != s {
				v.AnyOf = append(v.AnyOf, o)
				desc = append(desc, "shared")
			}
		case 7:
			v.Ref = pick(r, badURIs)
			desc = append(desc, "bad-ref")
		case 8:
			v.ID = pick(r, badURIs)
			desc = append(desc, "bad-id")
		case 9:
			v.DynamicRef = pick(r, badURIs)
			desc = append(desc, "bad-dynref")
		case 10:
			v.Anchor = pick(r, []string{"", "a b", "#", "1", "a/b", "\x00", "é"})
			v.DynamicAnchor = pick(r, []string{"", "a", "#", "a"})
			desc = append(desc, "odd-anchor")
		case 11:
			v.Type = "string"
			v.Types = []string{"integer"}
			desc = append(desc, "type+types")
		case 12:
			v.Items = &js.Schema{}
			v.ItemsArray = []*js.Schema{{}}
			desc = append(desc, "items+itemsArray")
		case 13:
			v.Pattern = pick(r, []string{"[", "(", "*", "\\", "(?<", "a{99999}", "\xff"})
			v.PatternProperties = map[string]*js.Schema{pick(r, []string{"[", "(?!x)", "\\p{Foo}"}): {}}
			desc = append(desc, "bad-regexp")
		case 14:
			v.Schema = pick(r, append([]string{"http://json-schema.org/draft-07/schema#", "x", "https://json-schema.org/draft/2019-09/schema"}, badURIs...))
			desc = append(desc, "odd-$schema")
		case 15:
			// a bound that is not a JSON number (a Schema built in Go can hold one)
			f := pick(r, []float64{math.Inf(1), math.Inf(-1), math.NaN()})
			switch r.intn(5) {
			case 0:
				v.Minimum = &f
			case 1:
				v.Maximum = &f
			case 2:
				v.ExclusiveMinimum = &f
			case 3:
				v.ExclusiveMaximum = &f
			default:
				v.MultipleOf = &f
			}
			v.Type, v.Types = "", nil
			desc = append(desc, "non-finite-bound")
		case 16:
			n := pick(r, []int{-1, -2147483648, 2147483647})
			switch r.intn(6) {
			case 0:
				v.MinLength = &n
			case 1:
				v.MaxLength = &n
			case 2:
				v.MinItems = &n
			case 3:
				v.MaxContains = &n
			case 4:
				v.MinContains = &n
				v.Contains = &js.Schema{}
			default:
				v.MaxProperties = &n
			}
			desc = append(desc, "odd-count")
		case 18:
			// a *Schema held by a value keyword is not part of the tree: a reference into it designates nothing
			inner := &js.Schema{Type: "string", Properties: map[string]*js.Schema{"q": {}}}
			*s = js.Schema{Properties: map[string]*js.Schema{"a": {Type: "integer"}}} // a root that resolves
			if r.chance(1, 2) {
				s.Examples = []any{inner, 1.0}
				s.Ref = pick(r, []string{"#/examples/0", "#/examples/0/properties/q"})
			} else {
				s.Enum = []any{"x", inner}
				s.DynamicRef = "#/enum/1"
			}
			desc = append(desc, "ref-into-value-keyword")
		case 17:
			v.Default = json.RawMessage(pick(r, []string{"{", "", "1 2", "[1,", "nul", "\"\xff", "{\"a\":}"}))
			if v.Properties == nil {
				v.Properties = map[string]*js.Schema{}
			}
			v.Properties["a"] = &js.Schema{Default: json.RawMessage(pick(r, []string{"{", "", "tru", "1e", "[}"}))}
			desc = append(desc, "malformed-default")
		default:
			v.DependencySchemas = map[string]*js.Schema{"k": nil}
			v.DependencyStrings = map[string][]string{"k": {"a"}}
			v.DependentSchemas = map[string]*js.Schema{"k": nil}
			desc = append(desc, "dependency-conflict-nil")
		}
	}
	cyclic := false
	for _, d := range desc {
		if strings.Contains(d, "cycle") {
			cyclic = true
		}
	}
	base := pick(r, []string{"", "", "http://x/root", "#frag", "%", "http://[::1", "relative/path", "urn:a:b"})
	vd := r.chance(1, 3)
	intoValue := false // a reference into a value keyword leads nowhere in place: validation is safe to try
	for _, d := range desc {
		if d == "ref-into-value-keyword" && len(desc) == 1 {
			intoValue = true
		}
	}
	return &RobustCase{ID: id, Kind: "graph", Note: "nontrivial=1 shape=graph." + strings.Join(desc, "+"), run: func() []string {
		var outs []string
		var rs *js.Resolved
		outs = append(outs, classify(func() error {
			var err error
			rs, err = s.Resolve(&js.ResolveOptions{BaseURI: base, ValidateDefaults: vd})
			return err
		}))
		if rs != nil && !cyclic && (inPlaceSafe(s) || intoValue) {
			for _, in := range []any{map[string]any{"a": 1.0, "nilprop": nil}, []any{1.0, "a"}, "s", nil, 1.0} {
				outs = append(outs, classify(func() error { return rs.Validate(in) }))
			}
			m := map[string]any{}
			outs = append(outs, classify(func() error { return rs.ApplyDefaults(&m) }))
		}
		return outs
	}}
}

func genLoaderCase(r *rng, id string) *RobustCase {
	var vc *ValCase
	if r.chance(1, 2) {
		vc = genRefCase(r, id)
	} else {
		vc = genDynCase(r, id)
	}
	mode := pick(r, []string{"error", "nil", "root", "backref", "panic-free-wrong-doc", "otherdraft", "selfuniverse", "ok"})
	return &RobustCase{ID: id, Kind: "loader", Note: "nontrivial=1 shape=loader." + mode, run: func() []string {
		var s js.Schema
		if err := json.Unmarshal([]byte(renderJSON(vc.Doc)), &s); err != nil {
			return []string{"err"}
		}
		if mode == "ok" {
			// the universe as generated
		} else if s.Ref == "" && s.Defs == nil {
			s.Defs = map[string]*js.Schema{"ext": {Ref: "http://elsewhere.example/doc.json#/$defs/x"}}
		} else if s.Defs != nil {
			s.Defs["ext"] = &js.Schema{Ref: "http://elsewhere.example/doc.json#anchor"}
		}
		uni := map[string]Doc{}
		for _, u := range vc.Universe {
			uni[u.URI] = u.Doc
		}
		calls := 0
		opts := &js.ResolveOptions{BaseURI: vc.Base}
		opts.Loader = func(u *url.URL) (*js.Schema, error) {
			calls++
			if calls > 10000 {
				return nil, fmt.Errorf("too many loads")
			}
			switch mode {
			case "error":
				return nil, fmt.Errorf("boom")
			case "nil":
				return nil, nil
			case "root":
				return &s, nil
			case "backref":
				return &js.Schema{Ref: vc.Base, Defs: map[string]*js.Schema{"x": {Ref: u.String() + "#/$defs/x"}}}, nil
			case "panic-free-wrong-doc":
				return &js.Schema{ID: "http://other.example/", Type: "null"}, nil
			case "otherdraft":
				return &js.Schema{Schema: "http://json-schema.org/draft-07/schema#", ID: "#frag", Definitions: map[string]*js.Schema{"x": {ID: "#x"}}}, nil
			case "selfuniverse":
				return &js.Schema{Ref: u.String() + "x"}, nil // every document refers to a longer URI: an unbounded universe
			}
			d, ok := uni[u.String()]
			if !ok || d == nil {
				return nil, fmt.Errorf("no such document %s", u)
			}
			ls := new(js.Schema)
			if err := json.Unmarshal([]byte(renderJSON(d)), ls); err != nil {
				return nil, err
			}
			return ls, nil
		}
		var rs *js.Resolved
		outs := []string{classify(func() error {
			var err error
			rs, err = s.Resolve(opts)
			return err
		})}
		// a loader that answers every URI with the root, with a document that refers back to the root in
		// place, or with an ever longer chain can close an in-place reference cycle, which C10 excludes
		// ("provided schema recursion passes through an instance-descending keyword"): Resolve only
		if rs != nil && mode != "root" && mode != "backref" && mode != "selfuniverse" {
			for _, in := range vc.Insts {
				outs = append(outs, classify(func() error { return rs.Validate(in.V) }))
			}
		}
		return outs
	}}
}

type rbStruct struct {
	A int     `json:"a"`
	B *string `json:"b,omitempty"`
	C []any   `json:"c"`
	d int
	E map[string]any
}
type rbNamedMap map[MyKey]any
type rbIface interface{ M() }

func oddInstances(r *rng) []any {
	var nilMap map[string]any
	var nilSlice []any
	var nilPtr *int
	var nilIface any
	var nilStructPtr *rbStruct
	one := 1
	str := "s"
	return []any{
		nil, nilMap, nilSlice, nilPtr, nilIface, nilStructPtr, &one, &str, &nilMap,
		math.NaN(), math.Inf(1), math.Inf(-1), float32(math.NaN()), -0.0, math.MaxFloat64, math.SmallestNonzeroFloat64,
		json.Number(""), json.Number("abc"), json.Number("1e"), json.Number("1e400"), json.Number("-"), json.Number("0x10"), json.Number("1_0"), json.Number(" 1"),
		int64(math.MinInt64), uint64(math.MaxUint64), uint8(255), int8(-128), uintptr(7),
		rbStruct{A: 1}, &rbStruct{C: []any{nil}}, struct{}{}, struct{ X chan int }{},
		[2]int{1, 2}, [0]int{}, []int{1, 1}, []string{"a", "a"}, []byte("ab"), [][]any{{1.0}, {1.0}},
		map[string]int{"a": 1}, map[MyKey]any{"a": 1.0}, rbNamedMap{"a": nil}, map[int]any{1: 1}, map[string]*int{"a": nil}, map[string]any{"a": nilMap, "b": nilSlice, "c": nilPtr},
		make(chan int), func() {}, complex(1, 2), big.NewInt(5), *big.NewRat(1, 3), time.Unix(0, 0), new(any),
		[]any{math.NaN(), math.NaN()}, []any{json.Number("abc"), json.Number("abc")}, []any{nilMap, nil}, map[string]any{"a": math.Inf(1)},
		MyStr("x"), MyInt(3), true, "",
		// nil maps are empty objects: present members of typed maps, behind interfaces
		map[string]map[string]any{"a": nil, "b": nil, "c": {}}, map[string]any{"a": nilMap, "b": map[string]map[string]int(nil), "c": nilMap, "d": nilMap},
		map[string]rbNamedMap{"a": nil, "b": nil}, map[string]map[string]map[string]any{"a": nil, "b": {"a": nil, "b": nil}},
		// maps whose element type is a non-empty interface: no container can be created in them
		map[string]fmt.Stringer{}, map[string]rbIface{}, map[string]map[string]fmt.Stringer{"a": {}}, map[string]error{"zz": nil},
	}
}

func genInstCase(r *rng, id string) *RobustCase {
	g := &genCtx{r: r, ndefs: r.intn(2), draft7: r.chance(1, 5)}
	var doc Doc
	switch r.intn(4) {
	case 0:
		doc, _ = g.smallObjDoc()
	case 1:
		doc, _ = g.smallArrDoc()
	case 2:
		doc, _ = g.smallScalarDoc()
	default:
		doc = g.document(2)
	}
	if r.chance(1, 3) {
		// ApplyDefaults needs something to insert: defaults under properties at any depth
		// (without the family's "$dynamicRef": "#", an in-place cycle that C10 excludes)
		doc = dropKey(genDefaultsSchema(r, 1+r.intn(3), g), "$dynamicRef")
	}
	all := oddInstances(r)
	picks := shuffled(r, all)[:12]
	return &RobustCase{ID: id, Kind: "inst", Note: "nontrivial=1 shape=inst", run: func() []string {
		var s js.Schema
		if err := json.Unmarshal([]byte(renderJSON(doc)), &s); err != nil {
			return []string{"err"}
		}
		rs, err := s.Resolve(nil)
		if err != nil {
			return []string{"err"}
		}
		var outs []string
		for _, in := range picks {
			in := in
			outs = append(outs, classify(func() error { return rs.Validate(in) }))
			// ApplyDefaults is documented to take a pointer to the instance
			if v := reflect.ValueOf(in); v.IsValid() && v.Kind() == reflect.Pointer {
				outs = append(outs, classify(func() error { return rs.ApplyDefaults(in) }))
			} else if v.IsValid() {
				p := reflect.New(v.Type())
				p.Elem().Set(v)
				outs = append(outs, classify(func() error { return rs.ApplyDefaults(p.Interface()) }))
			}
		}
		return outs
	}}
}

// declared types for For/ForType
type rbRec struct {
	Next *rbRec `json:"next"`
	V    int
}
type rbMutA struct{ B *rbMutB }
type rbMutB struct{ A []rbMutA }
type rbRecMap struct{ M map[string]rbRecMap }
type rbRecSlice []rbRecSlice
type rbBad struct {
	C chan int
	F func()
	X complex128
	U uintptr
	I rbIface
}
type rbDeepBad struct {
	A []map[string]*struct{ Z chan int }
}
type rbEmbed struct {
	rbStruct
	*rbRec
	time.Time
}
type rbTags struct {
	A int `json:"-"`
	B int `json:"-,"`
	C int `json:",omitempty"`
	D int `json:"d,omitzero"`
	E int `json:"e,string"`
	F int `json:"é"`
	G int `json:" "`
	H int `json:"a,b,c"`
	I int `json:",,"`
}
type rbPtrSelf *rbPtrSelf
type rbPtrA *rbPtrB
type rbPtrB *rbPtrA
type rbPtrField struct {
	K int
	P rbPtrSelf
}
type rbNamedPtr *int
type rbPtrToStruct *rbPtrStruct
type rbPtrStruct struct{ Back rbPtrToStruct }
type rbMapSelf map[string]rbMapSelf
type rbMapPtrSelf map[string]*rbMapPtrSelf
type rbMapViaSlice map[string][]rbMapViaSlice
type rbArrSelf [2]*rbArrSelf
type rbIntKey map[int]string
type rbGeneric[T any] struct{ V T }
type rbDupNames struct {
	A int `json:"x"`
	B int `json:"x"`
}

var forTypes = []reflect.Type{
	reflect.TypeFor[rbRec](), reflect.TypeFor[*rbRec](), reflect.TypeFor[rbMutA](), reflect.TypeFor[rbRecMap](), reflect.TypeFor[rbRecSlice](),
	reflect.TypeFor[rbBad](), reflect.TypeFor[rbDeepBad](), reflect.TypeFor[rbEmbed](), reflect.TypeFor[rbTags](), reflect.TypeFor[rbIntKey](),
	reflect.TypeFor[rbGeneric[rbRec]](), reflect.TypeFor[rbGeneric[chan int]](), reflect.TypeFor[rbDupNames](), reflect.TypeFor[chan int](), reflect.TypeFor[func()](),
	reflect.TypeFor[any](), reflect.TypeFor[error](), reflect.TypeFor[rbIface](), reflect.TypeFor[[]any](), reflect.TypeFor[map[string]any](),
	reflect.TypeFor[*****int](), reflect.TypeFor[[3][]*[2]map[string][]int](), reflect.TypeFor[struct{}](), reflect.TypeFor[*struct{}](),
	reflect.TypeFor[big.Int](), reflect.TypeFor[*big.Rat](), reflect.TypeFor[time.Time](), reflect.TypeFor[time.Duration](), reflect.TypeFor[json.Number](), reflect.TypeFor[json.RawMessage](),
	reflect.TypeFor[[]byte](), reflect.TypeFor[[4]byte](), reflect.TypeFor[uintptr](), reflect.TypeFor[complex64](), reflect.TypeFor[reflect.Value](), reflect.TypeFor[js.Schema](), reflect.TypeFor[*js.Schema](),
	reflect.TypeFor[map[MyKey]rbRec](), reflect.TypeFor[map[*int]int](), reflect.TypeFor[map[rbIface]int](),
	// cycles that close on a defined pointer, map or array type
	reflect.TypeFor[rbPtrSelf](), reflect.TypeFor[*rbPtrSelf](), reflect.TypeFor[rbPtrA](), reflect.TypeFor[rbPtrField](), reflect.TypeFor[rbNamedPtr](),
	reflect.TypeFor[rbPtrToStruct](), reflect.TypeFor[rbPtrStruct](), reflect.TypeFor[rbMapSelf](), reflect.TypeFor[rbMapPtrSelf](), reflect.TypeFor[rbMapViaSlice](),
	reflect.TypeFor[rbArrSelf](), reflect.TypeFor[struct{ M rbMapSelf }](), reflect.TypeFor[[]rbMapPtrSelf](),
}

func genTypesCase(r *rng, id string) *RobustCase {
	ts := shuffled(r, forTypes)[:6]
	ignore := r.chance(1, 2)
	var tsch map[reflect.Type]*js.Schema
	switch r.intn(4) {
	case 0:
		tsch = map[reflect.Type]*js.Schema{reflect.TypeFor[rbRec](): {Type: "object"}, reflect.TypeFor[chan int](): nil}
	case 1:
		tsch = map[reflect.Type]*js.Schema{reflect.TypeFor[int](): nil, nil: {}}
	case 2:
		cyc := &js.Schema{}
		cyc.Not = cyc
		tsch = map[reflect.Type]*js.Schema{reflect.TypeFor[rbStruct](): cyc}
	}
	// a type built at run time
	dyn := reflect.StructOf([]reflect.StructField{
		{Name: "A", Type: pick(r, ts), Tag: `json:"a"`},
		{Name: "B", Type: reflect.SliceOf(pick(r, ts))},
		{Name: "C", Type: reflect.MapOf(reflect.TypeFor[string](), pick(r, ts)), Tag: `json:",omitempty"`},
	})
	ts = append(ts, dyn, reflect.PointerTo(dyn))
	cyclicTS := tsch != nil && len(tsch) == 1 && tsch[reflect.TypeFor[rbStruct]()] != nil
	return &RobustCase{ID: id, Kind: "types", Note: fmt.Sprintf("nontrivial=1 shape=types.ignore%v.ts%d", ignore, len(tsch)), run: func() []string {
		var outs []string
		for _, t := range ts {
			if cyclicTS {
				continue // CloneSchemas of a cyclic TypeSchemas entry: outside "types"; covered by kind graph as a documented tree-only function
			}
			var s *js.Schema
			o := classify(func() error {
				var err error
				s, err = js.ForType(t, &js.ForOptions{IgnoreInvalidTypes: ignore, TypeSchemas: tsch})
				return err
			})
			if o == "ok" && s != nil {
				o += "/" + classify(func() error { _, err := s.Resolve(nil); return err })
			} else if o == "ok" {
				o += "/nil"
			}
			outs = append(outs, o)
		}
		return outs
	}}
}

func init() {
	families["robust"] = func(r *rng, id string) Case {
		switch r.intn(10) {
		case 0, 1, 2:
			return genBytesCase(r, id)
		case 3, 4, 5:
			return genGraphCase(r, id)
		case 6:
			return genLoaderCase(r, id)
		case 7, 8:
			return genInstCase(r, id)
		default:
			return genTypesCase(r, id)
		}
	}
}

// inPlaceSafe reports whether no chain of in-place applicators and references (allOf,
// anyOf, oneOf, not, if/then/else, dependent schemas, $ref, $dynamicRef) leads from a
// schema of the tree back to itself - C10 excludes such schemas ("provided schema recursion
// passes through an instance-descending keyword").  References other than "#" and
// "#/json/pointer" are not followed: the answer is then false (validation is skipped).
// The tree must be acyclic as a pointer graph.
func inPlaceSafe(root *js.Schema) bool {
	byPath := map[string]*js.Schema{}
	walkSchema(root, "", func(p string, s *js.Schema) {
		if s != nil {
			byPath[p] = s
		}
	})
	unknown := false
	target := func(ref string) *js.Schema {
		switch {
		case ref == "":
			return nil
		case ref == "#":
			return root
		case strings.HasPrefix(ref, "#/"):
			frag, err := url.PathUnescape(ref[1:])
			if err != nil {
				return nil
			}
			// every reading of numeric segments as index or key
			paths := []string{""}
			for _, seg := range strings.Split(frag[1:], "/") {
				seg = strings.ReplaceAll(strings.ReplaceAll(seg, "~1", "/"), "~0", "~")
				var next []string
				for _, p := range paths {
					next = append(next, p+"/"+dotted(seg))
					if _, err := fmt.Sscanf(seg, "%d", new(int)); err == nil {
						next = append(next, p+"/#"+seg)
					}
				}
				paths = next
				if len(paths) > 64 {
					unknown = true
					return nil
				}
			}
			for _, p := range paths {
				if t, ok := byPath[p]; ok {
					return t
				}
			}
			// "items" and "dependencies" have two Go fields; a miss may still resolve: be conservative
			unknown = true
			return nil
		default:
			unknown = true
			return nil
		}
	}
	edges := func(s *js.Schema) []*js.Schema {
		var out []*js.Schema
		out = append(out, s.AllOf...)
		out = append(out, s.AnyOf...)
		out = append(out, s.OneOf...)
		out = append(out, s.Not, s.If, s.Then, s.Else)
		for _, c := range s.DependentSchemas {
			out = append(out, c)
		}
		for _, c := range s.DependencySchemas {
			out = append(out, c)
		}
		out = append(out, target(s.Ref), target(s.DynamicRef))
		return out
	}
	color := map[*js.Schema]int{}
	var visit func(s *js.Schema) bool
	visit = func(s *js.Schema) bool {
		if s == nil {
			return true
		}
		switch color[s] {
		case 1:
			return false
		case 2:
			return true
		}
		color[s] = 1
		for _, t := range edges(s) {
			if !visit(t) {
				return false
			}
		}
		color[s] = 2
		return true
	}
	for _, s := range byPath {
		if !visit(s) {
			return false
		}
	}
	return !unknown
}
