module verifharness

go 1.23.0

require github.com/google/jsonschema-go v0.0.0

require github.com/google/go-cmp v0.7.0 // indirect

replace github.com/google/jsonschema-go => /repo
