package main

import (
	"bytes"
	"encoding/json"
	"fmt"
	"net/url"
	"reflect"
	"strings"
	"sync"

	js "github.com/google/jsonschema-go/jsonschema"
)

// Family conc (C13): the binary is built with -race (GORACE=halt_on_error=1: the first
// report ends the process; the check names the case that was running).  Per case: one
// Schema and one Resolved shared by 8 goroutines - validators in both directions over
// all instances (map-shaped, and struct-shaped of a struct type created for this case,
// so that the process-wide tables keyed by reflect.Type are cold), goroutines that
// Resolve, Marshal and CloneSchemas the shared Schema, goroutines that ApplyDefaults
// on their own copies.  Afterwards the same calls are made one after another and every
// goroutine's results must equal the sequential ones.
type ConcCase struct {
	*ValCase
	Kind string
}

func (c *ConcCase) note() string { return c.ValCase.Note + " kind=" + c.Kind }

// structOf builds a struct value (of a type created for this call) carrying the members of m.
func structOf(m map[string]any, salt string) (any, bool) {
	var fields []reflect.StructField
	var vals []any
	i := 0
	for _, k := range sortedKeysAny(m) {
		if k == "" || k == "-" || strings.ContainsAny(k, "\",\\`:\n ") {
			return nil, false
		}
		for _, r := range k {
			if r < 0x21 || r > 0x7e {
				return nil, false
			}
		}
		fields = append(fields, reflect.StructField{
			Name: fmt.Sprintf("F%d_%s", i, salt),
			Type: reflect.TypeFor[any](),
			Tag:  reflect.StructTag(fmt.Sprintf(`json:"%s"`, k)),
		})
		vals = append(vals, m[k])
		i++
	}
	t := reflect.StructOf(fields)
	v := reflect.New(t).Elem()
	for i, x := range vals {
		if x != nil {
			v.Field(i).Set(reflect.ValueOf(x))
		}
	}
	return v.Interface(), true
}

func sortedKeysAny(m map[string]any) []string {
	b := map[string]bool{}
	for k := range m {
		b[k] = true
	}
	return sortedKeys(b)
}

// deepCopyJSON copies an instance in whatever Go representation carries it (typed maps and slices,
// arrays, pointers, interfaces): ApplyDefaults must get an instance that shares no memory with the
// ones other goroutines validate.
func deepCopyJSON(v any) any {
	if v == nil {
		return nil
	}
	return deepCopyValue(reflect.ValueOf(v)).Interface()
}

func deepCopyValue(v reflect.Value) reflect.Value {
	switch v.Kind() {
	case reflect.Map:
		if v.IsNil() {
			return v
		}
		n := reflect.MakeMapWithSize(v.Type(), v.Len())
		it := v.MapRange()
		for it.Next() {
			n.SetMapIndex(it.Key(), deepCopyValue(it.Value()))
		}
		return n
	case reflect.Slice:
		if v.IsNil() {
			return v
		}
		n := reflect.MakeSlice(v.Type(), v.Len(), v.Len())
		for i := 0; i < v.Len(); i++ {
			n.Index(i).Set(deepCopyValue(v.Index(i)))
		}
		return n
	case reflect.Array:
		n := reflect.New(v.Type()).Elem()
		for i := 0; i < v.Len(); i++ {
			n.Index(i).Set(deepCopyValue(v.Index(i)))
		}
		return n
	case reflect.Pointer:
		if v.IsNil() {
			return v
		}
		n := reflect.New(v.Type().Elem())
		n.Elem().Set(deepCopyValue(v.Elem()))
		return n
	case reflect.Interface:
		if v.IsNil() {
			return v
		}
		n := reflect.New(v.Type()).Elem()
		n.Set(deepCopyValue(v.Elem()))
		return n
	}
	return v
}

func verdictVec(rs *js.Resolved, insts []any, order []int) string {
	out := make([]byte, len(insts))
	for _, i := range order {
		var verr error
		switch guarded(func() { verr = rs.Validate(insts[i]) }) {
		case "panic":
			out[i] = 'P'
		case "hang":
			out[i] = 'H'
		default:
			if verr == nil {
				out[i] = 'V'
			} else {
				out[i] = 'I'
			}
		}
	}
	return string(out)
}

func (c *ConcCase) runImpl() string {
	base := c.ValCase.runImpl()
	var s js.Schema
	if err := json.Unmarshal([]byte(renderJSON(c.Doc)), &s); err != nil {
		return base + " law_conc_same=1 law_conc_shared_ops=1 impl_conc=unm-err"
	}
	mkOpts := func() *js.ResolveOptions {
		opts := &js.ResolveOptions{BaseURI: c.Base}
		if !c.NoLoader {
			uni := map[string]Doc{}
			for _, u := range c.Universe {
				uni[u.URI] = u.Doc
			}
			opts.Loader = func(u *url.URL) (*js.Schema, error) {
				d, ok := uni[u.String()]
				if !ok || d == nil {
					return nil, fmt.Errorf("no such document %s", u)
				}
				ls := new(js.Schema)
				if err := json.Unmarshal([]byte(renderJSON(d)), ls); err != nil {
					return nil, err
				}
				return ls, nil
			}
		}
		return opts
	}
	sharedOpts := mkOpts()
	if len(c.Universe) == 0 {
		sharedOpts.Loader = nil // no loader needed: Resolve substitutes its own (not into the caller's value)
	}
	rs, err := s.Resolve(mkOpts())
	if err != nil {
		// Resolve fails: still exercise concurrent Resolve / Marshal / Clone of the shared Schema
		var wg sync.WaitGroup
		outs := make([]string, 6)
		for g := 0; g < 6; g++ {
			wg.Add(1)
			go func(g int) {
				defer wg.Done()
				_, e := s.Resolve(sharedOpts)
				b, _ := json.Marshal(&s)
				cb, _ := json.Marshal(s.CloneSchemas())
				outs[g] = fmt.Sprintf("%v|%x|%x", e == nil, fnv(string(b)), fnv(string(cb)))
			}(g)
		}
		wg.Wait()
		same := "1"
		for _, o := range outs[1:] {
			if o != outs[0] {
				same = "0"
			}
		}
		return base + " law_conc_same=1 law_conc_shared_ops=" + same + " impl_conc=res-err"
	}
	insts := make([]any, 0, 2*len(c.Insts))
	for _, in := range c.Insts {
		insts = append(insts, in.V)
	}
	nstruct := 0
	for _, in := range c.Insts {
		if m, ok := in.V.(map[string]any); ok && len(m) > 0 {
			if sv, ok := structOf(m, strings.ReplaceAll(c.ID, "-", "_")); ok {
				insts = append(insts, sv)
				nstruct++
			}
		}
	}
	fwd, rev := make([]int, len(insts)), make([]int, len(insts))
	for i := range insts {
		fwd[i], rev[i] = i, len(insts)-1-i
	}
	const G = 8
	vecs := make([]string, G)
	shared := make([]string, G)
	dflt := make([]string, G)
	var wg sync.WaitGroup
	for g := 0; g < G; g++ {
		wg.Add(1)
		go func(g int) {
			defer wg.Done()
			switch g % 4 {
			case 0:
				vecs[g] = verdictVec(rs, insts, fwd)
				if verdictVec(rs, insts, fwd) != vecs[g] {
					vecs[g] = "unstable"
				}
			case 1:
				vecs[g] = verdictVec(rs, insts, rev)
			case 2:
				// the options are a shared input too: one value, never used before, for every goroutine
				rs2, e := s.Resolve(sharedOpts)
				b, _ := json.Marshal(&s)
				cb, _ := json.Marshal(s.CloneSchemas())
				shared[g] = fmt.Sprintf("%v|%x|%x", e == nil, fnv(string(b)), fnv(string(cb)))
				if e == nil {
					vecs[g] = verdictVec(rs2, insts, fwd)
				}
			default:
				var b strings.Builder
				for _, in := range c.Insts {
					cp := deepCopyJSON(in.V)
					e := error(nil)
					if m, ok := cp.(map[string]any); ok {
						if guarded(func() { e = rs.ApplyDefaults(&m) }) != "" {
							b.WriteString("P;")
							continue
						}
						cp = m
					}
					j, _ := json.Marshal(cp)
					if e != nil {
						j = nil
					}
					fmt.Fprintf(&b, "%v:%x;", e == nil, fnv(string(j)))
				}
				dflt[g] = b.String()
				vecs[g] = verdictVec(rs, insts, rev)
			}
		}(g)
	}
	wg.Wait()
	// the same calls, one after another
	seq := verdictVec(rs, insts, fwd)
	sb, _ := json.Marshal(&s)
	scb, _ := json.Marshal(s.CloneSchemas())
	_, se := s.Resolve(mkOpts())
	sshared := fmt.Sprintf("%v|%x|%x", se == nil, fnv(string(sb)), fnv(string(scb)))
	var db strings.Builder
	for _, in := range c.Insts {
		cp := deepCopyJSON(in.V)
		e := error(nil)
		if m, ok := cp.(map[string]any); ok {
			if guarded(func() { e = rs.ApplyDefaults(&m) }) != "" {
				db.WriteString("P;")
				continue
			}
			cp = m
		}
		j, _ := json.Marshal(cp)
		if e != nil {
			j = nil // what a failed ApplyDefaults leaves behind depends on the order the properties were visited in
		}
		fmt.Fprintf(&db, "%v:%x;", e == nil, fnv(string(j)))
	}
	lawSame, lawShared := "1", "1"
	dbg := ""
	for g := 0; g < G; g++ {
		if vecs[g] != "" && vecs[g] != seq {
			lawSame = "0"
			dbg += fmt.Sprintf("g%d:vec:%s/%s;", g, vecs[g], seq)
		}
		if g%4 == 3 && dflt[g] != db.String() {
			dbg += fmt.Sprintf("g%d:dflt:%s/%s;", g, dflt[g], db.String())
		}
		if g%4 == 2 && shared[g] != sshared {
			lawShared = "0"
		}
		if g%4 == 3 && dflt[g] != db.String() {
			lawSame = "0"
		}
	}
	_ = bytes.Equal
	return base + fmt.Sprintf(" law_conc_same=%s law_conc_shared_ops=%s impl_conc=ok.structs%d impl_dbg=%s", lawSame, lawShared, nstruct, dbg)
}

func init() {
	families["conc"] = func(r *rng, id string) Case {
		kind := pick(r, []string{"val", "val", "uneval", "d7", "ref", "dyn", "repr", "defaults"})
		var vc *ValCase
		switch kind {
		case "ref":
			vc = genRefCase(r, id)
		case "dyn":
			vc = genDynCase(r, id)
		case "repr":
			vc = genReprCase(r, id)
		case "defaults":
			g := &genCtx{r: r}
			doc := dropKey(genDefaultsSchema(r, 1+r.intn(3), g), "$dynamicRef") // "#" would recurse in place without end
			vc = &ValCase{ID: id, Doc: doc, NoLoader: true, HSeed: r.intn(1000), Note: "nontrivial=1 shape=defaults"}
			for i := 0; i < 6; i++ {
				vc.Insts = append(vc.Insts, canonInst(genDefaultsInst(r, doc, 3, g)))
			}
			vc.Insts = append(vc.Insts, canonInst(DObj{}))
		default:
			vc = genValCase(r, id, kind)
		}
		return &ConcCase{ValCase: vc, Kind: kind}
	}
}

func dropKey(d Doc, key string) Doc {
	switch x := d.(type) {
	case DObj:
		o := DObj{}
		for _, m := range x {
			if m.K != key {
				o = append(o, DMem{m.K, dropKey(m.V, key)})
			}
		}
		return o
	case DArr:
		a := DArr{}
		for _, e := range x {
			a = append(a, dropKey(e, key))
		}
		return a
	}
	return d
}
