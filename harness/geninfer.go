package main

import (
	"bytes"
	"encoding/json"
	"fmt"
	"math"
	"math/big"
	"os"
	"reflect"
	"sort"
	"strings"
	"time"
	"unicode"
	"unsafe"

	js "github.com/google/jsonschema-go/jsonschema"
)

// Family infer (C04, C09, C16): a type of the zoo (zoo_gen.go), ForOptions, typed values
// and single-point mutations of their encodings.
type InferCase struct {
	ID         string
	Z          zooEntry
	Ignore     bool
	TSNull     bool
	TS         map[reflect.Type]*js.Schema // user TypeSchemas
	TSKeys     []reflect.Type              // in a fixed order
	TSFaithful bool                        // every user entry accepts every encoding of its type
	Vals       []reflect.Value
	NilEmb     []bool // the value has a nil embedded pointer somewhere (outside C04's domain)
	Muts       []Doc  // mutated encodings (C09)
	Note       string
}

var marshalerT = reflect.TypeFor[json.Marshaler]()

// json.Number: a string kind that encoding/json writes and reads as a number; For gives it the
// schema for numbers (the model knows it, like the marshaler types, as an opaque type with an entry)
var jsonNumberT = reflect.TypeFor[json.Number]()

func containsType(t, what reflect.Type, seen map[reflect.Type]bool) bool {
	if t == what {
		return true
	}
	if seen[t] {
		return false
	}
	seen[t] = true
	switch t.Kind() {
	case reflect.Pointer, reflect.Slice, reflect.Array, reflect.Map:
		return containsType(t.Elem(), what, seen)
	case reflect.Struct:
		for i := 0; i < t.NumField(); i++ {
			if containsType(t.Field(i).Type, what, seen) {
				return true
			}
		}
	}
	return false
}

func isStd(t reflect.Type) bool {
	switch t {
	case reflect.TypeFor[time.Time](), reflect.TypeFor[big.Int](), reflect.TypeFor[big.Rat](), reflect.TypeFor[big.Float](), jsonNumberT:
		return true
	}
	return t.PkgPath() == "log/slog" && t.Name() == "Level"
}

func sxType(t reflect.Type, stack []reflect.Type) string {
	if isStd(t) {
		return "(std (" + sxStr(t.String()) + "))"
	}
	named := t.Name() != "" && t.PkgPath() != ""
	if named {
		for _, a := range stack {
			if a == t {
				return "(rec (" + sxStr(t.String()) + "))"
			}
		}
		stack = append(stack, t)
	}
	var body string
	switch t.Kind() {
	case reflect.Bool:
		body = "(bool)"
	case reflect.Int, reflect.Int8, reflect.Int16, reflect.Int32, reflect.Int64, reflect.Uint, reflect.Uint8, reflect.Uint16, reflect.Uint32, reflect.Uint64, reflect.Uintptr:
		body = "(int " + t.Kind().String() + ")"
	case reflect.Float32:
		body = "(float 32)"
	case reflect.Float64:
		body = "(float 64)"
	case reflect.String:
		body = "(string)"
	case reflect.Interface:
		body = "(iface)"
	case reflect.Pointer:
		body = "(ptr " + sxType(t.Elem(), stack) + ")"
	case reflect.Slice:
		body = "(slice " + sxType(t.Elem(), stack) + ")"
	case reflect.Array:
		body = fmt.Sprintf("(array %d %s)", t.Len(), sxType(t.Elem(), stack))
	case reflect.Map:
		k := 0
		if t.Key().Kind() == reflect.String {
			k = 1
		}
		body = fmt.Sprintf("(map %d %s)", k, sxType(t.Elem(), stack))
	case reflect.Struct:
		var b strings.Builder
		b.WriteString("(struct")
		for i := 0; i < t.NumField(); i++ {
			f := t.Field(i)
			tag, has := f.Tag.Lookup("json")
			desc, hasd := f.Tag.Lookup("jsonschema")
			d := "none"
			if hasd {
				d = "(" + sxStr(desc) + ")"
			}
			fmt.Fprintf(&b, " (f (%s) %d %d %d (%s) %s %s)", sxStr(f.Name), b2i(f.IsExported()), b2i(f.Anonymous), b2i(has), sxStr(tag), d, sxType(f.Type, stack))
		}
		b.WriteString(")")
		body = b.String()
	default:
		body = "(bad)"
	}
	if named {
		return "(named (" + sxStr(t.String()) + ") " + body + ")"
	}
	return body
}

func b2i(b bool) int {
	if b {
		return 1
	}
	return 0
}

// sxVal renders a typed value for the model.  ok=false: outside the model's values (NaN etc.).
func sxVal(v reflect.Value) (string, bool) { return sxValA(v, false) }

// addr: the encoder sees this value as addressable (it was reached through a pointer or a slice):
// only then does it call a pointer-receiver MarshalJSON (big.Int, big.Rat, big.Float).
func sxValA(v reflect.Value, addr bool) (string, bool) {
	t := v.Type()
	if !v.CanInterface() {
		if v.CanAddr() {
			// reached through an unexported (embedded) field of an addressable struct: read it in place
			v = reflect.NewAt(t, unsafe.Pointer(v.UnsafeAddr())).Elem()
		} else {
			// an unexported plain field: the harness never sets those, so it is the zero value
			v = reflect.Zero(t)
		}
	}
	if isStd(t) {
		x := v.Interface()
		if addr && v.CanAddr() {
			x = v.Addr().Interface()
		}
		bs, err := json.Marshal(x)
		if err != nil {
			return "", false
		}
		d, err := parseDoc(bs)
		if err != nil {
			return "", false
		}
		return "(stdv " + sxDoc(d) + ")", true
	}
	switch t.Kind() {
	case reflect.Bool:
		return fmt.Sprintf("(b %d)", b2i(v.Bool())), true
	case reflect.Int, reflect.Int8, reflect.Int16, reflect.Int32, reflect.Int64:
		return fmt.Sprintf("(i %d)", v.Int()), true
	case reflect.Uint, reflect.Uint8, reflect.Uint16, reflect.Uint32, reflect.Uint64, reflect.Uintptr:
		return fmt.Sprintf("(i %d)", v.Uint()), true
	case reflect.Float32, reflect.Float64:
		bs, err := json.Marshal(v.Interface())
		if err != nil {
			return "", false
		}
		r, ok := new(big.Rat).SetString(string(bs))
		if !ok {
			return "", false
		}
		return fmt.Sprintf("(fl %s %s)", r.Num(), r.Denom()), true
	case reflect.String:
		return "(s " + sxStr(v.String()) + ")", true
	case reflect.Interface:
		if v.IsNil() {
			return "(nil)", true
		}
		bs, err := json.Marshal(v.Interface())
		if err != nil {
			return "", false
		}
		d, err := parseDoc(bs)
		if err != nil {
			return "", false
		}
		return "(any " + sxDoc(d) + ")", true
	case reflect.Pointer:
		if v.IsNil() {
			return "(nil)", true
		}
		s, ok := sxValA(v.Elem(), true)
		return "(ptr " + s + ")", ok
	case reflect.Slice, reflect.Array:
		if t.Kind() == reflect.Slice && v.IsNil() {
			return "(nil)", true
		}
		var b strings.Builder
		b.WriteString("(list")
		for i := 0; i < v.Len(); i++ {
			s, ok := sxValA(v.Index(i), addr || t.Kind() == reflect.Slice)
			if !ok {
				return "", false
			}
			b.WriteString(" " + s)
		}
		b.WriteString(")")
		return b.String(), true
	case reflect.Map:
		if v.IsNil() {
			return "(nil)", true
		}
		var b strings.Builder
		b.WriteString("(map")
		ks := v.MapKeys()
		sort.Slice(ks, func(i, j int) bool { return ks[i].String() < ks[j].String() })
		for _, k := range ks {
			ev := reflect.New(t.Elem()).Elem() // an addressable copy (map elements are not)
			ev.Set(v.MapIndex(k))
			s, ok := sxVal(ev)
			if !ok {
				return "", false
			}
			fmt.Fprintf(&b, " ((%s) %s)", sxStr(k.String()), s)
		}
		b.WriteString(")")
		return b.String(), true
	case reflect.Struct:
		var b strings.Builder
		b.WriteString("(struct")
		for i := 0; i < v.NumField(); i++ {
			s, ok := sxValA(v.Field(i), addr)
			if !ok {
				return "", false
			}
			b.WriteString(" " + s)
		}
		b.WriteString(")")
		return b.String(), true
	}
	return "", false
}

var f64Pool = []float64{0, 1, -1, 1.5, -2.25, 1e21, 1e-7, 123456789.125, math.MaxFloat64, 5e-324, 0.1, 100}
var f32Pool = []float32{0, 1, -1, 1.5, 0.1, 16777216, math.MaxFloat32, 1e-10}
var anyPool = []string{`"s"`, `1`, `1.5`, `true`, `null`, `[]`, `[1,"a",null]`, `{}`, `{"a":1,"b":{"c":[true]}}`, `""`}

// genTyped fills a value of type t.  nilEmb is set when an embedded pointer is left nil.
func genTyped(r *rng, t reflect.Type, depth int, nilEmb *bool) reflect.Value {
	v := reflect.New(t).Elem()
	if r.chance(1, 12) {
		return v // the zero value
	}
	if isStd(t) {
		switch t {
		case reflect.TypeFor[time.Time]():
			v.Set(reflect.ValueOf(time.Unix(int64(r.intn(2000000000)), int64(r.intn(2))*500).UTC()))
		case reflect.TypeFor[big.Int]():
			v.Set(reflect.ValueOf(*big.NewInt(int64(r.intn(1000)) - 500)))
		case jsonNumberT:
			v.SetString(pick(r, []string{"0", "12", "-1.5", "1e2", "", "9007199254740992", "0.25"}))
		default:
			if t.Kind() == reflect.Int {
				v.SetInt(int64(pick(r, []int{-4, 0, 4, 8, 3})))
			}
		}
		return v
	}
	switch t.Kind() {
	case reflect.Bool:
		v.SetBool(r.chance(1, 2))
	case reflect.Int, reflect.Int8, reflect.Int16, reflect.Int32, reflect.Int64:
		bits := t.Bits()
		min, max := int64(-1)<<(bits-1), int64(1)<<(bits-1)-1
		v.SetInt(pick(r, []int64{0, 1, -1, min, max, min + 1, max - 1, int64(r.intn(100))}))
	case reflect.Uint, reflect.Uint8, reflect.Uint16, reflect.Uint32, reflect.Uint64, reflect.Uintptr:
		bits := t.Bits()
		max := uint64(1)<<(bits-1)<<1 - 1
		v.SetUint(pick(r, []uint64{0, 1, max, max - 1, uint64(r.intn(100))}))
	case reflect.Float32:
		v.SetFloat(float64(pick(r, f32Pool)))
	case reflect.Float64:
		v.SetFloat(pick(r, f64Pool))
	case reflect.String:
		v.SetString(pick(r, []string{"", "a", "ab", "é", "<&>", "a\"b\\", "日本語", "x y"}))
	case reflect.Interface:
		if t.NumMethod() == 0 && !r.chance(1, 5) {
			var x any
			json.Unmarshal([]byte(pick(r, anyPool)), &x)
			if x != nil {
				v.Set(reflect.ValueOf(x))
			}
		}
	case reflect.Pointer:
		if depth > 0 && !r.chance(1, 3) {
			p := reflect.New(t.Elem())
			p.Elem().Set(genTyped(r, t.Elem(), depth-1, nilEmb))
			v.Set(p)
		}
	case reflect.Slice:
		if depth > 0 && !r.chance(1, 4) {
			n := pick(r, []int{0, 1, 2, 3, 20})
			s := reflect.MakeSlice(t, n, n)
			for i := 0; i < n; i++ {
				s.Index(i).Set(genTyped(r, t.Elem(), depth-1, nilEmb))
			}
			v.Set(s)
		}
	case reflect.Array:
		for i := 0; i < t.Len(); i++ {
			v.Index(i).Set(genTyped(r, t.Elem(), depth-1, nilEmb))
		}
	case reflect.Map:
		if t.Key().Kind() != reflect.String {
			return v
		}
		m := reflect.MakeMap(t) // nil maps are outside the domain: always non-nil
		if depth > 0 {
			for _, k := range shuffled(r, []string{"k", "a", "", "zz", "é"})[:r.intn(4)] {
				m.SetMapIndex(reflect.ValueOf(k).Convert(t.Key()), genTyped(r, t.Elem(), depth-1, nilEmb))
			}
		}
		v.Set(m)
	case reflect.Struct:
		for i := 0; i < t.NumField(); i++ {
			f := t.Field(i)
			if !f.IsExported() && !f.Anonymous {
				continue
			}
			if !v.Field(i).CanSet() {
				// an embedded field of unexported type: fill through unsafe-free means is impossible for
				// pointers; values of unexported struct types embedded by value can be set field-wise
				if f.Anonymous && f.Type.Kind() == reflect.Struct {
					fillUnexportedEmbedded(r, v.Field(i), depth, nilEmb)
				} else if f.Anonymous && f.Type.Kind() == reflect.Pointer {
					*nilEmb = true
				}
				continue
			}
			if f.Anonymous && f.Type.Kind() == reflect.Pointer {
				if r.chance(1, 6) || depth <= 0 {
					*nilEmb = true
					continue
				}
			}
			fv := genTyped(r, f.Type, depth-1, nilEmb)
			if f.Anonymous && f.Type.Kind() == reflect.Pointer && fv.IsNil() {
				p := reflect.New(f.Type.Elem())
				p.Elem().Set(genTyped(r, f.Type.Elem(), depth-1, nilEmb))
				fv = p
			}
			v.Field(i).Set(fv)
		}
	}
	return v
}

func fillUnexportedEmbedded(r *rng, v reflect.Value, depth int, nilEmb *bool) {
	t := v.Type()
	for i := 0; i < t.NumField(); i++ {
		if t.Field(i).IsExported() && v.Field(i).CanSet() {
			v.Field(i).Set(genTyped(r, t.Field(i).Type, depth-1, nilEmb))
		}
	}
}

// options menu: TypeSchemas entries for types that occur in the zoo
func tsMenu(r *rng, root reflect.Type) (map[reflect.Type]*js.Schema, []reflect.Type, bool) {
	if r.chance(1, 2) {
		return nil, nil, true
	}
	faithful := true
	cands := namedTypesIn(root, map[reflect.Type]bool{})
	sort.Slice(cands, func(i, j int) bool { return cands[i].String() < cands[j].String() })
	m := map[reflect.Type]*js.Schema{}
	var keys []reflect.Type
	for _, t := range cands {
		if !r.chance(1, 3) {
			continue
		}
		var s *js.Schema
		if t == jsonNumberT {
			continue
		}
		if isStd(t) {
			s = pick(r, []*js.Schema{{Type: "string", Format: "date-time"}, {Type: "integer"}, nil})
			if s == nil && t.Kind() != reflect.Struct {
				// (the model knows a marshaler type only as an opaque struct: slog.Level without its
				// entry is an integer kind, outside the model's alphabet)
				s = &js.Schema{Type: "string"}
			}
			if s == nil || s.Type != "string" {
				faithful = false // (a nil entry hides the default schema of the standard type)
			}
			m[t] = s
			keys = append(keys, t)
			continue
		}
		switch t.Kind() {
		case reflect.Struct:
			faithful = false
			switch r.intn(5) {
			case 0:
				s = &js.Schema{Type: "object", Properties: map[string]*js.Schema{"zz": {Type: "integer"}, "aa": {Type: "string", Title: "t"}}}
			case 1:
				s = &js.Schema{Type: "object"}
			case 2:
				s = &js.Schema{Type: "object", Properties: map[string]*js.Schema{"q": {}}, Required: []string{"q"}} // not allowed for embedded use
			case 3:
				s = &js.Schema{Type: "string", Format: "date-time"}
			default:
				s = &js.Schema{} // no type at all
			}
		case reflect.String:
			i := r.intn(5)
			s = []*js.Schema{{Type: "string", Enum: []any{"a", "ab", ""}}, {Enum: []any{"a", "é"}}, {}, {Types: []string{"string", "null"}}, {Type: "string", Title: "a named string"}}[i]
			if r.chance(1, 3) {
				// a type list with spare capacity (built by append): must not be written through
				s = &js.Schema{Types: append(make([]string, 0, 8), "string", "integer")}
			} else if i < 2 {
				faithful = false
			}
		case reflect.Bool:
			i := r.intn(3)
			s = []*js.Schema{{Type: "boolean", Description: "flag"}, {}, {Type: "integer"}}[i]
			if i == 2 {
				faithful = false
			}
		case reflect.Float32, reflect.Float64:
			i := r.intn(3)
			s = []*js.Schema{{Type: "number"}, {}, {Type: "number", Minimum: js.Ptr(0.0)}}[i]
			if i == 2 {
				faithful = false
			}
		case reflect.Array, reflect.Slice:
			i := r.intn(3)
			s = []*js.Schema{{Type: "array"}, {}, {Type: "string"}}[i]
			if i == 2 {
				faithful = false
			}
		case reflect.Map, reflect.Pointer, reflect.Interface:
			continue
		default:
			i := r.intn(4)
			s = []*js.Schema{{Type: "integer"}, {Type: "number"}, nil, {Type: "integer", Minimum: js.Ptr(0.0)}}[i]
			if r.chance(1, 3) {
				s = &js.Schema{Types: append(make([]string, 0, 8), "integer", "string")}
			} else if i == 3 {
				faithful = false
			}
		}
		m[t] = s
		keys = append(keys, t)
	}
	return m, keys, faithful
}

func namedTypesIn(t reflect.Type, seen map[reflect.Type]bool) []reflect.Type {
	if seen[t] {
		return nil
	}
	seen[t] = true
	var out []reflect.Type
	if t.Name() != "" && t.PkgPath() != "" {
		out = append(out, t)
	}
	switch t.Kind() {
	case reflect.Pointer, reflect.Slice, reflect.Array, reflect.Map:
		out = append(out, namedTypesIn(t.Elem(), seen)...)
	case reflect.Struct:
		if !isStd(t) || t == reflect.TypeFor[time.Time]() {
			for i := 0; i < t.NumField() && !isStd(t); i++ {
				out = append(out, namedTypesIn(t.Field(i).Type, seen)...)
			}
		}
	}
	return out
}

var initialStd = []reflect.Type{reflect.TypeFor[time.Time](), reflect.TypeFor[big.Int](), reflect.TypeFor[big.Rat](), reflect.TypeFor[big.Float]()}

func (c *InferCase) sx() string {
	var b strings.Builder
	fmt.Fprintf(&b, "(case %s (type %s) (opts %d %d (schemas", c.ID, sxType(c.Z.T, nil), b2i(c.Ignore), b2i(c.TSNull))
	for _, t := range c.TSKeys {
		if s := c.TS[t]; s != nil {
			fmt.Fprintf(&b, " ((%s) %s)", sxStr(t.String()), sxSchema(s))
		} else {
			fmt.Fprintf(&b, " ((%s) nil)", sxStr(t.String()))
		}
	}
	str := &js.Schema{Type: "string"}
	for _, n := range []string{"time.Time", "slog.Level", "big.Int", "big.Rat", "big.Float"} {
		fmt.Fprintf(&b, " ((%s) %s)", sxStr(n), sxSchema(str))
	}
	if containsType(c.Z.T, jsonNumberT, map[reflect.Type]bool{}) {
		fmt.Fprintf(&b, " ((%s) %s)", sxStr("json.Number"), sxSchema(&js.Schema{Type: "number"}))
	}
	b.WriteString(")) (vals")
	for _, v := range c.Vals {
		s, ok := sxVal(v)
		if !ok {
			s = "(unsupported)"
		}
		b.WriteString(" " + s)
	}
	b.WriteString(") (muts")
	for _, d := range c.Muts {
		b.WriteString(" " + sxDoc(d))
	}
	b.WriteString("))")
	return b.String()
}
func (c *InferCase) note() string   { return c.Note }
func (c *InferCase) expect() string { return "" }

func (c *InferCase) forType() (*js.Schema, error) {
	if c.TSNull {
		os.Setenv("JSONSCHEMAGODEBUG", "typeschemasnull=1")
		defer os.Unsetenv("JSONSCHEMAGODEBUG")
	}
	return js.ForType(c.Z.T, &js.ForOptions{IgnoreInvalidTypes: c.Ignore, TypeSchemas: c.TS})
}

func (c *InferCase) runImpl() string {
	var s, s2 *js.Schema
	var err, err2 error
	if o := guarded(func() { s, err = c.forType() }); o != "" {
		return c.ID + " for=" + o
	}
	if err != nil {
		return c.ID + " for=err"
	}
	if s == nil {
		return c.ID + " for=nil"
	}
	bs, merr := json.Marshal(s)
	if merr != nil {
		return c.ID + " for=ok doc=marshal-error"
	}
	d, _ := parseDoc(bs)
	// C16: deterministic, fresh, resolvable
	lawEqual, lawFresh := "1", "1"
	guarded(func() { s2, err2 = c.forType() })
	if err2 != nil || s2 == nil {
		lawEqual = "0"
	} else if bs2, _ := json.Marshal(s2); !bytes.Equal(bs, bs2) {
		lawEqual = "0"
	}
	p1, p2, pts := map[*js.Schema]bool{}, map[*js.Schema]bool{}, map[*js.Schema]bool{}
	allSchemaPtrs(s, p1)
	allSchemaPtrs(s2, p2)
	for _, t := range c.TSKeys {
		allSchemaPtrs(c.TS[t], pts)
	}
	n1 := 0
	countTree(s, &n1)
	if n1 != len(p1) { // an object reachable by two paths within one result
		lawFresh = "0"
	}
	for p := range p1 {
		if p2[p] || pts[p] {
			lawFresh = "0"
		}
	}
	var rs *js.Resolved
	var rerr error
	res := "ok"
	if o := guarded(func() { rs, rerr = s.Resolve(nil) }); o != "" {
		res = o
	} else if rerr != nil {
		res = "err"
	}
	out := fmt.Sprintf("%s for=ok doc=%s res=%s law_c16_equal=%s law_c16_fresh=%s", c.ID, canonDoc(d), res, lawEqual, lawFresh)
	if rs == nil {
		return out
	}
	// C04/C09 are owed for the default configuration (the typeschemasnull debug setting restores
	// the old, null-less schemas on purpose)
	inDomain := (c.Z.Cat == "plain" || c.Z.Cat == "conflict" || os.Getenv("VERIF_ALLCATS") != "") && c.TSFaithful && !c.TSNull
	// C04: the encoding of every value validates
	var encs []string
	var vv strings.Builder
	law04 := "1"
	var encDocs []Doc
	for i, v := range c.Vals {
		ebs, eerr := json.Marshal(v.Interface())
		if eerr != nil {
			encs = append(encs, "err")
			vv.WriteByte('-')
			encDocs = append(encDocs, nil)
			continue
		}
		ed, _ := parseDoc(ebs)
		encDocs = append(encDocs, ed)
		encs = append(encs, canonJSONExact(ed))
		inst := decodeExact(ebs)
		var verr error
		if o := guarded(func() { verr = rs.Validate(inst) }); o != "" {
			vv.WriteByte('P')
			law04 = "0"
		} else if verr == nil {
			vv.WriteByte('V')
		} else {
			vv.WriteByte('I')
			if inDomain && !c.NilEmb[i] {
				law04 = "0"
			}
		}
	}
	// C09: whatever the schema accepts decodes
	var mv strings.Builder
	law09 := "1"
	dec09 := ""
	decAll := ""
	for _, m := range c.Muts {
		text := renderJSON(m)
		inst := decodeExact([]byte(text))
		var verr error
		guarded(func() { verr = rs.Validate(inst) })
		p := reflect.New(c.Z.T)
		dec := json.NewDecoder(strings.NewReader(text))
		dec.DisallowUnknownFields()
		derr := dec.Decode(p.Interface())
		if derr == nil {
			decAll += "D"
		} else {
			decAll += "E"
		}
		if verr == nil {
			mv.WriteByte('V')
			if derr != nil {
				dec09 += "E"
				if inDomain && len(c.TSKeys) == 0 && c09Domain(c.Z.T) {
					law09 = "0"
				}
			} else {
				dec09 += "D"
			}
		} else {
			mv.WriteByte('I')
			dec09 += "-"
		}
	}
	// C16: names, order and required against encoding/json (root structs of the plain category)
	law16n := "1"
	if inDomain && c.Z.T.Kind() == reflect.Struct && len(c.TS) == 0 && !hasEmptyArrayOmit(c.Z.T) {
		full := fullValue(c.Z.T)
		fb, ferr := json.Marshal(full.Interface())
		if ferr == nil {
			fd, _ := parseDoc(fb)
			var want []string
			if fo, ok := fd.(DObj); ok {
				for _, m := range fo {
					want = append(want, m.K)
				}
			}
			got := s.PropertyOrder
			if strings.Join(got, "\x00") != strings.Join(want, "\x00") {
				law16n = "0"
				if os.Getenv("VERIF_DEBUG_NAMES") != "" {
					fmt.Fprintf(os.Stderr, "%s order got %q want %q full %s\n", c.ID, got, want, fb)
				}
			}
			// required: exactly the emitted fields without omitempty/omitzero, which are those the
			// zero value still emits (the installed encoding/json has no omitzero: compare tags instead)
			// (with several candidates for one name the tag oracle cannot tell which one the encoder
			// uses; there the required list is compared with the model only)
			wantReq := requiredByTags(c.Z.T)
			if c.Z.Cat != "conflict" && strings.Join(s.Required, "\x00") != strings.Join(wantReq, "\x00") {
				law16n = "0"
			}
			for _, k := range want {
				if s.Properties[k] == nil {
					law16n = "0"
				}
			}
			if len(s.Properties) != len(want) {
				law16n = "0"
			}
		}
	}
	return out + fmt.Sprintf(" enc=%s v=%s mv=%s impl_dec=%s impl_decall=%s law_c04=%s law_c09=%s law_c16_names=%s", strings.Join(encs, "|"), vv.String(), mv.String(), dec09, decAll, law04, law09, law16n)
}

func countTree(s *js.Schema, n *int) {
	if s == nil || *n > 100000 {
		return
	}
	*n++
	v := reflect.ValueOf(s).Elem()
	for i := 0; i < v.NumField(); i++ {
		fv := v.Field(i)
		switch {
		case fv.Type() == schemaPtrT:
			countTree(fv.Interface().(*js.Schema), n)
		case fv.Type() == reflect.SliceOf(schemaPtrT):
			for j := 0; j < fv.Len(); j++ {
				countTree(fv.Index(j).Interface().(*js.Schema), n)
			}
		case fv.Type() == reflect.MapOf(reflect.TypeFor[string](), schemaPtrT):
			it := fv.MapRange()
			for it.Next() {
				countTree(it.Value().Interface().(*js.Schema), n)
			}
		}
	}
}

// hasEmptyArrayOmit: a [0]T field with omitempty is never emitted, so the encoder cannot show its name
func hasEmptyArrayOmit(t reflect.Type) bool { return hasEmptyArrayOmitS(t, map[reflect.Type]bool{}) }
func hasEmptyArrayOmitS(t reflect.Type, seen map[reflect.Type]bool) bool {
	if seen[t] {
		return false
	}
	seen[t] = true
	for i := 0; i < t.NumField(); i++ {
		f := t.Field(i)
		if f.Type.Kind() == reflect.Array && f.Type.Len() == 0 && strings.Contains(f.Tag.Get("json"), "omitempty") {
			return true
		}
		if f.Anonymous {
			ft := f.Type
			if ft.Kind() == reflect.Pointer {
				ft = ft.Elem()
			}
			if ft.Kind() == reflect.Struct && hasEmptyArrayOmitS(ft, seen) {
				return true
			}
		}
	}
	return false
}

// c09Domain: C09 excludes marshaler types
func c09Domain(t reflect.Type) bool {
	ok := true
	var walk func(t reflect.Type, seen map[reflect.Type]bool)
	walk = func(t reflect.Type, seen map[reflect.Type]bool) {
		if seen[t] {
			return
		}
		seen[t] = true
		if isStd(t) {
			ok = false
			return
		}
		switch t.Kind() {
		case reflect.Pointer, reflect.Slice, reflect.Array, reflect.Map:
			walk(t.Elem(), seen)
		case reflect.Struct:
			for i := 0; i < t.NumField(); i++ {
				walk(t.Field(i).Type, seen)
			}
		case reflect.Float32:
			// finding O-9: a float32 field accepts numbers the decoder overflows on; the mutations
			// do not produce such numbers for float fields, so float32 stays in
		}
	}
	walk(t, map[reflect.Type]bool{})
	return ok
}

// fullValue: a value in which no omitempty field is empty and every embedded pointer is set
func fullValue(t reflect.Type) reflect.Value { return fullValueD(t, 12) }

func fullValueD(t reflect.Type, depth int) reflect.Value {
	v := reflect.New(t).Elem()
	if depth <= 0 {
		return v // recursive types: stop
	}
	switch t.Kind() {
	case reflect.Bool:
		v.SetBool(true)
	case reflect.Int, reflect.Int8, reflect.Int16, reflect.Int32, reflect.Int64:
		v.SetInt(1)
	case reflect.Uint, reflect.Uint8, reflect.Uint16, reflect.Uint32, reflect.Uint64, reflect.Uintptr:
		v.SetUint(1)
	case reflect.Float32, reflect.Float64:
		v.SetFloat(1)
	case reflect.String:
		v.SetString("x")
	case reflect.Interface:
		if t.NumMethod() == 0 {
			v.Set(reflect.ValueOf("x"))
		}
	case reflect.Pointer:
		p := reflect.New(t.Elem())
		p.Elem().Set(fullValueD(t.Elem(), depth-1))
		v.Set(p)
	case reflect.Slice:
		s := reflect.MakeSlice(t, 1, 1)
		s.Index(0).Set(fullValueD(t.Elem(), depth-1))
		v.Set(s)
	case reflect.Array:
		for i := 0; i < t.Len(); i++ {
			v.Index(i).Set(fullValueD(t.Elem(), depth-1))
		}
	case reflect.Map:
		m := reflect.MakeMap(t)
		if t.Key().Kind() == reflect.String {
			m.SetMapIndex(reflect.ValueOf("k").Convert(t.Key()), fullValueD(t.Elem(), depth-1))
		}
		v.Set(m)
	case reflect.Struct:
		if isStd(t) {
			if t == reflect.TypeFor[time.Time]() {
				v.Set(reflect.ValueOf(time.Unix(1, 0).UTC()))
			}
			return v
		}
		for i := 0; i < t.NumField(); i++ {
			if v.Field(i).CanSet() {
				v.Field(i).Set(fullValueD(t.Field(i).Type, depth-1))
			} else if t.Field(i).Anonymous && t.Field(i).Type.Kind() == reflect.Struct {
				ev := v.Field(i)
				for j := 0; j < ev.NumField(); j++ {
					if ev.Field(j).CanSet() {
						ev.Field(j).Set(fullValueD(ev.Type().Field(j).Type, depth-1))
					}
				}
			}
		}
	}
	return v
}

// requiredByTags: in encoding/json's field order, the emitted fields whose tag has neither omitempty nor omitzero
func requiredByTags(t reflect.Type) []string {
	full := fullValue(t)
	fb, _ := json.Marshal(full.Interface())
	fd, _ := parseDoc(fb)
	var names []string
	if fo, ok := fd.(DObj); ok {
		for _, m := range fo {
			names = append(names, m.K)
		}
	}
	opt := map[string]bool{}
	seenT := map[reflect.Type]bool{}
	var walk func(t reflect.Type)
	walk = func(t reflect.Type) {
		if seenT[t] {
			return
		}
		seenT[t] = true
		for i := 0; i < t.NumField(); i++ {
			f := t.Field(i)
			tag := f.Tag.Get("json")
			name, rest, _ := strings.Cut(tag, ",")
			if f.Anonymous && name == "" {
				ft := f.Type
				if ft.Kind() == reflect.Pointer {
					ft = ft.Elem()
				}
				if ft.Kind() == reflect.Struct {
					walk(ft)
					continue
				}
			}
			if name == "" || !encValidTag(name) {
				name = f.Name // encoding/json ignores an invalid name but keeps the options
			}
			for _, o := range strings.Split(rest, ",") {
				if o == "omitempty" || o == "omitzero" {
					opt[name] = true
				}
			}
		}
	}
	walk(t)
	var out []string
	for _, n := range names {
		if !opt[n] {
			out = append(out, n)
		}
	}
	return out
}

// mutations of an encoding (C09): one point each
func mutations(r *rng, d Doc, n int) []Doc {
	var out []Doc
	for i := 0; i < n; i++ {
		out = append(out, mutate1(r, d, 3))
	}
	return out
}

var mutAtoms = []Doc{DNull{}, DBool(true), DNum("0"), DNum("-1"), DNum("1.5"), DStr("s"), DArr{}, DObj{}, DNum("128"), DNum("-129"), DNum("256"), DNum("32768"), DNum("-32769"), DNum("65536"),
	DNum("2147483648"), DNum("-2147483649"), DNum("4294967296"), DNum("127"), DNum("255"), DNum("9223372036854775807"), DNum("-9223372036854775808")}

func mutate1(r *rng, d Doc, depth int) Doc {
	switch x := d.(type) {
	case DObj:
		switch {
		case len(x) > 0 && r.chance(1, 4): // drop a key
			i := r.intn(len(x))
			return append(append(DObj{}, x[:i]...), x[i+1:]...)
		case r.chance(1, 5): // add a key
			return append(append(DObj{}, x...), DMem{pick(r, []string{"extra", "F0", "a", "A", "zz"}), pick(r, mutAtoms)})
		case len(x) > 0 && depth > 0:
			i := r.intn(len(x))
			y := append(DObj{}, x...)
			y[i] = DMem{x[i].K, mutate1(r, x[i].V, depth-1)}
			return y
		}
	case DArr:
		switch {
		case len(x) > 0 && r.chance(1, 4):
			return x[:len(x)-1]
		case r.chance(1, 4):
			return append(append(DArr{}, x...), pick(r, mutAtoms))
		case len(x) > 0 && depth > 0:
			i := r.intn(len(x))
			y := append(DArr{}, x...)
			y[i] = mutate1(r, x[i], depth-1)
			return y
		}
	}
	return pick(r, mutAtoms)
}

func init() {
	families["infer"] = func(r *rng, id string) Case {
		z := zoo[r.intn(len(zoo))]
		c := &InferCase{ID: id, Z: z, Ignore: r.chance(1, 3), TSNull: r.chance(1, 6)}
		c.TS, c.TSKeys, c.TSFaithful = tsMenu(r, z.T)
		for i := 0; i < 6; i++ {
			ne := false
			v := genTyped(r, z.T, 4, &ne)
			c.Vals = append(c.Vals, v)
			c.NilEmb = append(c.NilEmb, valueOutside(v))
		}
		// mutations of the encodings of the first values, plus the encodings themselves
		for _, v := range c.Vals[:3] {
			bs, err := json.Marshal(v.Interface())
			if err != nil {
				continue
			}
			d, err := parseDoc(bs)
			if err != nil {
				continue
			}
			c.Muts = append(c.Muts, d)
			c.Muts = append(c.Muts, mutations(r, d, 4)...)
		}
		c.Note = fmt.Sprintf("nontrivial=1 shape=%s.%s.ts%d.ig%d", z.Name, z.Cat, len(c.TSKeys), b2i(c.Ignore))
		return c
	}
}

// valueOutside: the value contains a nil map or a nil embedded pointer - both outside C04's domain
func valueOutside(v reflect.Value) bool {
	switch v.Kind() {
	case reflect.Map:
		if v.IsNil() {
			return true
		}
		it := v.MapRange()
		for it.Next() {
			if valueOutside(it.Value()) {
				return true
			}
		}
	case reflect.Pointer, reflect.Interface:
		if !v.IsNil() {
			return valueOutside(v.Elem())
		}
	case reflect.Slice, reflect.Array:
		for i := 0; i < v.Len(); i++ {
			if valueOutside(v.Index(i)) {
				return true
			}
		}
	case reflect.Struct:
		if isStd(v.Type()) {
			return false
		}
		for i := 0; i < v.NumField(); i++ {
			f := v.Type().Field(i)
			if f.Anonymous && f.Type.Kind() == reflect.Pointer && v.Field(i).IsNil() {
				return true
			}
			if (f.IsExported() || f.Anonymous) && valueOutside(v.Field(i)) {
				return true
			}
		}
	}
	return false
}

// encValidTag: encoding/json's isValidTag
func encValidTag(s string) bool {
	if s == "" {
		return false
	}
	for _, c := range s {
		switch {
		case strings.ContainsRune("!#$%&()*+-./:;<=>?@[]^_{|}~ ", c):
		case !unicode.IsLetter(c) && !unicode.IsDigit(c):
			return false
		}
	}
	return true
}
