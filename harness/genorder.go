package main

import (
	"bytes"
	"encoding/json"
	"fmt"
	"reflect"
	"sort"
	"strings"

	js "github.com/google/jsonschema-go/jsonschema"
)

// Family "order" (C19): Schema values with properties and PropertyOrder lists.
type SchemaCase struct {
	ID   string
	S    *js.Schema
	Note string
	Mode string // "marshal"
}

var propNamePool = []string{"a", "b", "c", "d", "e", "ab", "B", "", "é", "a b", "~", "/", "z", "10", "9"}

func genOrderSchema(r *rng, depth int) *js.Schema {
	s := &js.Schema{}
	n := r.intn(9)
	if r.chance(1, 10) {
		// nil properties, maybe with an order
	} else {
		s.Properties = map[string]*js.Schema{}
		for _, nm := range shuffled(r, propNamePool)[:min(n, len(propNamePool))] {
			var c *js.Schema
			switch {
			case depth > 0 && r.chance(1, 3):
				c = genOrderSchema(r, depth-1)
			case r.chance(1, 3):
				c = &js.Schema{Type: pick(r, typePool)}
			case r.chance(1, 4):
				c = &js.Schema{Not: &js.Schema{}}
			default:
				c = &js.Schema{}
			}
			s.Properties[nm] = c
		}
	}
	names := make([]string, 0, len(s.Properties))
	for k := range s.Properties {
		names = append(names, k)
	}
	sort.Strings(names)
	switch r.intn(8) {
	case 7: // many absent names ahead of (some of) the real ones: positions beyond the number of properties
		o := []string{}
		for i := 0; i < len(names)+1+r.intn(3); i++ {
			o = append(o, fmt.Sprintf("ghost%d", i))
		}
		if len(names) > 0 {
			o = append(o, shuffled(r, names)[:1+r.intn(len(names))]...)
		}
		s.PropertyOrder = o
	case 0: // no order
	case 1: // a permutation
		s.PropertyOrder = shuffled(r, names)
	case 2: // a subset
		if len(names) > 0 {
			s.PropertyOrder = shuffled(r, names)[:r.intn(len(names)+1)]
		}
	case 3: // a superset with absent names
		s.PropertyOrder = shuffled(r, append(append([]string{}, names...), "absent1", "zz", "A"))
	case 4: // only absent names
		s.PropertyOrder = []string{"nope", "a0"}
	case 5: // duplicates
		if len(names) > 0 {
			o := shuffled(r, names)
			s.PropertyOrder = append(o, o[r.intn(len(o))])
		} else {
			s.PropertyOrder = []string{"x", "x"}
		}
	case 6: // empty non-nil
		s.PropertyOrder = []string{}
	}
	if r.chance(1, 4) {
		s.Title = pick(r, strPool)
	}
	if r.chance(1, 5) {
		s.Required = shuffled(r, names)[:r.intn(len(names)+1)]
	}
	if r.chance(1, 6) && depth > 0 {
		s.AllOf = []*js.Schema{genOrderSchema(r, depth-1)}
	}
	if r.chance(1, 8) {
		s.Extra = map[string]any{"x-" + pick(r, namePool): float64(r.intn(3)), "zeta": "v"}
	}
	return s
}

func (c *SchemaCase) sx() string {
	return fmt.Sprintf("(case %s (schema %s))", c.ID, sxSchema(c.S))
}
func (c *SchemaCase) note() string   { return c.Note }
func (c *SchemaCase) expect() string { return "" }

// walkSchema calls f for every schema of the tree with its location path
// (segments "/<name as code points>" and "/#<index>").
func walkSchema(s *js.Schema, path string, f func(path string, s *js.Schema)) {
	f(path, s)
	v := reflect.ValueOf(s).Elem()
	t := v.Type()
	schemaP := reflect.TypeFor[*js.Schema]()
	for i := 0; i < t.NumField(); i++ {
		sf := t.Field(i)
		name, _, _ := strings.Cut(sf.Tag.Get("json"), ",")
		switch sf.Name {
		case "Items", "ItemsArray":
			name = "items"
		case "DependencySchemas":
			name = "dependencies"
		}
		if name == "-" || name == "" {
			continue
		}
		fv := v.Field(i)
		switch {
		case sf.Type == schemaP:
			if !fv.IsNil() {
				walkSchema(fv.Interface().(*js.Schema), path+"/"+dotted(name), f)
			}
		case sf.Type == reflect.SliceOf(schemaP):
			for j := 0; j < fv.Len(); j++ {
				walkSchema(fv.Index(j).Interface().(*js.Schema), fmt.Sprintf("%s/%s/#%d", path, dotted(name), j), f)
			}
		case sf.Type == reflect.MapOf(reflect.TypeFor[string](), schemaP):
			for _, k := range sortedMapKeys(fv) {
				walkSchema(fv.MapIndex(reflect.ValueOf(k)).Interface().(*js.Schema), path+"/"+dotted(name)+"/"+dotted(k), f)
			}
		}
	}
}

// docAt navigates an output document by a location path.
func docAt(d Doc, path string) Doc {
	if path == "" {
		return d
	}
	for _, seg := range strings.Split(path[1:], "/") {
		switch x := d.(type) {
		case DObj:
			var next Doc
			for _, m := range x {
				if dotted(m.K) == seg {
					next = m.V
				}
			}
			d = next
		case DArr:
			var i int
			if _, err := fmt.Sscanf(seg, "#%d", &i); err != nil || i >= len(x) {
				return nil
			}
			d = x[i]
		default:
			return nil
		}
		if d == nil {
			return nil
		}
	}
	return d
}

// propertyOrders: for every schema of the tree that has Properties, the keys of the
// marshalled "properties" object at its location, in output order; sorted by location.
func propertyOrders(s *js.Schema, out Doc) string {
	var entries []string
	walkSchema(s, "", func(path string, c *js.Schema) {
		if c.Properties == nil {
			return
		}
		ks := "?"
		if o, ok := docAt(out, path).(DObj); ok {
			if pv, ok := o.get("properties"); ok {
				if po, ok := pv.(DObj); ok {
					parts := make([]string, len(po))
					for i, pm := range po {
						parts[i] = dotted(pm.K)
					}
					ks = strings.Join(parts, "|")
				}
			}
		}
		entries = append(entries, path+"="+ks)
	})
	sort.Strings(entries)
	return strings.Join(entries, ";")
}

func (c *SchemaCase) runImpl() string {
	var first []byte
	var ferr error
	same := 1
	outcome := guarded(func() {
		for i := 0; i < 5; i++ {
			bs, err := json.Marshal(c.S)
			if i == 0 {
				first, ferr = bs, err
			} else if (err == nil) != (ferr == nil) || !bytes.Equal(bs, first) {
				same = 0
			}
		}
	})
	if outcome != "" {
		return c.ID + " out=" + outcome
	}
	if ferr != nil {
		return fmt.Sprintf("%s out=err law_same=%d", c.ID, same)
	}
	d, err := parseDoc(first)
	if err != nil {
		return c.ID + " out=badjson"
	}
	return fmt.Sprintf("%s out=ok law_same=%d doc=%s order=%s", c.ID, same, canonDoc(d), propertyOrders(c.S, d))
}

func init() {
	families["order"] = func(r *rng, id string) Case {
		s := genOrderSchema(r, 2)
		n := 0
		if len(s.Properties) >= 2 && len(s.PropertyOrder) > 0 {
			n = 1
		}
		return &SchemaCase{ID: id, S: s, Note: fmt.Sprintf("nontrivial=%d shape=p%d.o%d.%s", n, len(s.Properties), len(s.PropertyOrder), shapeOfSchema(s))}
	}
}

// shapeOfSchema hashes the harness's own rendering of the value: no call into the package
// may happen between constructing a case and rendering / snapshotting it.
func shapeOfSchema(s *js.Schema) string {
	return fmt.Sprintf("%x", fnv(sxSchema(s)))
}
func fnv(s string) uint32 {
	h := uint32(2166136261)
	for i := 0; i < len(s); i++ {
		h = (h ^ uint32(s[i])) * 16777619
	}
	return h
}
