package main

import (
	"bytes"
	"encoding/json"
	"fmt"
	"reflect"
	"sort"
	"strings"

	js "github.com/google/jsonschema-go/jsonschema"
)

// G-schema-go: arbitrary Schema values, every exported field populated in every way its Go
// type allows (nil, empty, one, several, nested), respecting the documented exclusivity
// rules most of the time.
type schemaGen struct {
	r       *rng
	plain   bool // no $ref/$id/$anchor/$schema/$vocabulary: Resolve must succeed
	hasPO   bool
	nfields int
	sharedTypes []string
}

func (g *schemaGen) anyValue(depth int) any {
	r := g.r
	switch r.intn(8) {
	case 0:
		return nil
	case 1:
		return r.chance(1, 2)
	case 2:
		return float64(r.intn(5)) / 2
	case 3:
		return r.intn(4) // a Go int: marshals as an integer
	case 4:
		return pick(r, strPool)
	case 5:
		if depth > 0 {
			n := r.intn(3)
			a := make([]any, n)
			for i := range a {
				a[i] = g.anyValue(depth - 1)
			}
			return a
		}
		return []any{}
	case 6:
		if depth > 0 {
			m := map[string]any{}
			for _, k := range shuffled(r, namePool)[:r.intn(3)] {
				m[k] = g.anyValue(depth - 1)
			}
			return m
		}
		return map[string]any{}
	default:
		return "x"
	}
}

func (g *schemaGen) schema(depth int) *js.Schema {
	r := g.r
	s := &js.Schema{}
	if r.chance(1, 8) {
		return s
	}
	if r.chance(1, 12) {
		return &js.Schema{Not: &js.Schema{}}
	}
	v := reflect.ValueOf(s).Elem()
	t := v.Type()
	schemaP := reflect.TypeFor[*js.Schema]()
	nset := 1 + r.intn(5)
	for k := 0; k < nset; k++ {
		i := r.intn(t.NumField())
		f := t.Field(i)
		fv := v.Field(i)
		if !fv.IsZero() {
			continue
		}
		if g.plain {
			switch f.Name {
			case "ID", "Schema", "Ref", "Anchor", "DynamicAnchor", "DynamicRef", "Vocabulary":
				continue
			}
		}
		g.nfields++
		switch {
		case f.Name == "Pattern":
			fv.SetString(pick(r, patPool))
		case f.Name == "Type":
			fv.SetString(pick(r, append(typePool, "bogus")))
		case f.Name == "Schema":
			fv.SetString(pick(r, []string{"https://json-schema.org/draft/2020-12/schema", "http://json-schema.org/draft-07/schema#"}))
		case f.Name == "Ref" || f.Name == "DynamicRef":
			fv.SetString(pick(r, []string{"#/$defs/a", "other.json"}))
		case f.Type.Kind() == reflect.String:
			fv.SetString(pick(r, []string{"a", "x y", "é", "http://x.test/a", "anc"}))
		case f.Type.Kind() == reflect.Bool:
			fv.SetBool(true)
		case f.Type == reflect.TypeFor[json.RawMessage]():
			bs, _ := json.Marshal(g.anyValue(2))
			fv.SetBytes(bs)
		case f.Type == reflect.TypeFor[[]any]():
			n := r.intn(4)
			a := make([]any, n) // non-nil, possibly empty
			for j := range a {
				a[j] = g.anyValue(2)
			}
			if r.chance(1, 8) {
				a = nil
			}
			fv.Set(reflect.ValueOf(a))
		case f.Type == reflect.TypeFor[*any]():
			x := g.anyValue(2)
			fv.Set(reflect.ValueOf(&x))
		case f.Type == reflect.TypeFor[*float64]():
			x := []float64{0, 1, -1, 2.5, 0.5, 9007199254740992, 1e21, 1e-7, 3}[r.intn(9)]
			fv.Set(reflect.ValueOf(&x))
		case f.Type == reflect.TypeFor[*int]():
			x := []int{0, 1, 2, 3, -1, 2147483647}[r.intn(6)]
			fv.Set(reflect.ValueOf(&x))
		case f.Type == reflect.TypeFor[[]string]():
			var a []string
			switch r.intn(4) {
			case 0:
				a = []string{}
			default:
				a = shuffled(r, namePool)[:1+r.intn(3)]
			}
			if f.Name == "Types" {
				a = shuffled(r, typePool)[:r.intn(3)]
				if a == nil {
					a = []string{}
				}
				if r.chance(1, 3) {
					// type lists cut from one shared array (a Go program's `scalars[:1]`, `scalars`):
					// what one schema's list has beyond its length is another schema's entry
					if g.sharedTypes == nil {
						g.sharedTypes = shuffled(r, []string{"number", "string", "boolean", "null", "number", "array"})
					}
					k := r.intn(len(g.sharedTypes))
					a = g.sharedTypes[k : k+1+r.intn(len(g.sharedTypes)-k)]
				}
			}
			if f.Name == "PropertyOrder" {
				g.hasPO = true
			}
			fv.Set(reflect.ValueOf(a))
		case f.Type == reflect.TypeFor[map[string]bool]():
			m := map[string]bool{}
			for _, k := range shuffled(r, namePool)[:r.intn(3)] {
				m[k] = r.chance(1, 2)
			}
			fv.Set(reflect.ValueOf(m))
		case f.Type == reflect.TypeFor[map[string][]string]():
			m := map[string][]string{}
			for _, k := range shuffled(r, namePool)[:r.intn(3)] {
				m[k] = shuffled(r, namePool)[:r.intn(3)]
				if m[k] == nil {
					m[k] = []string{}
				}
				if len(m[k]) == 0 && f.Name == "DependencyStrings" && r.chance(1, 2) {
					m[k] = nil // a nil list under "dependencies": no requirement, like the empty one (never null: that reads back as a schema)
				}
			}
			fv.Set(reflect.ValueOf(m))
		case f.Type == schemaP:
			if depth > 0 {
				fv.Set(reflect.ValueOf(g.schema(depth - 1)))
			}
		case f.Type == reflect.SliceOf(schemaP):
			n := r.intn(3)
			a := make([]*js.Schema, n)
			for j := range a {
				a[j] = g.schema(depth - 1)
			}
			fv.Set(reflect.ValueOf(a))
		case f.Type == reflect.MapOf(reflect.TypeFor[string](), schemaP):
			m := map[string]*js.Schema{}
			keys := namePool
			if f.Name == "PatternProperties" {
				keys = patPool
			} else if r.chance(1, 3) {
				// names that need escaping in JSON text (and HTML-sensitive characters)
				keys = append(append([]string{}, namePool[:3]...), "C:\\temp", "a\\qb", "tab\there", "quo\"te", "end\\", "<a&b>", "\u2028x", "é", "", "nul\x00", "/slash~tilde")
			}
			for _, k := range shuffled(r, keys)[:r.intn(3)] {
				m[k] = g.schema(depth - 1)
			}
			fv.Set(reflect.ValueOf(m))
		case f.Type == reflect.TypeFor[map[string]any]():
			m := map[string]any{}
			for _, k := range shuffled(r, []string{"x-a", "zeta", "Title", "TYPE", "x", "déjà"})[:r.intn(3)] {
				m[k] = g.anyValue(2)
			}
			if r.chance(1, 12) {
				m["title"] = "clash" // duplicates a struct field: Marshal must refuse
			}
			fv.Set(reflect.ValueOf(m))
		}
	}
	// exclusivity rules (violated on purpose now and then)
	if !r.chance(1, 10) {
		if s.Type != "" {
			s.Types = nil
		}
		if s.Defs != nil {
			s.Definitions = nil
		}
		if s.Items != nil {
			s.ItemsArray = nil
		}
		for k := range s.DependencySchemas {
			delete(s.DependencyStrings, k)
		}
		if len(s.Properties) > 0 && ((s.PropertyOrder != nil && r.chance(1, 2)) || r.chance(1, 6)) {
			// an order at least as long as the property map that still leaves properties out
			o := []string{}
			for i := 0; i < len(s.Properties)+r.intn(2); i++ {
				o = append(o, fmt.Sprintf("ghost%d", i))
			}
			pk := make([]string, 0, len(s.Properties))
			for k := range s.Properties {
				pk = append(pk, k)
			}
			sort.Strings(pk) // (map order must not reach the case)
			for _, k := range pk {
				if r.chance(1, 2) {
					o = append(o, k)
				}
			}
			s.PropertyOrder = shuffled(r, o)
			g.hasPO = true
		}
		seen := map[string]bool{}
		var po []string
		for _, p := range s.PropertyOrder {
			if !seen[p] {
				seen[p] = true
				po = append(po, p)
			}
		}
		if s.PropertyOrder != nil {
			if po == nil {
				po = []string{}
			}
			s.PropertyOrder = po
		}
	}
	return s
}

var verdictPool = []Doc{DNull{}, DBool(true), DNum("0"), DNum("1"), DNum("2.5"), DNum("-1"), DStr(""), DStr("a"), DStr("abc"),
	DArr{}, DArr{DNum("1"), DNum("1")}, DArr{DStr("a"), DNum("2"), DNull{}}, DObj{}, DObj{{"a", DNum("1")}}, DObj{{"a", DStr("x")}, {"b", DNum("2")}, {"c", DNull{}}}}

func verdictVector(s *js.Schema) string {
	var rs *js.Resolved
	var err error
	if guarded(func() { rs, err = s.Resolve(nil) }) != "" {
		return "P"
	}
	if err != nil {
		return "E"
	}
	var b strings.Builder
	for _, d := range verdictPool {
		in := canonInst(d)
		var verr error
		if guarded(func() { verr = rs.Validate(in.V) }) != "" {
			b.WriteByte('P')
		} else if verr == nil {
			b.WriteByte('V')
		} else {
			b.WriteByte('I')
		}
	}
	return b.String()
}

// family schemago (C05, direction Go -> JSON -> Go)
type RoundTripCase struct {
	ID    string
	S     *js.Schema
	HasPO bool
	Note  string
}

func (c *RoundTripCase) sx() string     { return fmt.Sprintf("(case %s (schema %s))", c.ID, sxSchema(c.S)) }
func (c *RoundTripCase) note() string   { return c.Note }
func (c *RoundTripCase) expect() string { return "" }
func (c *RoundTripCase) runImpl() string {
	var bs []byte
	var err error
	if o := guarded(func() { bs, err = json.Marshal(c.S) }); o != "" {
		return c.ID + " out=" + o
	}
	if err != nil {
		return c.ID + " out=err"
	}
	d, perr := parseDoc(bs)
	if perr != nil {
		return c.ID + " out=badjson"
	}
	var s2 js.Schema
	if err := json.Unmarshal(bs, &s2); err != nil {
		return fmt.Sprintf("%s out=ok doc=%s unm=err law_accepts=0", c.ID, canonDoc(d))
	}
	bs2, err2 := json.Marshal(&s2)
	lawBytes := "1"
	if err2 != nil {
		lawBytes = "0"
	} else if c.HasPO {
		// PropertyOrder is not part of the document: the same JSON value, not the same bytes
		var a, b any
		json.Unmarshal(bs, &a)
		json.Unmarshal(bs2, &b)
		if !reflect.DeepEqual(a, b) {
			lawBytes = "0"
		}
	} else if !bytes.Equal(bs, bs2) {
		lawBytes = "0"
	}
	v1, v2 := verdictVector(c.S), verdictVector(&s2)
	lawV := "1"
	if v1 != v2 && v1 != "E" && v2 != "E" {
		// (a schema that Resolve refuses accepts and rejects nothing: not comparable)
		lawV = "0"
	}
	return fmt.Sprintf("%s out=ok doc=%s unm=ok law_again=%s law_verdicts=%s impl_vv=%s", c.ID, canonDoc(d), lawBytes, lawV, v1)
}

// family docrt (C05, direction JSON -> Go -> JSON; C18 acceptance)
type DocRTCase struct {
	ID   string
	Doc  Doc
	Note string
}

func (c *DocRTCase) sx() string     { return fmt.Sprintf("(case %s (doc %s))", c.ID, sxDoc(c.Doc)) }
func (c *DocRTCase) note() string   { return c.Note }
func (c *DocRTCase) expect() string { return "" }
func (c *DocRTCase) runImpl() string {
	var s js.Schema
	var err error
	if o := guarded(func() { err = json.Unmarshal([]byte(renderJSON(c.Doc)), &s) }); o != "" {
		return c.ID + " unm=" + o
	}
	if err != nil {
		return c.ID + " unm=err"
	}
	bs, err := json.Marshal(&s)
	if err != nil {
		return c.ID + " unm=ok out=err"
	}
	d2, perr := parseDoc(bs)
	if perr != nil {
		return c.ID + " unm=ok out=badjson"
	}
	var s2 js.Schema
	lawAcc, lawV := "1", "1"
	if err := json.Unmarshal(bs, &s2); err != nil {
		lawAcc = "0"
	} else if v1, v2 := verdictVector(&s), verdictVector(&s2); v1 != v2 && v1 != "E" && v2 != "E" {
		lawV = "0"
	}
	return fmt.Sprintf("%s unm=ok out=ok doc=%s law_reaccepts=%s law_verdicts=%s", c.ID, canonDoc(d2), lawAcc, lawV)
}

// hostile documents: every keyword with values of every JSON type, nulls, spellings of integers
func hostileDoc(r *rng, g *genCtx) Doc {
	kws := []string{"$id", "$schema", "$ref", "$comment", "$defs", "definitions", "dependencies", "$anchor", "$dynamicAnchor", "$dynamicRef", "$vocabulary",
		"title", "description", "default", "deprecated", "readOnly", "writeOnly", "examples", "type", "enum", "const", "multipleOf", "minimum", "maximum",
		"exclusiveMinimum", "exclusiveMaximum", "minLength", "maxLength", "pattern", "prefixItems", "items", "minItems", "maxItems", "additionalItems",
		"uniqueItems", "contains", "minContains", "maxContains", "unevaluatedItems", "minProperties", "maxProperties", "required", "dependentRequired",
		"properties", "patternProperties", "additionalProperties", "propertyNames", "unevaluatedProperties", "allOf", "anyOf", "oneOf", "not", "if", "then",
		"else", "dependentSchemas", "contentEncoding", "contentMediaType", "contentSchema", "format", "x-unknown", "Type", "MINLENGTH", "itemſ"}
	vals := []Doc{DNull{}, DBool(true), DBool(false), DNum("0"), DNum("3"), DNum("2.0"), DNum("2.5"), DNum("1e2"), DNum("-1"), DNum("2147483648"), DNum("1.0e1"),
		DStr("a"), DStr("string"), DStr(""), DArr{}, DArr{DStr("a")}, DArr{DStr("integer"), DStr("null")}, DArr{DObj{}}, DArr{DBool(true), DObj{{"type", DStr("string")}}},
		DObj{}, DObj{{"a", DObj{}}}, DObj{{"a", DArr{DStr("b")}}}, DObj{{"a", DBool(true)}}, DObj{{"type", DStr("integer")}}, DObj{{"a", DNum("1")}}}
	o := DObj{}
	seen := map[string]bool{}
	for i := 1 + r.intn(4); i > 0; i-- {
		k := pick(r, kws)
		if seen[k] {
			continue
		}
		seen[k] = true
		o = append(o, DMem{k, pick(r, vals)})
	}
	if r.chance(1, 20) {
		return pick(r, []Doc{DNull{}, DBool(true), DBool(false), DNum("1"), DStr("x"), DArr{}})
	}
	return o
}

func init() {
	families["schemago"] = func(r *rng, id string) Case {
		g := &schemaGen{r: r, plain: !r.chance(1, 6)}
		s := g.schema(2)
		nt := 0
		if g.nfields >= 3 {
			nt = 1
		}
		return &RoundTripCase{ID: id, S: s, HasPO: g.hasPO, Note: fmt.Sprintf("nontrivial=%d shape=%s", nt, shapeOfSchema(s))}
	}
	families["docrt"] = func(r *rng, id string) Case {
		g := &genCtx{r: r, ndefs: r.intn(3)}
		var d Doc
		switch r.intn(3) {
		case 0:
			d = hostileDoc(r, g)
		case 1:
			g.draft7 = true
			d = g.document(2)
		default:
			d = g.document(2 + r.intn(2))
		}
		return &DocRTCase{ID: id, Doc: d, Note: fmt.Sprintf("nontrivial=1 shape=%s", shapeOf(d))}
	}
}
