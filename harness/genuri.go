package main

import (
	"fmt"
	"net/url"
	"strings"
)

// Family "uri": the URI functions of the model against net/url, on the alphabet the
// model supports (everything else is outside it and is not generated).
type UriCase struct {
	ID        string
	Base, Ref string
	Note      string
}

func (c *UriCase) sx() string {
	return fmt.Sprintf("(case %s (base (%s)) (ref (%s)))", c.ID, sxStr(c.Base), sxStr(c.Ref))
}
func (c *UriCase) note() string   { return c.Note }
func (c *UriCase) expect() string { return "" }
func (c *UriCase) runImpl() string {
	b, err := url.Parse(c.Base)
	if err != nil {
		return c.ID + " pb=err"
	}
	r, err := url.Parse(c.Ref)
	if err != nil {
		return c.ID + " pb=ok pr=err"
	}
	u := b.ResolveReference(r)
	frag := u.Fragment
	u2 := *u
	u2.Fragment = ""
	abs := 0
	if u.IsAbs() {
		abs = 1
	}
	return fmt.Sprintf("%s pb=ok pr=ok str=%s frag=%s abs=%d", c.ID, dotted(u2.String()), dotted(frag), abs)
}

func genURI(r *rng, asRef bool) string {
	segPool := []string{"a", "b.json", "dir", "..", ".", "x~y", "c-d_e", "$defs", "k:v", ""}
	var b strings.Builder
	kind := r.intn(10)
	if !asRef && kind < 6 {
		kind = 0
	}
	switch {
	case kind <= 2: // absolute hierarchical
		b.WriteString(pick(r, []string{"http", "https", "file", "HTTP", "x-y.z+1"}) + ":")
		switch r.intn(6) {
		case 0: // no authority
			b.WriteString("/")
		case 1:
		default:
			b.WriteString("//" + pick(r, []string{"x.test", "localhost:1234", "a-b.c", "h:80", "h:"}))
		}
	case kind == 3: // opaque
		b.WriteString(pick(r, []string{"urn:example:a", "urn:uuid:1-2", "mailto:x@y"}))
		if r.chance(1, 2) {
			return b.String() + pick(r, []string{"", "#f", "#/p/q"})
		}
		return b.String()
	case kind == 4: // network-path reference
		b.WriteString("//other.test")
	case kind == 5:
		b.WriteString("/")
	}
	n := r.intn(4)
	for i := 0; i < n; i++ {
		if i > 0 || strings.HasSuffix(b.String(), "test") || strings.HasSuffix(b.String(), "1234") || strings.HasSuffix(b.String(), "c") || strings.HasSuffix(b.String(), ":80") || strings.HasSuffix(b.String(), "h:") {
			b.WriteString("/")
		}
		b.WriteString(pick(r, segPool))
	}
	if r.chance(1, 5) {
		b.WriteString("/")
	}
	if r.chance(1, 6) {
		b.WriteString("?q=1")
	}
	if asRef && r.chance(1, 2) {
		b.WriteString("#" + pick(r, []string{"", "anchor", "/$defs/a~1b", "/a%20b", "%25", "%zz", "é", "%C3%A9", "a b", "/%7E"}))
	}
	return b.String()
}

func init() {
	families["uri"] = func(r *rng, id string) Case {
		base := genURI(r, false)
		if r.chance(1, 6) {
			base = ""
		}
		ref := genURI(r, true)
		if r.chance(1, 8) {
			ref = pick(r, []string{"", "#", "#a", ".", "..", "./", "../..", "a:b", "/", "//", ":x", "1:2"})
		}
		return &UriCase{ID: id, Base: base, Ref: ref, Note: fmt.Sprintf("nontrivial=1 shape=%x", fnv(base+"|"+ref))}
	}
}
