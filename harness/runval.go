package main

import (
	"encoding/json"
	"fmt"
	"net/url"
	"os"
	"regexp"
	"sort"
	"strings"
	"time"

	js "github.com/google/jsonschema-go/jsonschema"
)

// A ValCase is one case of the family "val": a schema document, a universe of loader
// documents, resolve options and instances.
type ValCase struct {
	ID       string
	Doc      Doc
	Base     string
	NoLoader bool
	Universe []UniDoc // loader documents in a fixed order
	Insts    []Inst
	HSeed    int
	Note     string // free text for the evidence (template name, ...)
	Expect   string // expected verdicts from an independent oracle (official suite), "" if none
}
type UniDoc struct {
	URI string
	Doc Doc // nil = the loader reports an error
}

func (c *ValCase) sx() string {
	var b strings.Builder
	fmt.Fprintf(&b, "(case %s (doc %s) (base (%s)) ", c.ID, sxDoc(c.Doc), sxStr(c.Base))
	if c.NoLoader {
		b.WriteString("(loader none) ")
	} else {
		b.WriteString("(loader (loader")
		for _, u := range c.Universe {
			if u.Doc == nil {
				fmt.Fprintf(&b, " ((%s) err)", sxStr(u.URI))
			} else {
				fmt.Fprintf(&b, " ((%s) %s)", sxStr(u.URI), sxDoc(u.Doc))
			}
		}
		b.WriteString(")) ")
	}
	// regexp oracle
	pats, strs := map[string]bool{}, map[string]bool{}
	collectPatterns(c.Doc, pats, strs)
	for _, u := range c.Universe {
		if u.Doc != nil {
			collectPatterns(u.Doc, pats, strs)
		}
	}
	for _, in := range c.Insts {
		collectInstStrings(in.V, strs)
	}
	b.WriteString("(rx (ok")
	compiled := map[string]*regexp.Regexp{}
	for _, p := range sortedKeys(pats) {
		re, err := regexp.Compile(p)
		ok := 0
		if err == nil {
			ok = 1
			compiled[p] = re
		}
		fmt.Fprintf(&b, " ((%s) %d)", sxStr(p), ok)
	}
	b.WriteString(") (match")
	for _, p := range sortedKeys(pats) {
		re := compiled[p]
		if re == nil {
			continue
		}
		for _, s := range sortedKeys(strs) {
			m := 0
			if re.MatchString(s) {
				m = 1
			}
			fmt.Fprintf(&b, " ((%s) (%s) %d)", sxStr(p), sxStr(s), m)
		}
	}
	fmt.Fprintf(&b, ")) (hseed %d) (insts", c.HSeed)
	for _, in := range c.Insts {
		b.WriteString(" " + in.Sx)
	}
	b.WriteString("))")
	return b.String()
}

func collectInstStrings(v any, into map[string]bool) {
	// instances are built from documents; walk the generic shapes by reflection
	collectStringsReflect(v, into)
}

// runImpl evaluates the case on the package and returns the observation line.
func (c *ValCase) runImpl() string {
	var s js.Schema
	if err := json.Unmarshal([]byte(renderJSON(c.Doc)), &s); err != nil {
		return c.ID + " unm=err"
	}
	var calls []string
	opts := &js.ResolveOptions{BaseURI: c.Base}
	if !c.NoLoader {
		uni := map[string]Doc{}
		for _, u := range c.Universe {
			uni[u.URI] = u.Doc
		}
		opts.Loader = func(u *url.URL) (*js.Schema, error) {
			calls = append(calls, u.String())
			d, ok := uni[u.String()]
			if !ok || d == nil {
				return nil, fmt.Errorf("no such document %s", u)
			}
			var ls js.Schema
			if err := json.Unmarshal([]byte(renderJSON(d)), &ls); err != nil {
				return nil, err
			}
			return &ls, nil
		}
	}
	var rs *js.Resolved
	var err error
	if p := guarded(func() { rs, err = s.Resolve(opts) }); p != "" {
		return c.ID + " unm=ok res=" + p
	}
	if err != nil {
		if os.Getenv("VERIF_DEBUG_ERR") != "" {
			fmt.Fprintln(os.Stderr, c.ID, err)
		}
		return c.ID + " unm=ok res=err"
	}
	var vs strings.Builder
	for _, in := range c.Insts {
		var verr error
		switch guarded(func() { verr = rs.Validate(in.V) }) {
		case "panic":
			vs.WriteByte('P')
		case "hang":
			vs.WriteByte('H')
		default:
			if verr == nil {
				vs.WriteByte('V')
			} else {
				vs.WriteByte('I')
			}
		}
	}
	cs := make([]string, len(calls))
	for i, u := range calls {
		cs[i] = dotted(u)
	}
	sort.Strings(cs) // the order of loader calls is not an observable of any property; the multiset is
	return fmt.Sprintf("%s unm=ok res=ok calls=%s v=%s", c.ID, strings.Join(cs, ","), vs.String())
}

// guarded runs f, reporting "panic" or "hang" (10 s deadline); "" when f returned.
func guarded(f func()) (outcome string) {
	done := make(chan string, 1)
	go func() {
		defer func() {
			if r := recover(); r != nil {
				done <- "panic"
			}
		}()
		f()
		done <- ""
	}()
	select {
	case o := <-done:
		return o
	case <-time.After(10 * time.Second):
		return "hang"
	}
}

func compileRx(p string) (*regexp.Regexp, error) { return regexp.Compile(p) }
