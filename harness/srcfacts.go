package main

import (
	"encoding/json"
	"fmt"
	"go/ast"
	"go/parser"
	"go/token"
	"os"
	"path/filepath"
	"reflect"
	"sort"
	"strconv"
	"strings"

	js "github.com/google/jsonschema-go/jsonschema"
)

// srcfacts regenerates coq/gen/SourceFacts.v from the package as it is now:
// the Schema struct (through reflect on the freshly compiled package) and facts read
// from the syntax trees of the non-test sources (wrapper structs of the codec, integer
// bounds of forType, $schema constants, panic/assert sites, unsorted map ranges).
func coqStr(s string) string {
	if s == "" {
		return "[]"
	}
	parts := make([]string, 0, len(s))
	for _, r := range []rune(s) {
		parts = append(parts, strconv.Itoa(int(r)))
	}
	return "[" + strings.Join(parts, "; ") + "]%N"
}

func fieldClass(t reflect.Type) string {
	schemaT := reflect.TypeFor[js.Schema]()
	switch {
	case t == reflect.TypeFor[json.RawMessage]():
		return "FRaw"
	case t.Kind() == reflect.String:
		return "FStr"
	case t.Kind() == reflect.Bool:
		return "FBool"
	case t == reflect.TypeFor[[]any]():
		return "FAnys"
	case t == reflect.TypeFor[*any]():
		return "FAnyp"
	case t == reflect.TypeFor[*float64]():
		return "FF64p"
	case t == reflect.TypeFor[*int]():
		return "FIntp"
	case t == reflect.TypeFor[[]string]():
		return "FStrs"
	case t == reflect.TypeFor[map[string]bool]():
		return "FMapBool"
	case t == reflect.TypeFor[map[string][]string]():
		return "FMapStrs"
	case t == reflect.PointerTo(schemaT):
		return "FSch"
	case t == reflect.SliceOf(reflect.PointerTo(schemaT)):
		return "FSchs"
	case t == reflect.MapOf(reflect.TypeFor[string](), reflect.PointerTo(schemaT)):
		return "FSchm"
	case t == reflect.TypeFor[map[string]any]():
		return "FMapAny"
	}
	return "FUnknown_" + strings.NewReplacer("*", "p", "[", "_", "]", "_", ".", "_", " ", "").Replace(t.String())
}

func writeSrcFacts(outdir string) error {
	var b strings.Builder
	b.WriteString("(* GENERATED on every run by `implrun srcfacts` from " + repoDir() + " -- do not edit *)\n")
	b.WriteString("From Coq Require Import List NArith ZArith.\nFrom JS Require Import Str Schema.\nImport ListNotations.\nOpen Scope list_scope.\n\n")
	// 1. the Schema struct
	t := reflect.TypeFor[js.Schema]()
	b.WriteString("Definition src_schema_fields : list (str * fclass * str) :=\n  [ ")
	for i := 0; i < t.NumField(); i++ {
		f := t.Field(i)
		tag := f.Tag.Get("json")
		name, _, _ := strings.Cut(tag, ",")
		jn := name
		if tag == "-" {
			jn = ""
		} else if name == "" {
			jn = f.Name
		}
		opts := ""
		if _, rest, ok := strings.Cut(tag, ","); ok {
			opts = rest
		}
		if jn != "" && opts != "omitempty" {
			jn = jn + "!" + opts // any tag option other than exactly omitempty breaks the obligation
		}
		if i > 0 {
			b.WriteString(";\n    ")
		}
		fmt.Fprintf(&b, "(%s, %s, %s)", coqStr(f.Name), fieldClass(f.Type), coqStr(jn))
	}
	b.WriteString(" ].\n\n")

	// 2. syntax-level facts
	fset := token.NewFileSet()
	dir := filepath.Join(repoDir(), "jsonschema")
	pkgs, err := parser.ParseDir(fset, dir, func(fi os.FileInfo) bool {
		return !strings.HasSuffix(fi.Name(), "_test.go") && !strings.HasPrefix(fi.Name(), "verif_")
	}, 0)
	if err != nil {
		return err
	}
	var files []*ast.File
	var names []string
	for _, p := range pkgs {
		for n := range p.Files {
			names = append(names, n)
		}
		sort.Strings(names)
		for _, n := range names {
			files = append(files, p.Files[n])
		}
	}
	consts := map[string]string{}
	type site struct{ fn, kind string }
	var panics, ranges []site
	writes := map[string]bool{}  // "file|function|lhs" for writes through a receiver, a parameter or a package variable
	var order []string // fields of the schema in the order state.validate first mentions them
	orderSeen := map[string]bool{}
	globals := map[string]bool{} // package-level variables
	for _, f := range files {
		for _, d := range f.Decls {
			if gd, ok := d.(*ast.GenDecl); ok && gd.Tok == token.VAR {
				for _, sp := range gd.Specs {
					for _, n := range sp.(*ast.ValueSpec).Names {
						globals[n.Name] = true
					}
				}
			}
		}
	}
	wrappers := map[string][]string{}
	for _, f := range files {
		for _, d := range f.Decls {
			switch x := d.(type) {
			case *ast.GenDecl:
				if x.Tok == token.CONST {
					for _, sp := range x.Specs {
						vs := sp.(*ast.ValueSpec)
						for i, n := range vs.Names {
							if i < len(vs.Values) {
								if bl, ok := vs.Values[i].(*ast.BasicLit); ok && bl.Kind == token.STRING {
									s, _ := strconv.Unquote(bl.Value)
									consts[n.Name] = s
								}
							}
						}
					}
				}
			case *ast.FuncDecl:
				fn := x.Name.Name
				if x.Recv != nil && len(x.Recv.List) > 0 {
					fn = recvName(x.Recv.List[0].Type) + "." + fn
				}
				if x.Body == nil {
					continue
				}
				// names through which state shared with the caller can be reached: receiver and parameters
				shared := map[string]bool{}
				if x.Recv != nil {
					for _, fl := range x.Recv.List {
						for _, nm := range fl.Names {
							shared[nm.Name] = true
						}
					}
				}
				for _, fl := range x.Type.Params.List {
					for _, nm := range fl.Names {
						shared[nm.Name] = true
					}
				}
				fileName := filepath.Base(fset.Position(x.Pos()).Filename)
				noteWrite := func(lhs ast.Expr) {
					root, depth := rootIdent(lhs)
					if root == "" {
						return
					}
					if (shared[root] && depth > 0) || (globals[root] && !shared[root]) {
						writes[fileName+"|"+fn+"|"+exprString(lhs)] = true
					}
				}
				ast.Inspect(x.Body, func(n ast.Node) bool {
					switch y := n.(type) {
					case *ast.AssignStmt:
						if y.Tok != token.DEFINE {
							for _, l := range y.Lhs {
								noteWrite(l)
							}
						}
					case *ast.IncDecStmt:
						noteWrite(y.X)
					case *ast.ExprStmt:
						// mutation by call: delete/clear/copy builtins, in-place sorts, map copies, sync.Map writes
						if ce, ok := y.X.(*ast.CallExpr); ok && len(ce.Args) > 0 || ok && isSyncWrite(ce) {
							name := exprString(ce.Fun)
							switch {
							case name == "delete" || name == "clear" || name == "copy" || name == "maps.Copy" ||
								strings.HasPrefix(name, "sort.") || strings.HasPrefix(name, "slices.Sort") || name == "slices.Reverse":
								root, _ := rootIdent(ce.Args[0])
								if shared[root] || globals[root] {
									writes[fileName+"|"+fn+"|"+name+"("+exprString(ce.Args[0])+")"] = true
								}
							case isSyncWrite(ce):
								sel := ce.Fun.(*ast.SelectorExpr)
								root, _ := rootIdent(sel.X)
								if shared[root] || globals[root] {
									writes[fileName+"|"+fn+"|"+name] = true
								}
							}
						}
					case *ast.RangeStmt:
						// what the evaluator ranges over: maps are visited in a random order
						if fn == "state.validate" {
							ranges = append(ranges, site{fn, exprString(y.X)})
						}
					case *ast.SelectorExpr:
						// the order in which the evaluator first consults each keyword of the schema
						if id, ok := y.X.(*ast.Ident); ok && fn == "state.validate" && id.Name == "schema" && !orderSeen[y.Sel.Name] {
							orderSeen[y.Sel.Name] = true
							order = append(order, y.Sel.Name)
						}
					case *ast.CallExpr:
						if id, ok := y.Fun.(*ast.Ident); ok && (id.Name == "panic" || id.Name == "assert") {
							panics = append(panics, site{fn, id.Name})
						}
					case *ast.CompositeLit:
						// the anonymous wrapper structs `ms` of MarshalJSON / UnmarshalJSON
						if st, ok := y.Type.(*ast.StructType); ok && (fn == "Schema.MarshalJSON" || fn == "Schema.UnmarshalJSON") {
							for _, fl := range st.Fields.List {
								tag := ""
								if fl.Tag != nil {
									tag, _ = strconv.Unquote(fl.Tag.Value)
									tag = reflect.StructTag(tag).Get("json")
								}
								ty := exprString(fl.Type)
								if len(fl.Names) == 0 {
									wrappers[fn] = append(wrappers[fn], "embedded:"+ty)
								}
								for _, nm := range fl.Names {
									wrappers[fn] = append(wrappers[fn], nm.Name+":"+ty+":"+tag)
								}
							}
						}
					}
					return true
				})
			}
		}
	}
	b.WriteString("Definition src_versions : list str :=\n  [ " + coqStr(consts["draft7SchemaVersion"]) + ";\n    " + coqStr(consts["draft7SecSchemaVersion"]) + ";\n    " + coqStr(consts["draft202012SchemaVersion"]) + " ].\n\n")
	for _, fn := range []string{"Schema.MarshalJSON", "Schema.UnmarshalJSON"} {
		nm := "src_marshal_wrapper"
		if fn == "Schema.UnmarshalJSON" {
			nm = "src_unmarshal_wrapper"
		}
		b.WriteString("Definition " + nm + " : list str :=\n  [ ")
		for i, w := range wrappers[fn] {
			if i > 0 {
				b.WriteString(";\n    ")
			}
			b.WriteString(coqStr(w))
		}
		b.WriteString(" ].\n\n")
	}
	// panic / assert sites per function
	count := map[string]int{}
	for _, p := range panics {
		count[p.fn+"/"+p.kind]++
	}
	keys := make([]string, 0, len(count))
	for k := range count {
		keys = append(keys, k)
	}
	sort.Strings(keys)
	b.WriteString("Definition src_panic_sites : list (str * nat) :=\n  [ ")
	for i, k := range keys {
		if i > 0 {
			b.WriteString(";\n    ")
		}
		fmt.Fprintf(&b, "(%s, %d%%nat)", coqStr(k), count[k])
	}
	b.WriteString(" ].\n")
	// the expressions (*state).validate ranges over
	rset := map[string]bool{}
	for _, r := range ranges {
		rset[r.kind] = true
	}
	rkeys := make([]string, 0, len(rset))
	for k := range rset {
		rkeys = append(rkeys, k)
	}
	sort.Strings(rkeys)
	b.WriteString("\nDefinition src_validate_ranges : list str :=\n  [ ")
	for i, k := range rkeys {
		if i > 0 {
			b.WriteString(";\n    ")
		}
		b.WriteString(coqStr(k))
	}
	b.WriteString(" ].\n")
	b.WriteString("\nDefinition src_validate_order : list str :=\n  [ ")
	for i, k := range order {
		if i > 0 {
			b.WriteString(";\n    ")
		}
		b.WriteString(coqStr(k))
	}
	b.WriteString(" ].\n")
	// writes through receivers, parameters and package variables, in the files Validate,
	// ApplyDefaults, Marshal and CloneSchemas run through; sync.Map method calls on package variables
	wkeys := make([]string, 0, len(writes))
	for k := range writes {
		wkeys = append(wkeys, k)
	}
	sort.Strings(wkeys)
	b.WriteString("\nDefinition src_shared_writes : list str :=\n  [ ")
	for i, k := range wkeys {
		if i > 0 {
			b.WriteString(";\n    ")
		}
		b.WriteString(coqStr(k))
	}
	b.WriteString(" ].\n")
	os.MkdirAll(outdir, 0o755)
	return os.WriteFile(filepath.Join(outdir, "SourceFacts.v"), []byte(b.String()), 0o644)
}

// rootIdent strips selectors, indexes, stars and parentheses; depth counts what was stripped
// (a plain identifier assignment `x = ...` to a parameter rebinds the local copy: depth 0).
func rootIdent(e ast.Expr) (string, int) {
	depth := 0
	for {
		switch x := e.(type) {
		case *ast.Ident:
			return x.Name, depth
		case *ast.SelectorExpr:
			e = x.X
		case *ast.IndexExpr:
			e = x.X
		case *ast.StarExpr:
			e = x.X
		case *ast.ParenExpr:
			e = x.X
		default:
			return "", depth
		}
		depth++
	}
}

func isSyncWrite(ce *ast.CallExpr) bool {
	sel, ok := ce.Fun.(*ast.SelectorExpr)
	if !ok {
		return false
	}
	switch sel.Sel.Name {
	case "Store", "LoadOrStore", "Delete", "Swap", "CompareAndSwap", "LoadAndDelete", "Clear":
		return true
	}
	return false
}

func recvName(e ast.Expr) string {
	switch x := e.(type) {
	case *ast.StarExpr:
		return recvName(x.X)
	case *ast.Ident:
		return x.Name
	case *ast.IndexExpr:
		return recvName(x.X)
	}
	return "?"
}

func exprString(e ast.Expr) string {
	switch x := e.(type) {
	case *ast.Ident:
		return x.Name
	case *ast.StarExpr:
		return "*" + exprString(x.X)
	case *ast.SelectorExpr:
		return exprString(x.X) + "." + x.Sel.Name
	case *ast.ArrayType:
		return "[]" + exprString(x.Elt)
	case *ast.MapType:
		return "map[" + exprString(x.Key) + "]" + exprString(x.Value)
	case *ast.InterfaceType:
		return "any"
	case *ast.IndexExpr:
		return exprString(x.X) + "[" + exprString(x.Index) + "]"
	case *ast.ParenExpr:
		return "(" + exprString(x.X) + ")"
	case *ast.BasicLit:
		return x.Value
	case *ast.CallExpr:
		return exprString(x.Fun) + "(..)"
	}
	return fmt.Sprintf("%T", e)
}
