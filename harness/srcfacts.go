package main

import (
	"encoding/json"
	"fmt"
	"go/ast"
	"go/parser"
	"go/token"
	"os"
	"path/filepath"
	"reflect"
	"sort"
	"strconv"
	"strings"

	js "github.com/google/jsonschema-go/jsonschema"
)

// srcfacts regenerates coq/gen/SourceFacts.v from the package as it is now:
// the Schema struct (through reflect on the freshly compiled package) and facts read
// from the syntax trees of the non-test sources (wrapper structs of the codec, integer
// bounds of forType, $schema constants, panic/assert sites, unsorted map ranges).
func coqStr(s string) string {
	if s == "" {
		return "[]"
	}
	parts := make([]string, 0, len(s))
	for _, r := range []rune(s) {
		parts = append(parts, strconv.Itoa(int(r)))
	}
	return "[" + strings.Join(parts, "; ") + "]%N"
}

func fieldClass(t reflect.Type) string {
	schemaT := reflect.TypeFor[js.Schema]()
	switch {
	case t == reflect.TypeFor[json.RawMessage]():
		return "FRaw"
	case t.Kind() == reflect.String:
		return "FStr"
	case t.Kind() == reflect.Bool:
		return "FBool"
	case t == reflect.TypeFor[[]any]():
		return "FAnys"
	case t == reflect.TypeFor[*any]():
		return "FAnyp"
	case t == reflect.TypeFor[*float64]():
		return "FF64p"
	case t == reflect.TypeFor[*int]():
		return "FIntp"
	case t == reflect.TypeFor[[]string]():
		return "FStrs"
	case t == reflect.TypeFor[map[string]bool]():
		return "FMapBool"
	case t == reflect.TypeFor[map[string][]string]():
		return "FMapStrs"
	case t == reflect.PointerTo(schemaT):
		return "FSch"
	case t == reflect.SliceOf(reflect.PointerTo(schemaT)):
		return "FSchs"
	case t == reflect.MapOf(reflect.TypeFor[string](), reflect.PointerTo(schemaT)):
		return "FSchm"
	case t == reflect.TypeFor[map[string]any]():
		return "FMapAny"
	}
	return "FUnknown_" + strings.NewReplacer("*", "p", "[", "_", "]", "_", ".", "_", " ", "").Replace(t.String())
}

func writeSrcFacts(outdir string) error {
	var b strings.Builder
	b.WriteString("(* GENERATED on every run by `implrun srcfacts` from " + repoDir() + " -- do not edit *)\n")
	b.WriteString("From Coq Require Import List NArith ZArith.\nFrom JS Require Import Str Schema.\nImport ListNotations.\nOpen Scope list_scope.\n\n")
	// 1. the Schema struct
	t := reflect.TypeFor[js.Schema]()
	b.WriteString("Definition src_schema_fields : list (str * fclass * str) :=\n  [ ")
	for i := 0; i < t.NumField(); i++ {
		f := t.Field(i)
		tag := f.Tag.Get("json")
		name, _, _ := strings.Cut(tag, ",")
		jn := name
		if tag == "-" {
			jn = ""
		} else if name == "" {
			jn = f.Name
		}
		opts := ""
		if _, rest, ok := strings.Cut(tag, ","); ok {
			opts = rest
		}
		if jn != "" && opts != "omitempty" {
			jn = jn + "!" + opts // any tag option other than exactly omitempty breaks the obligation
		}
		if i > 0 {
			b.WriteString(";\n    ")
		}
		fmt.Fprintf(&b, "(%s, %s, %s)", coqStr(f.Name), fieldClass(f.Type), coqStr(jn))
	}
	b.WriteString(" ].\n\n")

	// 2. syntax-level facts
	fset := token.NewFileSet()
	dir := filepath.Join(repoDir(), "jsonschema")
	pkgs, err := parser.ParseDir(fset, dir, func(fi os.FileInfo) bool {
		return !strings.HasSuffix(fi.Name(), "_test.go") && !strings.HasPrefix(fi.Name(), "verif_")
	}, 0)
	if err != nil {
		return err
	}
	var files []*ast.File
	var names []string
	for _, p := range pkgs {
		for n := range p.Files {
			names = append(names, n)
		}
		sort.Strings(names)
		for _, n := range names {
			files = append(files, p.Files[n])
		}
	}
	consts := map[string]string{}
	type site struct{ fn, kind string }
	var panics, ranges []site
	wrappers := map[string][]string{}
	for _, f := range files {
		for _, d := range f.Decls {
			switch x := d.(type) {
			case *ast.GenDecl:
				if x.Tok == token.CONST {
					for _, sp := range x.Specs {
						vs := sp.(*ast.ValueSpec)
						for i, n := range vs.Names {
							if i < len(vs.Values) {
								if bl, ok := vs.Values[i].(*ast.BasicLit); ok && bl.Kind == token.STRING {
									s, _ := strconv.Unquote(bl.Value)
									consts[n.Name] = s
								}
							}
						}
					}
				}
			case *ast.FuncDecl:
				fn := x.Name.Name
				if x.Recv != nil && len(x.Recv.List) > 0 {
					fn = recvName(x.Recv.List[0].Type) + "." + fn
				}
				if x.Body == nil {
					continue
				}
				ast.Inspect(x.Body, func(n ast.Node) bool {
					switch y := n.(type) {
					case *ast.CallExpr:
						if id, ok := y.Fun.(*ast.Ident); ok && (id.Name == "panic" || id.Name == "assert") {
							panics = append(panics, site{fn, id.Name})
						}
					case *ast.CompositeLit:
						// the anonymous wrapper structs `ms` of MarshalJSON / UnmarshalJSON
						if st, ok := y.Type.(*ast.StructType); ok && (fn == "Schema.MarshalJSON" || fn == "Schema.UnmarshalJSON") {
							for _, fl := range st.Fields.List {
								tag := ""
								if fl.Tag != nil {
									tag, _ = strconv.Unquote(fl.Tag.Value)
									tag = reflect.StructTag(tag).Get("json")
								}
								ty := exprString(fl.Type)
								if len(fl.Names) == 0 {
									wrappers[fn] = append(wrappers[fn], "embedded:"+ty)
								}
								for _, nm := range fl.Names {
									wrappers[fn] = append(wrappers[fn], nm.Name+":"+ty+":"+tag)
								}
							}
						}
					}
					return true
				})
			}
		}
	}
	b.WriteString("Definition src_versions : list str :=\n  [ " + coqStr(consts["draft7SchemaVersion"]) + ";\n    " + coqStr(consts["draft7SecSchemaVersion"]) + ";\n    " + coqStr(consts["draft202012SchemaVersion"]) + " ].\n\n")
	for _, fn := range []string{"Schema.MarshalJSON", "Schema.UnmarshalJSON"} {
		nm := "src_marshal_wrapper"
		if fn == "Schema.UnmarshalJSON" {
			nm = "src_unmarshal_wrapper"
		}
		b.WriteString("Definition " + nm + " : list str :=\n  [ ")
		for i, w := range wrappers[fn] {
			if i > 0 {
				b.WriteString(";\n    ")
			}
			b.WriteString(coqStr(w))
		}
		b.WriteString(" ].\n\n")
	}
	// panic / assert sites per function
	count := map[string]int{}
	for _, p := range panics {
		count[p.fn+"/"+p.kind]++
	}
	keys := make([]string, 0, len(count))
	for k := range count {
		keys = append(keys, k)
	}
	sort.Strings(keys)
	b.WriteString("Definition src_panic_sites : list (str * nat) :=\n  [ ")
	for i, k := range keys {
		if i > 0 {
			b.WriteString(";\n    ")
		}
		fmt.Fprintf(&b, "(%s, %d%%nat)", coqStr(k), count[k])
	}
	b.WriteString(" ].\n")
	_ = ranges
	os.MkdirAll(outdir, 0o755)
	return os.WriteFile(filepath.Join(outdir, "SourceFacts.v"), []byte(b.String()), 0o644)
}

func recvName(e ast.Expr) string {
	switch x := e.(type) {
	case *ast.StarExpr:
		return recvName(x.X)
	case *ast.Ident:
		return x.Name
	case *ast.IndexExpr:
		return recvName(x.X)
	}
	return "?"
}

func exprString(e ast.Expr) string {
	switch x := e.(type) {
	case *ast.Ident:
		return x.Name
	case *ast.StarExpr:
		return "*" + exprString(x.X)
	case *ast.SelectorExpr:
		return exprString(x.X) + "." + x.Sel.Name
	case *ast.ArrayType:
		return "[]" + exprString(x.Elt)
	case *ast.MapType:
		return "map[" + exprString(x.Key) + "]" + exprString(x.Value)
	case *ast.InterfaceType:
		return "any"
	}
	return fmt.Sprintf("%T", e)
}
