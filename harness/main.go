package main

import (
	"bufio"
	"fmt"
	"os"
	"strconv"
)

// implrun FAMILY SEED N OUTDIR
// writes OUTDIR/cases.sx (for the model), OUTDIR/impl.obs (observations of the package)
// and OUTDIR/meta.tsv (id, note, expected) for the evidence.
func main() {
	if len(os.Args) < 5 {
		fmt.Fprintln(os.Stderr, "usage: implrun FAMILY SEED N OUTDIR [ONLY-ID]")
		os.Exit(2)
	}
	family := os.Args[1]
	seed, _ := strconv.ParseUint(os.Args[2], 10, 64)
	n, _ := strconv.Atoi(os.Args[3])
	out := os.Args[4]
	only := ""
	if len(os.Args) > 5 {
		only = os.Args[5]
	}
	os.MkdirAll(out, 0o755)
	cf, _ := os.Create(out + "/cases.sx")
	of, _ := os.Create(out + "/impl.obs")
	mf, _ := os.Create(out + "/meta.tsv")
	pf, _ := os.Create(out + "/progress") // the id of the case about to run, unbuffered: read when the process dies
	cw, ow, mw := bufio.NewWriterSize(cf, 1<<20), bufio.NewWriterSize(of, 1<<20), bufio.NewWriterSize(mf, 1<<20)
	emit := func(id, sx, obs, note, expect string) {
		if only != "" && id != only {
			return
		}
		fmt.Fprintln(cw, sx)
		fmt.Fprintln(ow, obs)
		fmt.Fprintf(mw, "%s\t%s\t%s\n", id, note, expect)
	}
	switch family {
	case "srcfacts":
		if err := writeSrcFacts(out); err != nil {
			fmt.Fprintln(os.Stderr, err)
			os.Exit(1)
		}
	case "kf":
		runKF(out)
	case "suite2020", "suite7":
		d := "2020"
		if family == "suite7" {
			d = "7"
		}
		for _, c := range suiteCases(d) {
			emit(c.ID, c.sx(), c.runImpl(), c.Note, c.Expect)
		}
	default:
		gen, ok := families[family]
		if !ok {
			fmt.Fprintln(os.Stderr, "unknown family", family)
			os.Exit(2)
		}
		for i := 0; i < n; i++ {
			id := fmt.Sprintf("%s-%d-%06d", family, seed, i)
			if only != "" && id != only {
				continue
			}
			fmt.Fprintln(pf, id)
			// replaying a schedule-dependent failure: the same case again and again
			for reps, _ := strconv.Atoi(os.Getenv("VERIF_REPEAT")); reps > 1; reps-- {
				gen(caseRng(seed, family, i), id).runImpl()
			}
			c := gen(caseRng(seed, family, i), id)
			if os.Getenv("VERIF_DEBUG_CASE") != "" {
				fmt.Fprintln(os.Stderr, c.sx())
			}
			emit(id, c.sx(), c.runImpl(), c.note(), c.expect())
		}
	}
	cw.Flush()
	ow.Flush()
	mw.Flush()
}

// A Case is anything that can be handed to both sides.
type Case interface {
	sx() string
	runImpl() string
	note() string
	expect() string
}

func (c *ValCase) note() string   { return c.Note }
func (c *ValCase) expect() string { return c.Expect }

var families = map[string]func(r *rng, id string) Case{}
