package main

import (
	"encoding/json"
	"fmt"
	"os"

	"github.com/google/jsonschema-go/jsonschema"
)

// Witnesses of the known findings listed in /verif/known_findings.json.  Each returns
// whether the defect still shows on the current tree, and what was observed.
var kfWitnesses = map[string]func() (bool, string){
	"O-16": func() (bool, string) {
		var s jsonschema.Schema
		doc := `{"$defs":{"a":{"type":"integer"}},"definitions":{"b":true},"$ref":"#/$defs/a"}`
		if err := json.Unmarshal([]byte(doc), &s); err != nil {
			return false, "Unmarshal refuses the document: " + err.Error()
		}
		_, merr := json.Marshal(&s)
		_, rerr := s.Resolve(nil)
		if merr != nil || rerr != nil {
			return true, fmt.Sprintf("Unmarshal accepts; Marshal: %v; Resolve: %v", merr, rerr)
		}
		return false, "Marshal and Resolve accept"
	},
}

func runKF(out string) {
	f, _ := os.Create(out + "/kf.tsv")
	defer f.Close()
	for id, w := range kfWitnesses {
		func() {
			defer func() {
				if r := recover(); r != nil {
					fmt.Fprintf(f, "%s\tfails\tpanic: %v\n", id, r)
				}
			}()
			bad, what := w()
			st := "ok"
			if bad {
				st = "fails"
			}
			fmt.Fprintf(f, "%s\t%s\t%s\n", id, st, what)
		}()
	}
}
