package main

import (
	"encoding/json"
	"fmt"
	"math/big"
	"os"
	"strings"

	"github.com/google/jsonschema-go/jsonschema"
)

// Witnesses of the known findings listed in /verif/known_findings.json.  Each returns
// whether the defect still shows on the current tree, and what was observed.
type kfInner struct{ A int }
type kfUnexp struct {
	*kfInner
	K int
}

func decodeStrict(text string, p any) error {
	dec := json.NewDecoder(strings.NewReader(text))
	dec.DisallowUnknownFields()
	return dec.Decode(p)
}

func validatesFor[T any](text string) (bool, error) {
	s, err := jsonschema.For[T](nil)
	if err != nil {
		return false, err
	}
	rs, err := s.Resolve(nil)
	if err != nil {
		return false, err
	}
	var inst any
	if err := json.Unmarshal([]byte(text), &inst); err != nil {
		return false, err
	}
	return rs.Validate(inst) == nil, nil
}

var kfWitnesses = map[string]func() (bool, string){
	"O-7b": func() (bool, string) {
		type T struct{ V *big.Int }
		bs, _ := json.Marshal(T{V: big.NewInt(5)})
		ok, err := validatesFor[T](string(bs))
		if err != nil {
			return false, err.Error()
		}
		return !ok, fmt.Sprintf("encoding %s validates: %v", bs, ok)
	},
	"O-9a": func() (bool, string) {
		type T struct{ F float32 }
		ok, err := validatesFor[T](`{"F":1e300}`)
		if err != nil {
			return false, err.Error()
		}
		derr := decodeStrict(`{"F":1e300}`, new(T))
		return ok && derr != nil, fmt.Sprintf("schema accepts: %v; decode: %v", ok, derr)
	},
	"O-9b": func() (bool, string) {
		ok, err := validatesFor[kfUnexp](`{"A":1,"K":2}`)
		if err != nil {
			return false, err.Error()
		}
		derr := decodeStrict(`{"A":1,"K":2}`, new(kfUnexp))
		return ok && derr != nil, fmt.Sprintf("schema accepts: %v; decode: %v", ok, derr)
	},
	"O-11a": func() (bool, string) {
		// a JSON number whose exponent math/big refuses to parse (beyond 10^6)
		n, m := json.Number("1e1000001"), json.Number("10e1000000")
		eqStr := jsonschema.Equal(n, "1e1000001")
		eqNum := jsonschema.Equal(n, m)
		return eqStr || !eqNum, fmt.Sprintf("Equal(json.Number(1e1000001), the string \"1e1000001\") = %v; Equal(json.Number(1e1000001), json.Number(10e1000000)) = %v", eqStr, eqNum)
	},
	"O-5b": func() (bool, string) {
		n := 1 << 40
		bs, err := json.Marshal(&jsonschema.Schema{MinLength: &n})
		if err != nil {
			return false, "Marshal refuses: " + err.Error()
		}
		var back jsonschema.Schema
		uerr := json.Unmarshal(bs, &back)
		return uerr != nil, fmt.Sprintf("Marshal gives %s; Unmarshal of that: %v", bs, uerr)
	},
	"O-16": func() (bool, string) {
		var s jsonschema.Schema
		doc := `{"$defs":{"a":{"type":"integer"}},"definitions":{"b":true},"$ref":"#/$defs/a"}`
		if err := json.Unmarshal([]byte(doc), &s); err != nil {
			return false, "Unmarshal refuses the document: " + err.Error()
		}
		_, merr := json.Marshal(&s)
		_, rerr := s.Resolve(nil)
		if merr != nil || rerr != nil {
			return true, fmt.Sprintf("Unmarshal accepts; Marshal: %v; Resolve: %v", merr, rerr)
		}
		return false, "Marshal and Resolve accept"
	},
}

func runKF(out string) {
	f, _ := os.Create(out + "/kf.tsv")
	defer f.Close()
	for id, w := range kfWitnesses {
		func() {
			defer func() {
				if r := recover(); r != nil {
					fmt.Fprintf(f, "%s\tfails\tpanic: %v\n", id, r)
				}
			}()
			bad, what := w()
			st := "ok"
			if bad {
				st = "fails"
			}
			fmt.Fprintf(f, "%s\t%s\t%s\n", id, st, what)
		}()
	}
}
