package main

import (
	"encoding/json"
	"fmt"
	"strings"

	js "github.com/google/jsonschema-go/jsonschema"
)

// Family defaults (C15): schemas with defaults at any depth of properties, with and
// without required, defaults of every JSON type, on object and non-object subschemas;
// instances with subsets of the properties present and non-objects at any position.
type DefaultsCase struct {
	ID    string
	Doc   Doc
	VD    bool
	Insts []Inst
	Docs  []Doc
	Note  string
}

func genDefaultsSchema(r *rng, depth int, g *genCtx) Doc {
	o := DObj{}
	if r.chance(1, 3) {
		o = append(o, DMem{"type", DStr(pick(r, []string{"object", "integer", "string", "array"}))})
	}
	if r.chance(2, 5) {
		// defaults of every JSON type; sometimes one that violates the schema it sits on
		o = append(o, DMem{"default", pick(r, []Doc{DNum("1"), DStr("s"), DNull{}, DBool(true), DArr{DNum("1")}, DObj{}, DObj{{"a", DNum("5")}}, DObj{{"zz", DStr("x")}}, DNum("2.5")})})
	}
	if depth > 0 && r.chance(3, 4) {
		props := DObj{}
		for _, nm := range shuffled(r, namePool[:5])[:1+r.intn(3)] {
			props = append(props, DMem{nm, genDefaultsSchema(r, depth-1, g)})
		}
		o = append(o, DMem{"properties", props})
		if r.chance(1, 2) {
			var req []string
			for _, m := range props {
				if r.chance(1, 3) {
					req = append(req, m.K)
				}
			}
			if r.chance(1, 4) {
				req = append(req, "zz")
			}
			if req == nil {
				req = []string{}
			}
			o = append(o, DMem{"required", toDoc(req)})
		}
	}
	if r.chance(1, 8) {
		o = append(o, DMem{"minimum", DNum("2")})
	}
	if r.chance(1, 10) {
		o = append(o, DMem{"additionalProperties", DBool(false)})
	}
	if r.chance(1, 25) {
		o = append(o, DMem{"$dynamicRef", DStr("#")})
	}
	return o
}

func genDefaultsInst(r *rng, s Doc, depth int, g *genCtx) Doc {
	o, ok := s.(DObj)
	if !ok || r.chance(1, 6) {
		return g.value(1) // a non-object at any position
	}
	out := DObj{}
	if pv, ok := o.get("properties"); ok {
		for _, m := range pv.(DObj) {
			if r.chance(1, 2) {
				out = append(out, DMem{m.K, genDefaultsInst(r, m.V, depth-1, g)})
			}
		}
	}
	if r.chance(1, 4) {
		out = append(out, DMem{"zz", DNum("0")})
	}
	return out
}

func (c *DefaultsCase) sx() string {
	var b strings.Builder
	vd := 0
	if c.VD {
		vd = 1
	}
	fmt.Fprintf(&b, "(case %s (doc %s) (vd %d) %s (insts", c.ID, sxDoc(c.Doc), vd, rxTables([]Doc{c.Doc}, c.Insts))
	for _, in := range c.Insts {
		b.WriteString(" " + in.Sx)
	}
	b.WriteString("))")
	return b.String()
}
func (c *DefaultsCase) note() string   { return c.Note }
func (c *DefaultsCase) expect() string { return "" }

// extends reports whether every value present in a is present, unchanged or extended, in b.
func extends(a, b any) bool {
	ma, ok := a.(map[string]any)
	if !ok {
		ab, _ := json.Marshal(a)
		bb, _ := json.Marshal(b)
		return string(ab) == string(bb)
	}
	mb, ok := b.(map[string]any)
	if !ok {
		return false
	}
	for k, va := range ma {
		vb, ok := mb[k]
		if !ok || !extends(va, vb) {
			return false
		}
	}
	return true
}

// nilEmpties replaces every empty object of a decoded document by a nil map.
func nilEmpties(v any) any {
	switch x := v.(type) {
	case map[string]any:
		if len(x) == 0 {
			return map[string]any(nil)
		}
		for k, e := range x {
			x[k] = nilEmpties(e)
		}
	case []any:
		for i, e := range x {
			x[i] = nilEmpties(e)
		}
	}
	return v
}

// fillNils is the inverse reading: a nil map is written as {}.
func fillNils(v any) any {
	switch x := v.(type) {
	case map[string]any:
		if x == nil {
			return map[string]any{}
		}
		for k, e := range x {
			x[k] = fillNils(e)
		}
	case []any:
		for i, e := range x {
			x[i] = fillNils(e)
		}
	}
	return v
}

// emptyInserted reports whether tr holds, at a position absent from orig, an empty object
// where the canonical completion ar holds a non-empty one: a container inserted without any
// default inside it.
func emptyInserted(orig, tr, ar any) bool {
	mt, ok := tr.(map[string]any)
	if !ok {
		return false
	}
	mo, _ := orig.(map[string]any)
	ma, _ := ar.(map[string]any)
	for k, vt := range mt {
		vo, present := mo[k]
		if et, ok := vt.(map[string]any); ok && len(et) == 0 && !present {
			if ea, ok := ma[k].(map[string]any); ok && len(ea) > 0 {
				return true
			}
		}
		if emptyInserted(vo, vt, ma[k]) {
			return true
		}
	}
	return false
}

// typedTargets: the same document held by typed Go maps (a document that does not fit is skipped)
func typedTargets() []func() any {
	return []func() any{
		func() any { return &map[string]map[string]any{} },
		func() any { return &map[string]map[string]map[string]any{} },
		func() any { return &map[string]map[string]int{} },
		func() any { return &map[string]map[string]map[string]string{} },
	}
}

func (c *DefaultsCase) runImpl() string {
	var s js.Schema
	if err := json.Unmarshal([]byte(renderJSON(c.Doc)), &s); err != nil {
		return c.ID + " unm=err"
	}
	var rs *js.Resolved
	var err error
	if o := guarded(func() { rs, err = s.Resolve(&js.ResolveOptions{ValidateDefaults: c.VD}) }); o != "" {
		return c.ID + " unm=ok res=" + o
	}
	if err != nil {
		return c.ID + " unm=ok res=err"
	}
	var outs []string
	lawIdem, lawExt, lawNil, lawTyped := "1", "1", "1", "1"
	schemaHasNull := strings.Contains(renderJSON(c.Doc), "null")
	// a declared default {} is a legitimate empty insertion (its completion may not fit the element type)
	declaresEmpty := strings.Contains(strings.ReplaceAll(renderJSON(c.Doc), " ", ""), "\"default\":{}")
	nTyped := 0
	why := "-"
	for _, d := range c.Docs {
		var v, orig any
		json.Unmarshal([]byte(renderJSON(d)), &v)
		json.Unmarshal([]byte(renderJSON(d)), &orig)
		var aerr error
		if o := guarded(func() { aerr = rs.ApplyDefaults(&v) }); o != "" {
			outs = append(outs, o)
			continue
		}
		if aerr != nil {
			outs = append(outs, "err")
			continue
		}
		b1, _ := json.Marshal(v)
		d1, _ := parseDoc(b1)
		outs = append(outs, canonDoc(d1))
		if !extends(orig, v) {
			lawExt = "0"
		}
		rs.ApplyDefaults(&v)
		b2, _ := json.Marshal(v)
		if string(b1) != string(b2) {
			lawIdem = "0"
		}
		// a nil map is an empty object: the same document with every empty object carried by a
		// nil map (behind the interface, as a member, at the top) is completed the same way
		var w any
		json.Unmarshal([]byte(renderJSON(d)), &w)
		w = nilEmpties(w)
		var werr error
		if o := guarded(func() { werr = rs.ApplyDefaults(&w) }); o != "" || werr != nil {
			lawNil = "0"
		} else if b3, _ := json.Marshal(fillNils(w)); string(b3) != string(b1) {
			lawNil = "0"
		}
		hasNull := schemaHasNull || strings.Contains(renderJSON(d), "null") || strings.Contains(renderJSON(d), "-0") // (-0 is 0 in an int)
		// the same document held by typed maps: completed the same way where the element types can
		// hold the defaults (tr == ar); where they cannot, what is there lies between the original and
		// the canonical completion and no container is inserted empty
		for ti, mk := range typedTargets() {
			if hasNull {
				break // null means "absent value" to a typed map and "the value null" to an interface: not comparable
			}
			tp := mk()
			if json.Unmarshal([]byte(renderJSON(d)), tp) != nil {
				continue
			}
			var terr error
			if o := guarded(func() { terr = rs.ApplyDefaults(tp) }); o != "" {
				lawTyped = "0"
				continue
			}
			if terr != nil {
				continue // a default that the element type cannot hold
			}
			nTyped++
			bt, _ := json.Marshal(tp)
			var tr any
			json.Unmarshal(bt, &tr)
			if ti < 2 && string(bt) != string(b1) {
				lawTyped = "0"
				why = fmt.Sprintf("t%d:differs:%s/%s", ti, bt, b1)
			}
			if !extends(orig, tr) || !extends(tr, v) || (!declaresEmpty && emptyInserted(orig, tr, v)) {
				lawTyped = "0"
				why = fmt.Sprintf("t%d:between:%v,%v,%v:%s/%s/%s", ti, extends(orig, tr), extends(tr, v), emptyInserted(orig, tr, v), renderJSON(d), bt, b1)
			}
			rs.ApplyDefaults(tp)
			if bt2, _ := json.Marshal(tp); string(bt2) != string(bt) {
				lawTyped = "0"
				why = fmt.Sprintf("t%d:idem", ti)
			}
		}
	}
	return fmt.Sprintf("%s unm=ok res=ok out=%s law_idempotent=%s law_extends=%s law_nilmap=%s law_typed=%s impl_typed=%d impl_typedwhy=%s", c.ID, strings.Join(outs, ";"), lawIdem, lawExt, lawNil, lawTyped, nTyped, strings.ReplaceAll(why, " ", "_"))
}

func init() {
	families["defaults"] = func(r *rng, id string) Case {
		g := &genCtx{r: r}
		doc := genDefaultsSchema(r, 1+r.intn(3), g)
		c := &DefaultsCase{ID: id, Doc: doc, VD: r.chance(1, 2)}
		for i := 0; i < 6; i++ {
			d := genDefaultsInst(r, doc, 3, g)
			c.Docs = append(c.Docs, d)
			c.Insts = append(c.Insts, canonInst(d))
		}
		c.Docs = append(c.Docs, DObj{})
		c.Insts = append(c.Insts, canonInst(DObj{}))
		kw := map[string]int{}
		keywordsOf(doc, kw)
		nt := 0
		if kw["default"] >= 1 && kw["properties"] >= 1 {
			nt = 1
		}
		c.Note = fmt.Sprintf("nontrivial=%d shape=%x", nt, fnv(renderJSON(doc)))
		return c
	}
}
