package main

import (
	"fmt"
	"strings"
)

// Interaction templates for unevaluated* (C07, C01): an unevaluated keyword at the top (or
// one level down) of a chain of in-place applicators whose leaves evaluate different
// properties / items, so that which branches ran - and whether their annotations
// travelled up - decides the verdict. Instances enumerate subsets of a small pool.

func (g *genCtx) leafProps() Doc {
	r := g.r
	if r.chance(1, 5) {
		return pick(r, []Doc{DObj{{"additionalProperties", DBool(true)}}, DObj{{"unevaluatedProperties", DBool(false)}}, DObj{{"unevaluatedProperties", DBool(false)}},
			DObj{{"unevaluatedProperties", DBool(true)}}, DObj{{"additionalProperties", DObj{{"type", DStr("integer")}}}}})
	}
	switch r.intn(6) {
	case 0, 1:
		o := DObj{}
		for _, nm := range shuffled(r, namePool[:4])[:1+r.intn(2)] {
			var sub Doc = DBool(true)
			if r.chance(1, 4) {
				sub = DObj{{"type", DStr(pick(r, []string{"integer", "string"}))}}
			}
			o = append(o, DMem{nm, sub})
		}
		return DObj{{"properties", o}}
	case 2:
		return DObj{{"patternProperties", DObj{{pick(r, []string{"^a", "^[bc]$", "d"}), DBool(true)}}}}
	case 3:
		return DObj{{"required", toDoc([]string{pick(r, namePool[:4])})}}
	case 4:
		return DObj{{"properties", DObj{{pick(r, namePool[:4]), DBool(true)}}}, {"additionalProperties", DObj{{"type", DStr("integer")}}}}
	default:
		return DObj{{"properties", DObj{{pick(r, namePool[:4]), DObj{{"const", DNum("1")}}}}}}
	}
}

func (g *genCtx) leafItems() Doc {
	r := g.r
	if r.chance(1, 4) {
		// an element that is itself an array, under a subschema that evaluates ITS items: what
		// that subschema notes about the inner array must not count for the outer one
		inner := pick(r, []Doc{
			DObj{{"type", DStr("array")}, {"items", DObj{{"type", DStr("integer")}}}},
			DObj{{"prefixItems", DArr{DBool(true), DBool(true)}}},
			DObj{{"items", DBool(true)}},
			DObj{{"contains", DObj{{"const", DNum("1")}}}},
			DObj{{"type", DStr("array")}, {"unevaluatedItems", DBool(true)}},
		})
		switch r.intn(3) {
		case 0:
			return DObj{{"prefixItems", DArr{inner}}}
		case 1:
			return DObj{{"contains", inner}}
		default:
			return DObj{{"prefixItems", DArr{DBool(true), inner}}}
		}
	}
	if r.chance(1, 5) {
		// a cousin that evaluates everything, or a nested unevaluatedItems that must not see its cousins
		return pick(r, []Doc{DObj{{"items", DBool(true)}}, DObj{{"unevaluatedItems", DBool(false)}}, DObj{{"unevaluatedItems", DBool(false)}},
			DObj{{"items", DObj{{"type", DStr("integer")}}}}, DObj{{"unevaluatedItems", DBool(true)}}})
	}
	switch r.intn(5) {
	case 0, 1:
		n := 1 + r.intn(2)
		a := DArr{}
		for i := 0; i < n; i++ {
			a = append(a, pick(r, []Doc{DBool(true), DObj{{"type", DStr("integer")}}, DObj{{"const", DStr("a")}}}))
		}
		return DObj{{"prefixItems", a}}
	case 2:
		o := DObj{{"contains", pick(r, []Doc{DObj{{"type", DStr("string")}}, DObj{{"const", DNum("1")}}, DObj{{"minimum", DNum("2")}}})}}
		// the bounds change what contains asserts, never which items it evaluates
		// (minContains 0 makes it assert nothing at all)
		if r.chance(1, 2) {
			o = append(o, DMem{"minContains", DNum(pick(r, []string{"0", "0", "1", "2"}))})
		}
		if r.chance(1, 4) {
			o = append(o, DMem{"maxContains", DNum(pick(r, []string{"0", "1", "2"}))})
		}
		return o
	case 3:
		return DObj{{"prefixItems", DArr{DBool(true)}}, {"items", DObj{{"type", DStr("integer")}}}}
	default:
		return DObj{{"minItems", DNum(pick(r, countPool))}}
	}
}

// wrap puts leaves below a chain of in-place applicators.
func (g *genCtx) wrap(leaf func() Doc, depth int, defs *DObj) Doc {
	r := g.r
	if depth <= 0 {
		return leaf()
	}
	sub := func() Doc { return g.wrap(leaf, depth-1, defs) }
	switch r.intn(9) {
	case 0:
		return DObj{{"allOf", DArr{sub(), sub()}}}
	case 1, 2:
		return DObj{{"anyOf", DArr{sub(), sub(), leaf()}}}
	case 3:
		return DObj{{"oneOf", DArr{sub(), DBool(false)}}}
	case 4:
		return DObj{{"if", sub()}, {"then", sub()}, {"else", sub()}}
	case 5:
		body := sub()
		name := fmt.Sprintf("w%d", len(*defs))
		*defs = append(*defs, DMem{name, body})
		return DObj{{"$ref", DStr("#/$defs/" + name)}}
	case 6:
		return DObj{{"not", DObj{{"not", sub()}}}}
	case 7:
		return DObj{{"dependentSchemas", DObj{{pick(r, namePool[:3]), sub()}}}}
	default:
		m := sub()
		if o, ok := m.(DObj); ok {
			return append(DObj{}, append(o, leaf().(DObj)...)...)
		}
		return m
	}
}

func genUnevalTemplate(r *rng, id string) *ValCase {
	g := &genCtx{r: r}
	defs := DObj{}
	objects := r.chance(1, 2)
	leaf := g.leafItems
	kw := "unevaluatedItems"
	if objects {
		leaf, kw = g.leafProps, "unevaluatedProperties"
	}
	uneval := pick(r, []Doc{DBool(false), DBool(false), DObj{{"type", DStr("string")}}, DBool(true)})
	body := g.wrap(leaf, 1+r.intn(3), &defs)
	var root DObj
	if o, ok := body.(DObj); ok && r.chance(1, 2) {
		// adjacent: the applicator chain and unevaluated* in one object
		root = append(DObj{}, o...)
	} else {
		root = DObj{{"allOf", DArr{body}}}
	}
	if _, dup := root.get(kw); !dup {
		root = append(root, DMem{kw, uneval})
	}
	if r.chance(1, 3) {
		// a second unevaluated* one level down
		root = DObj{{"allOf", DArr{root}}, {kw, pick(r, []Doc{DBool(false), DBool(true)})}}
	}
	if len(defs) > 0 {
		root = append(root, DMem{"$defs", defs})
	}
	c := &ValCase{ID: id, Doc: root, NoLoader: true}
	if objects {
		// every subset of {a,b,c,d} with values drawn per member
		for mask := 0; mask < 16; mask++ {
			o := DObj{}
			for i, nm := range namePool[:4] {
				if mask&(1<<i) != 0 {
					o = append(o, DMem{nm, pick(r, []Doc{DNum("1"), DStr("s"), DNum("2")})})
				}
			}
			c.Insts = append(c.Insts, canonInst(o))
		}
	} else {
		pool := []Doc{DNum("1"), DStr("a"), DNum("3"), DStr("x"), DNull{}, DArr{DNum("1"), DNum("2")}, DArr{DNum("1"), DNum("2")}, DArr{DStr("a")}, DArr{}}
		for n := 0; n < 4; n++ {
			for k := 0; k < 5; k++ {
				a := DArr{}
				for i := 0; i < n; i++ {
					a = append(a, pick(r, pool))
				}
				c.Insts = append(c.Insts, canonInst(a))
			}
		}
	}
	c.Note = fmt.Sprintf("nontrivial=1 shape=%x", fnv(shapeOf(root)+strings.Repeat("o", map[bool]int{true: 1, false: 0}[objects])))
	return c
}

// Recursive closed schemas (C14, C01, C07): a schema that reaches itself through several of its
// own properties (or items) while it is closed by additionalProperties / unevaluatedProperties,
// so that the bookkeeping of one object is live while the same schema object is evaluated
// again for a nested object. Instances are trees that use every declared property.
func genRecTemplate(r *rng, id string) *ValCase {
	g := &genCtx{r: r}
	names := shuffled(r, namePool[:4])
	nrec := 1 + r.intn(2)
	self := pick(r, []string{"#", "#", "#/$defs/node", "#node"})
	props := DObj{}
	for i, nm := range names {
		switch {
		case i < nrec:
			props = append(props, DMem{nm, DObj{{"$ref", DStr(self)}}})
		case i == nrec && r.chance(1, 2):
			props = append(props, DMem{nm, DObj{{"type", DStr("array")}, {"items", DObj{{"$ref", DStr(self)}}}}})
		default:
			props = append(props, DMem{nm, pick(r, []Doc{DBool(true), DObj{{"type", DStr("integer")}}, DObj{}})})
		}
	}
	node := DObj{{"properties", props}}
	closer := pick(r, []string{"additionalProperties", "additionalProperties", "unevaluatedProperties", "both"})
	if closer == "additionalProperties" || closer == "both" {
		node = append(node, DMem{"additionalProperties", DBool(false)})
	}
	if closer == "unevaluatedProperties" || closer == "both" {
		node = append(node, DMem{"unevaluatedProperties", DBool(false)})
	}
	if r.chance(1, 3) {
		node = append(node, DMem{"required", toDoc([]string{names[len(names)-1]})})
	}
	var root DObj
	switch self {
	case "#":
		root = node
	case "#node":
		root = DObj{{"$ref", DStr("#node")}, {"$defs", DObj{{"node", append(DObj{{"$anchor", DStr("node")}}, node...)}}}}
	default:
		root = DObj{{"$ref", DStr("#/$defs/node")}, {"$defs", DObj{{"node", node}}}}
	}
	c := &ValCase{ID: id, Doc: root, NoLoader: true}
	var tree func(depth int, full bool) Doc
	tree = func(depth int, full bool) Doc {
		o := DObj{}
		for i, nm := range names {
			if !full && r.chance(1, 4) {
				continue
			}
			rec := i < nrec
			if rec && depth > 0 {
				o = append(o, DMem{nm, tree(depth-1, full)})
			} else if !rec {
				if arr, ok := props[i].V.(DObj); ok && len(arr) == 2 && depth > 0 {
					o = append(o, DMem{nm, DArr{tree(depth-1, full)}})
				} else if ok && len(arr) == 2 {
					o = append(o, DMem{nm, DArr{}})
				} else {
					o = append(o, DMem{nm, pick(r, []Doc{DNum("1"), DNum("2"), DStr("s")})})
				}
			}
		}
		return DObj(shuffled(r, []DMem(o)))
	}
	for i := 0; i < 10; i++ {
		t := tree(1+r.intn(3), i < 6)
		if i >= 8 {
			// a stranger member somewhere: must be rejected
			if o, ok := t.(DObj); ok {
				t = append(o, DMem{"zz", DNum("1")})
			}
		}
		c.Insts = append(c.Insts, canonInst(t))
	}
	_ = g
	c.Note = fmt.Sprintf("nontrivial=1 shape=%x", fnv(shapeOf(root)))
	return c
}

func init() {
	families["unevalt"] = func(r *rng, id string) Case {
		if r.chance(1, 5) {
			return genRecTemplate(r, id)
		}
		return genUnevalTemplate(r, id)
	}
}
