package main

// splitmix64: every random choice of a case derives from hash(seed, family, index).
type rng struct{ s uint64 }

func (r *rng) next() uint64 {
	r.s += 0x9e3779b97f4a7c15
	z := r.s
	z = (z ^ (z >> 30)) * 0xbf58476d1ce4e5b9
	z = (z ^ (z >> 27)) * 0x94d049bb133111eb
	return z ^ (z >> 31)
}
func (r *rng) intn(n int) int {
	if n <= 0 {
		return 0
	}
	return int(r.next() % uint64(n))
}
func (r *rng) chance(num, den int) bool { return r.intn(den) < num }
func pick[T any](r *rng, xs []T) T      { return xs[r.intn(len(xs))] }

func caseRng(seed uint64, family string, idx int) *rng {
	h := seed ^ 0x51ed270b7a2c3d4f
	for _, c := range []byte(family) {
		h = (h ^ uint64(c)) * 0x100000001b3
	}
	// the per-case state is a hash of (family hash, index): consecutive indices must not be
	// consecutive states of one stream (they would produce shifted copies of the same choices)
	m := &rng{s: h ^ (uint64(idx)+1)*0xd1b54a32d192ed03}
	r := &rng{s: m.next() ^ (m.next() << 1)}
	r.next()
	return r
}

// shuffled returns a permutation of xs.
func shuffled[T any](r *rng, xs []T) []T {
	ys := append([]T(nil), xs...)
	for i := len(ys) - 1; i > 0; i-- {
		j := r.intn(i + 1)
		ys[i], ys[j] = ys[j], ys[i]
	}
	return ys
}
