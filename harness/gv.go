package main

import (
	"encoding/json"
	"fmt"
	"math/big"
	"reflect"
	"strings"
)

// An Inst is a Go value handed to the package together with the model's view of it.
type Inst struct {
	V  any
	Sx string
}

// canonInst decodes the document the way encoding/json does into `any`.
func canonInst(d Doc) Inst {
	var v any
	if err := json.Unmarshal([]byte(renderJSON(d)), &v); err != nil {
		panic(err)
	}
	return Inst{v, "(ind " + sxCanon(d) + ")"}
}

// sxCanon: the gv of the canonical decoding, below the outermost interface.
func sxCanon(d Doc) string {
	switch x := d.(type) {
	case DNull:
		return "(nil)"
	case DBool:
		if x {
			return "(b 1)"
		}
		return "(b 0)"
	case DNum:
		f, _ := new(big.Float).SetString(string(x))
		_ = f
		r := ratOfFloat64Lit(string(x))
		return fmt.Sprintf("(fl %s %s)", r.Num().String(), r.Denom().String())
	case DStr:
		if x == "" {
			return "(str)"
		}
		return "(str " + sxStr(string(x)) + ")"
	case DArr:
		var b strings.Builder
		b.WriteString("(arr")
		for _, e := range x {
			b.WriteString(" (ind " + sxCanon(e) + ")")
		}
		b.WriteString(")")
		return b.String()
	case DObj:
		// a Go map: last duplicate wins; list order is irrelevant to the model's verdict (theorem C14_perm)
		var b strings.Builder
		b.WriteString("(map")
		seen := map[string]bool{}
		for i := len(x) - 1; i >= 0; i-- {
			m := x[i]
			if seen[m.K] {
				continue
			}
			seen[m.K] = true
			b.WriteString(" ((" + sxStr(m.K) + ") (ind " + sxCanon(m.V) + "))")
		}
		b.WriteString(")")
		return b.String()
	}
	panic("sxCanon")
}

// the exact value of the float64 that encoding/json produces for the literal
func ratOfFloat64Lit(lit string) *big.Rat {
	var f float64
	if err := json.Unmarshal([]byte(lit), &f); err != nil {
		// outside float64 (only generated inside unknown keywords, which keep such numbers exactly)
		return ratOf(lit)
	}
	r := new(big.Rat)
	r.SetFloat64(f)
	return r
}

// sxOfValue renders an arbitrary Go value of the supported representations as a gv.
func sxOfValue(v reflect.Value) string {
	if !v.IsValid() {
		return "(nil)"
	}
	if v.Type() == reflect.TypeFor[json.Number]() {
		r, ok := new(big.Rat).SetString(v.String())
		if !ok {
			panic("json.Number literal")
		}
		return fmt.Sprintf("(jn %s %s)", r.Num().String(), r.Denom().String())
	}
	switch v.Kind() {
	case reflect.Interface, reflect.Pointer:
		if v.IsNil() {
			return "(ind (nil))"
		}
		return "(ind " + sxOfValue(v.Elem()) + ")"
	case reflect.Bool:
		if v.Bool() {
			return "(b 1)"
		}
		return "(b 0)"
	case reflect.Int, reflect.Int8, reflect.Int16, reflect.Int32, reflect.Int64:
		return fmt.Sprintf("(i %d)", v.Int())
	case reflect.Uint, reflect.Uint8, reflect.Uint16, reflect.Uint32, reflect.Uint64, reflect.Uintptr:
		return fmt.Sprintf("(i %d)", v.Uint())
	case reflect.Float32, reflect.Float64:
		r := new(big.Rat)
		r.SetFloat64(v.Float())
		return fmt.Sprintf("(fl %s %s)", r.Num().String(), r.Denom().String())
	case reflect.String:
		if v.String() == "" {
			return "(str)"
		}
		return "(str " + sxStr(v.String()) + ")"
	case reflect.Slice, reflect.Array:
		var b strings.Builder
		b.WriteString("(arr")
		for i := 0; i < v.Len(); i++ {
			b.WriteString(" " + sxOfValue(v.Index(i)))
		}
		b.WriteString(")")
		return b.String()
	case reflect.Map:
		var b strings.Builder
		b.WriteString("(map")
		it := v.MapRange()
		for it.Next() {
			b.WriteString(" ((" + sxStr(it.Key().String()) + ") " + sxOfValue(it.Value()) + ")")
		}
		b.WriteString(")")
		return b.String()
	}
	panic("sxOfValue: unsupported kind " + v.Kind().String())
}

func instOf(v any) Inst { return Inst{v, sxOfValue(reflect.ValueOf(v))} }
