package main

import (
	"encoding/json"
	"fmt"
	"hash/maphash"
	"math"
	"math/big"
	"reflect"
	"strings"

	js "github.com/google/jsonschema-go/jsonschema"
)

// Representations (C08, C11, C12): the same JSON value carried by different Go values.

type MyStr string
type MyKey string
type MyInt int32

var numKinds = []string{"float64", "int", "int8", "int16", "int32", "int64", "uint", "uint8", "uint16", "uint32", "uint64", "float32", "jsonnum", "myint"}

func repNumber(r *rng, lit string) any {
	rat := ratOf(lit)
	var f float64
	json.Unmarshal([]byte(lit), &f)
	isInt := rat.IsInt()
	for tries := 0; tries < 8; tries++ {
		switch pick(r, numKinds) {
		case "float64":
			return f
		case "jsonnum":
			return json.Number(lit)
		case "float32":
			if float64(float32(f)) == f && new(big.Rat).SetFloat64(f).Cmp(rat) == 0 {
				return float32(f)
			}
		case "int":
			if isInt && rat.Num().IsInt64() {
				return int(rat.Num().Int64())
			}
		case "int64":
			if isInt && rat.Num().IsInt64() {
				return rat.Num().Int64()
			}
		case "int32":
			if isInt && rat.Num().IsInt64() && rat.Num().Int64() >= math.MinInt32 && rat.Num().Int64() <= math.MaxInt32 {
				return int32(rat.Num().Int64())
			}
		case "myint":
			if isInt && rat.Num().IsInt64() && rat.Num().Int64() >= math.MinInt32 && rat.Num().Int64() <= math.MaxInt32 {
				return MyInt(rat.Num().Int64())
			}
		case "int16":
			if isInt && rat.Num().IsInt64() && rat.Num().Int64() >= math.MinInt16 && rat.Num().Int64() <= math.MaxInt16 {
				return int16(rat.Num().Int64())
			}
		case "int8":
			if isInt && rat.Num().IsInt64() && rat.Num().Int64() >= math.MinInt8 && rat.Num().Int64() <= math.MaxInt8 {
				return int8(rat.Num().Int64())
			}
		case "uint", "uint64":
			if isInt && rat.Num().IsUint64() {
				return rat.Num().Uint64()
			}
		case "uint32":
			if isInt && rat.Num().IsUint64() && rat.Num().Uint64() <= math.MaxUint32 {
				return uint32(rat.Num().Uint64())
			}
		case "uint16":
			if isInt && rat.Num().IsUint64() && rat.Num().Uint64() <= math.MaxUint16 {
				return uint16(rat.Num().Uint64())
			}
		case "uint8":
			if isInt && rat.Num().IsUint64() && rat.Num().Uint64() <= math.MaxUint8 {
				return uint8(rat.Num().Uint64())
			}
		}
	}
	// the float64 must denote the literal exactly, else use json.Number
	if new(big.Rat).SetFloat64(f).Cmp(rat) == 0 {
		return f
	}
	return json.Number(lit)
}

// repValue builds a random representation of d. Containers are non-nil.
func repValue(r *rng, d Doc, depth int) any {
	var v any
	switch x := d.(type) {
	case DNull:
		switch r.intn(3) {
		case 0:
			v = nil
		case 1:
			v = (*int)(nil)
		default:
			v = (*map[string]any)(nil)
		}
		return v
	case DBool:
		v = bool(x)
	case DNum:
		v = repNumber(r, string(x))
	case DStr:
		if r.chance(1, 3) {
			v = MyStr(x)
		} else {
			v = string(x)
		}
	case DArr:
		if bs, ok := asBytes(x); ok && r.chance(1, 3) {
			// arrays of small non-negative integers as []byte, [N]byte, named byte slices
			switch r.intn(3) {
			case 0:
				v = bs
			case 1:
				arr := reflect.New(reflect.ArrayOf(len(bs), reflect.TypeFor[byte]())).Elem()
				reflect.Copy(arr, reflect.ValueOf(bs))
				v = arr.Interface()
			default:
				v = MyBytes(bs)
			}
			break
		}
		elems := make([]any, len(x))
		for i, e := range x {
			elems[i] = repValue(r, e, depth+1)
		}
		v = packSlice(r, elems)
	case DObj:
		// a Go map: last duplicate wins (documents here have distinct names)
		m := map[string]any{}
		for _, mem := range x {
			m[mem.K] = repValue(r, mem.V, depth+1)
		}
		v = packMap(r, m)
	}
	// pointer / interface wrapping
	if r.chance(1, 5) {
		p := reflect.New(reflect.TypeOf(&v).Elem()) // *any
		p.Elem().Set(reflect.ValueOf(&v).Elem())
		return p.Interface()
	}
	if v != nil && r.chance(1, 6) {
		p := reflect.New(reflect.TypeOf(v))
		p.Elem().Set(reflect.ValueOf(v))
		return p.Interface()
	}
	return v
}

type MyBytes []byte

// asBytes: every element a number with an integral value in 0..255
func asBytes(a DArr) ([]byte, bool) {
	if len(a) == 0 {
		return nil, false
	}
	out := make([]byte, len(a))
	for i, e := range a {
		n, ok := e.(DNum)
		if !ok {
			return nil, false
		}
		rat := ratOf(string(n))
		if !rat.IsInt() || rat.Sign() < 0 || rat.Num().Cmp(big.NewInt(255)) > 0 {
			return nil, false
		}
		out[i] = byte(rat.Num().Int64())
	}
	return out, true
}

func sameType(xs []any) reflect.Type {
	if len(xs) == 0 {
		return nil
	}
	var t reflect.Type
	for _, x := range xs {
		if x == nil {
			return nil
		}
		if t == nil {
			t = reflect.TypeOf(x)
		} else if reflect.TypeOf(x) != t {
			return nil
		}
	}
	return t
}

func packSlice(r *rng, elems []any) any {
	if pt, ok := ptrElemType(elems); ok && r.chance(1, 3) {
		sl := reflect.MakeSlice(reflect.SliceOf(pt), len(elems), len(elems))
		for i, e := range elems {
			sl.Index(i).Set(ptrTo(pt, e))
		}
		return sl.Interface()
	}
	t := sameType(elems)
	if t != nil && r.chance(1, 2) {
		if r.chance(1, 3) {
			arr := reflect.New(reflect.ArrayOf(len(elems), t)).Elem()
			for i, e := range elems {
				arr.Index(i).Set(reflect.ValueOf(e))
			}
			return arr.Interface()
		}
		sl := reflect.MakeSlice(reflect.SliceOf(t), len(elems), len(elems))
		for i, e := range elems {
			sl.Index(i).Set(reflect.ValueOf(e))
		}
		return sl.Interface()
	}
	if r.chance(1, 6) {
		arr := reflect.New(reflect.ArrayOf(len(elems), reflect.TypeFor[any]())).Elem()
		for i, e := range elems {
			if e != nil {
				arr.Index(i).Set(reflect.ValueOf(e))
			}
		}
		return arr.Interface()
	}
	return elems
}

// isNullRep: one of the representations of JSON null (nil interface, nil pointer)
func isNullRep(v any) bool {
	if v == nil {
		return true
	}
	rv := reflect.ValueOf(v)
	return rv.Kind() == reflect.Pointer && rv.IsNil()
}

// ptrElems: containers whose element type is a pointer - null members are nil pointers, the
// others point to their value (map[string]*int{"a": nil, "b": &one}, []*string{nil, &s})
func ptrElemType(vals []any) (reflect.Type, bool) {
	var nonNull []any
	nulls := 0
	for _, v := range vals {
		if isNullRep(v) {
			nulls++
		} else {
			nonNull = append(nonNull, v)
		}
	}
	if nulls == 0 {
		return nil, false
	}
	t := reflect.TypeFor[int]()
	if len(nonNull) > 0 {
		if t = sameType(nonNull); t == nil {
			return nil, false
		}
	}
	return reflect.PointerTo(t), true
}

func ptrTo(pt reflect.Type, v any) reflect.Value {
	if isNullRep(v) {
		return reflect.Zero(pt)
	}
	p := reflect.New(pt.Elem())
	p.Elem().Set(reflect.ValueOf(v))
	return p
}

func packMap(r *rng, m map[string]any) any {
	vals := make([]any, 0, len(m))
	for _, v := range m {
		vals = append(vals, v)
	}
	if pt, ok := ptrElemType(vals); ok && r.chance(1, 2) {
		kt := reflect.TypeFor[string]()
		if r.chance(1, 3) {
			kt = reflect.TypeFor[MyKey]()
		}
		mv := reflect.MakeMapWithSize(reflect.MapOf(kt, pt), len(m))
		for k, v := range m {
			mv.SetMapIndex(reflect.ValueOf(k).Convert(kt), ptrTo(pt, v))
		}
		return mv.Interface()
	}
	et := reflect.TypeFor[any]()
	if t := sameType(vals); t != nil && r.chance(1, 2) {
		et = t
	}
	kt := reflect.TypeFor[string]()
	if r.chance(1, 3) {
		kt = reflect.TypeFor[MyKey]()
	} else if r.chance(1, 5) {
		kt = reflect.TypeFor[json.Number]() // a string kind: its values are property names, never numbers
	}
	if et == reflect.TypeFor[any]() && kt == reflect.TypeFor[string]() {
		return m
	}
	mv := reflect.MakeMapWithSize(reflect.MapOf(kt, et), len(m))
	for k, v := range m {
		ev := reflect.Zero(et)
		if v != nil {
			ev = reflect.ValueOf(v)
		}
		mv.SetMapIndex(reflect.ValueOf(k).Convert(kt), ev)
	}
	return mv.Interface()
}

// family repr: a val case whose instances come in several representations each
func genReprCase(r *rng, id string) *ValCase {
	g := &genCtx{r: r, ndefs: r.intn(3)}
	doc := g.document(2 + r.intn(2))
	c := &ValCase{ID: id, Doc: doc, NoLoader: true, HSeed: r.intn(1000)}
	kws := map[string]int{}
	keywordsOf(doc, kws)
	g.smallNums = kws["multipleOf"] > 0
	var docs []Doc
	if r.chance(1, 6) {
		// uniqueItems on arrays of numbers that occur twice under other spellings / Go types,
		// incl. integers beyond 2^53 and 2^63 and negative zero
		doc = DObj{{"uniqueItems", DBool(true)}}
		if r.chance(1, 2) {
			doc = DObj{{"items", DObj{{"type", DStr("number")}}}, {"uniqueItems", DBool(true)}}
		}
		c.Doc = doc
		g.smallNums = false
		pairs := [][2]string{{"0", "-0"}, {"1", "1.0"}, {"9223372036854775808", "9.223372036854775808e18"}, {"18446744073709551615", "18446744073709551615"},
			{"-0.0", "0"}, {"100", "1e2"}, {"9007199254740992", "9007199254740992.0"}, {"9223372036854775807", "9223372036854775807"}, {"-9223372036854775808", "-9223372036854775808.0"}}
		for i := 0; i < 4; i++ {
			pr := pick(r, pairs)
			a := DArr{DNum(pick(r, numPool)), DNum(pr[0]), DStr("x"), DNum(pr[1])}
			if r.chance(1, 2) {
				a = DArr{DNum(pr[0]), DNum(pr[1])}
			}
			if r.chance(1, 3) {
				a = DArr{DArr{DNum(pr[0])}, DArr{DNum(pr[1])}}
			}
			docs = append(docs, a)
		}
		docs = append(docs, DArr{DNum("1"), DNum("2")})
		if r.chance(1, 2) {
			// three entries in one bucket: unequal values whose hash streams coincide under every
			// seed, around a real duplicate (x y x) - and without one (x y)
			cp := pick(r, [][2]Doc{{DNull{}, DBool(false)}, {DBool(true), DStr("\x01")}, {DArr{DStr("a"), DStr("b")}, DArr{DStr("ab"), DStr("")}}})
			x, y := cp[0], cp[1]
			if r.chance(1, 2) {
				x, y = y, x
			}
			docs = append(docs, DArr{x, y, x}, DArr{x, y}, DArr{DNum("7"), x, y, y})
		}
	} else if r.chance(1, 6) {
		// property names that look like numbers (maps keyed by json.Number carry them too): a name
		// is a string for propertyNames / patternProperties and for object equality
		numNames := []string{"1", "10", "1.0", "1e0", "-0", "a"}
		if r.chance(1, 2) {
			doc = DObj{{"propertyNames", pick(r, []Doc{DObj{{"maxLength", DNum("1")}}, DObj{{"type", DStr("string")}}, DObj{{"const", DStr("10")}},
				DObj{{"pattern", DStr("^1")}}, DObj{{"enum", DArr{DStr("1"), DStr("a")}}}, DObj{{"minLength", DNum("2")}}})}}
			for i := 0; i < 4; i++ {
				o := DObj{}
				for _, nm := range shuffled(r, numNames)[:1+r.intn(2)] {
					o = append(o, DMem{nm, DNum("1")})
				}
				docs = append(docs, o)
			}
		} else {
			doc = DObj{{"uniqueItems", DBool(true)}}
			for i := 0; i < 4; i++ {
				n1, n2 := pick(r, numNames), pick(r, numNames)
				docs = append(docs, DArr{DObj{{n1, DNum("1")}}, DObj{{n2, DNum("1")}}})
			}
		}
		c.Doc = doc
		g.smallNums = false
	} else {
		for i := 0; i < 3; i++ {
			docs = append(docs, g.instFor(doc, doc, 3))
		}
		docs = append(docs, g.mutate(docs[0]), g.value(2))
	}
	diff := 0
	for _, d := range docs {
		if g.smallNums && hasBigNumber(d) {
			continue
		}
		can := canonInst(d)
		c.Insts = append(c.Insts, can)
		for k := 0; k < 3; k++ {
			in := instOf(repValue(r, d, 0))
			if in.Sx != can.Sx {
				diff++
			}
			c.Insts = append(c.Insts, in)
		}
	}
	nt := 0
	if diff > 0 && len(kws) >= 2 {
		nt = 1
	}
	c.Note = fmt.Sprintf("nontrivial=%d shape=%s|%d", nt, shapeOf(doc), diff)
	return c
}

// family equal: pairs of values in mixed representations (C11), with the hash law (C12)
type EqualCase struct {
	ID    string
	Pairs [][2]Inst
	Note  string
}

func (c *EqualCase) sx() string {
	var b strings.Builder
	fmt.Fprintf(&b, "(case %s (pairs", c.ID)
	for _, p := range c.Pairs {
		fmt.Fprintf(&b, " (%s %s)", p[0].Sx, p[1].Sx)
	}
	b.WriteString("))")
	return b.String()
}
func (c *EqualCase) note() string   { return c.Note }
func (c *EqualCase) expect() string { return "" }
func (c *EqualCase) runImpl() string {
	var eq, hq strings.Builder
	seed := maphash.MakeSeed()
	for _, p := range c.Pairs {
		var e bool
		switch guarded(func() { e = js.Equal(p[0].V, p[1].V) }) {
		case "panic":
			eq.WriteByte('P')
		case "hang":
			eq.WriteByte('H')
		default:
			if e {
				eq.WriteByte('T')
			} else {
				eq.WriteByte('F')
			}
		}
		var h1, h2 uint64
		if guarded(func() { h1, h2 = js.VerifHashValue(seed, p[0].V), js.VerifHashValue(seed, p[1].V) }) != "" {
			hq.WriteByte('P')
		} else if h1 == h2 {
			hq.WriteByte('T')
		} else {
			hq.WriteByte('F')
		}
	}
	return fmt.Sprintf("%s eq=%s hasheq=%s", c.ID, eq.String(), hq.String())
}

func nearMiss(g *genCtx, d Doc) Doc {
	r := g.r
	switch x := d.(type) {
	case DNum:
		switch r.intn(4) {
		case 0:
			if !strings.ContainsAny(string(x), ".eE") {
				return DNum(string(x) + ".0") // same value, another spelling
			}
			return d
		case 1:
			// last-bit neighbour of a large integer (exact only in int64/uint64/json.Number)
			if string(x) == "9007199254740992" {
				return DNum("9007199254740993")
			}
			return DNum("1e1")
		default:
			return g.mutate(d)
		}
	case DStr:
		if x == "é" {
			return DStr("é") // NFD: a different JSON string
		}
	case DObj:
		if len(x) > 1 && r.chance(1, 2) {
			return DObj(shuffled(r, []DMem(x))) // same object, members permuted
		}
	}
	return g.mutate(d)
}

func genEqualCase(r *rng, id string) *EqualCase {
	g := &genCtx{r: r}
	c := &EqualCase{ID: id}
	diffKinds := 0
	for i := 0; i < 12; i++ {
		d1 := g.value(3)
		var d2 Doc
		switch r.intn(4) {
		case 0, 1:
			d2 = d1
		case 2:
			d2 = nearMiss(g, d1)
		default:
			d2 = g.value(3)
		}
		if r.chance(1, 6) {
			// same size, one key renamed, null on one or both sides of the renamed member
			// (a missing member is not a null member), possibly below an array
			o := DObj{}
			for _, nm := range shuffled(r, namePool)[:1+r.intn(3)] {
				o = append(o, DMem{nm, g.value(1)})
			}
			k := r.intn(len(o))
			o[k].V = DNull{}
			o2 := append(DObj{}, o...)
			o2[k] = DMem{o[k].K + "x", pick(r, []Doc{DNull{}, DNum("1"), g.value(1)})}
			d1, d2 = Doc(o), Doc(o2)
			if r.chance(1, 3) {
				d1, d2 = DArr{DNum("1"), d1}, DArr{DNum("1"), d2}
			}
			if r.chance(1, 2) {
				d1, d2 = d2, d1
			}
		}
		// integers beyond 2^53 only in int64/uint64/json.Number: repNumber handles by exactness
		a, b := instOf(repValue(r, d1, 0)), instOf(repValue(r, d2, 0))
		if r.chance(1, 10) {
			// byte containers: []byte, [N]byte (not addressable when passed by value), named byte slices
			bs := []byte{byte(r.intn(3)), byte(r.intn(3))}
			other := []byte{bs[0], byte(r.intn(3))}
			mk := func(b []byte) any {
				switch r.intn(4) {
				case 0:
					return [2]byte{b[0], b[1]}
				case 1:
					return MyBytes(b)
				case 2:
					return []any{float64(b[0]), json.Number(fmt.Sprint(b[1]))}
				default:
					return append([]byte(nil), b...)
				}
			}
			x, y := mk(bs), mk(other)
			if r.chance(1, 3) {
				x, y = []any{x}, []any{y}
			}
			a, b = instOf(x), instOf(y)
		}
		if r.chance(1, 8) {
			// two slices over one backing array: a prefix (or a suffix, or an empty reslice) of a
			// slice against the slice itself - equal only when they have the same elements
			n := 2 + r.intn(3)
			full := make([]any, n, n+2)
			for k := range full {
				full[k] = repValue(r, pick(r, []Doc{DNum("1"), DNum("2"), DStr("a"), DNull{}}), 1)
			}
			var x, y any = full, full
			switch r.intn(5) {
			case 0:
				x = full[:n-1]
			case 1:
				x = full[:0]
			case 2:
				x = full[1:]
			case 3:
				x = full[:n+1] // one nil element beyond the length
			default:
				typed := []string{"a", "b", "a"}
				x, y = typed[:2], typed
			}
			if r.chance(1, 2) {
				x, y = y, x
			}
			if r.chance(1, 3) {
				x, y = map[string]any{"k": x}, map[string]any{"k": y}
			}
			a, b = instOf(x), instOf(y)
		}
		if r.chance(1, 8) {
			// json.Number on both sides: one number under several spellings (equal), a number
			// against the string that spells it (unequal), numbers of different groups (unequal)
			groups := [][]string{{"1", "1.0", "1e0", "10e-1", "0.1e1"}, {"100", "1e2", "100.0", "1E2"}, {"-0", "0", "0.0", "0e5"},
				{"2.5", "25e-1", "2.50"}, {"9007199254740993", "9007199254740993.0", "9.007199254740993e15"}}
			grp := pick(r, groups)
			var x, y any
			switch r.intn(4) {
			case 0, 1:
				x, y = json.Number(pick(r, grp)), json.Number(pick(r, grp))
			case 2:
				x, y = json.Number(pick(r, grp)), pick(r, grp)
			default:
				x, y = json.Number(pick(r, grp)), json.Number(pick(r, pick(r, groups)))
			}
			if r.chance(1, 2) {
				x, y = y, x
			}
			switch r.intn(3) {
			case 0:
				x, y = []any{x}, []any{y}
			case 1:
				x, y = map[string]any{"k": x}, map[string]any{"k": y}
			}
			a, b = instOf(x), instOf(y)
		}
		if a.Sx != b.Sx {
			diffKinds++
		}
		c.Pairs = append(c.Pairs, [2]Inst{a, b})
	}
	nt := 0
	if diffKinds >= 3 {
		nt = 1
	}
	c.Note = fmt.Sprintf("nontrivial=%d shape=%x", nt, fnv(c.sx()))
	return c
}

func init() {
	families["repr"] = func(r *rng, id string) Case { return genReprCase(r, id) }
	families["equal"] = func(r *rng, id string) Case { return genEqualCase(r, id) }
}
