package main

import (
	"bytes"
	"encoding/json"
	"fmt"
	"net/url"
	"reflect"
	"sort"
	"strings"

	js "github.com/google/jsonschema-go/jsonschema"
)

// Family pure (C14): a G-val / ref / dyn / repr case whose schema, loader documents and
// instances are snapshotted (every field, by reflection - not by the package's own
// Marshal) before use; Resolve runs twice on the same Schema with a caching loader that
// hands out the same *Schema for a URI every time, every instance is validated by both
// Resolved values and repeatedly (each range over a Go map draws a new order), with
// freshly rebuilt maps; Marshal runs before, between and after.  The observation is the
// ordinary one of the underlying case (compared with the model) plus the laws; the check
// also runs the whole family in a second process (other hash seeds) and compares the
// observation files byte for byte.
type PureCase struct {
	*ValCase
	Kind string
}

func (c *PureCase) note() string { return c.ValCase.Note + " kind=" + c.Kind }

// dump writes every field of v (exported or not), following pointers, with map keys sorted.
func dump(b *strings.Builder, v reflect.Value, depth int) {
	if depth > 60 {
		b.WriteString("<deep>")
		return
	}
	if !v.IsValid() {
		b.WriteString("<invalid>")
		return
	}
	switch v.Kind() {
	case reflect.Pointer, reflect.Interface:
		if v.IsNil() {
			b.WriteString("nil")
			return
		}
		b.WriteString(v.Type().String() + ">")
		dump(b, v.Elem(), depth+1)
	case reflect.Struct:
		b.WriteString("{")
		for i := 0; i < v.NumField(); i++ {
			f := v.Field(i)
			if isZeroValue(f) {
				continue
			}
			b.WriteString(v.Type().Field(i).Name + ":")
			dump(b, f, depth+1)
			b.WriteString(";")
		}
		b.WriteString("}")
	case reflect.Slice:
		if v.IsNil() {
			b.WriteString("nilslice")
			return
		}
		fallthrough
	case reflect.Array:
		b.WriteString("[")
		for i := 0; i < v.Len(); i++ {
			dump(b, v.Index(i), depth+1)
			b.WriteString(",")
		}
		if v.Kind() == reflect.Slice && v.Cap() > v.Len() && v.Cap()-v.Len() <= 64 {
			// the spare capacity is the caller's memory too (another slice of the tree may alias it)
			b.WriteString("|spare:")
			w := v.Slice(0, v.Cap())
			for i := v.Len(); i < v.Cap(); i++ {
				dump(b, w.Index(i), depth+1)
				b.WriteString(",")
			}
		}
		b.WriteString("]")
	case reflect.Map:
		if v.IsNil() {
			b.WriteString("nilmap")
			return
		}
		type kv struct{ k, v string }
		var es []kv
		it := v.MapRange()
		for it.Next() {
			var kb, vb strings.Builder
			dump(&kb, it.Key(), depth+1)
			dump(&vb, it.Value(), depth+1)
			es = append(es, kv{kb.String(), vb.String()})
		}
		sort.Slice(es, func(i, j int) bool { return es[i].k < es[j].k })
		b.WriteString("map[")
		for _, e := range es {
			b.WriteString(e.k + "=" + e.v + ",")
		}
		b.WriteString("]")
	case reflect.String:
		fmt.Fprintf(b, "%q", v.String())
	case reflect.Bool:
		fmt.Fprintf(b, "%v", v.Bool())
	case reflect.Int, reflect.Int8, reflect.Int16, reflect.Int32, reflect.Int64:
		fmt.Fprintf(b, "%s(%d)", v.Type(), v.Int())
	case reflect.Uint, reflect.Uint8, reflect.Uint16, reflect.Uint32, reflect.Uint64:
		fmt.Fprintf(b, "%s(%d)", v.Type(), v.Uint())
	case reflect.Float32, reflect.Float64:
		fmt.Fprintf(b, "%s(%x)", v.Type(), v.Float())
	default:
		fmt.Fprintf(b, "<%s>", v.Kind())
	}
}

func isZeroValue(v reflect.Value) bool {
	switch v.Kind() {
	case reflect.Pointer, reflect.Interface, reflect.Slice, reflect.Map:
		return v.IsNil()
	case reflect.String:
		return v.Len() == 0
	case reflect.Bool:
		return !v.Bool()
	}
	return false
}

func snapshot(x any) string {
	var b strings.Builder
	dump(&b, reflect.ValueOf(x), 0)
	return b.String()
}

// rebuild returns a structurally equal value whose maps are new map objects filled in a
// different insertion order (slices and scalars are shared or copied as they are).
func rebuild(v any, r *rng) any {
	rv := reflect.ValueOf(v)
	if !rv.IsValid() {
		return v
	}
	switch rv.Kind() {
	case reflect.Map:
		if rv.IsNil() {
			return v
		}
		keys := rv.MapKeys()
		sort.Slice(keys, func(i, j int) bool { return fmt.Sprint(keys[i].Interface()) < fmt.Sprint(keys[j].Interface()) })
		keys = shuffled(r, keys)
		nm := reflect.MakeMapWithSize(rv.Type(), 0)
		for _, k := range keys {
			e := rv.MapIndex(k)
			if e.Kind() == reflect.Interface {
				ne := rebuild(e.Interface(), r)
				if ne == nil {
					nm.SetMapIndex(k, reflect.Zero(rv.Type().Elem()))
				} else {
					nm.SetMapIndex(k, reflect.ValueOf(ne))
				}
			} else {
				nm.SetMapIndex(k, e)
			}
		}
		return nm.Interface()
	case reflect.Slice:
		if rv.IsNil() || rv.Type().Elem().Kind() != reflect.Interface {
			return v
		}
		ns := reflect.MakeSlice(rv.Type(), rv.Len(), rv.Len())
		for i := 0; i < rv.Len(); i++ {
			ne := rebuild(rv.Index(i).Interface(), r)
			if ne != nil {
				ns.Index(i).Set(reflect.ValueOf(ne))
			}
		}
		return ns.Interface()
	}
	return v
}

func (c *PureCase) runImpl() string {
	base := c.ValCase.runImpl() // the ordinary observation, on its own Schema object
	law := map[string]string{"law_schema_unchanged": "1", "law_loader_docs_unchanged": "1", "law_instance_unchanged": "1",
		"law_repeat": "1", "law_order": "1", "law_marshal_same": "1"}
	fail := func(k string) { law[k] = "0" }
	var s js.Schema
	if err := json.Unmarshal([]byte(renderJSON(c.Doc)), &s); err != nil {
		return base + lawsString(law) + " impl_mhash=-"
	}
	snap0 := snapshot(&s)
	m0, merr0 := json.Marshal(&s)
	// caching loader: one *Schema per URI for the whole case
	cache := map[string]*js.Schema{}
	loaded := map[string]string{} // snapshot at first load
	opts := &js.ResolveOptions{BaseURI: c.Base}
	if !c.NoLoader {
		uni := map[string]Doc{}
		for _, u := range c.Universe {
			uni[u.URI] = u.Doc
		}
		opts.Loader = func(u *url.URL) (*js.Schema, error) {
			if ls, ok := cache[u.String()]; ok {
				return ls, nil
			}
			d, ok := uni[u.String()]
			if !ok || d == nil {
				return nil, fmt.Errorf("no such document %s", u)
			}
			ls := new(js.Schema)
			if err := json.Unmarshal([]byte(renderJSON(d)), ls); err != nil {
				return nil, err
			}
			cache[u.String()] = ls
			loaded[u.String()] = snapshot(ls)
			return ls, nil
		}
	}
	verdicts := func(rs *js.Resolved, insts []any) string {
		var vs strings.Builder
		for _, in := range insts {
			var verr error
			switch guarded(func() { verr = rs.Validate(in) }) {
			case "panic":
				vs.WriteByte('P')
			case "hang":
				vs.WriteByte('H')
			default:
				if verr == nil {
					vs.WriteByte('V')
				} else {
					vs.WriteByte('I')
				}
			}
		}
		return vs.String()
	}
	insts := make([]any, len(c.Insts))
	isnap := make([]string, len(c.Insts))
	for i, in := range c.Insts {
		insts[i] = in.V
		isnap[i] = snapshot(in.V)
	}
	var rs1, rs2 *js.Resolved
	var e1, e2 error
	p1 := guarded(func() { rs1, e1 = s.Resolve(opts) })
	if snapshot(&s) != snap0 {
		fail("law_schema_unchanged")
	}
	m1, merr1 := json.Marshal(&s)
	p2 := guarded(func() { rs2, e2 = s.Resolve(opts) })
	if p1 != p2 || (e1 == nil) != (e2 == nil) {
		fail("law_repeat")
	}
	if p1 == "" && p2 == "" && e1 == nil && e2 == nil {
		v1 := verdicts(rs1, insts)
		if verdicts(rs1, insts) != v1 || verdicts(rs2, insts) != v1 {
			fail("law_repeat")
		}
		r := &rng{s: uint64(len(c.ID))*0x9e3779b97f4a7c15 + uint64(c.HSeed)}
		for k := 0; k < 4; k++ {
			re := make([]any, len(insts))
			for i := range insts {
				re[i] = rebuild(insts[i], r)
			}
			if verdicts(rs1, re) != v1 {
				fail("law_order")
			}
		}
		// a third Resolve of a fresh Unmarshal of the same bytes
		var s3 js.Schema
		if json.Unmarshal([]byte(renderJSON(c.Doc)), &s3) == nil {
			if rs3, e3 := s3.Resolve(opts); e3 != nil || verdicts(rs3, insts) != v1 {
				fail("law_repeat")
			}
		}
	}
	for i, in := range c.Insts {
		if snapshot(in.V) != isnap[i] {
			fail("law_instance_unchanged")
		}
	}
	if snapshot(&s) != snap0 {
		fail("law_schema_unchanged")
	}
	for u, ls := range cache {
		if snapshot(ls) != loaded[u] {
			fail("law_loader_docs_unchanged")
		}
	}
	m2, merr2 := json.Marshal(&s)
	if (merr0 == nil) != (merr1 == nil) || (merr0 == nil) != (merr2 == nil) || !bytes.Equal(m0, m1) || !bytes.Equal(m0, m2) {
		fail("law_marshal_same")
	}
	for k := 0; k < 3; k++ {
		if mk, _ := json.Marshal(&s); !bytes.Equal(mk, m0) {
			fail("law_marshal_same")
		}
	}
	return base + lawsString(law) + fmt.Sprintf(" impl_mhash=%x", fnv(string(m0)))
}

func lawsString(law map[string]string) string {
	ks := make([]string, 0, len(law))
	for k := range law {
		ks = append(ks, k)
	}
	sort.Strings(ks)
	var b strings.Builder
	for _, k := range ks {
		b.WriteString(" " + k + "=" + law[k])
	}
	return b.String()
}

func init() {
	families["pure"] = func(r *rng, id string) Case {
		kind := pick(r, []string{"val", "val", "uneval", "d7", "ref", "ref", "dyn", "repr", "rec"})
		var vc *ValCase
		switch kind {
		case "ref":
			vc = genRefCase(r, id)
		case "dyn":
			vc = genDynCase(r, id)
		case "repr":
			vc = genReprCase(r, id)
		case "rec":
			vc = genRecTemplate(r, id)
			kind = "val"
		default:
			vc = genValCase(r, id, kind)
		}
		return &PureCase{ValCase: vc, Kind: kind}
	}
}

// Family purego (C14): Schema values built in Go (PropertyOrder with strangers and
// duplicates, Extra, every subschema-holding field), snapshotted by reflection before the
// package sees them; Marshal x5, Resolve, CloneSchemas, Marshal again; the snapshot must not
// change and all Marshal results must be the same bytes.
type PureGoCase struct {
	*SchemaCase
	snap0 string
}

func (c *PureGoCase) runImpl() string {
	base := c.SchemaCase.runImpl()
	lawS, lawM := "1", "1"
	if snapshot(c.S) != c.snap0 {
		lawS = "0"
	}
	m1, e1 := json.Marshal(c.S)
	guarded(func() { c.S.Resolve(nil) })
	if snapshot(c.S) != c.snap0 {
		lawS = "0"
	}
	var cl *js.Schema
	guarded(func() { cl = c.S.CloneSchemas() })
	_ = cl
	// Validate twice with every instance of a fixed menu: the same verdicts, the tree unchanged
	lawV := "1"
	var rs *js.Resolved
	guarded(func() { rs, _ = c.S.Resolve(nil) })
	if rs != nil {
		menu := []any{nil, true, 1.0, 1.5, "x", "", []any{}, []any{1.0, "a"}, map[string]any{}, map[string]any{"a": 1.0, "b": "x"}, map[string]any{"a": 1.5, "c": nil, "d": []any{1.0}}}
		var v1, v2 strings.Builder
		for round := 0; round < 2; round++ {
			for _, inst := range menu {
				ok := false
				guarded(func() { ok = rs.Validate(inst) == nil })
				if round == 0 {
					fmt.Fprint(&v1, ok)
				} else {
					fmt.Fprint(&v2, ok)
				}
			}
			if snapshot(c.S) != c.snap0 {
				lawS = "0"
			}
		}
		if v1.String() != v2.String() {
			lawV = "0"
		}
	}
	m2, e2 := json.Marshal(c.S)
	if (e1 == nil) != (e2 == nil) || !bytes.Equal(m1, m2) {
		lawM = "0"
	}
	if snapshot(c.S) != c.snap0 {
		lawS = "0"
	}
	return base + " law_schema_unchanged=" + lawS + " law_marshal_same=" + lawM + " law_validate_same=" + lawV
}

func init() {
	families["purego"] = func(r *rng, id string) Case {
		var s *js.Schema
		if r.chance(1, 2) {
			s = genOrderSchema(r, 2)
		} else {
			g := &schemaGen{r: r, plain: r.chance(1, 2)}
			s = g.schema(3)
			if r.chance(1, 2) && len(s.Properties) > 0 {
				names := make([]string, 0, len(s.Properties))
				for k := range s.Properties {
					names = append(names, k)
				}
				sort.Strings(names)
				s.PropertyOrder = shuffled(r, append(names, "stranger"))
			}
		}
		snap := snapshot(s) // before any call into the package
		n := 0
		if len(s.Properties) >= 1 {
			n = 1
		}
		return &PureGoCase{SchemaCase: &SchemaCase{ID: id, S: s, Note: fmt.Sprintf("nontrivial=%d shape=p%d.o%d.%s", n, len(s.Properties), len(s.PropertyOrder), shapeOfSchema(s))}, snap0: snap}
	}
}
