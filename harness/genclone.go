package main

import (
	"bytes"
	"encoding/json"
	"fmt"
	"reflect"

	js "github.com/google/jsonschema-go/jsonschema"
)

// Family clone (C20): CloneSchemas on Schema trees with subschemas under every
// schema-valued, schema-array-valued and schema-map-valued field. The laws are evaluated
// on the package: identical marshalled bytes, no shared *Schema (found by walking EVERY
// struct field by type, not the package's own field table), a common parent resolves,
// and mutating every object of one tree leaves the other's bytes unchanged.
type CloneCase struct {
	ID   string
	S    *js.Schema
	Note string
}

func (c *CloneCase) sx() string     { return fmt.Sprintf("(case %s (schema %s))", c.ID, sxSchema(c.S)) }
func (c *CloneCase) note() string   { return c.Note }
func (c *CloneCase) expect() string { return "" }

var schemaPtrT = reflect.TypeFor[*js.Schema]()

// allSchemaPtrs collects every *Schema reachable through fields of pointer, slice and map type.
func allSchemaPtrs(s *js.Schema, into map[*js.Schema]bool) {
	if s == nil || into[s] {
		return
	}
	into[s] = true
	v := reflect.ValueOf(s).Elem()
	for i := 0; i < v.NumField(); i++ {
		fv := v.Field(i)
		switch {
		case fv.Type() == schemaPtrT:
			allSchemaPtrs(fv.Interface().(*js.Schema), into)
		case fv.Type() == reflect.SliceOf(schemaPtrT):
			for j := 0; j < fv.Len(); j++ {
				allSchemaPtrs(fv.Index(j).Interface().(*js.Schema), into)
			}
		case fv.Type() == reflect.MapOf(reflect.TypeFor[string](), schemaPtrT):
			it := fv.MapRange()
			for it.Next() {
				allSchemaPtrs(it.Value().Interface().(*js.Schema), into)
			}
		}
	}
}

// scribble overwrites every field of every object of the tree.
func scribble(s *js.Schema) {
	ptrs := map[*js.Schema]bool{}
	allSchemaPtrs(s, ptrs)
	for p := range ptrs {
		*p = js.Schema{Title: "scribbled", Type: "null", Not: &js.Schema{}}
	}
}

func (c *CloneCase) runImpl() string {
	before, err := json.Marshal(c.S)
	if err != nil {
		return c.ID + " out=err"
	}
	d, perr := parseDoc(before)
	if perr != nil {
		return c.ID + " out=badjson"
	}
	var cl *js.Schema
	if o := guarded(func() { cl = c.S.CloneSchemas() }); o != "" {
		return c.ID + " out=ok clone=" + o
	}
	lawMarshal, lawDisjoint, lawParent, lawIndep := "1", "1", "1", "1"
	cb, cerr := json.Marshal(cl)
	if cerr != nil || !bytes.Equal(cb, before) {
		lawMarshal = "0"
	}
	po, pc := map[*js.Schema]bool{}, map[*js.Schema]bool{}
	allSchemaPtrs(c.S, po)
	allSchemaPtrs(cl, pc)
	for p := range pc {
		if po[p] {
			lawDisjoint = "0"
		}
	}
	// both under one parent: resolves exactly when the original alone does
	_, e1 := (&js.Schema{AllOf: []*js.Schema{c.S}}).Resolve(nil)
	_, e2 := (&js.Schema{AllOf: []*js.Schema{c.S, cl}}).Resolve(nil)
	if (e1 == nil) != (e2 == nil) {
		lawParent = "0"
	}
	// the original twice under one parent shares an object: never resolves
	if _, e3 := (&js.Schema{AllOf: []*js.Schema{c.S, c.S}}).Resolve(nil); e1 == nil && e3 == nil {
		lawParent = "0"
	}
	// independence, both directions
	cl2 := c.S.CloneSchemas()
	scribble(cl2)
	if after, _ := json.Marshal(c.S); !bytes.Equal(after, before) {
		lawIndep = "0"
	}
	orig2 := cl.CloneSchemas()
	_ = orig2
	scribble(c.S)
	if after, _ := json.Marshal(cl); !bytes.Equal(after, before) {
		lawIndep = "0"
	}
	return fmt.Sprintf("%s out=ok doc=%s law_marshal=%s law_disjoint=%s law_parent=%s law_independent=%s", c.ID, canonDoc(d), lawMarshal, lawDisjoint, lawParent, lawIndep)
}

func init() {
	families["clone"] = func(r *rng, id string) Case {
		g := &schemaGen{r: r, plain: true}
		s := g.schema(3)
		// make sure subschema-holding fields are well represented
		for i := 0; i < 2; i++ {
			extra := g.schema(1)
			switch r.intn(8) {
			case 0:
				s.AdditionalItems = extra
			case 1:
				s.DependencySchemas = map[string]*js.Schema{"k": extra}
				delete(s.DependencyStrings, "k")
			case 2:
				if s.Items == nil {
					s.ItemsArray = []*js.Schema{extra}
				}
			case 3:
				if s.Defs == nil {
					s.Definitions = map[string]*js.Schema{"d": extra}
				}
			case 4:
				s.ContentSchema = extra
			case 5:
				s.PropertyNames = extra
			case 6:
				s.DependentSchemas = map[string]*js.Schema{"a": extra}
			default:
				s.UnevaluatedItems = extra
			}
		}
		// one time in four the input is a DAG: an object of the tree (never an ancestor of the
		// new position, so no cycle) is referenced from a second position
		shared := 0
		if r.intn(4) == 0 {
			sub := map[*js.Schema]bool{}
			allSchemaPtrs(s, sub)
			var leaves []*js.Schema
			for p := range sub {
				inner := map[*js.Schema]bool{}
				allSchemaPtrs(p, inner)
				if p != s && len(inner) <= 2 {
					leaves = append(leaves, p)
				}
			}
			if len(leaves) > 0 {
				// deterministic choice: order by the harness's own rendering (no call into the package here)
				best := leaves[0]
				bb := sxSchema(best)
				for _, l := range leaves[1:] {
					lb := sxSchema(l)
					if lb < bb {
						best, bb = l, lb
					}
				}
				switch r.intn(4) {
				case 0:
					s.AllOf = append(s.AllOf, best)
				case 1:
					s.Not = best
				case 2:
					if s.PatternProperties == nil {
						s.PatternProperties = map[string]*js.Schema{}
					}
					s.PatternProperties["^sh"] = best
				default:
					s.Then = best
				}
				shared = 1
			}
		}
		ptrs := map[*js.Schema]bool{}
		allSchemaPtrs(s, ptrs)
		nt := 0
		if len(ptrs) >= 3 {
			nt = 1
		}
		return &CloneCase{ID: id, S: s, Note: fmt.Sprintf("nontrivial=%d shared=%d shape=n%d.%s", nt, shared, len(ptrs), shapeOfSchema(s))}
	}
}
