(** encoding/json's encoder on typed values of the plain-data domain. *)
From Coq Require Import List NArith ZArith QArith Bool.
From JS Require Import Str Lit Json GoValue Schema Basic GoType.
Import ListNotations.
Open Scope list_scope.
Local Open Scope nat_scope.


(* isEmptyValue *)
Definition is_empty (v : tval) : bool :=
  match v with
  | VBool b => negb b
  | VInt z => Z.eqb z 0
  | VFloat q => Qeq_bool q 0
  | VStr s => match s with [] => true | _ => false end
  | VNil => true
  | VList l => match l with [] => true | _ => false end
  | VMap m => match m with [] => true | _ => false end
  | _ => false
  end.

(* reflect.Value.IsZero on plain data (for omitzero, where the toolchain has it) *)
Fixpoint is_zero (v : tval) : bool :=
  match v with
  | VBool b => negb b
  | VInt z => Z.eqb z 0
  | VFloat q => Qeq_bool q 0
  | VStr s => match s with [] => true | _ => false end
  | VNil => true
  | VStruct fs => forallb is_zero fs
  | VList l => false    (* a non-nil slice is not zero; arrays of the domain are covered by the struct rule only *)
  | _ => false
  end.

(* the field of a struct value at an index sequence; None: a nil embedded pointer on the way *)
Fixpoint field_at (idx : list nat) (t : gtype) (v : tval) : option (gtype * tval) :=
  match idx with
  | [] => Some (t, v)
  | i :: rest =>
      let step (t0 : gtype) (v0 : tval) :=
        match v0 with
        | VStruct vs =>
            match nth_error (struct_fields t0) i, nth_error vs i with
            | Some (_, ft), Some fv => field_at rest ft fv
            | _, _ => None
            end
        | _ => None
        end in
      match strip_named t, v with
      | TyPtr t', VPtr v' => step t' v'
      | TyPtr _, _ => None
      | _, _ => step t v
      end
  end.

Fixpoint map_opt {A B} (f : A -> option B) (l : list A) : option (list B) :=
  match l with
  | [] => Some []
  | x :: r => match f x, map_opt f r with Some y, Some t => Some (y :: t) | _, _ => None end
  end.

Section Enc.
  Variable oz : bool.   (* the toolchain's encoding/json knows omitzero (Go >= 1.24) *)

  (* is the field left out? *)
  Definition omitted (f : jfield) (fv : tval) : bool :=
    (jf_omitempty f && is_empty fv) || (oz && jf_omitzero f && is_zero fv).

  (* the members of a struct value, given the encoder for the field values *)
  Fixpoint enc_fields (enc : gtype -> tval -> option json) (t : gtype) (v : tval) (fs : list jfield) : option (list (str * json)) :=
    match fs with
    | [] => Some []
    | f :: r =>
        match field_at (jf_index f) t v with
        | None => enc_fields enc t v r      (* a nil embedded pointer on the way *)
        | Some (ft, fv) =>
            if omitted f fv then enc_fields enc t v r
            else if jf_quoted f then None   (* the ",string" option: outside the domain *)
            else match enc ft fv, enc_fields enc t v r with
                 | Some j, Some t => Some ((jf_name f, j) :: t)
                 | _, _ => None
                 end
        end
    end.

  Fixpoint encode (n : nat) (t : gtype) (v : tval) : option json :=
    match n with
    | O => None
    | S n' =>
        match strip_named t, v with
        | TyBool, VBool b => Some (JBool b)
        | TyInt _, VInt z => Some (JNum (inject_Z z))
        | TyFloat _, VFloat q => Some (JNum q)
        | TyString, VStr s => Some (JStr s)
        | TyIface, VNil => Some JNull
        | TyIface, VAny j => Some j
        | TyPtr _, VNil => Some JNull
        | TyPtr t', VPtr v' => encode n' t' v'
        | TySlice _, VNil => Some JNull
        | TySlice t', VList l => option_map JArr (map_opt (encode n' t') l)
        | TyArray k t', VList l => if Nat.eqb (length l) k then option_map JArr (map_opt (encode n' t') l) else None
        | TyMap true _, VNil => Some JNull
        | TyMap true t', VMap m =>
            option_map (fun vs => JObj (combine (keys (sort_by_key m)) vs))
                       (map_opt (fun kv => encode n' t' (snd kv)) (sort_by_key m))
        | TyStd _, VStdV j => Some j
        | TyStruct _, VStruct _ => option_map JObj (enc_fields (encode n') t v (json_fields (fun _ => false) t))
        | _, _ => None
        end
    end.
End Enc.
