(** A computable description of C04's domain, and the proof that it implies the side
    conditions ([good]) under which the theorem was proved. *)
From Coq Require Import List NArith ZArith QArith Bool Lia Permutation.
From JS Require Import Str StrFacts Lit Json Res GoValue Schema Basic GoType Encode Infer InferFacts WellTyped C04Main FieldsFacts.
Import ListNotations.
Open Scope list_scope.
Local Open Scope nat_scope.

Definition has_entry (o : iopts) (n : str) : bool := match lookup n (o_schemas o) with Some _ => true | None => false end.
Definition is_std_t (t : gtype) : bool := match strip_named t with TyStd _ => true | _ => false end.

(** defined types have no TypeSchemas entry, the standard marshaler types have one, no
    embedded struct is replaced, unexported embedded types carry no json name *)
Fixpoint dom (o : iopts) (t : gtype) : bool :=
  match t with
  | TyStd n => nonempty n && has_entry o n
  | TyNamed n t' => negb (has_entry o n) && negb (is_std_t t') && emb_fine (ovr_of o) t' && dom o t'
  | TyRec n => negb (has_entry o n)
  | TyPtr t' | TySlice t' | TyArray _ t' | TyMap _ t' => dom o t'
  | TyStruct fs =>
      emb_fine (ovr_of o) t &&
      (fix go (fs : list (finfo * gtype)) : bool :=
         match fs with [] => true | (_, ty) :: r => dom o ty && go r end) fs
  | _ => true
  end.

Fixpoint gsize (t : gtype) : nat :=
  match t with
  | TyPtr t' | TySlice t' | TyArray _ t' | TyMap _ t' | TyNamed _ t' => S (gsize t')
  | TyStruct fs => S ((fix go (fs : list (finfo * gtype)) : nat := match fs with [] => 0 | (_, ty) :: r => gsize ty + go r end) fs)
  | _ => 1
  end.

Lemma dom_fields o : forall t fi ty, dom o t = true -> In (fi, ty) (struct_fields t) -> dom o ty = true /\ gsize ty < gsize t.
Proof.
  induction t; cbn [dom struct_fields gsize]; intros fi ty Hd Hin; try contradiction.
  - apply andb_true_iff in Hd as [_ Hd]. revert Hd Hin. induction fs as [|[fj tj] r IHr]; intros Hd Hin; [contradiction|].
    apply andb_true_iff in Hd as [H1 H2]. destruct Hin as [[= -> ->]|Hin]; [split; [exact H1|lia]|].
    destruct (IHr H2 Hin) as [Ha Hb]. split; [exact Ha|lia].
  - apply andb_true_iff in Hd as [_ Hd]. destruct (IHt fi ty Hd Hin) as [Ha Hb]. split; [exact Ha|lia].
Qed.

Lemma dom_strip_ptr o t : dom o t = true ->
  dom o (match strip_named t with TyPtr t' => t' | _ => t end) = true /\
  gsize (match strip_named t with TyPtr t' => t' | _ => t end) <= gsize t.
Proof.
  induction t; cbn [strip_named dom gsize]; intros Hd; try (split; [exact Hd|lia]).
  - (* a defined pointer type *)
    pose proof Hd as Hd0. apply andb_true_iff in Hd as [_ Hd'].
    destruct (strip_named t) eqn:Es; try (split; [exact Hd0|cbn [gsize]; lia]).
    destruct (IHt Hd') as [Ha Hb]. split; [exact Ha|lia].
Qed.

Lemma dom_strip_named o t : dom o t = true -> dom o (strip_named t) = true /\ gsize (strip_named t) <= gsize t.
Proof.
  induction t; cbn [strip_named dom gsize]; intros Hd; try (split; [exact Hd|lia]).
  apply andb_true_iff in Hd as [_ Hd]. destruct (IHt Hd). split; [assumption|lia].
Qed.

Lemma dom_type_at o : forall idx t u, dom o t = true -> type_at idx t = Some u -> dom o u = true /\ (idx <> [] -> gsize u < gsize t).
Proof.
  induction idx as [|i r IH]; intros t u Hd Ht.
  - cbn in Ht. injection Ht as <-. split; [exact Hd|congruence].
  - cbn [type_at] in Ht. destruct (dom_strip_ptr o t Hd) as [Hd0 Hs0].
    destruct (nth_error _ i) as [[fi ft]|] eqn:En; [|discriminate].
    destruct (dom_fields o _ fi ft Hd0 (nth_error_In _ _ En)) as [Hdf Hsf].
    destruct (IH ft u Hdf Ht) as [Hdu Hsu]. split; [exact Hdu|]. intros _.
    destruct r; [cbn in Ht; injection Ht as <-; lia|]. specialize (Hsu ltac:(discriminate)). lia.
Qed.

Section Good.
  Variable o : iopts.
  Hypothesis Hstd : forall n x, lookup n (o_schemas o) = Some x -> x = Some str_schema.

  Lemma struct_ok_of t :
    (match strip_named t with TyPtr _ => False | _ => True end) ->
    emb_fine (ovr_of o) t = true -> struct_ok o t.
  Proof.
    intros Hnp He. destruct (json_fields_ext (ovr_of o) t He) as [Heq Hexp]. split; [exact Heq|].
    intros f Hf. destruct (json_fields_ok (fun _ => false) t Hnp f Hf) as (H1 & H2 & H3).
    destruct (json_fields_local t f Hf) as [H5 H6]. pose proof (Hexp f Hf) as H4.
    destruct (H6 H4) as [H7 H8]. repeat split; assumption.
  Qed.

  Lemma emb_fine_named n t' : emb_fine (ovr_of o) (TyNamed n t') = emb_fine (ovr_of o) t'.
  Proof. reflexivity. Qed.

  Theorem dom_good : forall k t, gsize t < k -> dom o t = true -> good k o t.
  Proof.
    induction k as [|k IH]; intros t Hk Hd; [lia|].
    assert (Hstruct : forall t0, dom o t0 = true -> gsize t0 <= gsize t -> emb_fine (ovr_of o) t0 = true ->
              (match strip_named t0 with TyPtr _ => False | _ => True end) ->
              struct_ok o t0 /\ forall f, In f (json_fields (fun _ => false) t0) -> good k o (jf_decl f)).
    { intros t0 Hd0 Hs0 He0 Hnp. split; [now apply struct_ok_of|].
      intros f Hf. destruct (json_fields_ok (fun _ => false) t0 Hnp f Hf) as (H1 & _ & H3).
      destruct (dom_type_at o _ _ _ Hd0 H1) as [Hdu Hsu]. apply IH; [specialize (Hsu H3); lia|exact Hdu]. }
    destruct t; cbn [good dom gsize strip_named] in *.
    1-5: split; [left; reflexivity|exact I].
    - split; [left; reflexivity|]. apply IH; [lia|exact Hd].
    - split; [left; reflexivity|]. apply IH; [lia|exact Hd].
    - split; [left; reflexivity|]. apply IH; [lia|exact Hd].
    - split; [left; reflexivity|]. apply IH; [lia|exact Hd].
    - (* an unnamed struct type *)
      split; [left; reflexivity|].
      apply andb_true_iff in Hd as [He Hfs].
      apply (Hstruct (TyStruct fs)); cbn [dom gsize strip_named]; auto. now rewrite He, Hfs.
    - (* a defined type *)
      apply andb_true_iff in Hd as [Hd Hdt]. apply andb_true_iff in Hd as [Hd He]. apply andb_true_iff in Hd as [Hne Hns].
      apply negb_true_iff in Hne. unfold has_entry in Hne.
      split; [right; cbn [type_name]; destruct (lookup n (o_schemas o)); [discriminate|reflexivity]|].
      unfold is_std_t in Hns. apply negb_true_iff in Hns.
      assert (Hdn : dom o (TyNamed n t) = true).
      { cbn [dom]. unfold has_entry, is_std_t. destruct (lookup n (o_schemas o)); [discriminate|]. now rewrite Hns, He, Hdt. }
      destruct (strip_named t) eqn:Es; try exact I; try discriminate.
      + (* a defined pointer type: the pointee *)
        destruct (dom_strip_ptr o t Hdt) as [Ha Hb]. rewrite Es in Ha, Hb. apply IH; [lia|exact Ha].
      + assert (Hx : dom o (TySlice g) = true /\ gsize (TySlice g) <= gsize t) by (rewrite <- Es; now apply dom_strip_named).
        destruct Hx as [Ha Hb]. cbn [dom gsize] in Ha, Hb. apply IH; [lia|exact Ha].
      + assert (Hx : dom o (TyArray n0 g) = true /\ gsize (TyArray n0 g) <= gsize t) by (rewrite <- Es; now apply dom_strip_named).
        destruct Hx as [Ha Hb]. cbn [dom gsize] in Ha, Hb. apply IH; [lia|exact Ha].
      + assert (Hx : dom o (TyMap kstr g) = true /\ gsize (TyMap kstr g) <= gsize t) by (rewrite <- Es; now apply dom_strip_named).
        destruct Hx as [Ha Hb]. cbn [dom gsize] in Ha, Hb. apply IH; [lia|exact Ha].
      + apply (Hstruct (TyNamed n t)); auto; cbn [gsize strip_named]; try lia; rewrite Es; exact I.
    - (* the recursive occurrence *)
      split; [|exact I]. right. cbn [type_name]. apply negb_true_iff in Hd. unfold has_entry in Hd.
      destruct (lookup n (o_schemas o)); [discriminate|reflexivity].
    - (* a standard marshaler type *)
      apply andb_true_iff in Hd as [Hn He]. split; [exact Hn|]. unfold has_entry in He.
      destruct (lookup n (o_schemas o)) eqn:El; [|discriminate]. now rewrite (Hstd n o0 El).
    - split; [left; reflexivity|exact I].
  Qed.
End Good.
