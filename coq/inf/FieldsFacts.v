(** The field selection of encoding/json (GoType.json_fields): every selected field is the
    declared field at its index sequence, reached through embedded fields only. *)
From Coq Require Import List NArith ZArith QArith Bool Lia Permutation.
From JS Require Import Str StrFacts Lit Json GoValue Schema Basic GoType Encode Infer InferFacts WellTyped.
Import ListNotations.
Open Scope list_scope.
Local Open Scope nat_scope.

(** all steps embedded (the invariant of the queue of embedded structs) *)
Fixpoint emb_path (idx : list nat) (t : gtype) : bool :=
  match idx with
  | [] => true
  | i :: rest =>
      let t0 := match strip_named t with TyPtr t' => t' | _ => t end in
      match nth_error (struct_fields t0) i with
      | Some (fi, ft) => fi_embedded fi && emb_path rest ft
      | None => false
      end
  end.

Lemma type_at_app idx i t :
  type_at (idx ++ [i]) t = match type_at idx t with Some u => type_at [i] u | None => None end.
Proof.
  revert t. induction idx as [|j r IH]; intros t; [cbn [app type_at]; reflexivity|].
  cbn [app type_at]. destruct (nth_error _ j) as [[fi ft]|]; [apply IH|reflexivity].
Qed.

Lemma path_embedded_cons j rest t : rest <> [] ->
  path_embedded (j :: rest) t =
  match nth_error (struct_fields (match strip_named t with TyPtr t' => t' | _ => t end)) j with
  | Some (fi, ft) => fi_embedded fi && path_embedded rest ft
  | None => false
  end.
Proof. intros H. destruct rest; [congruence|reflexivity]. Qed.

Lemma path_embedded_app idx i t u :
  emb_path idx t = true -> type_at idx t = Some u ->
  (exists fi ft, nth_error (struct_fields (match strip_named u with TyPtr t' => t' | _ => u end)) i = Some (fi, ft)) ->
  path_embedded (idx ++ [i]) t = true.
Proof.
  revert t. induction idx as [|j r IH]; intros t He Ht (fi & ft & Hn).
  - cbn in Ht. injection Ht as <-. cbn [app path_embedded]. now rewrite Hn.
  - cbn [app]. rewrite path_embedded_cons by (destruct r; discriminate).
    cbn [emb_path type_at] in *.
    destruct (nth_error _ j) as [[fj ftj]|]; [|discriminate].
    apply andb_true_iff in He as [He1 He2]. rewrite He1. cbn [andb]. apply IH; eauto.
Qed.

Lemma emb_path_app idx i t u fi ft :
  emb_path idx t = true -> type_at idx t = Some u ->
  nth_error (struct_fields (match strip_named u with TyPtr t' => t' | _ => u end)) i = Some (fi, ft) ->
  fi_embedded fi = true ->
  emb_path (idx ++ [i]) t = true.
Proof.
  revert t. induction idx as [|j r IH]; intros t He Ht Hn Hfe.
  - cbn in Ht. injection Ht as <-. cbn [app emb_path]. now rewrite Hn, Hfe.
  - cbn [app emb_path type_at] in *. destruct (nth_error _ j) as [[fj ftj]|]; [|discriminate].
    apply andb_true_iff in He as [He1 He2]. rewrite He1. cbn [andb]. eapply IH; eauto.
Qed.

(** what a queue entry (index, struct type) means *)
Definition entry_ok (t : gtype) (en : list nat * gtype) : Prop :=
  emb_path (fst en) t = true /\
  exists u, type_at (fst en) t = Some u /\ snd en = match u with TyPtr t' => t' | _ => u end /\
            (match u with TyPtr _ => True | _ => match strip_named u with TyPtr _ => False | _ => True end end).

(** what a recorded field means *)
Definition field_ok (t : gtype) (f : jfield) : Prop :=
  type_at (jf_index f) t = Some (jf_decl f) /\ path_embedded (jf_index f) t = true /\ jf_index f <> [].

Lemma fold_left_inv {A B} (P : A -> Prop) (f : A -> B -> A) : forall l a,
  P a -> (forall a x, In x l -> P a -> P (f a x)) -> P (fold_left f l a).
Proof.
  induction l as [|x r IH]; intros a Ha Hstep; [exact Ha|]. cbn [fold_left]. apply IH.
  - apply Hstep; [now left|exact Ha].
  - intros a' y Hy. apply Hstep. now right.
Qed.

Lemma combine_seq_nth {A} (l : list A) : forall a i x, In (i, x) (combine (seq a (length l)) l) -> a <= i /\ nth_error l (i - a) = Some x.
Proof.
  induction l as [|y r IH]; intros a i x Hin; [contradiction|].
  cbn [length seq combine] in Hin. destruct Hin as [[= <- <-]|Hin].
  - split; [lia|]. now rewrite Nat.sub_diag.
  - destruct (IH (S a) i x Hin) as [Hle Hn]. split; [lia|].
    replace (i - a) with (S (i - S a)) by lia. exact Hn.
Qed.

Lemma kind_of_strip' t : kind_of t = kind_of (strip_named t).
Proof. induction t; cbn; auto. Qed.

Section Scan.
  Variable ovr : str -> bool.
  Variable t : gtype.

  Lemma entry_fields en u :
    type_at (fst en) t = Some u -> snd en = match u with TyPtr t' => t' | _ => u end ->
    (match u with TyPtr _ => True | _ => match strip_named u with TyPtr _ => False | _ => True end end) ->
    struct_fields (match strip_named u with TyPtr t' => t' | _ => u end) = struct_fields (snd en).
  Proof.
    intros _ Hs Hside. rewrite Hs. destruct u; cbn in *; try reflexivity.
    destruct (strip_named u); try reflexivity; contradiction.
  Qed.

  Lemma scan_struct_ok en dup :
    entry_ok t en ->
    let r := scan_struct ovr (fst en) dup (struct_fields (snd en)) in
    Forall (field_ok t) (fst r) /\ Forall (entry_ok t) (snd r).
  Proof.
    intros (Hemb & u & Hu & Hsnd & Hside). unfold scan_struct.
    apply (fold_left_inv (fun acc : list jfield * list (list nat * gtype) => Forall (field_ok t) (fst acc) /\ Forall (entry_ok t) (snd acc))).
    { split; constructor. }
    intros acc [i [fi ty]] Hin [HF HE]. cbn [fst snd].
    apply combine_seq_nth in Hin as [_ Hn]. rewrite Nat.sub_0_r in Hn.
    pose proof (entry_fields en u Hu Hsnd Hside) as Hsf.
    assert (Hn' : nth_error (struct_fields (match strip_named u with TyPtr t' => t' | _ => u end)) i = Some (fi, ty)) by now rewrite Hsf.
    assert (Hta : type_at (fst en ++ [i]) t = Some ty).
    { rewrite type_at_app, Hu. cbn [type_at]. now rewrite Hn'. }
    assert (Hpe : path_embedded (fst en ++ [i]) t = true) by (eapply path_embedded_app; eauto).
    destruct (if fi_embedded fi then _ else _); [split; assumption|].
    destruct (fi_hastag fi && str_eqb (fi_tag fi) (lit "-"%lit)); [split; assumption|].
    match goal with |- context [if ?c then _ else _] => destruct c eqn:Ec end.
    - split; [|exact HE]. cbn [fst].
      assert (Hf : forall f, jf_index f = fst en ++ [i] -> jf_decl f = ty -> field_ok t f).
      { intros f Hi Hd. unfold field_ok. rewrite Hi, Hd. repeat split; auto. destruct (fst en); discriminate. }
      apply Forall_app. split; [exact HF|].
      destruct dup; repeat constructor; apply Hf; reflexivity.
    - split; [exact HF|]. cbn [snd]. apply Forall_app. split; [exact HE|]. constructor; [|constructor].
      apply orb_false_iff in Ec as [Ec _]. apply orb_false_iff in Ec as [Ec Hst]. apply orb_false_iff in Ec as [_ Hfe].
      apply negb_false_iff in Hfe. apply negb_false_iff in Hst.
      unfold entry_ok. cbn [fst snd]. split; [eapply emb_path_app; eauto|].
      exists ty. split; [exact Hta|]. split; [reflexivity|].
      destruct ty; try exact I; cbn [strip_named];
        try (rewrite kind_of_strip' in Hst; cbn [strip_named] in Hst; destruct (strip_named ty); try discriminate; exact I).
  Qed.
End Scan.

Section Levels.
  Variable ovr : str -> bool.
  Variable t : gtype.

  Lemma next_subset (add next : list (list nat * gtype)) :
    Forall (entry_ok t) next -> Forall (entry_ok t) add ->
    Forall (entry_ok t) (fold_left (fun nx e => if Nat.ltb 0 (count_name (type_name (snd e)) nx) then nx else nx ++ [e]) add next).
  Proof.
    revert next. induction add as [|x r IH]; intros next Hn Ha; [exact Hn|].
    cbn [fold_left]. inversion Ha; subst. apply IH; [|assumption].
    destruct (Nat.ltb 0 _); [exact Hn|]. apply Forall_app. split; [exact Hn|now constructor].
  Qed.

  Lemma jf_levels_ok : forall fuel vis level queued,
    Forall (entry_ok t) level -> Forall (field_ok t) (jf_levels ovr fuel vis level queued).
  Proof.
    induction fuel as [|n IH]; intros vis level queued Hl; [constructor|].
    cbn [jf_levels]. destruct level as [|en0 lv0] eqn:El; [constructor|]. rewrite <- El in *. clear El en0 lv0.
    set (step := fold_left _ level (vis, [], [], [])).
    assert (Hstep : let '(_, fields, next, _) := step in Forall (field_ok t) fields /\ Forall (entry_ok t) next /\ True).
    { unfold step.
      apply (fold_left_inv (fun acc : list str * list jfield * list (list nat * gtype) * list (list nat * gtype) =>
               let '(_, fields, next, _) := acc in Forall (field_ok t) fields /\ Forall (entry_ok t) next /\ True)).
      { repeat split; constructor. }
      intros [[[vis0 fields0] next0] nextall0] en Hin (HF & HN & _).
      destruct (mem_str (type_name (snd en)) vis0 || match snd en with TyRec _ => true | _ => false end); [repeat split; assumption|].
      rewrite Forall_forall in Hl.
      destruct (scan_struct_ok ovr t en (Nat.ltb 1 (count_name (type_name (snd en)) queued)) (Hl en Hin)) as [H1 H2].
      repeat split.
      - apply Forall_app. split; assumption.
      - apply next_subset; assumption. }
    destruct step as [[[vis1 fields1] next1] nextall1]. destruct Hstep as (HF & HN & _).
    apply Forall_app. split; [exact HF|]. apply IH. exact HN.
  Qed.

  Lemma dominant_subset : forall n l x, In x (dominant n l) -> In x l.
  Proof.
    induction n as [|m IHm]; intros l' x Hx; [contradiction|].
    destruct l' as [|h tl]; [contradiction|]. cbn [dominant] in Hx.
    destruct (filter (fun g => str_eqb (jf_name g) (jf_name h)) tl) as [|g0 ?].
    - destruct Hx as [<-|Hx]; [now left|]. right. apply IHm in Hx. apply filter_In in Hx. tauto.
    - destruct (_ && _).
      + right. apply IHm in Hx. apply filter_In in Hx. tauto.
      + destruct Hx as [<-|Hx]; [now left|]. right. apply IHm in Hx. apply filter_In in Hx. tauto.
  Qed.

  (** every selected field is the declared field at its index sequence, reached through
      embedded fields *)
  Theorem json_fields_ok :
    (match strip_named t with TyPtr _ => False | _ => True end) ->
    forall f, In f (json_fields ovr t) -> field_ok t f.
  Proof.
    intros Hnp f Hf. unfold json_fields in Hf.
    eapply Permutation_in in Hf; [|apply Permutation_sym, isort_perm].
    apply dominant_subset in Hf.
    eapply Permutation_in in Hf; [|apply Permutation_sym, isort_perm].
    assert (H0 : Forall (entry_ok t) [([], t)]).
    { constructor; [|constructor]. split; [reflexivity|]. exists t. cbn [fst snd type_at]. split; [reflexivity|].
      destruct t; cbn in *; try (split; [reflexivity|exact I]); try contradiction.
      split; [reflexivity|]. destruct (strip_named g); auto. }
    pose proof (jf_levels_ok 64 [] [([], t)] [([], t)] H0) as HA. rewrite Forall_forall in HA. now apply HA.
  Qed.
End Levels.

(** facts that hold of every field the scan records carry over to the selection *)
Section Local.
  Variable ovr : str -> bool.
  Variable Q : jfield -> Prop.
  Hypothesis Hscan : forall idx dup fs, Forall Q (fst (scan_struct ovr idx dup fs)).

  Lemma jf_levels_forall : forall fuel vis level queued, Forall Q (jf_levels ovr fuel vis level queued).
  Proof.
    induction fuel as [|n IH]; intros vis level queued; [constructor|].
    cbn [jf_levels]. destruct level as [|en0 lv0] eqn:El; [constructor|]. rewrite <- El in *. clear El en0 lv0.
    set (step := fold_left _ level (vis, [], [], [])).
    assert (Hstep : let '(_, fields, _, _) := step in Forall Q fields).
    { unfold step.
      apply (fold_left_inv (fun acc : list str * list jfield * list (list nat * gtype) * list (list nat * gtype) =>
               let '(_, fields, _, _) := acc in Forall Q fields)).
      { constructor. }
      intros [[[vis0 fields0] next0] nextall0] en Hin HF.
      destruct (mem_str (type_name (snd en)) vis0 || match snd en with TyRec _ => true | _ => false end); [exact HF|].
      apply Forall_app. split; [exact HF|apply Hscan]. }
    destruct step as [[[vis1 fields1] next1] nextall1].
    apply Forall_app. split; [exact Hstep|apply IH].
  Qed.

  Theorem json_fields_forall t : forall f, In f (json_fields ovr t) -> Q f.
  Proof.
    intros f Hf. unfold json_fields in Hf.
    eapply Permutation_in in Hf; [|apply Permutation_sym, isort_perm].
    apply dominant_subset in Hf.
    eapply Permutation_in in Hf; [|apply Permutation_sym, isort_perm].
    pose proof (jf_levels_forall 64 [] [([], t)] [([], t)]) as HA. rewrite Forall_forall in HA. now apply HA.
  Qed.
End Local.

Lemma split_on_single c : forall s p, split_on c s = [p] -> s = p.
Proof.
  induction s as [|x r IH]; intros p H; cbn [split_on] in H.
  - now injection H as <-.
  - destruct (split_on c r) as [|h tl] eqn:E.
    + injection H as <-. destruct r; [reflexivity|]. cbn in E. destruct (split_on c r); [discriminate|]. destruct (N.eqb n c); discriminate.
    + destruct (N.eqb x c); [discriminate|]. injection H as <- ->. f_equal. now apply IH.
Qed.

Definition local_ok (f : jfield) : Prop :=
  jf_override f = false /\
  (fi_exported (jf_info f) = true ->
   jf_omitempty f = mem_str (lit "omitempty"%lit) (ji_settings (fieldJSONInfo (jf_info f))) /\
   jf_omitzero f = mem_str (lit "omitzero"%lit) (ji_settings (fieldJSONInfo (jf_info f)))).

Lemma settings_ok fi x : fi_exported fi = true -> negb (fi_hastag fi && str_eqb (fi_tag fi) (lit "-"%lit)) = true ->
  nonempty x = true ->
  mem_str x (if fi_hastag fi then tag_opts (fi_tag fi) else []) = mem_str x (ji_settings (fieldJSONInfo fi)).
Proof.
  intros He Hd Hx. unfold fieldJSONInfo. rewrite He. cbn [negb].
  destruct (fi_hastag fi); [|reflexivity]. cbn [andb] in Hd. apply negb_true_iff in Hd.
  unfold tag_opts. destruct (split_on 44 (fi_tag fi)) as [|n0 rest] eqn:Es; [reflexivity|].
  destruct (str_eqb n0 (lit "-"%lit) && negb match rest with [] => false | _ => true end) eqn:Ed.
  - (* the tag would be exactly "-" *)
    apply andb_true_iff in Ed as [E1 E2]. apply str_eqb_eq in E1. subst n0.
    destruct rest as [|? ?]; [|discriminate].
    apply split_on_single in Es. rewrite Es, str_eqb_refl in Hd. discriminate.
  - cbn [ji_settings]. destruct rest as [|[|c cs] [|r2 rr]]; try reflexivity.
    cbn [mem_str]. destruct x; [discriminate|reflexivity].
Qed.

Lemma scan_local idx dup fs : Forall local_ok (fst (scan_struct (fun _ => false) idx dup fs)).
Proof.
  unfold scan_struct.
  apply (fold_left_inv (fun acc : list jfield * list (list nat * gtype) => Forall local_ok (fst acc))); [constructor|].
  intros acc [i [fi ty]] _ HF. cbn [fst snd].
  destruct (if fi_embedded fi then _ else _); [exact HF|].
  destruct (fi_hastag fi && str_eqb (fi_tag fi) (lit "-"%lit)) eqn:Edash; [exact HF|].
  match goal with |- context [if (?a || ?b || ?c || ?d) then _ else _] => destruct (a || b || c || d) end; [|exact HF].
  cbn [fst]. apply Forall_app. split; [exact HF|].
  assert (Hl : forall f, jf_override f = false -> jf_info f = fi ->
             jf_omitempty f = mem_str (lit "omitempty"%lit) (if fi_hastag fi then tag_opts (fi_tag fi) else []) ->
             jf_omitzero f = mem_str (lit "omitzero"%lit) (if fi_hastag fi then tag_opts (fi_tag fi) else []) -> local_ok f).
  { intros f H1 H2 H3 H4. split; [exact H1|]. intros He. rewrite H2 in *. rewrite H3, H4.
    split; apply settings_ok; auto; rewrite Edash; reflexivity. }
  rewrite !andb_false_r.
  destruct dup; [constructor; [|constructor; [|constructor]]|constructor; [|constructor]]; apply Hl; reflexivity.
Qed.

Theorem json_fields_local t : forall f, In f (json_fields (fun _ => false) t) -> local_ok f.
Proof. apply json_fields_forall. apply scan_local. Qed.

(** embedded structs, at any depth of embedding: none is replaced through TypeSchemas, and
    one of an unexported type carries no json name (so every selected field is exported) *)
Fixpoint emb_fine (ovr : str -> bool) (t : gtype) : bool :=
  match t with
  | TyNamed _ t' => emb_fine ovr t'
  | TyPtr t' => emb_fine ovr t'
  | TyStruct fs =>
      (fix go (fs : list (finfo * gtype)) : bool :=
         match fs with
         | [] => true
         | (fi, ty) :: r =>
             (if fi_embedded fi
              then negb (ovr (type_name (strip_ptr1 ty))) &&
                   (fi_exported fi || negb (fi_hastag fi && is_valid_tag (tag_name (fi_tag fi)))) &&
                   emb_fine ovr ty
              else true) && go r
         end) fs
  | _ => true
  end.

Lemma emb_fine_fields ovr t fi ty :
  emb_fine ovr t = true -> In (fi, ty) (struct_fields t) -> fi_embedded fi = true ->
  ovr (type_name (strip_ptr1 ty)) = false /\ (fi_exported fi || negb (fi_hastag fi && is_valid_tag (tag_name (fi_tag fi)))) = true /\ emb_fine ovr ty = true.
Proof.
  induction t; cbn [emb_fine struct_fields]; intros He Hin Hfe; try contradiction; auto.
  revert He Hin. induction fs as [|[fj tj] r IHr]; intros He Hin; [contradiction|].
  apply andb_true_iff in He as [H1 H2]. destruct Hin as [[= -> ->]|Hin]; [|now apply IHr].
  rewrite Hfe in H1. apply andb_true_iff in H1 as [H1 H3]. apply andb_true_iff in H1 as [H0 H1].
  apply negb_true_iff in H0. auto.
Qed.

Lemma fold_left_ext_inv {A B} (P : A -> Prop) (f g : A -> B -> A) : forall l a,
  P a -> (forall a x, In x l -> P a -> f a x = g a x /\ P (f a x)) -> fold_left f l a = fold_left g l a /\ P (fold_left f l a).
Proof.
  induction l as [|x r IH]; intros a Ha H; [split; [reflexivity|exact Ha]|]. cbn [fold_left].
  destruct (H a x (or_introl eq_refl) Ha) as [He Hp]. rewrite <- He. apply IH; [exact Hp|].
  intros a' y Hy. apply H. now right.
Qed.

Section Ext.
  Variable ovr : str -> bool.

  Lemma scan_struct_ext idx dup t0 :
    emb_fine ovr t0 = true ->
    scan_struct ovr idx dup (struct_fields t0) = scan_struct (fun _ => false) idx dup (struct_fields t0) /\
    Forall (fun en => emb_fine ovr (snd en) = true) (snd (scan_struct ovr idx dup (struct_fields t0))) /\
    Forall (fun f => fi_exported (jf_info f) = true) (fst (scan_struct ovr idx dup (struct_fields t0))).
  Proof.
    intros He. unfold scan_struct.
    set (P := fun acc : list jfield * list (list nat * gtype) =>
                Forall (fun en => emb_fine ovr (snd en) = true) (snd acc) /\ Forall (fun f => fi_exported (jf_info f) = true) (fst acc)).
    match goal with |- fold_left ?f ?l ?a = fold_left ?g ?l ?a /\ _ =>
      destruct (fold_left_ext_inv P f g l a) as [Heq [H1 H2]]; [split; constructor| |split; [exact Heq|split; assumption]] end.
    intros acc [i [fi ty]] Hin [HE HX]. cbn [fst snd].
    apply combine_seq_nth in Hin as [_ Hn]. rewrite Nat.sub_0_r in Hn. apply nth_error_In in Hn.
    destruct (fi_embedded fi) eqn:Hfe.
    - destruct (emb_fine_fields ovr t0 fi ty He Hn Hfe) as (Hov & Hex & Hef).
      unfold strip_ptr1 in Hov. rewrite Hov, !andb_false_r.
      destruct (negb (fi_exported fi) && _) eqn:Esk; [split; [reflexivity|split; assumption]|].
      destruct (fi_hastag fi && str_eqb (fi_tag fi) (lit "-"%lit)); [split; [reflexivity|split; assumption]|].
      match goal with |- context [if (?a || ?b || ?c || ?d) then _ else _] => destruct (a || b || c || d) eqn:Ec end.
      + split; [reflexivity|]. split; [exact HE|]. cbn [fst]. apply Forall_app. split; [exact HX|].
        (* the recorded embedded field is exported: it has a name or is not a struct *)
        assert (Hexp : fi_exported fi = true).
        { destruct (fi_exported fi) eqn:Ex; [reflexivity|]. exfalso.
          cbn [negb andb orb] in Esk, Hex. apply negb_false_iff in Esk. apply negb_true_iff in Hex.
          assert (Hst : match kind_of (match ty with TyPtr t' => t' | _ => ty end) with KdStruct => true | _ => false end = true)
            by (destruct ty; exact Esk).
          rewrite Hst in Ec. cbn [negb] in Ec. rewrite !orb_false_r in Ec.
          destruct (fi_hastag fi); cbn [andb] in Hex.
          - rewrite Hex in Ec. discriminate.
          - discriminate. }
        destruct dup; repeat constructor; exact Hexp.
      + split; [reflexivity|]. split; [|exact HX]. cbn [snd]. apply Forall_app. split; [exact HE|].
        constructor; [|constructor]. cbn [snd]. destruct ty; cbn [emb_fine] in Hef |- *; auto.
    - cbn [andb orb negb]. destruct (negb (fi_exported fi)) eqn:Esk; [split; [reflexivity|split; assumption]|].
      destruct (fi_hastag fi && str_eqb (fi_tag fi) (lit "-"%lit)); [split; [reflexivity|split; assumption]|].
      rewrite ?orb_true_r. cbn [orb]. rewrite ?andb_false_l.
      split; [reflexivity|]. split; [exact HE|]. cbn [fst]. apply Forall_app. split; [exact HX|].
      apply negb_false_iff in Esk. destruct dup; repeat constructor; exact Esk.
  Qed.
End Ext.

Section Ext2.
  Variable ovr : str -> bool.

  Lemma next_subset_gen (R : list nat * gtype -> Prop) (add next : list (list nat * gtype)) :
    Forall R next -> Forall R add ->
    Forall R (fold_left (fun nx e => if Nat.ltb 0 (count_name (type_name (snd e)) nx) then nx else nx ++ [e]) add next).
  Proof.
    revert next. induction add as [|x r IH]; intros next Hn Ha; [exact Hn|].
    cbn [fold_left]. inversion Ha; subst. apply IH; [|assumption].
    destruct (Nat.ltb 0 _); [exact Hn|]. apply Forall_app. split; [exact Hn|now constructor].
  Qed.

  Lemma jf_levels_ext : forall fuel vis level queued,
    Forall (fun en => emb_fine ovr (snd en) = true) level ->
    jf_levels ovr fuel vis level queued = jf_levels (fun _ => false) fuel vis level queued /\
    Forall (fun f => fi_exported (jf_info f) = true) (jf_levels ovr fuel vis level queued).
  Proof.
    induction fuel as [|n IH]; intros vis level queued Hl; [split; [reflexivity|constructor]|].
    cbn [jf_levels]. destruct level as [|en0 lv0] eqn:El; [split; [reflexivity|constructor]|]. rewrite <- El in *. clear El en0 lv0.
    set (P := fun acc : list str * list jfield * list (list nat * gtype) * list (list nat * gtype) =>
                let '(_, fields, next, _) := acc in
                Forall (fun f => fi_exported (jf_info f) = true) fields /\ Forall (fun en => emb_fine ovr (snd en) = true) next).
    match goal with |- context [fold_left ?f level (vis, [], [], [])] =>
      match goal with |- context [fold_left ?g level (vis, [], [], [])] =>
        tryif constr_eq f g then fail else destruct (fold_left_ext_inv P f g level (vis, [], [], [])) as [Heq HP]
      end
    end.
    { split; constructor. }
    { intros [[[vis0 fields0] next0] nextall0] en Hin [HF HN].
      destruct (mem_str (type_name (snd en)) vis0 || match snd en with TyRec _ => true | _ => false end); [split; [reflexivity|split; assumption]|].
      rewrite Forall_forall in Hl.
      destruct (scan_struct_ext ovr (fst en) (Nat.ltb 1 (count_name (type_name (snd en)) queued)) (snd en) (Hl en Hin)) as (He & H2 & H3).
      rewrite He. split; [reflexivity|]. rewrite <- He. split.
      - apply Forall_app. split; assumption.
      - apply next_subset_gen; assumption. }
    rewrite <- Heq.
    destruct (fold_left _ level (vis, [], [], [])) as [[[vis1 fields1] next1] nextall1]. destruct HP as [HF HN].
    destruct (IH vis1 next1 nextall1 HN) as [He Hx]. rewrite He. split; [reflexivity|].
    rewrite <- He. apply Forall_app. split; assumption.
  Qed.

  (** without replaced embedded structs the selection does not depend on TypeSchemas,
      and every selected field is exported *)
  Theorem json_fields_ext t : emb_fine ovr t = true ->
    json_fields ovr t = json_fields (fun _ => false) t /\
    forall f, In f (json_fields (fun _ => false) t) -> fi_exported (jf_info f) = true.
  Proof.
    intros He. unfold json_fields.
    destruct (jf_levels_ext 64 [] [([], t)] [([], t)]) as [Heq Hx]; [constructor; [exact He|constructor]|].
    rewrite Heq. split; [reflexivity|].
    intros f Hf.
    eapply Permutation_in in Hf; [|apply Permutation_sym, isort_perm].
    apply dominant_subset in Hf.
    eapply Permutation_in in Hf; [|apply Permutation_sym, isort_perm].
    rewrite Heq in Hx. rewrite Forall_forall in Hx. now apply Hx.
  Qed.
End Ext2.
