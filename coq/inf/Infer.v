(** infer.go: For / ForType (forType), transcribed. *)
From Coq Require Import List NArith ZArith QArith Bool.
From JS Require Import Str Lit Json Res GoValue Schema CodecBase Basic GoType.
Import ListNotations.
Open Scope list_scope.
Local Open Scope nat_scope.

Record iopts := mkO {
  o_ignore : bool;                      (* ForOptions.IgnoreInvalidTypes *)
  o_tsnull : bool;                      (* JSONSCHEMAGODEBUG=typeschemasnull=1 *)
  o_schemas : list (str * option schema) (* ForOptions.TypeSchemas entries (None: a nil entry, which hides the default) then initialSchemaMap, by type name *)
}.

Fixpoint strip_ptrs (t : gtype) : bool * gtype :=
  match t with TyPtr t' => (true, snd (strip_ptrs t')) | _ => (false, t) end.

Definition zq (z : Z) : Q := inject_Z z.
Definition int_bounds (k : ikind) : option Q * option Q :=
  match k with
  | KInt | KInt64 => (None, None)
  | KUint | KUint64 | KUintptr => (Some (zq 0), None)
  | KInt8 => (Some (zq (-128)), Some (zq 127))
  | KUint8 => (Some (zq 0), Some (zq 255))
  | KInt16 => (Some (zq (-32768)), Some (zq 32767))
  | KUint16 => (Some (zq 0), Some (zq 65535))
  | KInt32 => (Some (zq (-2147483648)), Some (zq 2147483647))
  | KUint32 => (Some (zq 0), Some (zq 4294967295))
  end.

Definition null_s : str := lit "null"%lit.
Definition false_schema : schema := set_not (Some empty_schema) empty_schema.

(* the tail of forType: a pointer adds "null" to a single type *)
Definition with_null (allowNull : bool) (s : schema) : schema :=
  if allowNull && nonempty (s_type s) then set_type [] (set_types (Some [null_s; s_type s]) s) else s.

(* a TypeSchemas entry reached through a pointer *)
Definition override_null (o : iopts) (allowNull : bool) (c : schema) : schema :=
  if negb (o_tsnull o) && allowNull then
    if nonempty (s_type c) then set_type [] (set_types (Some [null_s; s_type c]) c)
    else
      let ts := match s_types c with Some l => l | None => [] end in
      match ts with
      | [] => c    (* no type restriction: null is accepted already *)
      | _ => if mem_str null_s ts then c else set_types (Some (null_s :: ts)) c
      end
  else c.

(* fieldJSONInfo *)
Record jinfo := mkJI { ji_omit : bool; ji_name : str; ji_settings : list str }.
Definition fieldJSONInfo (fi : finfo) : jinfo :=
  if negb (fi_exported fi) then mkJI true [] []
  else if fi_hastag fi then
    let parts := split_on 44%N (fi_tag fi) in
    let name0 := match parts with n :: _ => n | [] => [] end in
    let found := match parts with _ :: _ :: _ => true | _ => false end in
    let rest := match parts with _ :: r => r | [] => [] end in
    if str_eqb name0 (lit "-"%lit) && negb found then mkJI true [] []
    else mkJI false (if is_valid_tag name0 then name0 else fi_name fi)
              (* len(rest) > 0: an empty remainder (tag "a,") leaves the settings nil *)
              (match rest with [[]] => [] | _ => rest end)
  else mkJI false (fi_name fi) [].

(* disallowedPrefixRegexp ^[^ \t\n]*= *)
Fixpoint bad_desc_prefix (s : str) : bool :=
  match s with
  | [] => false
  | c :: r => if N.eqb c 61 then true else if N.eqb c 32 || N.eqb c 9 || N.eqb c 10 then false else bad_desc_prefix r
  end.

Fixpoint is_index_prefix (p idx : list nat) : bool :=
  match p, idx with
  | [], _ => true
  | x :: p', y :: i' => Nat.eqb x y && is_index_prefix p' i'
  | _ :: _, [] => false
  end.

(* PropertyOrder without duplicates, keeping the last occurrence *)
Fixpoint dedup_keep_last (l : list str) : list str :=
  match l with
  | [] => []
  | x :: r => if mem_str x r then dedup_keep_last r else x :: dedup_keep_last r
  end.

Record sstate := mkSS { ss_props : list (str * schema); ss_order : list str; ss_req : list str; ss_skip : option (list nat) }.

Section Infer.
  Variable o : iopts.

  Definition ovr_of (n : str) : bool := match lookup n (o_schemas o) with Some (Some _) => true | _ => false end.

  Section Body.
    (* the recursive call, on a component type *)
    Variable rec : gtype -> res (option schema).

    Definition ty_schema (name : str) : schema := set_type name empty_schema.

    (* one field of a struct *)
    Definition struct_step (acc : res sstate) (jf : jfield) : res sstate :=
      st <- acc ;;
      let fi := jf_info jf in
      if jf_override jf then
        match lookup (type_name (jf_type jf)) (o_schemas o) with
        | Some (Some ov) =>
            if negb (str_eqb (s_type ov) (lit "object"%lit)) then Err
            else if negb (is_zero_schema (set_properties None (set_type [] ov))) then Err
            else
              let ps := match s_properties ov with Some p => p | None => [] end in
              Ok (fold_left (fun (st : sstate) (name : str) =>
                               match lookup name (ss_props st), lookup name ps with
                               | None, Some c => mkSS (ss_props st ++ [(name, c)]) (ss_order st ++ [name]) (ss_req st) None
                               | _, _ => st
                               end)
                            (sort_strs (keys ps)) st)
        | _ => Err
        end
      else
        let info := fieldJSONInfo fi in
        r <- rec (jf_decl jf) ;;
        match r with
        | None => Ok st    (* only with IgnoreInvalidTypes *)
        | Some fs =>
            fs' <- (match fi_desc fi with
                    | None => Ok fs
                    | Some [] => Err
                    | Some d => if bad_desc_prefix d then Err else Ok (set_description d fs)
                    end) ;;
            Ok (mkSS (map_set (jf_name jf) fs' (ss_props st)) (ss_order st ++ [jf_name jf])
                     (if mem_str (lit "omitempty"%lit) (ji_settings info) || mem_str (lit "omitzero"%lit) (ji_settings info)
                      then ss_req st else ss_req st ++ [jf_name jf])
                     None)
        end.

    Definition infer_struct (t0 : gtype) : res schema :=
      st <- fold_left struct_step (json_fields ovr_of t0) (Ok (mkSS [] [] [] None)) ;;
      let order := match ss_order st with _ :: _ :: _ => dedup_keep_last (ss_order st) | l => l end in
      Ok (set_propertyOrder (match order with [] => None | _ => Some order end)
         (set_required (match ss_req st with [] => None | r => Some r end)
         (set_properties (if has_fields t0 then Some (ss_props st) else None)
         (set_additionalProperties (Some false_schema) (ty_schema (lit "object"%lit)))))).

    (* the schema of a non-pointer type without a TypeSchemas entry, before "null" is added for pointers *)
    Definition infer_kind' (t0 : gtype) : res (option schema) :=
      match kind_of t0 with
      | KdBool => Ok (Some (ty_schema (lit "boolean"%lit)))
      | KdInt k => Ok (Some (set_maximum (snd (int_bounds k)) (set_minimum (fst (int_bounds k)) (ty_schema (lit "integer"%lit)))))
      | KdFloat => Ok (Some (ty_schema (lit "number"%lit)))
      | KdString => Ok (Some (ty_schema (lit "string"%lit)))
      | KdIface => Ok (Some empty_schema)
      | KdBad => if o_ignore o then Ok None else Err
      | KdPtr => Err (* named pointer types: not generated *)
      | KdMap =>
          match strip_named t0 with
          | TyMap kstr et =>
              if negb kstr then (if o_ignore o then Ok None else Err)
              else
                r <- rec et ;;
                match r with
                | None => Ok None
                | Some ap => Ok (Some (set_additionalProperties (Some ap) (ty_schema (lit "object"%lit))))
                end
          | _ => Err
          end
      | KdSlice | KdArray =>
          match strip_named t0 with
          | TySlice et =>
              r <- rec et ;;
              match r with
              | None => Ok None
              | Some it =>
                  let s0 := if o_tsnull o then ty_schema (lit "array"%lit)
                            else set_types (Some [null_s; lit "array"%lit]) empty_schema in
                  Ok (Some (set_items (Some it) s0))
              end
          | TyArray len et =>
              r <- rec et ;;
              match r with
              | None => Ok None
              | Some it =>
                  Ok (Some (set_maxItems (Some (Z.of_nat len)) (set_minItems (Some (Z.of_nat len))
                           (set_items (Some it) (ty_schema (lit "array"%lit))))))
              end
          | _ => Err
          end
      | KdStruct => s <- infer_struct t0 ;; Ok (Some s)
      end.
    Definition infer_kind (t0 : gtype) : res (option schema) :=
      match t0 with
      | TyRec _ => Err
      | _ => infer_kind' t0
      end.
  End Body.

  Fixpoint infer (fuel : nat) (seen : list str) (t : gtype) : res (option schema) :=
    match fuel with
    | O => OutOfFuel
    | S n =>
        let allowNull := fst (strip_ptrs t) in
        let t0 := snd (strip_ptrs t) in
        let nm := type_name t0 in
        if nonempty nm && mem_str nm seen then Err   (* cycle detected *)
        else
          let seen' := if nonempty nm then nm :: seen else seen in
          match (if nonempty nm then (match lookup nm (o_schemas o) with Some x => x | None => None end) else None) with
          | Some ov => Ok (Some (override_null o allowNull ov))
          | None =>
              r <- infer_kind (infer n seen') t0 ;;
              Ok (option_map (with_null allowNull) r)
          end
    end.
End Infer.

(** For / ForType *)
Definition ForType (o : iopts) (t : gtype) : res (option schema) := infer o 64 [] t.
