(** C09 (schema side, all types): the verdict of an inferred schema is a computable function of
    the Go type - [conforms] - which says what JSON shape the type takes. *)
From Coq Require Import List NArith ZArith QArith Bool Lia.
From JS Require Import Str StrFacts Lit Json JsonFacts Res GoValue Schema Basic Env Spec SpecMono GoType Encode CodecBase Infer InferFacts Accept WellTyped C04Main C16Facts Reject.
Import ListNotations.
Open Scope list_scope.
Local Open Scope nat_scope.

Section Dec.
  Variable re_match : str -> str -> bool.
  Variable e : env.
  Hypothesis Hd : e_draft7 e = false.

  (** [f] is the verdict of [s]: at every location and scope, with enough budget *)
  Definition decides (s : schema) (f : json -> bool) : Prop :=
    forall j C l, exists k0, forall k', k0 <= k' -> exists sg, spec_eval re_match k' e C j l s = Some (f j, sg).

  Lemma decides_defined s f : decides s f -> defined re_match e s.
  Proof. intros H j C l. destruct (H j C l) as (k0 & Hk). destruct (Hk k0 (le_n _)) as (sg & Hs). eauto. Qed.

  Lemma decides_ext s f g : (forall j, f j = g j) -> decides s f -> decides s g.
  Proof. intros He H j C l. destruct (H j C l) as (k0 & Hk). exists k0. intros k' Hle. destruct (Hk k' Hle) as (sg & Hs). exists sg. now rewrite <- He. Qed.

  Lemma decides_all {A} (f : A -> json * loc * schema) (g : A -> bool) (C : list loc) (xs : list A) :
    (forall x, In x xs -> exists F, decides (snd (f x)) F /\ F (fst (fst (f x))) = g x) ->
    exists k, forall k', k <= k' ->
      exists rs, eval_all (fun x => spec_eval re_match k' e C (fst (fst (f x))) (snd (fst (f x))) (snd (f x))) xs = Some rs /\
                 all_true rs = forallb g xs.
  Proof.
    induction xs as [|x r IH]; intros H.
    - exists 0. intros k' _. exists []. split; reflexivity.
    - destruct IH as (k1 & H1); [intros y Hy; apply H; now right|].
      destruct (H x (or_introl eq_refl)) as (F & HF & HFg).
      destruct (HF (fst (fst (f x))) C (snd (fst (f x)))) as (k2 & H2).
      exists (Nat.max k1 k2). intros k' Hle.
      destruct (H1 k') as (rs & Hrs & Hall); [lia|]. destruct (H2 k') as (sg & Hr0); [lia|].
      exists ((F (fst (fst (f x))), sg) :: rs). cbn [eval_all]. rewrite Hr0, Hrs. split; [reflexivity|].
      cbn [all_true forallb fst]. unfold all_true in Hall. now rewrite Hall, HFg.
  Qed.

  Definition props_fn (m : list (str * json)) (kf : (str * schema) * (json -> bool)) : bool :=
    match lookup (fst (fst kf)) m with Some v => snd kf v | None => true end.

  Lemma props_decides (C : list loc) (l : loc) (m : list (str * json)) (props : list (str * schema)) (fps : list (json -> bool)) :
    Forall2 (fun kc fp => decides (snd kc) fp) props fps ->
    exists k0, forall k', k0 <= k' ->
      exists rs, eval_all (fun kc => match lookup (fst kc) m with
                                      | Some v => spec_eval re_match k' e C v (ch_k l (lit "properties"%lit) (fst kc)) (snd kc)
                                      | None => Some (true, sig0)
                                      end) props = Some rs /\
                 all_true rs = forallb (props_fn m) (combine props fps).
  Proof.
    induction 1 as [|[k c] fp r1 r2 Hc _ IH].
    - exists 0. intros k' _. exists []. split; reflexivity.
    - destruct IH as (k1 & H1). cbn [snd] in Hc.
      destruct (lookup k m) as [v|] eqn:El.
      + destruct (Hc v C (ch_k l (lit "properties"%lit) k)) as (k2 & H2).
        exists (Nat.max k1 k2). intros k' Hle. destruct (H1 k') as (rs & Hrs & Hall); [lia|]. destruct (H2 k') as (sg & Hr0); [lia|].
        exists ((fp v, sg) :: rs). cbn [eval_all fst snd]. rewrite El, Hr0, Hrs. split; [reflexivity|].
        cbn [combine all_true forallb fst]. unfold props_fn at 1. cbn [fst snd]. rewrite El. unfold all_true in Hall. now rewrite Hall.
      + exists k1. intros k' Hle. destruct (H1 k' Hle) as (rs & Hrs & Hall).
        exists ((true, sig0) :: rs). cbn [eval_all fst snd]. rewrite El, Hrs. split; [reflexivity|].
        cbn [combine all_true forallb fst]. unfold props_fn at 1. cbn [fst snd]. rewrite El. unfold all_true in Hall. now rewrite Hall.
  Qed.

  Definition simple_fn ty tys mn mx it mnI mxI props req addl desc po (f_it : json -> bool) (fps : list (json -> bool)) (f_addl : json -> bool) (j : json) : bool :=
    let SS := mk_simple ty tys mn mx it mnI mxI props req addl desc po in
    a_type SS j && a_numbers SS j &&
    (match j, it with JArr items, Some _ => forallb f_it items | _, _ => true end) && a_array_counts SS j &&
    (match j with
     | JObj m => forallb (props_fn m) (combine (olist props) fps) &&
                 (match addl with Some _ => forallb (fun kv => f_addl (snd kv)) (ob_additional re_match SS m) | None => true end)
     | _ => true
     end) && a_object_counts false SS j.

  (** the verdict of a schema with at most the keywords inference uses, from those of its subschemas *)
  Theorem simple_decides ty tys mn mx it mnI mxI props req addl desc po f_it fps f_addl :
    (match it with Some c => decides c f_it | None => True end) ->
    Forall2 (fun kc fp => decides (snd kc) fp) (olist props) fps ->
    (match addl with Some c => decides c f_addl | None => True end) ->
    decides (mk_simple ty tys mn mx it mnI mxI props req addl desc po)
            (simple_fn ty tys mn mx it mnI mxI props req addl desc po f_it fps f_addl).
  Proof.
    intros Hit Hprops Haddl j C l.
    set (SS := mk_simple ty tys mn mx it mnI mxI props req addl desc po).
    (* arrays *)
    assert (Harr : exists k0, forall k', k0 <= k' -> exists ix,
              (match j with JArr items => spec_arrays e (spec_eval re_match k' e (C ++ [l])) l SS items | _ => Some (true, []) end)
              = Some (match j, it with JArr items, Some _ => forallb f_it items | _, _ => true end, ix)).
    { destruct j as [| | | |items|]; try (exists 0; intros; eexists; reflexivity).
      unfold spec_arrays, ar_prefix, ar_rest, ar_contains, ar_prefix_list, ar_rest_schema. rewrite Hd.
      cbn [SS mk_simple set_propertyOrder set_description set_additionalProperties set_required set_properties set_maxItems set_minItems set_items
           set_maximum set_minimum set_types set_type empty_schema s_prefixItems s_items s_contains s_minContains s_maxContains olist idx_list length seq combine skipn option_map].
      assert (Hc : combine items (@nil (nat * schema)) = []) by (destruct items; reflexivity). rewrite Hc. cbn [eval_all].
      destruct it as [c|].
      - destruct (decides_all (fun x => (x, ch l (lit "items"%lit), c)) f_it (C ++ [l]) items) as (k0 & Hk).
        { intros x _. exists f_it. split; [exact Hit|reflexivity]. }
        exists k0. intros k' Hle. destruct (Hk k' Hle) as (rs & Hrs & Hall). cbn [fst snd] in Hrs. cbn [option_map]. rewrite Hrs.
        rewrite Hall. cbn [all_true forallb andb]. rewrite andb_true_r. eexists; reflexivity.
      - exists 0. intros k' _. cbn [option_map]. eexists; reflexivity. }
    (* objects *)
    assert (Hobj : exists k0, forall k', k0 <= k' -> exists sg1 sg2,
              (match j with JObj m => spec_objects re_match e (spec_eval re_match k' e (C ++ [l])) j l SS m | _ => Some (true, sig0, sig0) end)
              = Some (match j with
                      | JObj m => forallb (props_fn m) (combine (olist props) fps) &&
                                  (match addl with Some _ => forallb (fun kv => f_addl (snd kv)) (ob_additional re_match SS m) | None => true end)
                      | _ => true
                      end, sg1, sg2)).
    { destruct j as [| | | | |m]; try (exists 0; intros; eexists; eexists; reflexivity).
      destruct (props_decides (C ++ [l]) l m (olist props) fps Hprops) as (k1 & H1).
      assert (Hadd : exists k2, forall k', k2 <= k' -> exists rs, ob_ev_add re_match (spec_eval re_match k' e (C ++ [l])) l SS m = Some rs /\
                all_true rs = (match addl with Some _ => forallb (fun kv => f_addl (snd kv)) (ob_additional re_match SS m) | None => true end)).
      { unfold ob_ev_add.
        cbn [SS mk_simple set_propertyOrder set_description set_additionalProperties set_required set_properties set_maxItems set_minItems set_items
             set_maximum set_minimum set_types set_type empty_schema s_additionalProperties].
        destruct addl as [c|].
        - destruct (decides_all (fun kv : str * json => (snd kv, ch l (lit "additionalProperties"%lit), c)) (fun kv => f_addl (snd kv)) (C ++ [l]) (ob_additional re_match SS m)) as (k0 & Hk).
          { intros x _. exists f_addl. split; [exact Haddl|reflexivity]. }
          exists k0. intros k' Hle. destruct (Hk k' Hle) as (rs & Hrs & Hall). exists rs. split; [exact Hrs|exact Hall].
        - exists 0. intros. exists []. split; reflexivity. }
      destruct Hadd as (k2 & H2).
      exists (Nat.max k1 k2). intros k' Hle.
      destruct (H1 k') as (rp & Hrp & Hap); [lia|]. destruct (H2 k') as (ra & Hra & Haa); [lia|].
      unfold spec_objects. unfold ob_ev_props at 1.
      cbn [SS mk_simple set_propertyOrder set_description set_additionalProperties set_required set_properties set_maxItems set_minItems set_items
           set_maximum set_minimum set_types set_type empty_schema s_properties] in *.
      rewrite Hrp, Hra.
      unfold ob_ev_pats, ob_ev_names, ob_ev_deps, ob_deps. rewrite Hd.
      cbn [s_patternProperties s_propertyNames s_dependentSchemas olist eval_all option_map all_true forallb].
      rewrite (eval_all_const _ m (true, sig0)) by reflexivity.
      rewrite Hap, Haa.
      assert (Hm : all_true (map (fun _ : str * json => (true, sig0)) m) = true) by (clear; induction m; [reflexivity|assumption]).
      rewrite Hm. unfold SS.
      cbn [mk_simple set_propertyOrder set_description set_additionalProperties set_required set_properties set_maxItems set_minItems set_items
           set_maximum set_minimum set_types set_type empty_schema s_propertyNames s_dependentSchemas olist eval_all all_true forallb].
      rewrite !andb_true_r. eexists; eexists; reflexivity. }
    destruct Harr as (ka & Ha). destruct Hobj as (ko & Ho).
    exists (S (Nat.max ka ko)). intros k'' Hle. destruct k'' as [|k']; [lia|].
    destruct (Ha k') as (ix & Hra); [lia|]. destruct (Ho k') as (sg1 & sg2 & Hro); [lia|].
    eexists.
    cbn [spec_eval]. set (ev := spec_eval re_match k' e (C ++ [l])) in *.
    unfold spec_body.
    cbn [SS mk_simple set_propertyOrder set_description set_additionalProperties set_required set_properties set_maxItems set_minItems set_items
         set_maximum set_minimum set_types set_type empty_schema
         s_ref s_dynamicRef s_allOf s_anyOf s_oneOf s_not s_if s_then s_else olist idx_list length seq combine eval_all one].
    rewrite Hd. cbn [andb]. fold SS.
    rewrite Hra, Hro.
    assert (Hen : a_enum SS j = true) by reflexivity.
    assert (Hco : a_const SS j = true) by reflexivity.
    assert (Hst : a_strings re_match SS j = true) by (destruct j; reflexivity).
    assert (Hui : forall sm, spec_uneval_items ev j l SS sm = Some (true, [])) by (intros; destruct j; reflexivity).
    assert (Hup : forall sm, spec_uneval_props ev j l SS sm = Some (true, [])) by (intros; destruct j; reflexivity).
    rewrite Hui, Hup, Hen, Hco, Hst. cbn [all_true forallb existsb negb app]. rewrite !andb_true_r.
    f_equal. f_equal. unfold simple_fn. fold SS.
    destruct (a_type SS j), (a_numbers SS j), (a_array_counts SS j), (a_object_counts false SS j);
      rewrite ?andb_true_r, ?andb_false_r, ?andb_true_l, ?andb_false_l; reflexivity.
  Qed.
End Dec.

(** ** what JSON a Go type takes *)
Definition is_null (j : json) : bool := match j with JNull => true | _ => false end.
Definition is_str (j : json) : bool := match j with JStr _ => true | _ => false end.

Section Conforms.
  Variable o : iopts.

  Section Kind.
    Variable rec : gtype -> json -> bool.

    Definition struct_conforms (t0 : gtype) (j : json) : bool :=
      match j with
      | JObj m =>
          let L := json_fields (fun _ => false) t0 in
          (* every declared member that is present fits its field *)
          forallb (fun f => match lookup (jf_name f) m with Some v => rec (jf_decl f) v | None => true end) L &&
          (* no undeclared member *)
          forallb (fun kv => mem_str (fst kv) (map jf_name L)) m &&
          (* members without omitempty/omitzero are present *)
          forallb (fun f => has_key m (jf_name f)) (filter (fun f => negb (omit_set f)) L)
      | _ => false
      end.

    Definition conforms_kind (t0 : gtype) (j : json) : bool :=
      match kind_of t0 with
      | KdBool => match j with JBool _ => true | _ => false end
      | KdInt k => match j with
                   | JNum q => q_is_int q && opt_ok (fst (int_bounds k)) (fun b => q_leb b q) && opt_ok (snd (int_bounds k)) (fun b => q_leb q b)
                   | _ => false
                   end
      | KdFloat => match j with JNum _ => true | _ => false end
      | KdString => is_str j
      | KdIface => true
      | KdSlice | KdArray =>
          match strip_named t0 with
          | TySlice et => (negb (o_tsnull o) && is_null j) || match j with JArr items => forallb (rec et) items | _ => false end
          | TyArray n et => match j with JArr items => Nat.eqb (length items) n && forallb (rec et) items | _ => false end
          | _ => false
          end
      | KdMap =>
          match strip_named t0 with
          | TyMap _ et => match j with JObj m => forallb (fun kv => rec et (snd kv)) m | _ => false end
          | _ => false
          end
      | KdStruct => struct_conforms t0 j
      | KdPtr | KdBad => false
      end.
  End Kind.

  Fixpoint conforms (fuel : nat) (t : gtype) (j : json) : bool :=
    match fuel with
    | O => false
    | S n =>
        let b := fst (strip_ptrs t) in
        let t0 := snd (strip_ptrs t) in
        match t0 with
        | TyStd _ => is_str j || (negb (o_tsnull o) && b && is_null j)
        | _ => (b && is_null j) || conforms_kind (conforms n) t0 j
        end
    end.
End Conforms.

Lemma type_accepts_null j : type_accepts null_s j = is_null j.
Proof. destruct j; try reflexivity. unfold type_accepts, json_type. destruct (q_is_int q); reflexivity. Qed.

Lemma filter_none {A} (P : A -> bool) l : (forall x, In x l -> P x = false) -> filter P l = [].
Proof. induction l as [|x r IH]; intros H; [reflexivity|]. cbn [filter]. rewrite (H x (or_introl eq_refl)). apply IH. intros y Hy. apply H. now right. Qed.
Lemma filter_all {A} (P : A -> bool) l : (forall x, In x l -> P x = true) -> filter P l = l.
Proof. induction l as [|x r IH]; intros H; [reflexivity|]. cbn [filter]. rewrite (H x (or_introl eq_refl)). f_equal. apply IH. intros y Hy. apply H. now right. Qed.
Lemma forallb_ext_in {A} (f g : A -> bool) l : (forall x, In x l -> f x = g x) -> forallb f l = forallb g l.
Proof. induction l as [|x r IH]; intros H; [reflexivity|]. cbn [forallb]. rewrite (H x (or_introl eq_refl)). f_equal. apply IH. intros y Hy. apply H. now right. Qed.
Lemma forallb_false_filter {A} (P : A -> bool) l : forallb (fun _ => false) (filter P l) = forallb (fun x => negb (P x)) l.
Proof. induction l as [|x r IH]; [reflexivity|]. cbn [filter forallb]. destruct (P x); [reflexivity|exact IH]. Qed.

Lemma lookup_keys {A} k (m : list (str * A)) : (match lookup k m with Some _ => true | None => false end) = mem_str k (keys m).
Proof.
  induction m as [|[k' v] r IH]; [reflexivity|]. cbn [lookup keys map fst mem_str]. fold (keys r).
  destruct (str_eqb k k'); [reflexivity|exact IH].
Qed.

Section WithNull.
  Variable re_match : str -> str -> bool.
  Variable e : env.
  Hypothesis Hd : e_draft7 e = false.
  Notation decides := (decides re_match e).

  Lemma decides_description s d f : decides s f -> decides (set_description d s) f.
  Proof.
    intros H j C l. destruct (H j C l) as (k0 & Hk). exists (S k0). intros k' Hle. destruct k' as [|k']; [lia|].
    destruct (Hk (S k')) as (sg & Hs); [lia|]. exists sg. cbn [spec_eval] in *. now rewrite spec_body_description.
  Qed.

  Lemma with_null_fn ty mn mx it mnI mxI props req addl desc po f_it fps f_addl j :
    nonempty ty = true ->
    simple_fn re_match [] (Some [null_s; ty]) mn mx it mnI mxI props req addl desc po f_it fps f_addl j =
    is_null j || simple_fn re_match ty None mn mx it mnI mxI props req addl desc po f_it fps f_addl j.
  Proof.
    intros Hne. destruct ty as [|c ty']; [discriminate|]. unfold simple_fn.
    rewrite !a_type_simple. cbn [existsb]. rewrite type_accepts_null, orb_false_r.
    destruct j; cbn [is_null orb]; reflexivity.
  Qed.

  Lemma with_null_decides b ty mn mx it mnI mxI props req addl desc po f_it fps f_addl :
    nonempty ty = true ->
    (match it with Some c => decides c f_it | None => True end) ->
    Forall2 (fun kc fp => decides (snd kc) fp) (olist props) fps ->
    (match addl with Some c => decides c f_addl | None => True end) ->
    decides (with_null b (mk_simple ty None mn mx it mnI mxI props req addl desc po))
            (fun j => (b && is_null j) || simple_fn re_match ty None mn mx it mnI mxI props req addl desc po f_it fps f_addl j).
  Proof.
    intros Hne Hit Hp Ha. rewrite with_null_simple, Hne. destruct b; cbn [andb orb].
    - eapply decides_ext; [|apply (simple_decides re_match e Hd); eauto]. intros j. now apply with_null_fn.
    - apply (simple_decides re_match e Hd); eauto.
  Qed.
End WithNull.

Lemma ob_additional_noprops re_match ty tys mn mx it mnI mxI req addl desc po m :
  ob_additional re_match (mk_simple ty tys mn mx it mnI mxI None req addl desc po) m = m.
Proof.
  unfold ob_additional, ob_p_props, ob_p_pats.
  cbn [mk_simple set_propertyOrder set_description set_additionalProperties set_required set_properties set_maxItems set_minItems set_items
       set_maximum set_minimum set_types set_type empty_schema s_properties s_patternProperties olist].
  rewrite (filter_none _ (keys m)) by reflexivity. rewrite (filter_none _ (keys m)) by reflexivity.
  apply filter_all. reflexivity.
Qed.

Lemma leb_leb_eqb (a b : nat) : (Z.of_nat b <=? Z.of_nat a)%Z && (Z.of_nat a <=? Z.of_nat b)%Z = Nat.eqb a b.
Proof.
  destruct (Nat.eqb_spec a b) as [->|Hne].
  - now rewrite Z.leb_refl.
  - destruct (Z.leb_spec (Z.of_nat b) (Z.of_nat a)), (Z.leb_spec (Z.of_nat a) (Z.of_nat b)); cbn; try reflexivity. lia.
Qed.

Lemma strip_named_not_named t n t' : strip_named t <> TyNamed n t'.
Proof. induction t; cbn [strip_named]; try discriminate. exact IHt. Qed.

Lemma mem_str_filter (P : str -> bool) k l : In k l -> mem_str k (filter P l) = P k.
Proof.
  intros Hin. destruct (P k) eqn:EP.
  - apply mem_str_In. apply filter_In. now split.
  - apply mem_str_false. intros H. apply filter_In in H. destruct H as [_ H]. congruence.
Qed.

Lemma ob_additional_closed re_match ty tys mn mx it mnI mxI ps req addl desc po m :
  forallb (fun _ => false) (ob_additional re_match (mk_simple ty tys mn mx it mnI mxI ps req addl desc po) m) =
  forallb (fun kv => mem_str (fst kv) (keys (olist ps))) m.
Proof.
  unfold ob_additional. rewrite forallb_false_filter. apply forallb_ext_in. intros [k v] Hin. cbn [fst].
  unfold ob_p_pats, ob_p_props.
  cbn [mk_simple set_propertyOrder set_description set_additionalProperties set_required set_properties set_maxItems set_minItems set_items
       set_maximum set_minimum set_types set_type empty_schema s_properties s_patternProperties olist].
  rewrite (filter_none (fun k0 => existsb _ (@nil (str * schema)))) by reflexivity.
  cbn [mem_str negb]. rewrite andb_true_r, negb_involutive.
  rewrite mem_str_filter by (apply (in_map fst) in Hin; exact Hin).
  apply lookup_keys.
Qed.

Lemma forallb_map' {A B} (f : A -> B) (p : B -> bool) l : forallb p (map f l) = forallb (fun x => p (f x)) l.
Proof. induction l as [|x r IH]; [reflexivity|]. cbn. now rewrite IH. Qed.

Section InferVerdict.
  Variable re_match : str -> str -> bool.
  Variable e : env.
  Hypothesis Hd : e_draft7 e = false.
  Variable o : iopts.
  Hypothesis Hig : o_ignore o = false.
  Notation decides := (decides re_match e).

  Section Rec.
    Variable rec : gtype -> res (option schema).
    Variable recf : gtype -> json -> bool.
    Variable g0 : nat.
    Hypothesis Hrec : forall t s, rec t = Ok (Some s) -> good g0 o t -> decides s (recf t).
    Hypothesis Hnone : forall t, rec t <> Ok None.

    Ltac fn_cases j :=
      unfold simple_fn; rewrite ?a_type_simple;
      destruct j as [|?|q|?|items|m];
      cbn [is_null is_str orb andb a_numbers a_array_counts a_object_counts opt_ok olist combine forallb
           mk_simple set_propertyOrder set_description set_additionalProperties set_required set_properties set_maxItems set_minItems set_items
           set_maximum set_minimum set_types set_type empty_schema
           s_multipleOf s_minimum s_maximum s_exclusiveMinimum s_exclusiveMaximum s_minItems s_maxItems s_uniqueItems
           s_minProperties s_maxProperties s_required s_dependentRequired];
      unfold type_accepts, json_type; try destruct (q_is_int q); cbn; rewrite ?andb_true_r, ?orb_false_r; try reflexivity.

    Lemma good_kids t0 : good (S g0) o t0 ->
      match t0 with
      | TyStd _ => True
      | _ =>
          match strip_named t0 with
          | TyPtr t' | TySlice t' | TyArray _ t' | TyMap _ t' => good g0 o t'
          | TyStruct _ => struct_ok o t0 /\ forall f, In f (json_fields (fun _ => false) t0) -> good g0 o (jf_decl f)
          | TyStd _ => False
          | _ => True
          end
      end.
    Proof. intros Hg. cbn [good] in Hg. destruct t0; try exact I; exact (proj2 Hg). Qed.

    Lemma kind_decides_nonstruct t0 s b :
      infer_kind o rec t0 = Ok (Some s) -> good (S g0) o t0 -> kind_of t0 <> KdStruct ->
      decides (with_null b s) (fun j => (b && is_null j) || conforms_kind o recf t0 j).
    Proof.
      intros Hi Hg Hns. apply infer_kind_inv in Hi. unfold infer_kind' in Hi. unfold conforms_kind.
      rewrite kind_of_strip in Hi, Hns |- *.
      pose proof (good_kids t0 Hg) as Hgs.
      destruct (strip_named t0) as [|ik|b32| | |pt|et|len et|kstr et|sfs|nn tt|rn|sn|] eqn:Es; cbn [kind_of] in Hi, Hns |- *.
      - injection Hi as <-. rewrite ty_schema_simple.
        eapply decides_ext; [|apply (with_null_decides re_match e Hd b) with (fps := []) (f_it := fun _ => true) (f_addl := fun _ => true); try exact I; [reflexivity|constructor]].
        intros j. f_equal. fn_cases j.
      - injection Hi as <-.
        change (set_maximum (snd (int_bounds ik)) (set_minimum (fst (int_bounds ik)) (ty_schema (lit "integer"%lit))))
          with (mk_simple (lit "integer"%lit) None (fst (int_bounds ik)) (snd (int_bounds ik)) None None None None None None [] None).
        eapply decides_ext; [|apply (with_null_decides re_match e Hd b) with (fps := []) (f_it := fun _ => true) (f_addl := fun _ => true); try exact I; [reflexivity|constructor]].
        intros j. f_equal. fn_cases j.
      - injection Hi as <-. rewrite ty_schema_simple.
        eapply decides_ext; [|apply (with_null_decides re_match e Hd b) with (fps := []) (f_it := fun _ => true) (f_addl := fun _ => true); try exact I; [reflexivity|constructor]].
        intros j. f_equal. fn_cases j.
      - injection Hi as <-. rewrite ty_schema_simple.
        eapply decides_ext; [|apply (with_null_decides re_match e Hd b) with (fps := []) (f_it := fun _ => true) (f_addl := fun _ => true); try exact I; [reflexivity|constructor]].
        intros j. f_equal. fn_cases j.
      - injection Hi as <-. change empty_schema with (mk_simple [] None None None None None None None None None [] None).
        rewrite with_null_notype.
        eapply decides_ext; [|apply (simple_decides re_match e Hd) with (fps := []) (f_it := fun _ => true) (f_addl := fun _ => true); try exact I; constructor].
        intros j. rewrite orb_true_r. fn_cases j.
      - discriminate.
      - (* slice *)
        assert (Hget : good g0 o et) by (destruct t0; try discriminate; exact Hgs).
        destruct (rec et) as [[it|]| | |] eqn:Er; cbn [bind] in Hi; try discriminate. injection Hi as <-.
        pose proof (Hrec et it Er Hget) as Hit.
        destruct (o_tsnull o).
        + change (set_items (Some it) (ty_schema (lit "array"%lit))) with (mk_simple (lit "array"%lit) None None None (Some it) None None None None None [] None).
          eapply decides_ext; [|apply (with_null_decides re_match e Hd b) with (fps := []) (f_it := recf et) (f_addl := fun _ => true); try exact I; [reflexivity|exact Hit|constructor]].
          intros j. f_equal. fn_cases j.
        + change (set_items (Some it) (set_types (Some [null_s; lit "array"%lit]) empty_schema))
            with (mk_simple [] (Some [null_s; lit "array"%lit]) None None (Some it) None None None None None [] None).
          rewrite with_null_notype.
          eapply decides_ext; [|apply (simple_decides re_match e Hd) with (fps := []) (f_it := recf et) (f_addl := fun _ => true); try exact I; [exact Hit|constructor]].
          intros j. rewrite (with_null_fn re_match) by reflexivity.
          transitivity (is_null j || match j with JArr items => forallb (recf et) items | _ => false end).
          { f_equal. fn_cases j. }
          cbn [negb andb]. destruct b, (is_null j); reflexivity.
      - (* array *)
        assert (Hget : good g0 o et) by (destruct t0; try discriminate; exact Hgs).
        destruct (rec et) as [[it|]| | |] eqn:Er; cbn [bind] in Hi; try discriminate. injection Hi as <-.
        pose proof (Hrec et it Er Hget) as Hit.
        change (set_maxItems (Some (Z.of_nat len)) (set_minItems (Some (Z.of_nat len)) (set_items (Some it) (ty_schema (lit "array"%lit)))))
          with (mk_simple (lit "array"%lit) None None None (Some it) (Some (Z.of_nat len)) (Some (Z.of_nat len)) None None None [] None).
        eapply decides_ext; [|apply (with_null_decides re_match e Hd b) with (fps := []) (f_it := recf et) (f_addl := fun _ => true); try exact I; [reflexivity|exact Hit|constructor]].
        intros j. f_equal. fn_cases j. rewrite <- leb_leb_eqb. f_equal. apply andb_comm.
      - (* map *)
        assert (Hget : good g0 o et) by (destruct t0; try discriminate; exact Hgs).
        destruct (negb kstr); [rewrite Hig in Hi; discriminate|].
        destruct (rec et) as [[ap|]| | |] eqn:Er; cbn [bind] in Hi; try discriminate. injection Hi as <-.
        pose proof (Hrec et ap Er Hget) as Hap.
        change (set_additionalProperties (Some ap) (ty_schema (lit "object"%lit)))
          with (mk_simple (lit "object"%lit) None None None None None None None None (Some ap) [] None).
        eapply decides_ext; [|apply (with_null_decides re_match e Hd b) with (fps := []) (f_it := fun _ => true) (f_addl := recf et); try exact I; [reflexivity|constructor|exact Hap]].
        intros j. f_equal. fn_cases j. now rewrite ob_additional_noprops.
      - now contradiction Hns.
      - exfalso. eapply strip_named_not_named; eauto.
      - now contradiction Hns.
      - now contradiction Hns.
      - rewrite Hig in Hi. discriminate.
    Qed.

    Lemma fields_decides L ps :
      (forall f, In f L -> good g0 o (jf_decl f)) ->
      Forall2 (fun f (p : str * schema) => fst p = jf_name f /\ field_schema_ok rec f (snd p)) L ps ->
      Forall2 (fun (kc : str * schema) fp => decides (snd kc) fp) ps (map (fun f => recf (jf_decl f)) L) /\
      keys ps = map jf_name L /\
      forall m, forallb (props_fn m) (combine ps (map (fun f => recf (jf_decl f)) L)) =
                forallb (fun f => match lookup (jf_name f) m with Some v => recf (jf_decl f) v | None => true end) L.
    Proof.
      intros Hg HF. induction HF as [|f p L' ps' [Hn (fs & Hr & Hc)] _ IH].
      - repeat split; constructor.
      - destruct IH as (IH1 & IH2 & IH3); [intros f' Hf'; apply Hg; now right|].
        split; [|split].
        + cbn [map]. constructor; [|exact IH1].
          pose proof (Hrec _ _ Hr (Hg f (or_introl eq_refl))) as Hdec.
          destruct Hc as [->|(d & ->)]; [exact Hdec|now apply decides_description].
        + cbn [keys map]. f_equal; [exact Hn|exact IH2].
        + intros m. cbn [map combine forallb]. rewrite IH3. f_equal. unfold props_fn. cbn [fst snd]. now rewrite Hn.
    Qed.

    Lemma false_decides : decides false_schema (fun _ => false).
    Proof. intros j C l. destruct (false_rejects re_match e Hd j C l) as (k & Hk). exists k. intros k' Hle. exists sig0. now apply Hk. Qed.

    Lemma struct_decides t0 s b :
      infer_kind o rec t0 = Ok (Some s) -> kind_of t0 = KdStruct ->
      json_fields (ovr_of o) t0 = json_fields (fun _ => false) t0 ->
      (forall f, In f (json_fields (fun _ => false) t0) -> jf_override f = false /\ good g0 o (jf_decl f)) ->
      decides (with_null b s) (fun j => (b && is_null j) || struct_conforms recf t0 j).
    Proof.
      intros Hi Ek Heq HL. apply infer_kind_inv in Hi. unfold infer_kind' in Hi. rewrite Ek in Hi.
      destruct (infer_struct o rec t0) as [ss| | |] eqn:Est; cbn [bind] in Hi; try discriminate Hi. injection Hi as <-.
      unfold infer_struct in Est. rewrite Heq in Est. unfold struct_conforms.
      pose proof (json_fields_names_nodup (fun _ => false) t0) as Hnd.
      assert (Hnf : has_fields t0 = false -> json_fields (fun _ => false) t0 = []).
      { intros Hh. apply json_fields_nofields. rewrite struct_fields_strip. unfold has_fields in Hh.
        destruct (strip_named t0) as [| | | | | | | | |[|x r]| | | |]; try reflexivity; discriminate. }
      remember (json_fields (fun _ => false) t0) as L eqn:HLdef.
      destruct (fold_left _ _ _) as [st| | |] eqn:Ef; cbn [bind] in Est; try discriminate Est. injection Est as <-.
      destruct (fold_struct o rec Hnone L (mkSS [] [] [] None) st (fun f Hf => proj1 (HL f Hf)) Hnd (fun f _ Hin => Hin) Ef) as (ps & Hps & HF & Hreq & Hord).
      cbn [ss_props ss_req ss_order app] in Hps, Hreq, Hord.
      destruct (fields_decides L ps (fun f Hf => proj2 (HL f Hf)) HF) as (Hdec & Hkeys & Hfn).
      match goal with |- decides (with_null b (set_propertyOrder ?po (set_required ?rq (set_properties ?pp ?rest)))) _ =>
          change (set_propertyOrder po (set_required rq (set_properties pp rest)))
            with (mk_simple (lit "object"%lit) None None None None None None pp rq (Some false_schema) [] po);
          assert (Hol : olist pp = ps)
      end.
      { destruct (has_fields t0) eqn:Eh; [exact Hps|]. rewrite (Hnf eq_refl) in HF. inversion HF. reflexivity. }
      eapply decides_ext; [|apply (with_null_decides re_match e Hd b) with (fps := map (fun f => recf (jf_decl f)) L) (f_it := fun _ => true) (f_addl := fun _ => false);
                            [reflexivity|exact I|rewrite Hol; exact Hdec|exact false_decides]].
      intros j. f_equal. unfold simple_fn. rewrite a_type_simple.
      destruct j as [|?|q|?|items|m].
      1,2,4,5: reflexivity.
      - unfold type_accepts, json_type. destruct (q_is_int q); reflexivity.
      - rewrite ob_additional_closed, Hol, Hfn, Hkeys.
        change (type_accepts (lit "object"%lit) (JObj m)) with true.
        cbn [andb a_numbers a_array_counts].
        rewrite !andb_true_r. f_equal.
        unfold a_object_counts.
        cbn [mk_simple set_propertyOrder set_description set_additionalProperties set_required set_properties set_maxItems set_minItems set_items
             set_maximum set_minimum set_types set_type empty_schema s_minProperties s_maxProperties s_required s_dependentRequired opt_ok andb].
        rewrite andb_true_r, Hreq, <- forallb_map'.
        destruct (map jf_name (filter (fun f => negb (omit_set f)) L)); reflexivity.
    Qed.

    Lemma kind_decides t0 s b :
      infer_kind o rec t0 = Ok (Some s) -> good (S g0) o t0 -> (forall n, t0 <> TyStd n) ->
      decides (with_null b s) (fun j => (b && is_null j) || conforms_kind o recf t0 j).
    Proof.
      intros Hi Hg Hnstd.
      destruct (kind_of t0) eqn:Ek; try (apply kind_decides_nonstruct; [exact Hi|exact Hg|rewrite Ek; discriminate]).
      unfold conforms_kind. rewrite Ek.
      pose proof (good_kids t0 Hg) as Hgs.
      assert (Hfin : json_fields (ovr_of o) t0 = json_fields (fun _ => false) t0 /\
                     (forall f, In f (json_fields (fun _ => false) t0) -> jf_override f = false /\ good g0 o (jf_decl f))).
      { rewrite kind_of_strip in Ek.
        destruct (strip_named t0) as [|ik|b32| | |pt|et|len et|kstr et|sfs|nn tt|rn|sn|] eqn:Es; try discriminate Ek.
        - assert (Hgs' : struct_ok o t0 /\ forall f, In f (json_fields (fun _ => false) t0) -> good g0 o (jf_decl f))
            by (destruct t0; try discriminate Es; exact Hgs).
          destruct Hgs' as [[Heq Hf] Hgf]. split; [exact Heq|]. intros f Hin. split; [apply (Hf f Hin)|now apply Hgf].
        - exfalso. eapply strip_named_not_named; eauto.
        - assert (E : forall ov, json_fields ov t0 = []) by (intros ov; apply json_fields_nofields; rewrite struct_fields_strip, Es; reflexivity).
          rewrite !E. split; [reflexivity|intros f []].
        - exfalso. destruct t0; try discriminate Es; try contradiction. now apply (Hnstd sn). }
      destruct Hfin as [Heq HL]. now apply struct_decides.
    Qed.
  End Rec.

  Lemma conforms_nonstd n t j : (forall sn, snd (strip_ptrs t) <> TyStd sn) ->
    conforms o (S n) t j = (fst (strip_ptrs t) && is_null j) || conforms_kind o (conforms o n) (snd (strip_ptrs t)) j.
  Proof. intros H. cbn [conforms]. destruct (snd (strip_ptrs t)); try reflexivity. now contradiction (H n0). Qed.

  (** C09, schema side: the inferred schema of a type accepts exactly the JSON that [conforms] to the type *)
  Theorem infer_decides : forall n seen t s, infer o n seen t = Ok (Some s) -> forall g, good g o t -> decides s (conforms o n t).
  Proof.
    induction n as [|n IH]; intros seen t s Hi g Hg; [discriminate|].
    cbn [infer] in Hi.
    destruct (good_strip o t g Hg) as (g0 & Hg0).
    destruct (Basic.nonempty (type_name (snd (strip_ptrs t))) && mem_str (type_name (snd (strip_ptrs t))) seen); [discriminate|].
    destruct g0 as [|g0']; [contradiction|].
    destruct (if Basic.nonempty (type_name (snd (strip_ptrs t))) then match lookup (type_name (snd (strip_ptrs t))) (o_schemas o) with Some x => x | None => None end else None) as [ov|] eqn:Eov.
    - injection Hi as <-.
      assert (Hstd : ov = str_schema /\ exists sn, snd (strip_ptrs t) = TyStd sn).
      { destruct (Basic.nonempty (type_name (snd (strip_ptrs t)))) eqn:En; [|discriminate].
        destruct (snd (strip_ptrs t)); cbn [type_name] in *; try discriminate.
        - cbn [good] in Hg0. destruct Hg0 as [[Hnm|Hnm] _]; cbn [type_name] in Hnm; [rewrite Hnm in En; discriminate|rewrite Hnm in Eov; discriminate].
        - cbn [good] in Hg0. destruct Hg0 as [[Hnm|Hnm] _]; cbn [type_name] in Hnm; [rewrite Hnm in En; discriminate|rewrite Hnm in Eov; discriminate].
        - cbn [good] in Hg0. destruct Hg0 as [_ Hg0]. rewrite Hg0 in Eov. injection Eov as <-. split; [reflexivity|eauto]. }
      destruct Hstd as (-> & sn & Hsn).
      cbn [conforms]. rewrite Hsn. unfold override_null.
      destruct (negb (o_tsnull o) && fst (strip_ptrs t)) eqn:Eb.
      + change (if Basic.nonempty (s_type str_schema) then _ else _)
          with (mk_simple [] (Some [null_s; lit "string"%lit]) None None None None None None None None [] None).
        eapply decides_ext; [|apply (simple_decides re_match e Hd) with (fps := []) (f_it := fun _ => true) (f_addl := fun _ => true); try exact I; constructor].
        intros j. rewrite (with_null_fn re_match) by reflexivity. rewrite orb_comm. f_equal.
        unfold simple_fn; rewrite ?a_type_simple; destruct j as [|?|q|?|items|m]; try reflexivity.
        unfold type_accepts, json_type. destruct (q_is_int q); reflexivity.
      + change str_schema with (mk_simple (lit "string"%lit) None None None None None None None None None [] None).
        eapply decides_ext; [|apply (simple_decides re_match e Hd) with (fps := []) (f_it := fun _ => true) (f_addl := fun _ => true); try exact I; constructor].
        intros j. rewrite orb_false_r.
        unfold simple_fn; rewrite ?a_type_simple; destruct j as [|?|q|?|items|m]; try reflexivity.
        unfold type_accepts, json_type. destruct (q_is_int q); reflexivity.
    - destruct (infer_kind o _ _) as [[s0|]| | |] eqn:Ek; cbn [bind option_map] in Hi; try discriminate Hi. injection Hi as <-.
      assert (Hnstd : forall sn, snd (strip_ptrs t) <> TyStd sn).
      { intros sn Hsn. rewrite Hsn in Hg0, Eov. cbn [good] in Hg0. destruct Hg0 as [Hne Hl]. cbn [type_name] in Eov. rewrite Hne, Hl in Eov. discriminate. }
      eapply decides_ext; [intros j; symmetry; apply (conforms_nonstd n t j Hnstd)|].
      eapply kind_decides; [| |exact Ek|exact Hg0|exact Hnstd].
      + intros t' s' Hi' Hg'. eapply IH; eauto.
      + intros t'. apply infer_not_none. exact Hig.
  Qed.
End InferVerdict.
