(** Facts about the inference model (C16, C04). *)
From Coq Require Import List NArith ZArith QArith Bool Lia Permutation.
From JS Require Import Str StrFacts Lit Json Res GoValue Schema CodecBase Basic GoType Encode Infer.
Import ListNotations.
Open Scope list_scope.
Local Open Scope nat_scope.

(** a defined type that is already being inferred is an error, not a loop (C16, C10) *)
Lemma infer_cycle o n seen t :
  nonempty (type_name (snd (strip_ptrs t))) = true ->
  mem_str (type_name (snd (strip_ptrs t))) seen = true ->
  infer o (S n) seen t = Err.
Proof. intros H1 H2. cbn [infer]. now rewrite H1, H2. Qed.

(** the recursive occurrence of a type reports the cycle at once *)
Corollary infer_rec o n seen name :
  nonempty name = true -> mem_str name seen = true -> infer o (S n) seen (TyRec name) = Err.
Proof. intros. now apply infer_cycle. Qed.

(** the selection keeps at most one field per JSON name *)
Lemma dominant_names_nodup : forall n l, NoDup (map jf_name (dominant n l)).
Proof.
  induction n as [|n IH]; intros l; [constructor|].
  destruct l as [|f r]; [constructor|]. cbn [dominant].
  set (same := filter (fun g => str_eqb (jf_name g) (jf_name f)) r).
  set (rest := filter (fun g => negb (str_eqb (jf_name g) (jf_name f))) r).
  assert (Hnot : ~ In (jf_name f) (map jf_name (dominant n rest))).
  { intros Hin. apply in_map_iff in Hin as (g & Hg & Hin).
    assert (Hsub : forall m l' x, In x (dominant m l') -> In x l').
    { clear. induction m as [|m IHm]; intros l' x Hx; [contradiction|].
      destruct l' as [|h t]; [contradiction|]. cbn [dominant] in Hx.
      destruct (filter (fun g => str_eqb (jf_name g) (jf_name h)) t) as [|g0 ?].
      - destruct Hx as [<-|Hx]; [now left|]. right. apply IHm in Hx. apply filter_In in Hx. tauto.
      - destruct (_ && _).
        + right. apply IHm in Hx. apply filter_In in Hx. tauto.
        + destruct Hx as [<-|Hx]; [now left|]. right. apply IHm in Hx. apply filter_In in Hx. tauto. }
    apply Hsub in Hin. unfold rest in Hin. apply filter_In in Hin as [_ Hne].
    rewrite Hg, str_eqb_refl in Hne. discriminate. }
  destruct same as [|g ?].
  - cbn [map]. constructor; [exact Hnot|apply IH].
  - destruct (_ && _); [apply IH|]. cbn [map]. constructor; [exact Hnot|apply IH].
Qed.

Theorem json_fields_names_nodup ovr t : NoDup (map jf_name (json_fields ovr t)).
Proof.
  unfold json_fields.
  eapply Permutation_NoDup; [|apply dominant_names_nodup].
  apply Permutation_map. apply isort_perm.
Qed.
