(** C16: the properties of an inferred struct schema are exactly the fields encoding/json
    emits, under their names and in field order; required exactly without omitempty/omitzero. *)
From Coq Require Import List NArith ZArith QArith Bool Lia Permutation.
From JS Require Import Str StrFacts Lit Json Res GoValue Schema CodecBase Basic GoType Encode Infer InferFacts WellTyped C04Main.
Import ListNotations.
Open Scope list_scope.
Local Open Scope nat_scope.

Lemma dedup_keep_last_nodup l : NoDup l -> dedup_keep_last l = l.
Proof.
  induction 1 as [|x r Hn Hnd IH]; [reflexivity|]. cbn [dedup_keep_last].
  apply mem_str_false in Hn. now rewrite Hn, IH.
Qed.

Theorem infer_struct_fields o rec t0 s :
  (forall t, rec t <> Ok None) ->
  json_fields (ovr_of o) t0 = json_fields (fun _ => false) t0 ->
  (forall f, In f (json_fields (fun _ => false) t0) -> jf_override f = false) ->
  infer_struct o rec t0 = Ok s ->
  let L := json_fields (fun _ => false) t0 in
  exists ps,
    s_properties s = (if has_fields t0 then Some ps else None) /\
    map fst ps = map jf_name L /\
    Forall2 (fun f p => field_schema_ok rec f (snd p)) L ps /\
    s_required s = (match map jf_name (filter (fun f => negb (omit_set f)) L) with [] => None | r => Some r end) /\
    s_propertyOrder s = (match map jf_name L with [] => None | x => Some x end) /\
    s_type s = lit "object"%lit /\ s_additionalProperties s = Some false_schema.
Proof.
  intros Hnone Heq Hov Hi L.
  pose proof (json_fields_names_nodup (fun _ => false) t0) as Hnd. fold L in Hnd.
  unfold infer_struct in Hi. rewrite Heq in Hi. fold L in Hi, Hov. clearbody L. clear Heq.
  destruct (fold_left (struct_step o rec) L (Ok (mkSS [] [] [] None))) as [st| | |] eqn:Ef; cbn [bind] in Hi; try discriminate Hi.
  destruct (fold_struct o rec Hnone L (mkSS [] [] [] None) st Hov Hnd (fun f _ Hin => Hin) Ef) as (ps & Hps & HF & Hreq & Hord).
  cbn [ss_props ss_req ss_order app] in Hps, Hreq, Hord. injection Hi as <-.
  exists ps. cbn [s_properties s_required s_propertyOrder s_type s_additionalProperties
                  set_propertyOrder set_required set_properties set_additionalProperties ty_schema set_type empty_schema].
  rewrite Hps, Hreq, Hord.
  split; [reflexivity|]. split.
  { clear -HF. induction HF as [|f p r1 r2 [H1 _] _ IH]; cbn; [reflexivity|]. now rewrite H1, IH. }
  split.
  { clear -HF. induction HF as [|f p r1 r2 [_ H2] _ IH]; constructor; auto. }
  split; [destruct (map jf_name (filter _ L)); reflexivity|].
  split; [|split; reflexivity].
  pose proof (dedup_keep_last_nodup _ Hnd) as Hdd.
  destruct (map jf_name L) as [|a [|b r]]; try reflexivity. now rewrite Hdd.
Qed.
