(** C04: the schema inferred for a type accepts the encoding of every value of the type. *)
From Coq Require Import List NArith ZArith QArith Bool Lia Permutation.
From JS Require Import Str StrFacts Lit Json Res GoValue Schema CodecBase Basic Env Spec SpecMono GoType Encode Infer InferFacts Accept WellTyped.
Import ListNotations.
Open Scope list_scope.
Local Open Scope nat_scope.

(** pointers: either the encoding is null, or it is the encoding of the pointee *)
Lemma snd_strip_ptrs_not_ptr t : match snd (strip_ptrs t) with TyPtr _ => False | _ => True end.
Proof. induction t; cbn; auto. Qed.

Lemma ptr_value oz : forall t m v k j,
  wt m t v = true -> encode oz k t v = Some j ->
  (fst (strip_ptrs t) = true /\ j = JNull) \/
  (exists m' v' k', wt m' (snd (strip_ptrs t)) v' = true /\ encode oz k' (snd (strip_ptrs t)) v' = Some j).
Proof.
  induction t as [| | | | |t IHt| | | | | | | |]; intros m v fu j Hw He; try (right; exists m, v, fu; split; assumption).
  destruct m as [|m']; [discriminate|]. destruct fu as [|k']; [discriminate|].
  cbn [wt strip_named] in Hw. cbn [encode strip_named] in He. cbn [strip_ptrs fst snd].
  destruct v; try discriminate.
  - left. split; [reflexivity|congruence].
  - destruct (IHt m' v k' j Hw He) as [[_ ->]|H]; [left; split; reflexivity|right; exact H].
Qed.

(** the shapes of inferred schemas *)
Lemma with_null_simple b ty mn mx it mnI mxI props req addl desc po :
  with_null b (mk_simple ty None mn mx it mnI mxI props req addl desc po) =
  if b && nonempty ty then mk_simple [] (Some [null_s; ty]) mn mx it mnI mxI props req addl desc po
  else mk_simple ty None mn mx it mnI mxI props req addl desc po.
Proof. unfold with_null. cbn [mk_simple set_propertyOrder set_description set_additionalProperties set_required set_properties set_maxItems
  set_minItems set_items set_maximum set_minimum set_types set_type empty_schema s_type]. destruct (b && nonempty ty); reflexivity. Qed.

Lemma a_type_simple ty tys mn mx it mnI mxI props req addl desc po j :
  a_type (mk_simple ty tys mn mx it mnI mxI props req addl desc po) j =
  match ty, tys with
  | (_ :: _) as t, _ => type_accepts t j
  | [], Some ts => existsb (fun t => type_accepts t j) ts
  | [], None => true
  end.
Proof. destruct ty, tys; reflexivity. Qed.

Lemma a_numbers_simple ty tys mn mx it mnI mxI props req addl desc po j :
  a_numbers (mk_simple ty tys mn mx it mnI mxI props req addl desc po) j =
  match j with
  | JNum n => opt_ok mn (fun b => q_leb b n) && opt_ok mx (fun b => q_leb n b)
  | _ => true
  end.
Proof. destruct j; try reflexivity. cbn. now rewrite !andb_true_r. Qed.

Lemma a_array_counts_simple ty tys mn mx it mnI mxI props req addl desc po j :
  a_array_counts (mk_simple ty tys mn mx it mnI mxI props req addl desc po) j =
  match j with
  | JArr l => opt_ok mnI (fun m => Z.leb m (Z.of_nat (length l))) && opt_ok mxI (fun m => Z.leb (Z.of_nat (length l)) m)
  | _ => true
  end.
Proof. destruct j; try reflexivity. cbn. now rewrite andb_true_r. Qed.

Lemma a_object_counts_simple ty tys mn mx it mnI mxI props req addl desc po j :
  a_object_counts false (mk_simple ty tys mn mx it mnI mxI props req addl desc po) j =
  match j with
  | JObj m => opt_ok req (fun r => forallb (has_key m) r)
  | _ => true
  end.
Proof. destruct j; try reflexivity. cbn. now rewrite andb_true_r. Qed.

Section Main.
  Variable re_match : str -> str -> bool.
  Variable e : env.
  Hypothesis Hd : e_draft7 e = false.
  Variable oz : bool.

  Notation accepts := (accepts re_match e).

  (** a schema without subschemas *)
  Lemma accepts_leaf ty tys mn mx desc po j :
    let S := mk_simple ty tys mn mx None None None None None None desc po in
    a_type S j = true -> a_numbers S j = true -> accepts S j.
  Proof.
    intros S HT HN. apply (accepts_simple re_match e Hd); auto.
    - rewrite a_array_counts_simple. now destruct j.
    - rewrite a_object_counts_simple. now destruct j.
    - now destruct j.
    - destruct j; auto. split; [intros k c v []|exact I].
  Qed.

  Lemma q_is_int_inject z : q_is_int (inject_Z z) = true.
  Proof. unfold q_is_int, inject_Z. cbn. rewrite Z.mod_1_r. reflexivity. Qed.

  Lemma type_int z : type_accepts (lit "integer"%lit) (JNum (inject_Z z)) = true.
  Proof. unfold type_accepts, json_type. rewrite q_is_int_inject. reflexivity. Qed.

  Lemma type_number q : type_accepts (lit "number"%lit) (JNum q) = true.
  Proof. unfold type_accepts, json_type. destruct (q_is_int q); reflexivity. Qed.

  Lemma q_leb_inject a b : q_leb (inject_Z a) (inject_Z b) = Z.leb a b.
  Proof.
    unfold q_leb, Qle_bool, inject_Z. cbn. now rewrite !Z.mul_1_r.
  Qed.

  Lemma int_bounds_ok k z : in_range k z = true ->
    opt_ok (fst (int_bounds k)) (fun b => q_leb b (inject_Z z)) && opt_ok (snd (int_bounds k)) (fun b => q_leb (inject_Z z) b) = true.
  Proof.
    destruct k; cbn [in_range int_bounds fst snd opt_ok zq]; rewrite ?q_leb_inject; intros H;
      apply andb_true_iff in H as [H1 H2]; rewrite ?H1, ?H2; reflexivity.
  Qed.
End Main.

Definition str_schema : schema := set_type (lit "string"%lit) empty_schema.

(** what the proof needs to know about a struct type: the encoder's field list is the one
    inference uses (no embedded struct is replaced through TypeSchemas), and every selected
    field is the declared field at its index sequence, reached through embedded fields *)
Definition struct_ok (o : iopts) (t : gtype) : Prop :=
  json_fields (ovr_of o) t = json_fields (fun _ => false) t /\
  forall f, In f (json_fields (fun _ => false) t) ->
    type_at (jf_index f) t = Some (jf_decl f) /\ path_embedded (jf_index f) t = true /\ jf_index f <> [] /\
    fi_exported (jf_info f) = true /\ jf_override f = false /\
    jf_omitempty f = mem_str (lit "omitempty"%lit) (ji_settings (fieldJSONInfo (jf_info f))) /\
    jf_omitzero f = mem_str (lit "omitzero"%lit) (ji_settings (fieldJSONInfo (jf_info f))).

Definition named_ok (o : iopts) (t : gtype) : Prop :=
  type_name t = [] \/ lookup (type_name t) (o_schemas o) = None.

(** the domain of the theorem: TypeSchemas only holds the standard marshaler types (as
    strings), and every struct type on the way satisfies [struct_ok] *)
Fixpoint good (k : nat) (o : iopts) (t : gtype) : Prop :=
  match k with
  | O => False
  | S k' =>
      match t with
      | TyStd n => nonempty n = true /\ lookup n (o_schemas o) = Some (Some str_schema)
      | _ =>
          named_ok o t /\
          match strip_named t with
          | TyPtr t' | TySlice t' | TyArray _ t' | TyMap _ t' => good k' o t'
          | TyStruct _ => struct_ok o t /\ forall f, In f (json_fields (fun _ => false) t) -> good k' o (jf_decl f)
          | TyStd _ => False    (* a defined type over a marshaler type: not in the domain *)
          | _ => True
          end
      end
  end.

Lemma good_strip o : forall t g, good g o t -> exists g', good g' o (snd (strip_ptrs t)).
Proof.
  induction t as [| | | | |t IHt| | | | | | | |]; intros g H; try (exists g; exact H).
  destruct g as [|g']; [contradiction|]. cbn [good strip_named] in H. destruct H as [_ H].
  cbn [strip_ptrs snd]. eauto.
Qed.

(** keywords the evaluation does not read *)
Lemma spec_body_types re e ev C j l s ty' tys' :
  a_type s j = a_type (set_type ty' (set_types tys' s)) j ->
  spec_body re e ev C j l (set_type ty' (set_types tys' s)) = spec_body re e ev C j l s.
Proof.
  intros H. destruct s. unfold set_type, set_types in *. cbn in H |- *.
  unfold spec_body. rewrite <- H. reflexivity.
Qed.

Lemma spec_body_description re e ev C j l s d :
  spec_body re e ev C j l (set_description d s) = spec_body re e ev C j l s.
Proof. destruct s. reflexivity. Qed.

Section Irrelevant.
  Variable re_match : str -> str -> bool.
  Variable e : env.

  Lemma accepts_description s d j : accepts re_match e s j -> accepts re_match e (set_description d s) j.
  Proof.
    intros H C l. destruct (H C l) as (k & sg & Hk). exists k, sg.
    destruct k as [|k]; [discriminate|]. cbn [spec_eval] in *. now rewrite spec_body_description.
  Qed.

  Lemma accepts_types s ty' tys' j :
    a_type s j = a_type (set_type ty' (set_types tys' s)) j ->
    accepts re_match e s j -> accepts re_match e (set_type ty' (set_types tys' s)) j.
  Proof.
    intros Ht H C l. destruct (H C l) as (k & sg & Hk). exists k, sg.
    destruct k as [|k]; [discriminate|]. cbn [spec_eval] in *. now rewrite spec_body_types.
  Qed.

  (** adding "null" for a pointer keeps what was accepted *)
  Lemma accepts_with_null b s j :
    (nonempty (s_type s) = true -> type_accepts (s_type s) j = true) ->
    accepts re_match e s j -> accepts re_match e (with_null b s) j.
  Proof.
    intros Ht H. unfold with_null. destruct (b && nonempty (s_type s)) eqn:Eb; [|exact H].
    apply andb_true_iff in Eb as [_ Hne]. apply accepts_types; [|exact H].
    destruct s. cbn in *. destruct s_type; [discriminate|]. cbn. rewrite (Ht eq_refl). now rewrite orb_true_r.
  Qed.
End Irrelevant.

Lemma kind_of_strip t : kind_of t = kind_of (strip_named t).
Proof. induction t; cbn; auto. Qed.

Lemma ty_schema_simple n : ty_schema n = mk_simple n None None None None None None None None None [] None.
Proof. reflexivity. Qed.

Section Kind.
  Variable re_match : str -> str -> bool.
  Variable e : env.
  Hypothesis Hd : e_draft7 e = false.
  Variable oz : bool.
  Variable o : iopts.
  Hypothesis Hig : o_ignore o = false.
  Hypothesis Hts : o_tsnull o = false.
  Variable rec : gtype -> res (option schema).
  Hypothesis Hrec : forall t s, rec t = Ok (Some s) -> forall g, good g o t ->
    forall m v k j, wt m t v = true -> encode oz k t v = Some j -> accepts re_match e s j.

  Notation accepts := (accepts re_match e).

  (* a simple schema accepts null as soon as its type does *)
  Lemma simple_null ty tys mn mx it mnI mxI props req addl desc po :
    a_type (mk_simple ty tys mn mx it mnI mxI props req addl desc po) JNull = true ->
    accepts (mk_simple ty tys mn mx it mnI mxI props req addl desc po) JNull.
  Proof. intros H. apply (accepts_simple re_match e Hd); auto. Qed.

  Lemma with_null_null ty mn mx it mnI mxI props req addl desc po :
    nonempty ty = true ->
    accepts (with_null true (mk_simple ty None mn mx it mnI mxI props req addl desc po)) JNull.
  Proof.
    intros H. rewrite with_null_simple, H. cbn [andb]. apply simple_null. rewrite a_type_simple. reflexivity.
  Qed.

  (** scalars and interfaces *)
  Lemma scalar_bool b : accepts (ty_schema (lit "boolean"%lit)) (JBool b).
  Proof. rewrite ty_schema_simple. apply (accepts_leaf re_match e Hd); reflexivity. Qed.

  Lemma scalar_int k z : in_range k z = true ->
    accepts (set_maximum (snd (int_bounds k)) (set_minimum (fst (int_bounds k)) (ty_schema (lit "integer"%lit)))) (JNum (inject_Z z)).
  Proof.
    intros H.
    change (set_maximum (snd (int_bounds k)) (set_minimum (fst (int_bounds k)) (ty_schema (lit "integer"%lit))))
      with (mk_simple (lit "integer"%lit) None (fst (int_bounds k)) (snd (int_bounds k)) None None None None None None [] None).
    apply (accepts_leaf re_match e Hd).
    - rewrite a_type_simple. apply type_int.
    - rewrite a_numbers_simple. now apply int_bounds_ok.
  Qed.

  Lemma scalar_float q : accepts (ty_schema (lit "number"%lit)) (JNum q).
  Proof.
    rewrite ty_schema_simple. apply (accepts_leaf re_match e Hd).
    - rewrite a_type_simple. apply type_number.
    - reflexivity.
  Qed.

  Lemma scalar_string x : accepts (ty_schema (lit "string"%lit)) (JStr x).
  Proof. rewrite ty_schema_simple. apply (accepts_leaf re_match e Hd); reflexivity. Qed.

  Lemma any_value j : accepts empty_schema j.
  Proof.
    change empty_schema with (mk_simple [] None None None None None None None None None [] None).
    apply (accepts_leaf re_match e Hd); [reflexivity|]. rewrite a_numbers_simple. now destruct j.
  Qed.

  (** arrays and slices: every element is accepted by "items" *)
  Lemma list_accepts n0 n1 t' it tyl tys mnI mxI l js :
    rec t' = Ok (Some it) -> (exists g, good g o t') ->
    forallb (wt n0 t') l = true -> map_opt (encode oz n1 t') l = Some js ->
    a_type (mk_simple tyl tys None None (Some it) mnI mxI None None None [] None) (JArr js) = true ->
    a_array_counts (mk_simple tyl tys None None (Some it) mnI mxI None None None [] None) (JArr js) = true ->
    accepts (mk_simple tyl tys None None (Some it) mnI mxI None None None [] None) (JArr js).
  Proof.
    intros Hr (g & Hg) Hw Hm HT HC. apply (accepts_simple re_match e Hd); auto.
    intros x Hx.
    (* x is the encoding of some element *)
    clear HT HC. revert js Hm Hx. induction l as [|y r IH]; intros js Hm Hx.
    - cbn in Hm. injection Hm as <-. contradiction.
    - cbn [map_opt] in Hm. destruct (encode oz n1 t' y) as [jy|] eqn:Ey; [|discriminate].
      destruct (map_opt (encode oz n1 t') r) as [jr|] eqn:Er; [|discriminate]. injection Hm as <-.
      cbn [forallb] in Hw. apply andb_true_iff in Hw as [Hwy Hwr].
      destruct Hx as [<-|Hx].
      + eapply Hrec; eauto.
      + eapply IH; eauto.
  Qed.

  Lemma combine_map_opt {A} (f : A -> option json) (key : A -> str) : forall (l : list A) vs k x,
    map_opt f l = Some vs -> In (k, x) (combine (map key l) vs) -> exists y, In y l /\ f y = Some x.
  Proof.
    induction l as [|y r IH]; intros vs k x Hm Hin.
    - cbn in Hm. injection Hm as <-. contradiction.
    - cbn [map_opt] in Hm. destruct (f y) as [jy|] eqn:Ey; [|discriminate].
      destruct (map_opt f r) as [jr|] eqn:Er; [|discriminate]. injection Hm as <-.
      cbn in Hin. destruct Hin as [[= <- <-]|Hin]; [exists y; split; [now left|exact Ey]|].
      destruct (IH jr k x eq_refl Hin) as (y' & Hy' & Hf). exists y'. split; [now right|exact Hf].
  Qed.

  (** maps: every member is accepted by "additionalProperties" *)
  Lemma map_accepts n0 n1 t' ap (m : list (str * tval)) vs :
    rec t' = Ok (Some ap) -> (exists g, good g o t') ->
    forallb (fun kv => wt n0 t' (snd kv)) m = true ->
    map_opt (fun kv => encode oz n1 t' (snd kv)) (sort_by_key m) = Some vs ->
    accepts (mk_simple (lit "object"%lit) None None None None None None None None (Some ap) [] None)
            (JObj (combine (keys (sort_by_key m)) vs)).
  Proof.
    intros Hr (g & Hg) Hw Hm. apply (accepts_simple re_match e Hd); auto.
    split; [intros k c v []|].
    intros [k x] Hin. cbn [snd]. unfold ob_additional in Hin. apply filter_In in Hin as [Hin _].
    unfold keys in Hin.
    destruct (combine_map_opt (fun kv : str * tval => encode oz n1 t' (snd kv)) fst _ _ _ _ Hm Hin) as ([k' y] & Hy & Hf).
    cbn [snd] in Hf. eapply Hrec; eauto.
    rewrite forallb_forall in Hw. apply (Hw (k', y)).
    eapply Permutation_in; [apply Permutation_sym; apply isort_perm|exact Hy].
  Qed.

  (** structs *)
  Hypothesis Hnone : forall t, rec t <> Ok None.

  Definition omit_set (f : jfield) : bool :=
    mem_str (lit "omitempty"%lit) (ji_settings (fieldJSONInfo (jf_info f))) ||
    mem_str (lit "omitzero"%lit) (ji_settings (fieldJSONInfo (jf_info f))).

  Definition field_schema_ok (f : jfield) (c : schema) : Prop :=
    exists fs, rec (jf_decl f) = Ok (Some fs) /\ (c = fs \/ exists d, c = set_description d fs).

  Lemma fold_not_ok L : forall r, (forall st, r <> Ok st) -> forall st', fold_left (struct_step o rec) L r <> Ok st'.
  Proof.
    induction L as [|f L IH]; intros r Hr st'; [apply Hr|]. cbn [fold_left]. apply IH.
    intros st. unfold struct_step. destruct r; cbn [bind]; try discriminate. exfalso. now apply (Hr a).
  Qed.

  Lemma map_set_fresh {A} k (v : A) m : ~ In k (keys m) -> map_set k v m = m ++ [(k, v)].
  Proof.
    intros H. unfold map_set.
    assert (E : existsb (fun kv => str_eqb k (fst kv)) m = false).
    { apply not_true_is_false. intros Hx. apply existsb_exists in Hx as ([k' v'] & Hin & He).
      apply str_eqb_eq in He. cbn in He. subst k'. apply H. unfold keys. apply in_map_iff. exists (k, v'). split; auto. }
    now rewrite E.
  Qed.

  Lemma fold_struct : forall L st st',
    (forall f, In f L -> jf_override f = false) ->
    NoDup (map jf_name L) -> (forall f, In f L -> ~ In (jf_name f) (keys (ss_props st))) ->
    fold_left (struct_step o rec) L (Ok st) = Ok st' ->
    exists ps, ss_props st' = ss_props st ++ ps /\
      Forall2 (fun f p => fst p = jf_name f /\ field_schema_ok f (snd p)) L ps /\
      ss_req st' = ss_req st ++ map jf_name (filter (fun f => negb (omit_set f)) L) /\
      ss_order st' = ss_order st ++ map jf_name L.
  Proof.
    induction L as [|f L IH]; intros st st' Hov Hnd Hfresh Hf.
    - cbn in Hf. injection Hf as <-. exists []. rewrite !app_nil_r. repeat split; constructor.
    - cbn [fold_left] in Hf.
      destruct (struct_step o rec (Ok st) f) as [st1| | |] eqn:Es.
      2-4: exfalso; eapply fold_not_ok; [|exact Hf]; intros; discriminate.
      unfold struct_step in Es. cbn [bind] in Es. rewrite (Hov f (or_introl eq_refl)) in Es.
      destruct (rec (jf_decl f)) as [[fs|]| | |] eqn:Er; cbn [bind] in Es; try discriminate.
      2:{ exfalso. now apply (Hnone (jf_decl f)). }
      assert (Hc : exists c, field_schema_ok f c /\
                  st1 = mkSS (map_set (jf_name f) c (ss_props st)) (ss_order st ++ [jf_name f])
                             (if omit_set f then ss_req st else ss_req st ++ [jf_name f]) None).
      { destruct (fi_desc (jf_info f)) as [[|d0 dr]|]; cbn [bind] in Es; try discriminate.
        - destruct (bad_desc_prefix (d0 :: dr)); cbn [bind] in Es; [discriminate|]. injection Es as <-.
          eexists. split; [exists fs; split; [exact Er|right; eexists; reflexivity]|reflexivity].
        - injection Es as <-. eexists. split; [exists fs; split; [exact Er|now left]|reflexivity]. }
      destruct Hc as (c & Hc & ->).
      inversion Hnd as [|? ? Hnotin Hnd']; subst.
      rewrite (map_set_fresh _ _ _ (Hfresh f (or_introl eq_refl))) in Hf.
      match type of Hf with fold_left _ _ (Ok ?st1) = _ =>
        assert (Hfr : forall g, In g L -> ~ In (jf_name g) (keys (ss_props st1))) end.
      { intros g Hg. cbn [ss_props]. unfold keys. rewrite map_app. cbn [map fst]. intros Hin.
        apply in_app_or in Hin as [Hin|[Hin|[]]].
        - apply (Hfresh g (or_intror Hg)). exact Hin.
        - apply Hnotin. rewrite Hin. apply in_map. exact Hg. }
      destruct (IH _ st' (fun g Hg => Hov g (or_intror Hg)) Hnd' Hfr Hf) as (ps & Hps & HF & Hreq & Hord).
      cbn [ss_props ss_req ss_order] in Hps, Hreq, Hord.
      exists ((jf_name f, c) :: ps). split; [rewrite Hps, <- app_assoc; reflexivity|]. split; [|split].
      + constructor; [split; [reflexivity|exact Hc]|exact HF].
      + rewrite Hreq. cbn [filter]. destruct (omit_set f); cbn [negb map]; [reflexivity|]. now rewrite <- app_assoc.
      + rewrite Hord. cbn [map]. now rewrite <- app_assoc.
  Qed.

  Section Members.
    Variable enc : gtype -> tval -> option json.
    Variable t : gtype.
    Variable v : tval.

    Lemma enc_members_sound : forall L members, enc_fields oz enc t v L = Some members ->
      forall k x, In (k, x) members ->
      exists f ft fv, In f L /\ k = jf_name f /\ field_at (jf_index f) t v = Some (ft, fv) /\ enc ft fv = Some x.
    Proof.
      induction L as [|f L IH]; intros members Hm k x Hin.
      - cbn in Hm. injection Hm as <-. contradiction.
      - cbn [enc_fields] in Hm.
        destruct (field_at (jf_index f) t v) as [[ft fv]|] eqn:Ef.
        2:{ destruct (IH _ Hm k x Hin) as (g & a & b & Hg & H1). exists g, a, b. split; [now right|exact H1]. }
        destruct (omitted oz f fv).
        { destruct (IH _ Hm k x Hin) as (g & a & b & Hg & H1). exists g, a, b. split; [now right|exact H1]. }
        destruct (jf_quoted f); [discriminate|].
        destruct (enc ft fv) as [jx|] eqn:Ee; [|discriminate].
        destruct (enc_fields oz enc t v L) as [rest|] eqn:Er; [|discriminate]. injection Hm as <-.
        destruct Hin as [[= <- <-]|Hin].
        + exists f, ft, fv. repeat split; auto. now left.
        + destruct (IH _ eq_refl k x Hin) as (g & a & b & Hg & H1). exists g, a, b. split; [now right|exact H1].
    Qed.

    Lemma enc_members_complete : forall L members, enc_fields oz enc t v L = Some members ->
      forall f ft fv, In f L -> field_at (jf_index f) t v = Some (ft, fv) -> omitted oz f fv = false ->
      exists x, In (jf_name f, x) members.
    Proof.
      induction L as [|g L IH]; intros members Hm f ft fv Hin Hf Hom; [contradiction|].
      cbn [enc_fields] in Hm.
      destruct Hin as [->|Hin].
      - rewrite Hf, Hom in Hm. destruct (jf_quoted f); [discriminate|].
        destruct (enc ft fv) as [jx|]; [|discriminate].
        destruct (enc_fields oz enc t v L) as [rest|]; [|discriminate]. injection Hm as <-.
        exists jx. now left.
      - destruct (field_at (jf_index g) t v) as [[gt gv]|].
        2:{ eapply IH; eauto. }
        destruct (omitted oz g gv); [eapply IH; eauto|].
        destruct (jf_quoted g); [discriminate|].
        destruct (enc gt gv) as [jx|]; [|discriminate].
        destruct (enc_fields oz enc t v L) as [rest|] eqn:Er; [|discriminate]. injection Hm as <-.
        destruct (IH _ eq_refl f ft fv Hin Hf Hom) as (x & Hx). exists x. now right.
    Qed.

    Lemma enc_members_keys : forall L members, enc_fields oz enc t v L = Some members ->
      NoDup (map jf_name L) -> NoDup (keys members) /\ (forall k, In k (keys members) -> In k (map jf_name L)).
    Proof.
      induction L as [|g L IH]; intros members Hm Hnd.
      - cbn in Hm. injection Hm as <-. split; [constructor|intros k []].
      - inversion Hnd as [|? ? Hnotin Hnd']; subst. cbn [enc_fields] in Hm.
        assert (Hskip : forall mm, enc_fields oz enc t v L = Some mm ->
                  NoDup (keys mm) /\ (forall k, In k (keys mm) -> In k (map jf_name (g :: L)))).
        { intros mm Hmm. destruct (IH _ Hmm Hnd') as [H1 H2]. split; [exact H1|]. intros k Hk. right. now apply H2. }
        destruct (field_at (jf_index g) t v) as [[gt gv]|]; [|now apply Hskip].
        destruct (omitted oz g gv); [now apply Hskip|].
        destruct (jf_quoted g); [discriminate|].
        destruct (enc gt gv) as [jx|]; [|discriminate].
        destruct (enc_fields oz enc t v L) as [rest|] eqn:Er; [|discriminate]. injection Hm as <-.
        destruct (IH _ eq_refl Hnd') as [H1 H2]. cbn [keys map fst]. split.
        + constructor; [|exact H1]. intros Hin. apply Hnotin. now apply H2.
        + intros k [<-|Hk]; [now left|right; now apply H2].
    Qed.
  End Members.

  Lemma Forall2_In_r {A B} (R : A -> B -> Prop) l1 l2 b : Forall2 R l1 l2 -> In b l2 -> exists a, In a l1 /\ R a b.
  Proof.
    induction 1 as [|x y r1 r2 Hxy HF IH]; intros Hin; [contradiction|].
    destruct Hin as [<-|Hin]; [exists x; split; [now left|exact Hxy]|].
    destruct (IH Hin) as (a & Ha & HR). exists a. split; [now right|exact HR].
  Qed.

  Lemma Forall2_In_l {A B} (R : A -> B -> Prop) l1 l2 a : Forall2 R l1 l2 -> In a l1 -> exists b, In b l2 /\ R a b.
  Proof.
    induction 1 as [|x y r1 r2 Hxy HF IH]; intros Hin; [contradiction|].
    destruct Hin as [<-|Hin]; [exists y; split; [now left|exact Hxy]|].
    destruct (IH Hin) as (b & Hb & HR). exists b. split; [now right|exact HR].
  Qed.

  Lemma nodup_map_inj {A} (h : A -> str) l a b : NoDup (map h l) -> In a l -> In b l -> h a = h b -> a = b.
  Proof.
    induction l as [|x r IH]; intros Hnd Ha Hb He; [contradiction|].
    inversion Hnd as [|? ? Hnotin Hnd']; subst.
    destruct Ha as [<-|Ha], Hb as [<-|Hb]; auto.
    - exfalso. apply Hnotin. rewrite He. now apply in_map.
    - exfalso. apply Hnotin. rewrite <- He. now apply in_map.
  Qed.

  Lemma json_fields_nofields ov t0 : struct_fields t0 = [] -> json_fields ov t0 = [].
  Proof.
    intros H. unfold json_fields. cbn [jf_levels fold_left snd fst].
    destruct (mem_str (type_name t0) [] || match t0 with TyRec _ => true | _ => false end); [reflexivity|].
    rewrite H. reflexivity.
  Qed.

  Lemma struct_accepts t0 fs s m' vs k' members :
    strip_named t0 = TyStruct fs ->
    infer_struct o rec t0 = Ok s ->
    struct_ok o t0 ->
    (forall f, In f (json_fields (fun _ => false) t0) -> exists g, good g o (jf_decl f)) ->
    wt (S m') t0 (VStruct vs) = true ->
    enc_fields oz (encode oz k') t0 (VStruct vs) (json_fields (fun _ => false) t0) = Some members ->
    accepts s (JObj members).
  Proof.
    intros Hst Hi (Heq & Hall) Hgood Hw Hm.
    set (L := json_fields (fun _ => false) t0) in *.
    pose proof (json_fields_names_nodup (fun _ => false) t0) as Hnd. fold L in Hnd.
    unfold infer_struct in Hi. rewrite Heq in Hi. fold L in Hi.
    destruct (fold_left (struct_step o rec) L (Ok (mkSS [] [] [] None))) as [st| | |] eqn:Ef; cbn [bind] in Hi; try discriminate Hi.
    destruct (fold_struct L (mkSS [] [] [] None) st (fun f Hf => proj1 (proj2 (proj2 (proj2 (proj2 (Hall f Hf)))))) Hnd (fun f _ Hin => Hin) Ef)
      as (ps & Hps & HF & Hreq & _).
    cbn [ss_props ss_req app] in Hps, Hreq. injection Hi as <-.
    (* reading any selected field of the value *)
    assert (Hread : forall f, In f L -> exists fv mm, field_at (jf_index f) t0 (VStruct vs) = Some (jf_decl f, fv) /\ wt mm (jf_decl f) fv = true).
    { intros f Hf. destruct (Hall f Hf) as (Hta & Hpe & Hne & _).
      apply (field_at_wt (jf_index f) (S m') t0 (VStruct vs) (jf_decl f) Hw Hta Hpe).
      intros _. unfold ptr_set. now rewrite Hst. }
    destruct (enc_members_keys (encode oz k') t0 (VStruct vs) L members Hm Hnd) as [Hndm Hsub].
    match goal with |- accepts (set_propertyOrder ?po (set_required ?rq (set_properties ?pp ?rest))) _ =>
      change (set_propertyOrder po (set_required rq (set_properties pp rest)))
        with (mk_simple (lit "object"%lit) None None None None None None pp rq (Some false_schema) [] po)
    end.
    apply (accepts_simple re_match e Hd); auto.
    - (* required *)
      rewrite a_object_counts_simple.
      assert (Hrq : forallb (has_key members) (ss_req st) = true); [|destruct (ss_req st); [reflexivity|exact Hrq]].
      rewrite Hreq.
      apply forallb_forall. intros nm Hnm. apply in_map_iff in Hnm as (f & <- & Hf).
      apply filter_In in Hf as [Hf Hom]. apply negb_true_iff in Hom.
      destruct (Hread f Hf) as (fv & mm & Hfa & _).
      destruct (Hall f Hf) as (_ & _ & _ & _ & _ & Hoe & Hoz).
      unfold omit_set in Hom. apply orb_false_iff in Hom as [H1 H2].
      assert (Hnot : omitted oz f fv = false).
      { unfold omitted. rewrite Hoe, Hoz, H1, H2. cbn. now rewrite andb_false_r. }
      destruct (enc_members_complete (encode oz k') t0 (VStruct vs) L members Hm f _ fv Hf Hfa Hnot) as (x & Hx).
      unfold has_key. rewrite (In_lookup _ _ _ Hndm Hx). reflexivity.
    - (* properties and additionalProperties *)
      destruct (has_fields t0) eqn:Eh.
      + split.
        * cbn [olist]. rewrite Hps. intros k c x Hin Hl.
          destruct (Forall2_In_r _ _ _ _ HF Hin) as (f & Hf & Hk & fs0 & Hr & Hc). cbn [fst snd] in Hk, Hc.
          apply lookup_In in Hl.
          destruct (enc_members_sound (encode oz k') t0 (VStruct vs) L members Hm k x Hl) as (f' & ft & fv & Hf' & Hk' & Hfa & He).
          assert (f' = f) by (eapply (nodup_map_inj jf_name L); eauto; congruence). subst f'.
          destruct (Hread f Hf) as (fv0 & mm & Hfa0 & Hw0). rewrite Hfa0 in Hfa. injection Hfa as <- <-.
          destruct (Hgood f Hf) as (g & Hg).
          pose proof (Hrec _ _ Hr g Hg mm fv0 k' x Hw0 He) as Hacc.
          destruct Hc as [->|(d & ->)]; [exact Hacc|now apply accepts_description].
        * intros [k x] Hin. exfalso. unfold ob_additional in Hin. apply filter_In in Hin as [Hin Hflt].
          apply andb_true_iff in Hflt as [Hflt _]. apply negb_true_iff in Hflt. cbn [fst] in Hflt.
          apply mem_str_false in Hflt. apply Hflt. unfold ob_p_props. apply filter_In. split.
          -- unfold keys. apply in_map_iff. exists (k, x). split; auto.
          -- destruct (enc_members_sound (encode oz k') t0 (VStruct vs) L members Hm k x Hin) as (f' & ft & fv & Hf' & Hk' & _).
             destruct (Forall2_In_l _ _ _ _ HF Hf') as ([k2 c2] & Hin2 & Hk2 & _). cbn [fst] in Hk2.
             change (s_properties (mk_simple _ _ _ _ _ _ _ (Some (ss_props st)) _ _ _ _)) with (Some (ss_props st)).
             cbn [olist]. rewrite Hps.
             destruct (lookup k ps) eqn:El; [reflexivity|].
             apply lookup_None in El. exfalso. apply El. unfold keys. apply in_map_iff. exists (k2, c2). split; [cbn; congruence|exact Hin2].
      + (* a struct without fields: no members *)
        assert (HL : L = []).
        { unfold L. apply json_fields_nofields. rewrite struct_fields_strip, Hst.
          unfold has_fields in Eh. rewrite Hst in Eh. destruct fs; [reflexivity|discriminate]. }
        rewrite HL in Hm. cbn in Hm. injection Hm as <-.
        split; [intros k c x []|intros kv []].
  Qed.

  Lemma infer_kind_inv t0 r : infer_kind o rec t0 = Ok r -> infer_kind' o rec t0 = Ok r.
  Proof. unfold infer_kind. destruct t0; auto; discriminate. Qed.



  Lemma good_children g t0 : good (S g) o t0 ->
    match t0 with
    | TyStd _ => True
    | _ =>
        match strip_named t0 with
        | TyPtr t' | TySlice t' | TyArray _ t' | TyMap _ t' => good g o t'
        | TyStruct _ => struct_ok o t0 /\ forall f, In f (json_fields (fun _ => false) t0) -> good g o (jf_decl f)
        | TyStd _ => False
        | _ => True
        end
    end.
  Proof. intros Hg. cbn [good] in Hg. destruct t0; try exact I; exact (proj2 Hg). Qed.

  (** the schema of a non-pointer type accepts the encodings of its values, and what its
      "type" (if any) says about them stays true when null is added *)
  Lemma kind_value t0 s g m v k j :
    infer_kind o rec t0 = Ok (Some s) -> good g o t0 ->
    match t0 with TyStd _ => False | _ => True end ->
    wt m t0 v = true -> encode oz k t0 v = Some j ->
    accepts s j /\ (nonempty (s_type s) = true -> type_accepts (s_type s) j = true).
  Proof.
    intros Hi Hg Hns Hw He. apply infer_kind_inv in Hi. unfold infer_kind' in Hi. rewrite kind_of_strip in Hi.
    destruct m as [|m']; [discriminate|]. destruct k as [|k']; [discriminate|].
    destruct g as [|g']; [contradiction|].
    cbn [wt] in Hw. cbn [encode] in He.
    pose proof (good_children g' t0 Hg) as Hgs.
    assert (Hnstd : forall n0, strip_named t0 = TyStd n0 -> False \/ t0 = TyStd n0 \/ exists nm t', t0 = TyNamed nm t').
    { intros n0 H0. destruct t0; try discriminate; eauto. }
    destruct (strip_named t0) as [|ik|b32| | |pt|et|len et|kstr et|sfs|nn tt|rn|sn|] eqn:Es; cbn [kind_of] in Hi.
    - (* bool *) destruct v; try discriminate. injection He as <-. injection Hi as <-. split; [apply scalar_bool|reflexivity].
    - (* int *) destruct v; try discriminate. injection He as <-. injection Hi as <-. split; [now apply scalar_int|]. intros _. apply type_int.
    - (* float *) destruct v; try discriminate. injection He as <-. injection Hi as <-. split; [apply scalar_float|]. intros _. apply type_number.
    - (* string *) destruct v; try discriminate. injection He as <-. injection Hi as <-. split; [apply scalar_string|reflexivity].
    - (* interface *) injection Hi as <-. split; [apply any_value|]. intros H. discriminate.
    - (* a named pointer type *) discriminate.
    - (* slice *)
      destruct (rec et) as [[it|]| | |] eqn:Er; cbn [bind] in Hi; try discriminate. injection Hi as <-. rewrite Hts.
      assert (Hget : exists gg, good gg o et) by (destruct t0; try discriminate; eexists; exact Hgs).
      change (set_items (Some it) (set_types (Some [null_s; lit "array"%lit]) empty_schema))
        with (mk_simple [] (Some [null_s; lit "array"%lit]) None None (Some it) None None None None None [] None).
      destruct v; try discriminate.
      + injection He as <-. split; [apply simple_null; reflexivity|intros H; discriminate].
      + destruct (map_opt (encode oz k' et) l) as [js|] eqn:Em; [|discriminate]. injection He as <-.
        split; [|intros H; discriminate].
        apply (list_accepts m' k' et it _ _ _ _ l js Er Hget Hw Em); reflexivity.
    - (* array *)
      destruct (rec et) as [[it|]| | |] eqn:Er; cbn [bind] in Hi; try discriminate. injection Hi as <-.
      assert (Hget : exists gg, good gg o et) by (destruct t0; try discriminate; eexists; exact Hgs).
      change (set_maxItems (Some (Z.of_nat len)) (set_minItems (Some (Z.of_nat len)) (set_items (Some it) (ty_schema (lit "array"%lit)))))
        with (mk_simple (lit "array"%lit) None None None (Some it) (Some (Z.of_nat len)) (Some (Z.of_nat len)) None None None [] None).
      destruct v; try discriminate.
      apply andb_true_iff in Hw as [Hlen Hw]. rewrite Hlen in He. apply Nat.eqb_eq in Hlen.
      destruct (map_opt (encode oz k' et) l) as [js|] eqn:Em; [|discriminate]. injection He as <-.
      split; [|reflexivity].
      apply (list_accepts m' k' et it _ _ _ _ l js Er Hget Hw Em); [reflexivity|].
      rewrite a_array_counts_simple. cbn [opt_ok].
      assert (Hl : length js = length l).
      { clear -Em. revert js Em. induction l as [|y r IH]; intros js Em; cbn in Em.
        - now injection Em as <-.
        - destruct (encode oz k' et y); [|discriminate]. destruct (map_opt (encode oz k' et) r); [|discriminate].
          injection Em as <-. cbn. f_equal. now apply IH. }
      rewrite Hl, Hlen, Z.leb_refl. reflexivity.
    - (* map *)
      destruct kstr; cbn [negb] in Hi; [|rewrite Hig in Hi; discriminate].
      destruct (rec et) as [[ap|]| | |] eqn:Er; cbn [bind] in Hi; try discriminate. injection Hi as <-.
      assert (Hget : exists gg, good gg o et) by (destruct t0; try discriminate; eexists; exact Hgs).
      change (set_additionalProperties (Some ap) (ty_schema (lit "object"%lit)))
        with (mk_simple (lit "object"%lit) None None None None None None None None (Some ap) [] None).
      destruct v; try discriminate.
      destruct (map_opt (fun kv => encode oz k' et (snd kv)) (sort_by_key m)) as [vs|] eqn:Em; [|discriminate]. injection He as <-.
      split; [|reflexivity]. apply (map_accepts m' k' et ap m vs Er Hget Hw Em).
    - (* struct *)
      destruct (infer_struct o rec t0) as [ss| | |] eqn:Est; cbn [bind] in Hi; try discriminate. injection Hi as <-.
      destruct v; try discriminate.
      destruct (enc_fields oz (encode oz k') t0 (VStruct fs) (json_fields (fun _ => false) t0)) as [members|] eqn:Em; [|discriminate].
      injection He as <-.
      assert (Hgs' : struct_ok o t0 /\ forall f, In f (json_fields (fun _ => false) t0) -> good g' o (jf_decl f))
        by (destruct t0; try discriminate; exact Hgs).
      destruct Hgs' as [Hok Hgf].
      split.
      + apply (struct_accepts t0 sfs ss m' fs k' members Es Est Hok).
        * intros f Hf. exists g'. now apply Hgf.
        * cbn [wt]. rewrite Es. exact Hw.
        * exact Em.
      + intros _. unfold infer_struct in Est.
        destruct (fold_left _ _ _) as [st| | |]; cbn [bind] in Est; try discriminate Est. injection Est as <-. reflexivity.
    - (* strip_named never yields a named type *)
      exfalso. clear -Es. induction t0; cbn in Es; try discriminate; auto.
    - (* TyRec has struct kind but no structure *)
      destruct v; discriminate.
    - (* a marshaler type is handled through its TypeSchemas entry, never here *)
      destruct t0; try contradiction; discriminate.
    - (* unsupported kinds *) rewrite Hig in Hi. discriminate.
  Qed.

  (** ... and, behind a pointer, null *)
  Lemma kind_null t0 s : infer_kind o rec t0 = Ok (Some s) -> accepts (with_null true s) JNull.
  Proof.
    intros Hi. apply infer_kind_inv in Hi. unfold infer_kind' in Hi.
    destruct (kind_of t0) eqn:Ek.
    - injection Hi as <-. rewrite ty_schema_simple. now apply with_null_null.
    - injection Hi as <-.
      change (set_maximum (snd (int_bounds k)) (set_minimum (fst (int_bounds k)) (ty_schema (lit "integer"%lit))))
        with (mk_simple (lit "integer"%lit) None (fst (int_bounds k)) (snd (int_bounds k)) None None None None None None [] None).
      now apply with_null_null.
    - injection Hi as <-. rewrite ty_schema_simple. now apply with_null_null.
    - injection Hi as <-. rewrite ty_schema_simple. now apply with_null_null.
    - injection Hi as <-. apply any_value.
    - discriminate.
    - (* slice *)
      destruct (strip_named t0); try discriminate.
      + destruct (rec g) as [[it|]| | |]; cbn [bind] in Hi; try discriminate. injection Hi as <-. rewrite Hts.
        change (with_null true (set_items (Some it) (set_types (Some [null_s; lit "array"%lit]) empty_schema)))
          with (mk_simple [] (Some [null_s; lit "array"%lit]) None None (Some it) None None None None None [] None).
        apply simple_null. reflexivity.
      + destruct (rec g) as [[it|]| | |]; cbn [bind] in Hi; try discriminate. injection Hi as <-.
        change (set_maxItems (Some (Z.of_nat n)) (set_minItems (Some (Z.of_nat n)) (set_items (Some it) (ty_schema (lit "array"%lit)))))
          with (mk_simple (lit "array"%lit) None None None (Some it) (Some (Z.of_nat n)) (Some (Z.of_nat n)) None None None [] None).
        now apply with_null_null.
    - (* array *)
      destruct (strip_named t0); try discriminate.
      + destruct (rec g) as [[it|]| | |]; cbn [bind] in Hi; try discriminate. injection Hi as <-. rewrite Hts.
        change (with_null true (set_items (Some it) (set_types (Some [null_s; lit "array"%lit]) empty_schema)))
          with (mk_simple [] (Some [null_s; lit "array"%lit]) None None (Some it) None None None None None [] None).
        apply simple_null. reflexivity.
      + destruct (rec g) as [[it|]| | |]; cbn [bind] in Hi; try discriminate. injection Hi as <-.
        change (set_maxItems (Some (Z.of_nat n)) (set_minItems (Some (Z.of_nat n)) (set_items (Some it) (ty_schema (lit "array"%lit)))))
          with (mk_simple (lit "array"%lit) None None None (Some it) (Some (Z.of_nat n)) (Some (Z.of_nat n)) None None None [] None).
        now apply with_null_null.
    - (* map *)
      destruct (strip_named t0); try discriminate. destruct kstr; cbn [negb] in Hi; [|rewrite Hig in Hi; discriminate].
      destruct (rec g) as [[ap|]| | |]; cbn [bind] in Hi; try discriminate. injection Hi as <-.
      change (set_additionalProperties (Some ap) (ty_schema (lit "object"%lit)))
        with (mk_simple (lit "object"%lit) None None None None None None None None (Some ap) [] None).
      now apply with_null_null.
    - (* struct *)
      destruct (infer_struct o rec t0) as [ss| | |] eqn:Est; cbn [bind] in Hi; try discriminate. injection Hi as <-.
      unfold infer_struct in Est.
      destruct (fold_left _ _ _) as [st| | |]; cbn [bind] in Est; try discriminate Est. injection Est as <-.
      match goal with |- accepts (with_null true (set_propertyOrder ?po (set_required ?rq (set_properties ?pp ?rest)))) _ =>
        change (set_propertyOrder po (set_required rq (set_properties pp rest)))
          with (mk_simple (lit "object"%lit) None None None None None None pp rq (Some false_schema) [] po)
      end.
      now apply with_null_null.
    - rewrite Hig in Hi. discriminate.
  Qed.

  Lemma kind_not_none t0 : infer_kind o rec t0 <> Ok None.
  Proof.
    intros Hi. apply infer_kind_inv in Hi. unfold infer_kind' in Hi.
    destruct (kind_of t0); try discriminate.
    - destruct (strip_named t0); try discriminate;
        (destruct (rec g) as [[it|]| | |] eqn:Er; cbn [bind] in Hi; try discriminate; now apply (Hnone g)).
    - destruct (strip_named t0); try discriminate;
        (destruct (rec g) as [[it|]| | |] eqn:Er; cbn [bind] in Hi; try discriminate; now apply (Hnone g)).
    - destruct (strip_named t0); try discriminate. destruct kstr; cbn [negb] in Hi; [|rewrite Hig in Hi; discriminate].
      destruct (rec g) as [[it|]| | |] eqn:Er; cbn [bind] in Hi; try discriminate; now apply (Hnone g).
    - destruct (infer_struct o rec t0); cbn [bind] in Hi; discriminate.
    - rewrite Hig in Hi. discriminate.
  Qed.
End Kind.


(** with IgnoreInvalidTypes off, inference never drops a type *)
Lemma infer_not_none o : o_ignore o = false -> forall n seen t, infer o n seen t <> Ok None.
Proof.
  intros Hig. induction n as [|n IH]; intros seen t H; [discriminate|].
  cbn [infer] in H.
  destruct (nonempty _ && mem_str _ seen); [discriminate|].
  destruct (if nonempty (type_name (snd (strip_ptrs t))) then _ else None) as [ov|]; [discriminate|].
  destruct (infer_kind o (infer o n _) (snd (strip_ptrs t))) as [[r|]| | |] eqn:Ek; cbn [bind option_map] in H; try discriminate.
  eapply (kind_not_none o Hig); [|exact Ek]. intros t'. apply IH.
Qed.

(** C04: the inferred schema accepts the encoding of every well-typed value *)
Theorem infer_accepts re_match e oz o :
  e_draft7 e = false -> o_ignore o = false -> o_tsnull o = false ->
  forall n seen t s, infer o n seen t = Ok (Some s) ->
  forall g, good g o t -> forall m v k j, wt m t v = true -> encode oz k t v = Some j ->
  accepts re_match e s j.
Proof.
  intros Hd Hig Hts. induction n as [|n IH]; intros seen t s Hi g Hg m v k j Hw He; [discriminate|].
  cbn [infer] in Hi.
  destruct (good_strip o t g Hg) as (g0 & Hg0).
  pose proof (ptr_value oz t m v k j Hw He) as Hpv.
  set (b := fst (strip_ptrs t)) in *. set (t0 := snd (strip_ptrs t)) in *. clearbody b t0.
  destruct (nonempty (type_name t0) && mem_str (type_name t0) seen); [discriminate|].
  destruct g0 as [|g0']; [contradiction|].
  destruct (if nonempty (type_name t0) then match lookup (type_name t0) (o_schemas o) with Some x => x | None => None end else None) as [ov|] eqn:Eov.
  - (* a TypeSchemas entry: only the standard marshaler types have one *)
    injection Hi as <-.
    assert (Hstd : ov = str_schema /\ exists sn, t0 = TyStd sn).
    { destruct (nonempty (type_name t0)) eqn:En; [|discriminate].
      destruct t0; cbn [type_name] in *; try discriminate.
      - cbn [good] in Hg0. destruct Hg0 as [[Hnm|Hnm] _]; cbn [type_name] in Hnm; [rewrite Hnm in En; discriminate|rewrite Hnm in Eov; discriminate].
      - cbn [good] in Hg0. destruct Hg0 as [[Hnm|Hnm] _]; cbn [type_name] in Hnm; [rewrite Hnm in En; discriminate|rewrite Hnm in Eov; discriminate].
      - cbn [good] in Hg0. destruct Hg0 as [_ Hg0]. rewrite Hg0 in Eov. injection Eov as <-. split; [reflexivity|eauto]. }
    destruct Hstd as (-> & sn & ->).
    unfold override_null. rewrite Hts. cbn [negb andb].
    destruct Hpv as [[-> ->]|(m0 & v0 & k0 & Hw0 & He0)].
    + change (set_type [] (set_types (Some [null_s; s_type str_schema]) str_schema))
        with (mk_simple [] (Some [null_s; lit "string"%lit]) None None None None None None None None [] None).
      apply (accepts_simple re_match e Hd); auto.
    + destruct m0 as [|m0']; [discriminate|]. destruct k0 as [|k0']; [discriminate|].
      cbn [wt strip_named] in Hw0. cbn [encode strip_named] in He0.
      destruct v0; try discriminate. destruct j0; try discriminate. injection He0 as <-.
      destruct b.
      * change (set_type [] (set_types (Some [null_s; s_type str_schema]) str_schema))
          with (mk_simple [] (Some [null_s; lit "string"%lit]) None None None None None None None None [] None).
        apply (accepts_leaf re_match e Hd); reflexivity.
      * change str_schema with (mk_simple (lit "string"%lit) None None None None None None None None None [] None).
        apply (accepts_leaf re_match e Hd); reflexivity.
  - destruct (infer_kind o (infer o n (if nonempty (type_name t0) then type_name t0 :: seen else seen)) t0) as [[s0|]| | |] eqn:Ek;
      cbn [bind option_map] in Hi; try discriminate. injection Hi as <-.
    assert (Hrec : forall t' s', infer o n (if nonempty (type_name t0) then type_name t0 :: seen else seen) t' = Ok (Some s') ->
              forall g', good g' o t' -> forall m' v' k' j', wt m' t' v' = true -> encode oz k' t' v' = Some j' -> accepts re_match e s' j').
    { intros t' s' Hi'. eapply IH; eauto. }
    assert (Hnone : forall t', infer o n (if nonempty (type_name t0) then type_name t0 :: seen else seen) t' <> Ok None)
      by (intros t'; apply infer_not_none; exact Hig).
    destruct Hpv as [[-> ->]|(m0 & v0 & k0 & Hw0 & He0)].
    + eapply (kind_null re_match e Hd o Hig Hts); eauto.
    + assert (Hns : match t0 with TyStd _ => False | _ => True end).
      { destruct t0; try exact I. cbn [good] in Hg0. cbn [type_name] in Eov. destruct Hg0 as [Hne Hg0].
        rewrite Hne, Hg0 in Eov. discriminate. }
      destruct (kind_value re_match e Hd oz o Hig Hts _ Hrec Hnone t0 s0 (S g0') m0 v0 k0 j Ek Hg0 Hns Hw0 He0) as [Hacc Hty].
      apply accepts_with_null; assumption.
Qed.
