(** Acceptance of an instance by a schema of the shape inference produces, stated
    against the specification function [spec_eval] (val/Spec.v). *)
From Coq Require Import List NArith ZArith QArith Bool Lia.
From JS Require Import Str StrFacts Lit Json Res GoValue Schema Basic Env Spec SpecMono.
Import ListNotations.
Open Scope list_scope.
Local Open Scope nat_scope.

(** the schemas inference builds: at most these keywords *)
Definition mk_simple (ty : str) (tys : option (list str)) (mn mx : option Q) (it : option schema) (mnI mxI : option Z)
  (props : option (list (str * schema))) (req : option (list str)) (addl : option schema) (desc : str) (po : option (list str)) : schema :=
  set_propertyOrder po (set_description desc (set_additionalProperties addl (set_required req (set_properties props
   (set_maxItems mxI (set_minItems mnI (set_items it (set_maximum mx (set_minimum mn (set_types tys (set_type ty empty_schema))))))))))).

Section Acc.
  Variable re_match : str -> str -> bool.
  Variable e : env.
  Hypothesis Hd : e_draft7 e = false.

  (** accepted at every location under every dynamic scope, with some recursion budget *)
  Definition accepts (s : schema) (j : json) : Prop :=
    forall C l, exists k sg, spec_eval re_match k e C j l s = Some (true, sg).

  Lemma accepts_fuel s j C l : accepts s j ->
    exists k, forall k', k <= k' -> exists sg, spec_eval re_match k' e C j l s = Some (true, sg).
  Proof.
    intros H. destruct (H C l) as (k & sg & Hk). exists k. intros k' Hle. exists sg.
    eapply spec_eval_mono_le; eauto.
  Qed.

  (** a common budget for a list of accepted (schema, instance, location) triples *)
  Lemma accepts_all {A} (f : A -> json * loc * schema) (C : list loc) (xs : list A) :
    (forall x, In x xs -> accepts (snd (f x)) (fst (fst (f x)))) ->
    exists k, forall k', k <= k' ->
      exists rs, eval_all (fun x => spec_eval re_match k' e C (fst (fst (f x))) (snd (fst (f x))) (snd (f x))) xs = Some rs
                 /\ all_true rs = true.
  Proof.
    induction xs as [|x r IH]; intros H.
    - exists 0. intros k' _. exists []. split; reflexivity.
    - destruct IH as (k1 & H1); [intros y Hy; apply H; now right|].
      destruct (accepts_fuel _ _ C (snd (fst (f x))) (H x (or_introl eq_refl))) as (k2 & H2).
      exists (Nat.max k1 k2). intros k' Hle.
      destruct (H1 k') as (rs & Hrs & Hall); [lia|].
      destruct (H2 k') as (sg & Hsg); [lia|].
      exists ((true, sg) :: rs). cbn [eval_all]. rewrite Hsg, Hrs. split; [reflexivity|]. cbn. exact Hall.
  Qed.
End Acc.

Section Simple.
  Variable re_match : str -> str -> bool.
  Variable e : env.
  Hypothesis Hd : e_draft7 e = false.

  Lemma eval_all_const {A} (f : A -> sres) (l : list A) r :
    (forall x, In x l -> f x = Some r) -> eval_all f l = Some (map (fun _ => r) l).
  Proof.
    induction l as [|x t IH]; intros H; [reflexivity|]. cbn [eval_all map].
    rewrite (H x (or_introl eq_refl)), IH; [reflexivity|]. intros y Hy. apply H. now right.
  Qed.

  Lemma all_true_const {A} (l : list A) sg : all_true (map (fun _ => (true, sg)) l) = true.
  Proof. induction l; cbn; auto. Qed.

  (* the properties keyword: every present property is accepted by its subschema *)
  Lemma props_all (C : list loc) (l : loc) (m : list (str * json)) (props : list (str * schema)) :
    (forall k c v, In (k, c) props -> lookup k m = Some v -> accepts re_match e c v) ->
    exists k0, forall k', k0 <= k' ->
      exists rs, eval_all (fun kc => match lookup (fst kc) m with
                                      | Some v => spec_eval re_match k' e C v (ch_k l (lit "properties"%lit) (fst kc)) (snd kc)
                                      | None => Some (true, sig0)
                                      end) props = Some rs /\ all_true rs = true.
  Proof.
    induction props as [|[k c] r IH]; intros H.
    - exists 0. intros k' _. exists []. split; reflexivity.
    - destruct IH as (k1 & H1); [intros k0 c0 v0 Hin; apply H; now right|].
      destruct (lookup k m) as [v|] eqn:El.
      + destruct (accepts_fuel re_match e c v C (ch_k l (lit "properties"%lit) k) (H k c v (or_introl eq_refl) El)) as (k2 & H2).
        exists (Nat.max k1 k2). intros k' Hle.
        destruct (H1 k') as (rs & Hrs & Hall); [lia|]. destruct (H2 k') as (sg & Hsg); [lia|].
        exists ((true, sg) :: rs). cbn [eval_all fst snd]. rewrite El, Hsg, Hrs. split; [reflexivity|exact Hall].
      + exists k1. intros k' Hle. destruct (H1 k') as (rs & Hrs & Hall); [lia|].
        exists ((true, sig0) :: rs). cbn [eval_all fst snd]. rewrite El, Hrs. split; [reflexivity|exact Hall].
  Qed.

  Theorem accepts_simple ty tys mn mx it mnI mxI props req addl desc po j :
    let SS := mk_simple ty tys mn mx it mnI mxI props req addl desc po in
    a_type SS j = true -> a_numbers SS j = true -> a_array_counts SS j = true -> a_object_counts false SS j = true ->
    (match j, it with JArr items, Some c => forall x, In x items -> accepts re_match e c x | _, _ => True end) ->
    (match j with
     | JObj m =>
         (forall k c v, In (k, c) (olist props) -> lookup k m = Some v -> accepts re_match e c v) /\
         (match addl with
          | Some c => forall kv, In kv (ob_additional re_match SS m) -> accepts re_match e c (snd kv)
          | None => True
          end)
     | _ => True
     end) ->
    accepts re_match e SS j.
  Proof.
    intros SS HT HN HAC HOC HA HO C l.
    (* budgets for the three lists of sub-evaluations *)
    assert (Harr : exists k0, forall k', k0 <= k' ->
              match j with
              | JArr items => exists ok i, spec_arrays e (spec_eval re_match k' e (C ++ [l])) l SS items = Some (true && ok, i) /\ ok = true
              | _ => True
              end).
    { destruct j as [| | | |items|]; try (exists 0; intros; exact I).
      unfold spec_arrays, ar_prefix, ar_rest, ar_contains, ar_prefix_list, ar_rest_schema. rewrite Hd.
      cbn [SS mk_simple set_propertyOrder set_description set_additionalProperties set_required set_properties set_maxItems set_minItems set_items
           set_maximum set_minimum set_types set_type empty_schema s_prefixItems s_items s_contains s_minContains s_maxContains olist idx_list length seq combine skipn option_map].
      assert (Hc : combine items (@nil (nat * schema)) = []) by (destruct items; reflexivity). rewrite Hc. cbn [eval_all all_true forallb].
      destruct it as [c|].
      - destruct (accepts_all re_match e (fun x => (x, ch l (lit "items"%lit), c)) (C ++ [l]) items HA) as (k0 & Hk).
        exists k0. intros k' Hle. destruct (Hk k' Hle) as (rs & Hrs & Hall). cbn [fst snd] in Hrs.
        cbn [option_map]. rewrite Hrs. eexists _, _. split; [reflexivity|]. now rewrite Hall.
      - exists 0. intros k' _. cbn [option_map]. eexists _, _. split; reflexivity. }
    assert (Hobj : exists k0, forall k', k0 <= k' ->
              match j with
              | JObj m => exists sg sd, spec_objects re_match e (spec_eval re_match k' e (C ++ [l])) j l SS m = Some (true, sg, sd)
              | _ => True
              end).
    { destruct j as [| | | | |m]; try (exists 0; intros; exact I).
      destruct HO as [HP HAd].
      destruct (props_all (C ++ [l]) l m (olist props) HP) as (k1 & H1).
      assert (Hadd : exists k2, forall k', k2 <= k' ->
                exists rs, ob_ev_add re_match (spec_eval re_match k' e (C ++ [l])) l SS m = Some rs /\ all_true rs = true).
      { unfold ob_ev_add.
        cbn [SS mk_simple set_propertyOrder set_description set_additionalProperties set_required set_properties set_maxItems set_minItems set_items
             set_maximum set_minimum set_types set_type empty_schema s_additionalProperties].
        destruct addl as [c|].
        - destruct (accepts_all re_match e (fun kv : str * json => (snd kv, ch l (lit "additionalProperties"%lit), c)) (C ++ [l]) _ HAd) as (k0 & Hk).
          exists k0. intros k' Hle. destruct (Hk k' Hle) as (rs & Hrs & Hall). exists rs. split; [exact Hrs|exact Hall].
        - exists 0. intros. exists []. split; reflexivity. }
      destruct Hadd as (k2 & H2).
      exists (Nat.max k1 k2). intros k' Hle.
      destruct (H1 k') as (rp & Hrp & Hallp); [lia|]. destruct (H2 k') as (ra & Hra & Halla); [lia|].
      unfold spec_objects. unfold ob_ev_props at 1. 
      cbn [SS mk_simple set_propertyOrder set_description set_additionalProperties set_required set_properties set_maxItems set_minItems set_items
           set_maximum set_minimum set_types set_type empty_schema s_properties] in *.
      rewrite Hrp, Hra.
      unfold ob_ev_pats, ob_ev_names, ob_ev_deps, ob_deps. rewrite Hd.
      cbn [s_patternProperties s_propertyNames s_dependentSchemas olist eval_all option_map all_true forallb].
      rewrite (eval_all_const _ m (true, sig0)) by reflexivity.
      rewrite Hallp, Halla, all_true_const. cbn [andb]. eexists _, _. reflexivity. }
    destruct Harr as (ka & Ha). destruct Hobj as (ko & Ho).
    exists (S (Nat.max ka ko)). cbn [spec_eval].
    specialize (Ha (Nat.max ka ko) (Nat.le_max_l _ _)). specialize (Ho (Nat.max ka ko) (Nat.le_max_r _ _)).
    set (ev := spec_eval re_match (Nat.max ka ko) e (C ++ [l])) in *.
    unfold spec_body.
    cbn [SS mk_simple set_propertyOrder set_description set_additionalProperties set_required set_properties set_maxItems set_minItems set_items
         set_maximum set_minimum set_types set_type empty_schema
         s_ref s_dynamicRef s_allOf s_anyOf s_oneOf s_not s_if s_then s_else olist idx_list length seq combine eval_all one].
    rewrite Hd. cbn [andb].
    fold SS.
    assert (Hen : a_enum SS j = true) by reflexivity.
    assert (Hco : a_const SS j = true) by reflexivity.
    assert (Hst : a_strings re_match SS j = true) by (destruct j; reflexivity).
    assert (Hui : forall sm, spec_uneval_items ev j l SS sm = Some (true, [])) by (intros; destruct j; reflexivity).
    assert (Hup : forall sm, spec_uneval_props ev j l SS sm = Some (true, [])) by (intros; destruct j; reflexivity).
    destruct j as [| | | |items|m].
    1-4: rewrite Hui, Hup, HT, HN, Hen, Hco, Hst, HAC, HOC; cbn; eexists; reflexivity.
    - destruct Ha as (ok & i & Hsa & ->). rewrite Hsa. rewrite Hui, Hup, HT, HN, Hen, Hco, Hst, HAC, HOC. cbn. eexists; reflexivity.
    - destruct Ho as (sg & sd & Hso). rewrite Hso. rewrite Hui, Hup, HT, HN, Hen, Hco, Hst, HAC, HOC. cbn. eexists; reflexivity.
  Qed.
End Simple.

(** the exact verdict on a schema without subschemas *)
Section Leaf.
  Variable re_match : str -> str -> bool.
  Variable e : env.
  Hypothesis Hd : e_draft7 e = false.

  Theorem leaf_verdict ty tys mn mx desc po j k C l :
    let SS := mk_simple ty tys mn mx None None None None None None desc po in
    exists sg, spec_eval re_match (S k) e C j l SS = Some (a_type SS j && a_numbers SS j, sg).
  Proof.
    intros SS. cbn [spec_eval]. unfold spec_body.
    cbn [SS mk_simple set_propertyOrder set_description set_additionalProperties set_required set_properties set_maxItems set_minItems set_items
         set_maximum set_minimum set_types set_type empty_schema
         s_ref s_dynamicRef s_allOf s_anyOf s_oneOf s_not s_if s_then s_else olist idx_list length seq combine eval_all one].
    rewrite Hd. cbn [andb]. fold SS.
    destruct j as [| | | |items|m].
    1-4: cbn; rewrite ?andb_true_r; eexists; reflexivity.
    - (* an array: no array keyword is present *)
      unfold spec_arrays, ar_prefix, ar_rest, ar_contains, ar_prefix_list, ar_rest_schema. rewrite Hd.
      cbn [SS mk_simple set_propertyOrder set_description set_additionalProperties set_required set_properties set_maxItems set_minItems set_items
           set_maximum set_minimum set_types set_type empty_schema s_prefixItems s_items s_contains s_minContains s_maxContains olist idx_list length seq combine skipn option_map].
      assert (Hc : combine items (@nil (nat * schema)) = []) by (destruct items; reflexivity). rewrite Hc.
      cbn. rewrite ?andb_true_r. eexists; reflexivity.
    - unfold spec_objects, ob_ev_props, ob_ev_pats, ob_ev_add, ob_ev_names, ob_ev_deps, ob_deps. rewrite Hd.
      cbn [SS mk_simple set_propertyOrder set_description set_additionalProperties set_required set_properties set_maxItems set_minItems set_items
           set_maximum set_minimum set_types set_type empty_schema s_properties s_patternProperties s_additionalProperties s_propertyNames
           s_dependentSchemas olist eval_all option_map all_true forallb].
      rewrite (eval_all_const _ m (true, sig0)) by reflexivity. rewrite all_true_const.
      cbn. rewrite ?andb_true_r. eexists; reflexivity.
  Qed.
End Leaf.
