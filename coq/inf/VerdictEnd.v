(** C09 end to end in the model: For, then Resolve, then Validate answers exactly [conforms]. *)
From Coq Require Import List NArith ZArith QArith Bool Lia.
From JS Require Import Str StrFacts Lit Json Res GoValue Hash Schema Basic Env Ann Validate Spec SpecMono Refine Corollaries
     Uri Resolve ResolveFacts GoType Encode Infer InferFacts Accept WellTyped C04Main FieldsFacts Domain EndToEnd Reject Verdict.
Import ListNotations.
Open Scope list_scope.
Local Open Scope nat_scope.

Theorem ForType_decides re_match e o :
  e_draft7 e = false -> o_ignore o = false ->
  (forall n x, lookup n (o_schemas o) = Some x -> x = Some str_schema) ->
  forall t s, dom o t = true -> ForType o t = Ok (Some s) -> decides re_match e s (conforms o 64 t).
Proof.
  intros Hd Hig Hstd t s Hdom Hf. rewrite ForType_unfold in Hf.
  exact (infer_decides re_match e Hd o Hig 64 [] t s Hf (S (gsize t)) (dom_good o Hstd _ t (Nat.lt_succ_diag_r _) Hdom)).
Qed.

Theorem For_Resolve_Validate_verdict re_ok re_match hash o :
  o_ignore o = false ->
  (forall n x, lookup n (o_schemas o) = Some x -> x = Some str_schema) ->
  forall t s fuel e calls,
  dom o t = true -> ForType o t = Ok (Some s) ->
  Resolve re_ok fuel s [] None = Ok (e, calls) ->
  forall inst, gv_wf inst = true ->
  exists n, forall n', n <= n' ->
    Validate re_match hash n' e inst = if conforms o 64 t (den inst) then Ok tt else Err.
Proof.
  intros Hig Hstd t s fuel e calls Hdom Hf Hr inst Hwf.
  destruct (Resolve_root _ _ _ _ _ _ _ Hr) as (Hroot & Hd7 & Hver).
  assert (Hsch : s_schema s = []).
  { rewrite ForType_unfold in Hf. eapply (infer_schema_field o); [|exact Hf].
    intros n0 x Hl. apply Hstd in Hl. injection Hl as ->. reflexivity. }
  assert (Hd : e_draft7 e = false) by (rewrite Hd7; unfold detectDraft7; rewrite Hsch; reflexivity).
  assert (Hv : isValidSchemaVersion (e_version e) = true) by (rewrite Hver, Hsch; reflexivity).
  destruct (ForType_decides re_match e o Hd Hig Hstd t s Hdom Hf (den inst) [] (0, [])) as (n & Hn).
  exists n. intros n' Hle. destruct (Hn n' Hle) as (sg & Hs).
  apply (Validate_spec re_match hash n' e inst _ Hwf Hv).
  unfold spec_valid. rewrite Hroot, Hs. reflexivity.
Qed.

(** consistency with C04: the encoding of a value conforms to its type *)
Lemma encode_conforms_env (re : str -> str -> bool) (e : env) oz o :
  e_draft7 e = false ->
  o_ignore o = false -> o_tsnull o = false ->
  (forall n x, lookup n (o_schemas o) = Some x -> x = Some str_schema) ->
  forall t s, dom o t = true -> ForType o t = Ok (Some s) ->
  forall m v k j, wt m t v = true -> encode oz k t v = Some j -> conforms o 64 t j = true.
Proof.
  intros Hd Hig Hts Hstd t s Hdom Hf m v k j Hw He.
  pose proof Hf as Hf'. rewrite ForType_unfold in Hf'.
  pose proof (infer_accepts re e oz o Hd Hig Hts 64 [] t s Hf' (S (gsize t)) (dom_good o Hstd _ t (Nat.lt_succ_diag_r _) Hdom) m v k j Hw He) as Hacc.
  destruct (accepts_fuel re e s j [] (0, []) Hacc) as (n1 & H1).
  destruct (ForType_decides re e o Hd Hig Hstd t s Hdom Hf j [] (0, [])) as (n2 & H2).
  remember (conforms o 64 t j) as cb eqn:Hcb. clear Hcb.
  destruct (H1 (Nat.max n1 n2) (Nat.le_max_l _ _)) as (sg1 & E1). destruct (H2 (Nat.max n1 n2) (Nat.le_max_r _ _)) as (sg2 & E2).
  rewrite E1 in E2. injection E2 as E2 _. symmetry. exact E2.
Qed.

Theorem encode_conforms oz o :
  o_ignore o = false -> o_tsnull o = false ->
  (forall n x, lookup n (o_schemas o) = Some x -> x = Some str_schema) ->
  forall t s, dom o t = true -> ForType o t = Ok (Some s) ->
  forall m v k j, wt m t v = true -> encode oz k t v = Some j -> conforms o 64 t j = true.
Proof. exact (encode_conforms_env (fun _ _ : str => false) (mkEnv false [] [] []) oz o eq_refl). Qed.
