(** Well-typed values of the plain-data domain, and how a struct value is read along
    an index sequence. *)
From Coq Require Import List NArith ZArith QArith Bool Lia.
From JS Require Import Str StrFacts Lit Json GoValue Schema Basic GoType Encode.
Import ListNotations.
Open Scope list_scope.
Local Open Scope nat_scope.

Definition in_range (k : ikind) (z : Z) : bool :=
  match k with
  | KInt | KInt64 => Z.leb (-9223372036854775808) z && Z.leb z 9223372036854775807
  | KUint | KUint64 | KUintptr => Z.leb 0 z && Z.leb z 18446744073709551615
  | KInt8 => Z.leb (-128) z && Z.leb z 127
  | KUint8 => Z.leb 0 z && Z.leb z 255
  | KInt16 => Z.leb (-32768) z && Z.leb z 32767
  | KUint16 => Z.leb 0 z && Z.leb z 65535
  | KInt32 => Z.leb (-2147483648) z && Z.leb z 2147483647
  | KUint32 => Z.leb 0 z && Z.leb z 4294967295
  end.

(** [wt n t v]: v is a value of type t within C04's domain: integers in the range of their
    kind, arrays of their length, maps non-nil, embedded pointers non-nil, marshaler types
    encoding as strings. *)
Fixpoint wt (n : nat) (t : gtype) (v : tval) : bool :=
  match n with
  | O => false
  | S n' =>
      match strip_named t, v with
      | TyBool, VBool _ => true
      | TyInt k, VInt z => in_range k z
      | TyFloat _, VFloat _ => true
      | TyString, VStr _ => true
      | TyIface, VNil => true
      | TyIface, VAny _ => true
      | TyPtr _, VNil => true
      | TyPtr t', VPtr v' => wt n' t' v'
      | TySlice _, VNil => true
      | TySlice t', VList l => forallb (wt n' t') l
      | TyArray k t', VList l => Nat.eqb (length l) k && forallb (wt n' t') l
      | TyMap true t', VMap m => forallb (fun kv => wt n' t' (snd kv)) m
      | TyStd _, VStdV (JStr _) => true
      | TyStruct fs, VStruct vs =>
          Nat.eqb (length vs) (length fs) &&
          forallb (fun fv => let fi := fst (fst fv) in let ft := snd (fst fv) in let x := snd fv in
                             wt n' ft x &&
                             (* an embedded pointer is set *)
                             negb (fi_embedded fi && match strip_named ft, x with TyPtr _, VNil => true | _, _ => false end))
                  (combine fs vs)
      | _, _ => false
      end
  end.

(** the declared type at an index sequence (through embedded structs and pointers to them) *)
Fixpoint type_at (idx : list nat) (t : gtype) : option gtype :=
  match idx with
  | [] => Some t
  | i :: rest =>
      let t0 := match strip_named t with TyPtr t' => t' | _ => t end in
      match nth_error (struct_fields t0) i with
      | Some (_, ft) => type_at rest ft
      | None => None
      end
  end.

(** every step but the last goes through an embedded field *)
Fixpoint path_embedded (idx : list nat) (t : gtype) : bool :=
  match idx with
  | [] => true
  | i :: rest =>
      let t0 := match strip_named t with TyPtr t' => t' | _ => t end in
      match nth_error (struct_fields t0) i with
      | Some (fi, ft) => match rest with [] => true | _ => fi_embedded fi && path_embedded rest ft end
      | None => false
      end
  end.

Lemma struct_fields_strip t : struct_fields t = match strip_named t with TyStruct fs => fs | _ => [] end.
Proof. induction t; cbn; auto. Qed.

Lemma strip_named_idem t : strip_named (strip_named t) = strip_named t.
Proof. induction t; cbn; auto. Qed.

Definition ptr_set (t : gtype) (v : tval) : Prop :=
  match strip_named t, v with TyPtr _, VNil => False | _, _ => True end.

Lemma combine_nth {A B} (l1 : list A) (l2 : list B) i a b :
  nth_error l1 i = Some a -> nth_error l2 i = Some b -> nth_error (combine l1 l2) i = Some (a, b).
Proof.
  revert l2 i. induction l1 as [|x r IH]; intros [|y r2] [|i] H1 H2; cbn in *; try discriminate.
  - now injection H1 as <-; injection H2 as <-.
  - now apply IH.
Qed.

Lemma forallb_nth {A} (f : A -> bool) l i x : forallb f l = true -> nth_error l i = Some x -> f x = true.
Proof. intros H Hn. rewrite forallb_forall in H. apply H. eapply nth_error_In; eauto. Qed.

(** reading a well-typed struct value along a field's index sequence succeeds and yields a
    well-typed value of the declared type *)
Lemma field_at_wt : forall idx n t v ft,
  wt n t v = true -> type_at idx t = Some ft -> path_embedded idx t = true ->
  (idx <> [] -> ptr_set t v) ->
  exists fv m, field_at idx t v = Some (ft, fv) /\ wt m ft fv = true.
Proof.
  induction idx as [|i rest IH]; intros n t v ft Hw Ht Hp Hset.
  - cbn in *. injection Ht as <-. eauto.
  - cbn [type_at] in Ht. cbn [path_embedded] in Hp. cbn [field_at].
    specialize (Hset ltac:(discriminate)). unfold ptr_set in Hset.
    destruct n as [|n']; [discriminate|]. cbn [wt] in Hw.
    (* reduce to a struct type t0 with a struct value v0 *)
    assert (Hred : exists t0 v0 k, (match strip_named t with TyPtr t' => t' | _ => t end) = t0 /\
                   wt k t0 v0 = true /\
                   (match strip_named t, v with
                    | TyPtr t', VPtr v' => (fun step => step t' v')
                    | TyPtr _, _ => (fun _ => None)
                    | _, _ => (fun step => step t v)
                    end) =
                   (fun step : gtype -> tval -> option (gtype * tval) => step t0 v0)).
    { destruct (strip_named t) eqn:Es; try (exists t, v, (S n'); repeat split; cbn [wt]; rewrite ?Es; auto; fail).
      destruct v; try discriminate; try contradiction.
      eexists _, _, n'. repeat split. exact Hw. }
    destruct Hred as (t0 & v0 & k & Et0 & Hw0 & Hstep).
    rewrite Et0 in Ht, Hp.
    match goal with |- exists fv m, ?X = _ /\ _ =>
      assert (HX : X = match v0 with
                       | VStruct vs => match nth_error (struct_fields t0) i, nth_error vs i with
                                       | Some (_, ft0), Some fv0 => field_at rest ft0 fv0
                                       | _, _ => None
                                       end
                       | _ => None
                       end) end.
    { destruct (strip_named t) eqn:Es; try (injection Hstep as -> ->; reflexivity); try (cbv beta in Hstep).
      all: try (pose proof (f_equal (fun g => g (fun a b => (a, b))) Hstep) as Hq; cbv beta in Hq;
                destruct v; try discriminate; injection Hq as <- <-; reflexivity).
      all: try (pose proof (f_equal (fun g => g (fun a b => Some (a, b))) Hstep) as Hq; cbv beta in Hq;
                destruct v; try discriminate; injection Hq as <- <-; reflexivity). }
    rewrite HX. clear HX Hstep.
    destruct (nth_error (struct_fields t0) i) as [[fi fti]|] eqn:Enth; [|discriminate].
    destruct k as [|k']; [discriminate|]. cbn [wt] in Hw0.
    rewrite struct_fields_strip in Enth.
    destruct (strip_named t0) eqn:Es0; try (destruct i; discriminate).
    destruct v0; try discriminate.
    apply andb_true_iff in Hw0 as [Hlen Hall]. apply Nat.eqb_eq in Hlen.
    destruct (nth_error fs0 i) as [fv0|] eqn:Ev.
    2:{ apply nth_error_None in Ev. assert (i < length fs) by (apply nth_error_Some; congruence). lia. }
    pose proof (forallb_nth _ _ i _ Hall (combine_nth _ _ _ _ _ Enth Ev)) as Hf. cbn [fst snd] in Hf.
    apply andb_true_iff in Hf as [Hwf Hemb].
    destruct rest as [|i2 rest2].
    + cbn in Ht. injection Ht as <-. cbn [field_at]. eauto.
    + apply andb_true_iff in Hp as [Hfe Hp']. rewrite Hfe in Hemb. cbn [andb] in Hemb.
      apply (IH k' fti fv0 ft Hwf Ht Hp'). intros _. unfold ptr_set.
      destruct (strip_named fti); auto. destruct fv0; auto. discriminate.
Qed.
