(** C04 end to end: For, then Resolve, then Validate on the encoding. *)
From Coq Require Import List NArith ZArith QArith Bool Lia.
From JS Require Import Str StrFacts Lit Json Res GoValue Hash Schema Basic Env Ann Validate Spec SpecMono Refine Corollaries
     Uri Resolve ResolveFacts GoType Encode Infer InferFacts Accept WellTyped C04Main FieldsFacts Domain.
Import ListNotations.
Open Scope list_scope.
Local Open Scope nat_scope.

(** inference never sets "$schema" (given that the TypeSchemas entries do not) *)
Lemma with_null_schema b s : s_schema (with_null b s) = s_schema s.
Proof. unfold with_null. destruct (b && _); reflexivity. Qed.

Lemma override_null_schema o b s : s_schema (override_null o b s) = s_schema s.
Proof.
  unfold override_null. destruct (negb (o_tsnull o) && b); [|reflexivity].
  destruct (Basic.nonempty (s_type s)); [reflexivity|].
  destruct (s_types s) as [[|x l]|]; try reflexivity.
  destruct (mem_str null_s (x :: l)); reflexivity.
Qed.

Lemma infer_kind_schema o rec t0 s : infer_kind o rec t0 = Ok (Some s) -> s_schema s = [].
Proof.
  intros H. apply infer_kind_inv in H. unfold infer_kind' in H.
  destruct (kind_of t0); try (injection H as <-; reflexivity); try discriminate.
  - destruct (strip_named t0); try discriminate; destruct (rec g) as [[it|]| | |]; cbn [bind] in H; try discriminate; injection H as <-;
      [destruct (o_tsnull o); reflexivity|reflexivity].
  - destruct (strip_named t0); try discriminate; destruct (rec g) as [[it|]| | |]; cbn [bind] in H; try discriminate; injection H as <-;
      [destruct (o_tsnull o); reflexivity|reflexivity].
  - destruct (strip_named t0); try discriminate. destruct (negb kstr); [destruct (o_ignore o); discriminate|].
    destruct (rec g) as [[ap|]| | |]; cbn [bind] in H; try discriminate. injection H as <-. reflexivity.
  - destruct (infer_struct o rec t0) as [ss| | |] eqn:Es; cbn [bind] in H; try discriminate. injection H as <-.
    unfold infer_struct in Es. destruct (fold_left _ _ _); cbn [bind] in Es; try discriminate Es. injection Es as <-. reflexivity.
  - destruct (o_ignore o); discriminate.
Qed.

Lemma infer_schema_field o : (forall n x, lookup n (o_schemas o) = Some (Some x) -> s_schema x = []) ->
  forall n seen t s, infer o n seen t = Ok (Some s) -> s_schema s = [].
Proof.
  intros Hov. destruct n as [|n]; intros seen t s H; [discriminate|]. cbn [infer] in H.
  destruct (Basic.nonempty _ && mem_str _ seen); [discriminate|].
  match type of H with match ?X with _ => _ end = _ => destruct X as [ov|] eqn:Eo end.
  - injection H as <-. rewrite override_null_schema.
    destruct (Basic.nonempty (type_name (snd (strip_ptrs t)))); [|discriminate].
    destruct (lookup (type_name (snd (strip_ptrs t))) (o_schemas o)) as [x|] eqn:El; [|discriminate].
    subst x. eapply Hov. exact El.
  - destruct (infer_kind o _ _) as [[s0|]| | |] eqn:Ek; cbn [bind option_map] in H; try discriminate. injection H as <-.
    rewrite with_null_schema. eapply infer_kind_schema; eauto.
Qed.

(** C04, end to end in the model: the schema ForType returns, resolved, validates the
    encoding of every value of the type *)
Lemma ForType_unfold o t : ForType o t = infer o 64 [] t.
Proof. reflexivity. Qed.

Theorem For_Resolve_Validate re_ok re_match hash oz o :
  o_ignore o = false -> o_tsnull o = false ->
  (forall n x, lookup n (o_schemas o) = Some x -> x = Some str_schema) ->
  forall t s fuel e calls,
  dom o t = true -> ForType o t = Ok (Some s) ->
  Resolve re_ok fuel s [] None = Ok (e, calls) ->
  forall m v k j inst, wt m t v = true -> encode oz k t v = Some j -> gv_wf inst = true -> den inst = j ->
  exists n, forall n', n <= n' -> Validate re_match hash n' e inst = Ok tt.
Proof.
  intros Hig Hts Hstd t s fuel e calls Hdom Hf Hr m v k j inst Hw He Hwf Hden.
  destruct (Resolve_root _ _ _ _ _ _ _ Hr) as (Hroot & Hd7 & Hver).
  rewrite ForType_unfold in Hf.
  assert (Hsch : s_schema s = []).
  { eapply (infer_schema_field o); [|exact Hf].
    intros n0 x Hl. apply Hstd in Hl. injection Hl as ->. reflexivity. }
  assert (Hd : e_draft7 e = false) by (rewrite Hd7; unfold detectDraft7; rewrite Hsch; reflexivity).
  assert (Hv : isValidSchemaVersion (e_version e) = true) by (rewrite Hver, Hsch; reflexivity).
  pose proof (infer_accepts re_match e oz o Hd Hig Hts 64 [] t s Hf (S (gsize t)) (dom_good o Hstd _ t (Nat.lt_succ_diag_r _) Hdom) m v k j Hw He) as Hacc.
  destruct (accepts_fuel re_match e s j [] (0, []) Hacc) as (n & Hn).
  exists n. intros n' Hle. destruct (Hn n' Hle) as (sg & Hs).
  apply (Validate_spec re_match hash n' e inst true Hwf Hv).
  unfold spec_valid. rewrite Hroot, Hden, Hs. reflexivity.
Qed.
