(** C09, decoder side: a model of when encoding/json (Decoder.DisallowUnknownFields) decodes a
    JSON value into a Go type without error - validated against the real decoder on every run
    (family infer, key dec) - and the theorem that every document the inferred schema accepts
    ([conforms], C09_verdict) decodes. *)
From Coq Require Import List NArith ZArith QArith Bool Lia.
From JS Require Import Str StrFacts Lit Json JsonFacts Res GoValue Schema Basic CodecBase Spec GoType Encode Infer InferFacts Accept WellTyped C04Main Verdict.
Import ListNotations.
Open Scope list_scope.
Local Open Scope nat_scope.

(** the integers a kind holds (64-bit platform) *)
Definition kind_range (k : ikind) : Z * Z :=
  match k with
  | KInt | KInt64 => (-9223372036854775808, 9223372036854775807)
  | KInt8 => (-128, 127) | KInt16 => (-32768, 32767) | KInt32 => (-2147483648, 2147483647)
  | KUint | KUint64 | KUintptr => (0, 18446744073709551615)
  | KUint8 => (0, 255) | KUint16 => (0, 65535) | KUint32 => (0, 4294967295)
  end%Z.
Definition fits (k : ikind) (q : Q) : bool :=
  q_is_int q && q_leb (inject_Z (fst (kind_range k))) q && q_leb q (inject_Z (snd (kind_range k))).

(* strconv.ParseFloat(s, 32) overflows from the midpoint between MaxFloat32 and 2^128 on *)
Definition f32_fits (q : Q) : bool :=
  q_ltb q (inject_Z 340282356779733661637539395458142568448) && q_ltb (inject_Z (-340282356779733661637539395458142568448)) q.

(** the field a member name selects: the exact name first, else the first whose name matches
    under encoding/json's case folding *)
Definition find_field (k : str) (L : list jfield) : option jfield :=
  match find (fun f => str_eqb (jf_name f) k) L with
  | Some f => Some f
  | None => find (fun f => str_eqb (fold_name (jf_name f)) (fold_name k)) L
  end.

Section Dec.
  Variable rec : gtype -> json -> bool.
  Definition decodes_kind (t0 : gtype) (j : json) : bool :=
    match kind_of t0 with
    | KdBool => match j with JBool _ => true | _ => false end
    | KdInt k => match j with JNum q => fits k q | _ => false end
    | KdFloat =>
        match strip_named t0, j with
        | TyFloat true, JNum q => f32_fits q     (* float32: out-of-range numbers are refused (finding O-9a) *)
        | TyFloat false, JNum _ => true
        | _, _ => false
        end
    | KdString => match j with JStr _ => true | _ => false end
    | KdIface => true
    | KdSlice | KdArray =>
        match strip_named t0, j with
        | TySlice et, JArr items => forallb (rec et) items
        | TyArray n et, JArr items => forallb (rec et) (firstn n items)   (* extra elements are dropped, missing ones zeroed *)
        | _, _ => false
        end
    | KdMap =>
        match strip_named t0, j with
        | TyMap _ et, JObj m => forallb (fun kv => rec et (snd kv)) m    (* string-kind keys *)
        | _, _ => false
        end
    | KdStruct =>
        match j with
        | JObj m =>
            let L := json_fields (fun _ => false) t0 in
            forallb (fun kv => match find_field (fst kv) L with Some f => rec (jf_decl f) (snd kv) | None => false end) m
        | _ => false
        end
    | KdPtr | KdBad => false
    end.
End Dec.

(** null is accepted for every type (it leaves the value unchanged); a pointer is allocated *)
Fixpoint decodes (fuel : nat) (t : gtype) (j : json) : bool :=
  match fuel with
  | O => false
  | S n =>
      match j with
      | JNull => true
      | _ => decodes_kind (decodes n) (snd (strip_ptrs t)) j
      end
  end.

(** integers of the property's domain: within int64 *)
Fixpoint in_i64 (j : json) : bool :=
  match j with
  | JNum q => negb (q_is_int q) || (q_leb (inject_Z (-9223372036854775808)) q && q_leb q (inject_Z 9223372036854775807))
  | JArr l => (fix go (l : list json) : bool := match l with [] => true | x :: r => in_i64 x && go r end) l
  | JObj m => (fix go (m : list (str * json)) : bool := match m with [] => true | (_, v) :: r => in_i64 v && go r end) m
  | _ => true
  end.

Lemma in_i64_arr l : in_i64 (JArr l) = true -> Forall (fun x => in_i64 x = true) l.
Proof.
  cbn [in_i64]. induction l as [|x r IH]; intros H; [constructor|].
  apply andb_true_iff in H as [H1 H2]. constructor; [exact H1|now apply IH].
Qed.
Lemma in_i64_obj m : in_i64 (JObj m) = true -> Forall (fun kv : str * json => in_i64 (snd kv) = true) m.
Proof.
  cbn [in_i64]. induction m as [|[k v] r IH]; intros H; [constructor|].
  apply andb_true_iff in H as [H1 H2]. constructor; [exact H1|now apply IH].
Qed.

Lemma In_firstn {A} n (l : list A) x : In x (firstn n l) -> In x l.
Proof. revert l. induction n as [|n IH]; intros [|y r] H; cbn in H; try contradiction. destruct H as [->|H]; [now left|right; now apply IH]. Qed.

Lemma q_leb_trans a b c : q_leb a b = true -> q_leb b c = true -> q_leb a c = true.
Proof. unfold q_leb. rewrite !Qle_bool_iff. apply Qle_trans. Qed.

Lemma find_exact k L : In k (map jf_name L) -> exists f, find_field k L = Some f /\ In f L /\ jf_name f = k.
Proof.
  intros Hin. unfold find_field.
  destruct (find (fun f => str_eqb (jf_name f) k) L) as [f|] eqn:Ef.
  - apply find_some in Ef as [Hf Hn]. apply str_eqb_eq in Hn. eauto.
  - exfalso. apply in_map_iff in Hin as (f & Hn & Hf). apply (find_none _ _ Ef) in Hf. rewrite Hn in Hf.
    assert (E : str_eqb k k = true) by now apply str_eqb_eq. congruence.
Qed.

(** types without marshaler types (time.Time, big.Int ...: their decoders parse the string)
    and without float32 (its schema is {"type":"number"}: finding O-9a) *)
Fixpoint nostd (t : gtype) : bool :=
  match t with
  | TyStd _ => false
  | TyFloat b32 => negb b32
  | TyPtr t' | TySlice t' | TyArray _ t' | TyMap _ t' | TyNamed _ t' => nostd t'
  | TyStruct fs => (fix go (fs : list (finfo * gtype)) : bool := match fs with [] => true | (_, ft) :: r => nostd ft && go r end) fs
  | _ => true
  end.

Lemma nostd_strip_named t : nostd t = true -> nostd (strip_named t) = true.
Proof. induction t; cbn [nostd strip_named]; auto. Qed.
Lemma nostd_strip_ptrs t : nostd t = true -> nostd (snd (strip_ptrs t)) = true.
Proof. induction t; cbn [nostd strip_ptrs snd]; auto. Qed.
Lemma nostd_fields t fi ft : nostd t = true -> In (fi, ft) (struct_fields t) -> nostd ft = true.
Proof.
  induction t; cbn [nostd struct_fields]; intros H Hin; try contradiction; auto.
  revert H Hin. induction fs as [|[fj tj] r IH]; intros H Hin; [contradiction|].
  apply andb_true_iff in H as [H1 H2]. destruct Hin as [[= -> ->]|Hin]; [exact H1|now apply IH].
Qed.
Lemma nostd_type_at : forall idx t t', nostd t = true -> type_at idx t = Some t' -> nostd t' = true.
Proof.
  induction idx as [|i rest IH]; intros t t' H Ht; cbn [type_at] in Ht; [now injection Ht as <-|].
  set (t0 := match strip_named t with TyPtr t1 => t1 | _ => t end) in *.
  assert (H0 : nostd t0 = true).
  { unfold t0. pose proof (nostd_strip_named t H) as Hs. destruct (strip_named t); try exact H. exact Hs. }
  destruct (nth_error (struct_fields t0) i) as [[fi ft]|] eqn:En; [|discriminate].
  apply nth_error_In in En. eapply IH; [|exact Ht]. eapply nostd_fields; eauto.
Qed.

Section Thm.
  Variable o : iopts.

  Section K.
    Variable rec recd : gtype -> json -> bool.
    Variable g0 : nat.
    Hypothesis Hrec : forall t j, good g0 o t -> nostd t = true -> json_wf j = true -> in_i64 j = true -> rec t j = true -> recd t j = true.

    Lemma Forall_impl3 (t : gtype) (l : list json) : good g0 o t -> nostd t = true ->
      Forall (fun x => json_wf x = true) l -> Forall (fun x => in_i64 x = true) l ->
      forallb (rec t) l = true -> forallb (recd t) l = true.
    Proof.
      intros Hg Hns Hw Hi. induction l as [|x r IH]; [reflexivity|]. cbn [forallb]. intros H.
      apply andb_true_iff in H as [H1 H2]. inversion Hw; inversion Hi; subst.
      rewrite (Hrec t x Hg Hns) by auto. cbn [andb]. apply IH; auto.
    Qed.

    Lemma kind_conf_dec t0 j :
      good (S g0) o t0 -> nostd t0 = true -> (forall t', t0 <> TyPtr t') -> j <> JNull ->
      json_wf j = true -> in_i64 j = true ->
      conforms_kind o rec t0 j = true -> decodes_kind recd t0 j = true.
    Proof.
      intros Hg Hns Hnp Hnn Hw Hi Hc. unfold conforms_kind in Hc. unfold decodes_kind.
      pose proof (nostd_strip_named t0 Hns) as Hns'.
      assert (Hkids : match t0 with
                      | TyStd _ => True
                      | _ => match strip_named t0 with
                             | TyPtr t' | TySlice t' | TyArray _ t' | TyMap _ t' => good g0 o t'
                             | TyStruct _ => struct_ok o t0 /\ forall f, In f (json_fields (fun _ => false) t0) -> good g0 o (jf_decl f)
                             | TyStd _ => False
                             | _ => True
                             end
                      end).
      { cbn [good] in Hg. destruct t0; try exact I; exact (proj2 Hg). }
      assert (Hnstd : forall sn, t0 <> TyStd sn) by (intros sn ->; discriminate Hns).
      rewrite kind_of_strip in Hc |- *.
      destruct (strip_named t0) as [|ik|b32| | |pt|et|len et|kstr et|sfs|nn tt|rn|sn|] eqn:Es; cbn [kind_of] in Hc |- *.
      - exact Hc.
      - destruct j as [| |q| | |]; try discriminate. unfold fits.
        apply andb_true_iff in Hc as [Hc Hhi]. apply andb_true_iff in Hc as [Hint Hlo]. rewrite Hint. cbn [andb].
        cbn [in_i64] in Hi. rewrite Hint in Hi. cbn [negb orb] in Hi. apply andb_true_iff in Hi as [Hi1 Hi2].
        destruct ik; cbn [int_bounds fst snd opt_ok kind_range] in *; unfold zq in *;
          rewrite ?Hlo, ?Hhi, ?Hi1, ?Hi2; cbn [andb]; try reflexivity.
        all: try (apply andb_true_iff; split); try assumption.
        all: eapply q_leb_trans; [exact Hi2|vm_compute; reflexivity].
      - cbn [nostd] in Hns'. destruct b32; [discriminate|]. destruct j; try discriminate; reflexivity.
      - destruct j; try discriminate; reflexivity.
      - reflexivity.
      - discriminate Hc.
      - assert (Hget : good g0 o et) by (destruct t0; try discriminate Es; exact Hkids).
        destruct j as [| | | |items|]; try (cbn in Hc; rewrite ?andb_false_r in Hc; discriminate); [congruence|].
        rewrite orb_true_iff in Hc. destruct Hc as [Hc|Hc]; [rewrite andb_false_r in Hc; discriminate|].
        cbn [nostd] in Hns'.
        apply Forall_impl3; auto; [now apply json_wf_arr|now apply in_i64_arr].
      - assert (Hget : good g0 o et) by (destruct t0; try discriminate Es; exact Hkids).
        destruct j as [| | | |items|]; try discriminate.
        apply andb_true_iff in Hc as [_ Hc].
        pose proof (json_wf_arr _ Hw) as Hwl. pose proof (in_i64_arr _ Hi) as Hil.
        cbn [nostd] in Hns'.
        assert (Hall : forallb (recd et) items = true) by (apply Forall_impl3; auto).
        rewrite forallb_forall in Hall |- *. intros x Hx. apply Hall. eapply In_firstn; eauto.
      - assert (Hget : good g0 o et) by (destruct t0; try discriminate Es; exact Hkids).
        destruct j as [| | | | |m]; try discriminate.
        pose proof (proj2 (json_wf_obj _ Hw)) as Hwl. pose proof (in_i64_obj _ Hi) as Hil.
        cbn [nostd] in Hns'.
        clear -Hrec Hget Hwl Hil Hc Hns'. induction m as [|[k v] r IH]; [reflexivity|]. cbn [forallb snd] in *.
        apply andb_true_iff in Hc as [H1 H2]. inversion Hwl; inversion Hil; subst. cbn [snd] in *.
        rewrite (Hrec et v Hget Hns') by auto. cbn [andb]. apply IH; auto.
      - (* struct *)
        unfold struct_conforms in Hc. destruct j as [| | | | |m]; try discriminate.
        apply andb_true_iff in Hc as [Hc _]. apply andb_true_iff in Hc as [Hfields Hknown].
        assert (Hgf : forall f, In f (json_fields (fun _ => false) t0) -> good g0 o (jf_decl f) /\ nostd (jf_decl f) = true).
        { assert (Hso : struct_ok o t0 /\ forall f, In f (json_fields (fun _ => false) t0) -> good g0 o (jf_decl f))
            by (destruct t0; try discriminate Es; exact Hkids).
          destruct Hso as [[_ Hso] Hgo]. intros f Hf. split; [now apply Hgo|].
          destruct (Hso f Hf) as (Hta & _). exact (nostd_type_at _ _ _ Hns Hta). }
        destruct (json_wf_obj _ Hw) as [Hnd Hwl]. pose proof (in_i64_obj _ Hi) as Hil.
        rewrite forallb_forall in Hfields, Hknown |- *. intros [k v] Hkv. cbn [fst snd].
        pose proof (Hknown (k, v) Hkv) as Hk. cbn [fst] in Hk. apply mem_str_In in Hk.
        destruct (find_exact k _ Hk) as (f & -> & Hf & Hn).
        pose proof (Hfields f Hf) as Hfv. rewrite Hn in Hfv. rewrite (In_lookup _ _ _ Hnd Hkv) in Hfv.
        rewrite Forall_forall in Hwl, Hil.
        apply Hrec; [apply (Hgf f Hf)|apply (Hgf f Hf)|exact (Hwl (k, v) Hkv)|exact (Hil (k, v) Hkv)|exact Hfv].
      - exfalso. clear -Es. induction t0; cbn in Es; try discriminate; auto.
      - (* a defined type over an occurrence marker: no fields *)
        unfold struct_conforms in Hc. destruct j as [| | | | |m]; try discriminate.
        assert (E : json_fields (fun _ => false) t0 = []) by (apply json_fields_nofields; rewrite struct_fields_strip, Es; reflexivity).
        rewrite E in *. cbn [map forallb filter andb] in Hc. rewrite andb_true_r in Hc.
        destruct m as [|[k v] r]; [reflexivity|]. cbn in Hc. discriminate.
      - exfalso. destruct t0; try discriminate Es; try contradiction. now apply (Hnstd sn).
      - discriminate.
    Qed.
  End K.

  (** C09: what the inferred schema accepts, the decoder takes *)
  Theorem conforms_decodes : forall n t j g,
    good g o t -> nostd t = true -> json_wf j = true -> in_i64 j = true ->
    conforms o n t j = true -> decodes n t j = true.
  Proof.
    induction n as [|n IH]; intros t j g Hg Hns Hw Hi Hc; [discriminate|].
    pose proof (nostd_strip_ptrs t Hns) as Hns0.
    destruct (good_strip o t g Hg) as (g0 & Hg0). destruct g0 as [|g0']; [contradiction|].
    assert (Hnstd : forall sn, snd (strip_ptrs t) <> TyStd sn) by (intros sn Hsn; rewrite Hsn in Hns0; discriminate).
    rewrite (conforms_nonstd o n t j Hnstd) in Hc. cbn [decodes].
    destruct (match j with JNull => true | _ => false end) eqn:En; [destruct j; try discriminate; reflexivity|].
    assert (Hj : j <> JNull) by (intros ->; discriminate).
    assert (Hk : conforms_kind o (conforms o n) (snd (strip_ptrs t)) j = true).
    { apply orb_true_iff in Hc as [Hc|Hc]; [|exact Hc]. apply andb_true_iff in Hc as [_ Hc]. destruct j; discriminate. }
    assert (Hrec : forall t' j', good g0' o t' -> nostd t' = true -> json_wf j' = true -> in_i64 j' = true -> conforms o n t' j' = true -> decodes n t' j' = true)
      by (intros t' j' Hg' Hn' Hw' Hi' Hc'; eapply IH; eauto).
    assert (Hnp : forall t', snd (strip_ptrs t) <> TyPtr t').
    { clear. induction t; cbn [strip_ptrs snd]; try discriminate. exact IHt. }
    pose proof (kind_conf_dec (conforms o n) (decodes n) g0' Hrec (snd (strip_ptrs t)) j Hg0 Hns0 Hnp Hj Hw Hi Hk) as Hd.
    destruct j; try exact Hd. now contradiction Hj.
  Qed.
End Thm.

(** C09 end to end in the model: whatever For + Resolve + Validate accept decodes *)
From JS Require Import Hash Env Ann Validate Uri Resolve Domain EndToEnd VerdictEnd.
Theorem accepted_decodes re_ok re_match hash o :
  o_ignore o = false ->
  (forall n x, lookup n (o_schemas o) = Some x -> x = Some str_schema) ->
  forall t s fuel e calls,
  dom o t = true -> nostd t = true -> ForType o t = Ok (Some s) ->
  Resolve re_ok fuel s [] None = Ok (e, calls) ->
  forall inst, gv_wf inst = true -> json_wf (den inst) = true -> in_i64 (den inst) = true ->
  exists n : nat, forall n' : nat, (n <= n')%nat -> Validate re_match hash n' e inst = Ok tt -> decodes 64 t (den inst) = true.
Proof.
  intros Hig Hstd t s fuel e calls Hdom Hns Hf Hr inst Hwf Hjw Hi.
  destruct (For_Resolve_Validate_verdict re_ok re_match hash o Hig Hstd t s fuel e calls Hdom Hf Hr inst Hwf) as (n & Hn).
  exists n. intros n' Hle Hv. rewrite (Hn n' Hle) in Hv.
  remember (conforms o 64 t (den inst)) as cb eqn:Hcb. destruct cb; [|discriminate].
  eapply (conforms_decodes o 64 t (den inst)); eauto.
  exact (dom_good o Hstd _ t (Nat.lt_succ_diag_r _) Hdom).
Qed.
