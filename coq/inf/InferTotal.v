(** C10 for For / ForType: inference returns a schema, "no schema" (IgnoreInvalidTypes) or an
    error - it has no panicking branch - and its recursion budget suffices for every type
    nested less deeply than the budget (ForType uses 64). *)
From Coq Require Import List NArith ZArith QArith Bool Lia.
From JS Require Import Str StrFacts Lit Json Res GoValue Schema Basic CodecBase GoType Encode Infer InferFacts Accept WellTyped C04Main FieldsFacts.
Import ListNotations.
Open Scope list_scope.
Local Open Scope nat_scope.

Fixpoint gdepth (t : gtype) : nat :=
  match t with
  | TyPtr t' | TySlice t' | TyArray _ t' | TyMap _ t' | TyNamed _ t' => S (gdepth t')
  | TyStruct fs => S ((fix go (fs : list (finfo * gtype)) : nat := match fs with [] => 0 | (_, ft) :: r => Nat.max (gdepth ft) (go r) end) fs)
  | _ => 1
  end.

Lemma gdepth_pos t : 1 <= gdepth t.
Proof. destruct t; cbn; lia. Qed.

Lemma gdepth_strip_named t : gdepth (strip_named t) <= gdepth t.
Proof. induction t; cbn [strip_named gdepth]; try lia. Qed.
Lemma gdepth_strip_ptrs t : gdepth (snd (strip_ptrs t)) <= gdepth t.
Proof. induction t; cbn [strip_ptrs snd gdepth]; try lia. Qed.

Lemma gdepth_fields t fi ft : In (fi, ft) (struct_fields t) -> gdepth ft < gdepth t.
Proof.
  induction t; cbn [struct_fields gdepth]; intros Hin; try contradiction.
  - induction fs as [|[fj tj] r IH]; [contradiction|]. destruct Hin as [[= -> ->]|Hin]; [lia|]. specialize (IH Hin). lia.
  - specialize (IHt Hin). lia.
Qed.

Lemma gdepth_type_at : forall idx t t', idx <> [] -> type_at idx t = Some t' -> gdepth t' < gdepth t.
Proof.
  induction idx as [|i rest IH]; intros t t' Hne Ht; [congruence|]. cbn [type_at] in Ht.
  set (t0 := match strip_named t with TyPtr t1 => t1 | _ => t end) in *.
  assert (H0 : gdepth t0 <= gdepth t).
  { unfold t0. pose proof (gdepth_strip_named t) as Hs. destruct (strip_named t); try lia. cbn [gdepth] in Hs. lia. }
  destruct (nth_error (struct_fields t0) i) as [[fi ft]|] eqn:En; [|discriminate].
  apply nth_error_In in En. apply gdepth_fields in En.
  destruct rest as [|j rest'].
  - cbn [type_at] in Ht. injection Ht as <-. lia.
  - assert (gdepth t' < gdepth ft) by (apply (IH ft t'); [discriminate|exact Ht]). lia.
Qed.

Section Total.
  Variable o : iopts.

  Definition returns {A} (r : res A) : Prop := match r with Ok _ | Err => True | Panic | OutOfFuel => False end.

  Section Rec.
    Variable rec : gtype -> res (option schema).
    Variable d : nat.
    Hypothesis Hrec : forall t, gdepth t < d -> returns (rec t).

    Lemma struct_step_returns acc f : returns acc -> gdepth (jf_decl f) < d -> returns (struct_step o rec acc f).
    Proof.
      intros Ha Hf. unfold struct_step. destruct acc as [st| | |]; try contradiction; cbn [bind returns]; [|exact I].
      destruct (jf_override f).
      - destruct (lookup _ (o_schemas o)) as [[ov|]|]; try exact I.
        destruct (negb _); [exact I|]. destruct (negb _); exact I.
      - pose proof (Hrec _ Hf) as Hr. destruct (rec (jf_decl f)) as [[fs|]| | |]; try contradiction; cbn [bind returns]; try exact I.
        destruct (fi_desc (jf_info f)) as [[|c0 r0]|]; cbn [bind returns]; try exact I.
        destruct (bad_desc_prefix _); exact I.
    Qed.

    Lemma fold_returns L : forall acc, returns acc -> (forall f, In f L -> gdepth (jf_decl f) < d) ->
      returns (fold_left (struct_step o rec) L acc).
    Proof.
      induction L as [|f L IH]; intros acc Ha HL; [exact Ha|]. cbn [fold_left]. apply IH.
      - apply struct_step_returns; [exact Ha|]. apply HL. now left.
      - intros g Hg. apply HL. now right.
    Qed.

    Lemma infer_kind_returns t0 : gdepth t0 <= d -> (forall t', t0 <> TyPtr t') -> returns (infer_kind o rec t0).
    Proof.
      intros Hd Hnp. unfold infer_kind.
      assert (Hk : returns (infer_kind' o rec t0)).
      { unfold infer_kind'. pose proof (gdepth_strip_named t0) as Hs.
        destruct (kind_of t0) eqn:Ek; try exact I.
        - destruct (strip_named t0) as [| | | | | |et|len et| | | | | |]; try exact I.
          + cbn [gdepth] in Hs. pose proof (Hrec et ltac:(lia)) as Hr. destruct (rec et) as [[it|]| | |]; try contradiction; exact I.
          + cbn [gdepth] in Hs. pose proof (Hrec et ltac:(lia)) as Hr. destruct (rec et) as [[it|]| | |]; try contradiction; exact I.
        - destruct (strip_named t0) as [| | | | | |et|len et| | | | | |]; try exact I.
          + cbn [gdepth] in Hs. pose proof (Hrec et ltac:(lia)) as Hr. destruct (rec et) as [[it|]| | |]; try contradiction; exact I.
          + cbn [gdepth] in Hs. pose proof (Hrec et ltac:(lia)) as Hr. destruct (rec et) as [[it|]| | |]; try contradiction; exact I.
        - destruct (strip_named t0) as [| | | | | | | |kstr et| | | | |]; try exact I.
          destruct (negb kstr); [destruct (o_ignore o); exact I|].
          cbn [gdepth] in Hs. pose proof (Hrec et ltac:(lia)) as Hr. destruct (rec et) as [[it|]| | |]; try contradiction; exact I.
        - (* struct *)
          assert (Hst : returns (infer_struct o rec t0)).
          { unfold infer_struct.
            assert (Hf : returns (fold_left (struct_step o rec) (json_fields (ovr_of o) t0) (Ok (mkSS [] [] [] None)))).
            { apply fold_returns; [exact I|]. intros f Hf.
              assert (Hnp' : match strip_named t0 with TyPtr _ => False | _ => True end).
              { rewrite kind_of_strip in Ek. destruct (strip_named t0); try exact I. discriminate Ek. }
              destruct (json_fields_ok (ovr_of o) t0 Hnp' f Hf) as (Hta & _ & Hne).
              pose proof (gdepth_type_at _ _ _ Hne Hta). lia. }
            destruct (fold_left _ _ _) as [st| | |]; try contradiction; exact I. }
          destruct (infer_struct o rec t0) as [ss| | |]; try contradiction; exact I.
        - case (o_ignore o); exact I.
      }
      destruct t0; exact Hk.
    Qed.
  End Rec.

  (** inference returns: a schema, nothing (IgnoreInvalidTypes), or an error *)
  Theorem infer_returns : forall n seen t, gdepth t < n -> returns (infer o n seen t).
  Proof.
    induction n as [|n IH]; intros seen t Hd; [lia|]. cbn [infer].
    destruct (Basic.nonempty _ && mem_str _ seen); [exact I|].
    match goal with |- returns (match ?X with _ => _ end) => destruct X as [ov|] end; [exact I|].
    pose proof (gdepth_strip_ptrs t) as Hs.
    pose proof (infer_kind_returns (infer o n (if Basic.nonempty (type_name (snd (strip_ptrs t))) then type_name (snd (strip_ptrs t)) :: seen else seen))
                  n (fun t' Ht' => IH _ t' Ht') (snd (strip_ptrs t)) ltac:(lia)) as Hk.
    assert (Hnp : forall t', snd (strip_ptrs t) <> TyPtr t') by (clear; induction t; cbn [strip_ptrs snd]; try discriminate; exact IHt).
    specialize (Hk Hnp).
    destruct (infer_kind o _ (snd (strip_ptrs t))) as [[s0|]| | |]; try contradiction; exact I.
  Qed.

  Corollary ForType_returns t : gdepth t < 64 -> (exists r, ForType o t = Ok r) \/ ForType o t = Err.
  Proof.
    intros H. pose proof (infer_returns 64 [] t H) as Hr. unfold ForType.
    destruct (infer o 64 [] t) as [r| | |]; try contradiction; eauto.
  Qed.
End Total.
