(** C09 (schema side, structs): the inferred schema of a struct rejects a document with an
    undeclared member or without a required member.  Needs that evaluation of inferred
    schemas is defined on every JSON value. *)
From Coq Require Import List NArith ZArith QArith Bool Lia.
From JS Require Import Str StrFacts Lit Json JsonFacts Res GoValue Schema Basic Env Spec SpecMono GoType Encode CodecBase Infer InferFacts Accept WellTyped C04Main C16Facts.
Import ListNotations.
Open Scope list_scope.
Local Open Scope nat_scope.

Section Def.
  Variable re_match : str -> str -> bool.
  Variable e : env.
  Hypothesis Hd : e_draft7 e = false.

  (** evaluation is defined (with some budget) at every location, for every instance *)
  Definition defined (s : schema) : Prop := forall j C l, exists k r, spec_eval re_match k e C j l s = Some r.

  Lemma defined_fuel s j C l : defined s -> exists k, forall k', k <= k' -> exists r, spec_eval re_match k' e C j l s = Some r.
  Proof.
    intros H. destruct (H j C l) as (k & r & Hk). exists k. intros k' Hle. exists r. eapply spec_eval_mono_le; eauto.
  Qed.

  Lemma defined_all {A} (f : A -> json * loc * schema) (C : list loc) (xs : list A) :
    (forall x, In x xs -> defined (snd (f x))) ->
    exists k, forall k', k <= k' ->
      exists rs, eval_all (fun x => spec_eval re_match k' e C (fst (fst (f x))) (snd (fst (f x))) (snd (f x))) xs = Some rs.
  Proof.
    induction xs as [|x r IH]; intros H.
    - exists 0. intros k' _. exists []. reflexivity.
    - destruct IH as (k1 & H1); [intros y Hy; apply H; now right|].
      destruct (defined_fuel _ (fst (fst (f x))) C (snd (fst (f x))) (H x (or_introl eq_refl))) as (k2 & H2).
      exists (Nat.max k1 k2). intros k' Hle.
      destruct (H1 k') as (rs & Hrs); [lia|]. destruct (H2 k') as (r0 & Hr0); [lia|].
      exists (r0 :: rs). cbn [eval_all]. now rewrite Hr0, Hrs.
  Qed.

  Lemma accepts_defined s : (forall j, accepts re_match e s j) -> defined s.
  Proof. intros H j C l. destruct (H j C l) as (k & sg & Hk). eauto. Qed.

  (* the properties keyword is defined when the subschemas are *)
  Lemma props_defined (C : list loc) (l : loc) (m : list (str * json)) (props : list (str * schema)) :
    (forall k c, In (k, c) props -> defined c) ->
    exists k0, forall k', k0 <= k' ->
      exists rs, eval_all (fun kc => match lookup (fst kc) m with
                                      | Some v => spec_eval re_match k' e C v (ch_k l (lit "properties"%lit) (fst kc)) (snd kc)
                                      | None => Some (true, sig0)
                                      end) props = Some rs.
  Proof.
    induction props as [|[k c] r IH]; intros H.
    - exists 0. intros k' _. exists []. reflexivity.
    - destruct IH as (k1 & H1); [intros k0 c0 Hin; eapply H; right; exact Hin|].
      destruct (lookup k m) as [v|] eqn:El.
      + destruct (defined_fuel c v C (ch_k l (lit "properties"%lit) k) (H k c (or_introl eq_refl))) as (k2 & H2).
        exists (Nat.max k1 k2). intros k' Hle. destruct (H1 k') as (rs & Hrs); [lia|]. destruct (H2 k') as (r0 & Hr0); [lia|].
        exists (r0 :: rs). cbn [eval_all fst snd]. now rewrite El, Hr0, Hrs.
      + exists k1. intros k' Hle. destruct (H1 k' Hle) as (rs & Hrs).
        exists ((true, sig0) :: rs). cbn [eval_all fst snd]. now rewrite El, Hrs.
  Qed.

  (** a schema with at most the keywords inference uses is defined as soon as its subschemas are,
      and its verdict is the conjunction of its keywords *)
  Theorem simple_verdict ty tys mn mx it mnI mxI props req addl desc po j C l :
    let SS := mk_simple ty tys mn mx it mnI mxI props req addl desc po in
    (match it with Some c => defined c | None => True end) ->
    (forall k c, In (k, c) (olist props) -> defined c) ->
    (match addl with Some c => defined c | None => True end) ->
    exists k0, forall k', k0 <= k' ->
      exists (ok_arr : bool) (i_arr : list nat) (ok_obj : bool) (sg_obj sg_deps : sigma) sg,
        (match j with JArr items => spec_arrays e (spec_eval re_match k' e (C ++ [l])) l SS items | _ => Some (true, []) end) = Some (ok_arr, i_arr) /\
        (match j with JObj m => spec_objects re_match e (spec_eval re_match k' e (C ++ [l])) j l SS m | _ => Some (true, sig0, sig0) end) = Some (ok_obj, sg_obj, sg_deps) /\
        spec_eval re_match (S k') e C j l SS =
          Some (a_type SS j && a_numbers SS j && ok_arr && a_array_counts SS j && ok_obj && a_object_counts false SS j, sg).
  Proof.
    intros SS Hit Hprops Haddl.
    (* arrays *)
    assert (Harr : exists k0, forall k', k0 <= k' -> exists r,
              (match j with JArr items => spec_arrays e (spec_eval re_match k' e (C ++ [l])) l SS items | _ => Some (true, []) end) = Some r).
    { destruct j as [| | | |items|]; try (exists 0; intros; eexists; reflexivity).
      unfold spec_arrays, ar_prefix, ar_rest, ar_contains, ar_prefix_list, ar_rest_schema. rewrite Hd.
      cbn [SS mk_simple set_propertyOrder set_description set_additionalProperties set_required set_properties set_maxItems set_minItems set_items
           set_maximum set_minimum set_types set_type empty_schema s_prefixItems s_items s_contains s_minContains s_maxContains olist idx_list length seq combine skipn option_map].
      assert (Hc : combine items (@nil (nat * schema)) = []) by (destruct items; reflexivity). rewrite Hc. cbn [eval_all].
      destruct it as [c|].
      - destruct (defined_all (fun x => (x, ch l (lit "items"%lit), c)) (C ++ [l]) items (fun _ _ => Hit)) as (k0 & Hk).
        exists k0. intros k' Hle. destruct (Hk k' Hle) as (rs & Hrs). cbn [fst snd] in Hrs. cbn [option_map]. rewrite Hrs. eexists; reflexivity.
      - exists 0. intros k' _. cbn [option_map]. eexists; reflexivity. }
    (* objects *)
    assert (Hobj : exists k0, forall k', k0 <= k' -> exists r,
              (match j with JObj m => spec_objects re_match e (spec_eval re_match k' e (C ++ [l])) j l SS m | _ => Some (true, sig0, sig0) end) = Some r).
    { destruct j as [| | | | |m]; try (exists 0; intros; eexists; reflexivity).
      destruct (props_defined (C ++ [l]) l m (olist props) Hprops) as (k1 & H1).
      assert (Hadd : exists k2, forall k', k2 <= k' -> exists rs, ob_ev_add re_match (spec_eval re_match k' e (C ++ [l])) l SS m = Some rs).
      { unfold ob_ev_add.
        cbn [SS mk_simple set_propertyOrder set_description set_additionalProperties set_required set_properties set_maxItems set_minItems set_items
             set_maximum set_minimum set_types set_type empty_schema s_additionalProperties].
        destruct addl as [c|].
        - destruct (defined_all (fun kv : str * json => (snd kv, ch l (lit "additionalProperties"%lit), c)) (C ++ [l]) (ob_additional re_match SS m) (fun _ _ => Haddl)) as (k0 & Hk).
          exists k0. intros k' Hle. destruct (Hk k' Hle) as (rs & Hrs). exists rs. exact Hrs.
        - exists 0. intros. exists []. reflexivity. }
      destruct Hadd as (k2 & H2).
      exists (Nat.max k1 k2). intros k' Hle.
      destruct (H1 k') as (rp & Hrp); [lia|]. destruct (H2 k') as (ra & Hra); [lia|].
      unfold spec_objects. unfold ob_ev_props at 1.
      cbn [SS mk_simple set_propertyOrder set_description set_additionalProperties set_required set_properties set_maxItems set_minItems set_items
           set_maximum set_minimum set_types set_type empty_schema s_properties] in *.
      rewrite Hrp, Hra.
      unfold ob_ev_pats, ob_ev_names, ob_ev_deps, ob_deps. rewrite Hd.
      cbn [s_patternProperties s_propertyNames s_dependentSchemas olist eval_all option_map all_true forallb].
      rewrite (eval_all_const _ m (true, sig0)) by reflexivity. eexists; reflexivity. }
    destruct Harr as (ka & Ha). destruct Hobj as (ko & Ho).
    exists (Nat.max ka ko). intros k' Hle.
    destruct (Ha k') as ([ok_arr i_arr] & Hra); [lia|]. destruct (Ho k') as ([[ok_obj sg_obj] sg_deps] & Hro); [lia|].
    exists ok_arr, i_arr, ok_obj, sg_obj, sg_deps. eexists. split; [exact Hra|]. split; [exact Hro|].
    cbn [spec_eval]. set (ev := spec_eval re_match k' e (C ++ [l])) in *.
    unfold spec_body.
    cbn [SS mk_simple set_propertyOrder set_description set_additionalProperties set_required set_properties set_maxItems set_minItems set_items
         set_maximum set_minimum set_types set_type empty_schema
         s_ref s_dynamicRef s_allOf s_anyOf s_oneOf s_not s_if s_then s_else olist idx_list length seq combine eval_all one].
    rewrite Hd. cbn [andb]. fold SS.
    rewrite Hra, Hro.
    assert (Hen : a_enum SS j = true) by reflexivity.
    assert (Hco : a_const SS j = true) by reflexivity.
    assert (Hst : a_strings re_match SS j = true) by (destruct j; reflexivity).
    assert (Hui : forall sm, spec_uneval_items ev j l SS sm = Some (true, [])) by (intros; destruct j; reflexivity).
    assert (Hup : forall sm, spec_uneval_props ev j l SS sm = Some (true, [])) by (intros; destruct j; reflexivity).
    rewrite Hui, Hup, Hen, Hco, Hst. cbn [all_true forallb existsb negb app]. rewrite !andb_true_r.
    f_equal. f_equal.
    destruct (a_type SS j), (a_numbers SS j), ok_arr, (a_array_counts SS j), ok_obj, (a_object_counts false SS j); reflexivity.
  Qed.
End Def.

Section Def2.
  Variable re_match : str -> str -> bool.
  Variable e : env.
  Hypothesis Hd : e_draft7 e = false.

  Notation defined := (defined re_match e).

  Lemma defined_simple ty tys mn mx it mnI mxI props req addl desc po :
    (match it with Some c => defined c | None => True end) ->
    (forall k c, In (k, c) (olist props) -> defined c) ->
    (match addl with Some c => defined c | None => True end) ->
    defined (mk_simple ty tys mn mx it mnI mxI props req addl desc po).
  Proof.
    intros H1 H2 H3 j C l.
    destruct (simple_verdict re_match e Hd ty tys mn mx it mnI mxI props req addl desc po j C l H1 H2 H3) as (k0 & Hk).
    destruct (Hk k0 (Nat.le_refl _)) as (a & b & c & d & f & sg & _ & _ & Hs). eauto.
  Qed.

  Lemma defined_description s d : defined s -> defined (set_description d s).
  Proof.
    intros H j C l. destruct (H j C l) as (k & r & Hk). exists k, r.
    destruct k as [|k]; [discriminate|]. cbn [spec_eval] in *. now rewrite spec_body_description.
  Qed.

  Lemma with_null_notype b tys mn mx it mnI mxI props req addl desc po :
    with_null b (mk_simple [] tys mn mx it mnI mxI props req addl desc po) = mk_simple [] tys mn mx it mnI mxI props req addl desc po.
  Proof. unfold with_null. cbn [mk_simple set_propertyOrder set_description set_additionalProperties set_required set_properties set_maxItems
    set_minItems set_items set_maximum set_minimum set_types set_type empty_schema s_type nonempty]. now rewrite andb_false_r. Qed.

  Lemma with_null_defined b ty mn mx it mnI mxI props req addl desc po :
    (match it with Some c => defined c | None => True end) ->
    (forall k c, In (k, c) (olist props) -> defined c) ->
    (match addl with Some c => defined c | None => True end) ->
    defined (with_null b (mk_simple ty None mn mx it mnI mxI props req addl desc po)).
  Proof. intros. rewrite with_null_simple. destruct (b && nonempty ty); now apply defined_simple. Qed.

  (** the schema false: defined, and rejecting, everywhere *)
  Lemma false_rejects j C l : exists k, forall k', k <= k' -> spec_eval re_match k' e C j l false_schema = Some (false, sig0).
  Proof.
    exists 2. intros k' Hle. destruct k' as [|[|k]]; try lia.
    change (spec_eval re_match (S (S k)) e C j l false_schema)
      with (spec_body re_match e (spec_eval re_match (S k) e (C ++ [l])) (C ++ [l]) j l false_schema).
    destruct (leaf_verdict re_match e Hd [] None None None [] None j k (C ++ [l]) (ch l (lit "not"%lit))) as (sg & Hs).
    rewrite a_type_simple, a_numbers_simple in Hs.
    change (mk_simple [] None None None None None None None None None [] None) with empty_schema in Hs.
    remember (spec_eval re_match (S k) e (C ++ [l])) as ev eqn:Eev.
    unfold spec_body.
    cbn [false_schema set_not empty_schema s_ref s_dynamicRef s_allOf s_anyOf s_oneOf s_not s_if s_then s_else olist idx_list length seq combine eval_all one].
    rewrite Hd. cbn [andb]. rewrite Hs.
    assert (Hn : match j with JNum n => opt_ok None (fun b => q_leb b n) && opt_ok None (fun b => q_leb n b) | _ => true end = true) by (destruct j; reflexivity).
    rewrite Hn. cbn [andb fst existsb negb].
    destruct j as [| | | |items|m].
    1-4: cbn; reflexivity.
    - unfold spec_arrays, ar_prefix, ar_rest, ar_contains, ar_prefix_list, ar_rest_schema. rewrite Hd.
      cbn [false_schema set_not empty_schema s_prefixItems s_items s_contains olist idx_list length seq combine skipn option_map].
      assert (Hc : combine items (@nil (nat * schema)) = []) by (destruct items; reflexivity). rewrite Hc. cbn. reflexivity.
    - unfold spec_objects, ob_ev_props, ob_ev_pats, ob_ev_add, ob_ev_names, ob_ev_deps, ob_deps. rewrite Hd.
      cbn [false_schema set_not empty_schema s_properties s_patternProperties s_additionalProperties s_propertyNames s_dependentSchemas olist eval_all option_map all_true forallb].
      rewrite (eval_all_const _ m (true, sig0)) by reflexivity. cbn. rewrite ?andb_false_r. reflexivity.
  Qed.

  Lemma false_defined : defined false_schema.
  Proof. intros j C l. destruct (false_rejects j C l) as (k & Hk). exists k. eexists. apply Hk. lia. Qed.
End Def2.

Section InferDefined.
  Variable re_match : str -> str -> bool.
  Variable e : env.
  Hypothesis Hd : e_draft7 e = false.
  Variable o : iopts.
  Hypothesis Hstd : forall n x, lookup n (o_schemas o) = Some x -> x = Some str_schema.

  Notation defined := (defined re_match e).

  Lemma map_set_vals (P : schema -> Prop) k v (m : list (str * schema)) :
    P v -> Forall (fun kv => P (snd kv)) m -> Forall (fun kv => P (snd kv)) (map_set k v m).
  Proof.
    intros Hv Hm. unfold map_set. destruct (existsb _ m).
    - induction Hm as [|[k' v'] r Hh _ IH]; [constructor|]. cbn [map fst]. constructor; [|exact IH].
      destruct (str_eqb k k'); [exact Hv|exact Hh].
    - apply Forall_app. split; [exact Hm|repeat constructor; exact Hv].
  Qed.

  Section Rec.
    Variable rec : gtype -> res (option schema).
    Hypothesis Hrec : forall t s, rec t = Ok (Some s) -> defined s.

    Lemma step_not_ok_fold L r : (forall st, r <> Ok st) -> forall st', fold_left (struct_step o rec) L r <> Ok st'.
    Proof.
      revert r. induction L as [|f L IH]; intros r Hr st'; [apply Hr|]. cbn [fold_left]. apply IH.
      intros st. unfold struct_step. destruct r; cbn [bind]; try discriminate. exfalso. now apply (Hr a).
    Qed.

    Lemma fold_defined : forall L st st',
      Forall (fun kv => defined (snd kv)) (ss_props st) ->
      fold_left (struct_step o rec) L (Ok st) = Ok st' ->
      Forall (fun kv => defined (snd kv)) (ss_props st').
    Proof.
      induction L as [|f L IH]; intros st st' Hst Hf; [cbn in Hf; now injection Hf as <-|].
      cbn [fold_left] in Hf.
      destruct (struct_step o rec (Ok st) f) as [st1| | |] eqn:Es.
      2-4: exfalso; eapply step_not_ok_fold; [|exact Hf]; intros; discriminate.
      apply (IH st1 st'); [|exact Hf].
      unfold struct_step in Es. cbn [bind] in Es.
      destruct (jf_override f).
      - (* an embedded struct replaced through TypeSchemas: only string entries exist, which are refused *)
        destruct (lookup (type_name (jf_type f)) (o_schemas o)) as [[ov|]|] eqn:El; try discriminate.
        apply Hstd in El. injection El as ->. cbn in Es. discriminate.
      - destruct (rec (jf_decl f)) as [[fs|]| | |] eqn:Er; cbn [bind] in Es; try discriminate.
        + assert (Hfs : exists c, defined c /\ ss_props st1 = map_set (jf_name f) c (ss_props st)).
          { destruct (fi_desc (jf_info f)) as [[|d0 dr]|]; cbn [bind] in Es; try discriminate.
            - destruct (bad_desc_prefix (d0 :: dr)); cbn [bind] in Es; [discriminate|]. injection Es as <-.
              eexists. split; [apply defined_description; eapply Hrec; eauto|reflexivity].
            - injection Es as <-. eexists. split; [eapply Hrec; eauto|reflexivity]. }
          destruct Hfs as (c & Hc & ->). now apply map_set_vals.
        + injection Es as <-. exact Hst.
    Qed.

    Lemma kind_defined t0 s b : infer_kind o rec t0 = Ok (Some s) -> defined (with_null b s).
    Proof.
      intros Hi. apply infer_kind_inv in Hi. unfold infer_kind' in Hi.
      destruct (kind_of t0) eqn:Ek.
      - injection Hi as <-. rewrite ty_schema_simple. apply (with_null_defined re_match e Hd); auto. intros k c [].
      - injection Hi as <-.
        change (set_maximum (snd (int_bounds k)) (set_minimum (fst (int_bounds k)) (ty_schema (lit "integer"%lit))))
          with (mk_simple (lit "integer"%lit) None (fst (int_bounds k)) (snd (int_bounds k)) None None None None None None [] None).
        apply (with_null_defined re_match e Hd); auto. intros k0 c [].
      - injection Hi as <-. rewrite ty_schema_simple. apply (with_null_defined re_match e Hd); auto. intros k c [].
      - injection Hi as <-. rewrite ty_schema_simple. apply (with_null_defined re_match e Hd); auto. intros k c [].
      - injection Hi as <-. change empty_schema with (mk_simple [] None None None None None None None None None [] None).
        rewrite with_null_notype. apply (defined_simple re_match e Hd); auto. intros k c [].
      - discriminate.
      - destruct (strip_named t0); try discriminate.
        + destruct (rec g) as [[it|]| | |] eqn:Er; cbn [bind] in Hi; try discriminate. injection Hi as <-.
          destruct (o_tsnull o).
          * change (set_items (Some it) (ty_schema (lit "array"%lit))) with (mk_simple (lit "array"%lit) None None None (Some it) None None None None None [] None).
            apply (with_null_defined re_match e Hd); auto; [eapply Hrec; eauto|intros k c []].
          * change (set_items (Some it) (set_types (Some [null_s; lit "array"%lit]) empty_schema))
              with (mk_simple [] (Some [null_s; lit "array"%lit]) None None (Some it) None None None None None [] None).
            rewrite with_null_notype. apply (defined_simple re_match e Hd); auto; [eapply Hrec; eauto|intros k c []].
        + destruct (rec g) as [[it|]| | |] eqn:Er; cbn [bind] in Hi; try discriminate. injection Hi as <-.
          change (set_maxItems (Some (Z.of_nat n)) (set_minItems (Some (Z.of_nat n)) (set_items (Some it) (ty_schema (lit "array"%lit)))))
            with (mk_simple (lit "array"%lit) None None None (Some it) (Some (Z.of_nat n)) (Some (Z.of_nat n)) None None None [] None).
          apply (with_null_defined re_match e Hd); auto; [eapply Hrec; eauto|intros k c []].
      - destruct (strip_named t0); try discriminate.
        + destruct (rec g) as [[it|]| | |] eqn:Er; cbn [bind] in Hi; try discriminate. injection Hi as <-.
          destruct (o_tsnull o).
          * change (set_items (Some it) (ty_schema (lit "array"%lit))) with (mk_simple (lit "array"%lit) None None None (Some it) None None None None None [] None).
            apply (with_null_defined re_match e Hd); auto; [eapply Hrec; eauto|intros k c []].
          * change (set_items (Some it) (set_types (Some [null_s; lit "array"%lit]) empty_schema))
              with (mk_simple [] (Some [null_s; lit "array"%lit]) None None (Some it) None None None None None [] None).
            rewrite with_null_notype. apply (defined_simple re_match e Hd); auto; [eapply Hrec; eauto|intros k c []].
        + destruct (rec g) as [[it|]| | |] eqn:Er; cbn [bind] in Hi; try discriminate. injection Hi as <-.
          change (set_maxItems (Some (Z.of_nat n)) (set_minItems (Some (Z.of_nat n)) (set_items (Some it) (ty_schema (lit "array"%lit)))))
            with (mk_simple (lit "array"%lit) None None None (Some it) (Some (Z.of_nat n)) (Some (Z.of_nat n)) None None None [] None).
          apply (with_null_defined re_match e Hd); auto; [eapply Hrec; eauto|intros k c []].
      - destruct (strip_named t0); try discriminate. destruct (negb kstr); [destruct (o_ignore o); discriminate|].
        destruct (rec g) as [[ap|]| | |] eqn:Er; cbn [bind] in Hi; try discriminate. injection Hi as <-.
        change (set_additionalProperties (Some ap) (ty_schema (lit "object"%lit)))
          with (mk_simple (lit "object"%lit) None None None None None None None None (Some ap) [] None).
        apply (with_null_defined re_match e Hd); auto; [intros k c []|eapply Hrec; eauto].
      - destruct (infer_struct o rec t0) as [ss| | |] eqn:Est; cbn [bind] in Hi; try discriminate. injection Hi as <-.
        unfold infer_struct in Est.
        destruct (fold_left _ _ _) as [st| | |] eqn:Ef; cbn [bind] in Est; try discriminate Est. injection Est as <-.
        pose proof (fold_defined _ (mkSS [] [] [] None) st (Forall_nil _) Ef) as Hps.
        match goal with |- defined (with_null b (set_propertyOrder ?po (set_required ?rq (set_properties ?pp ?rest)))) =>
          change (set_propertyOrder po (set_required rq (set_properties pp rest)))
            with (mk_simple (lit "object"%lit) None None None None None None pp rq (Some false_schema) [] po)
        end.
        apply (with_null_defined re_match e Hd); auto; [|apply (false_defined re_match e Hd)].
        intros k c Hin. destruct (has_fields t0); [|contradiction]. cbn [olist] in Hin.
        rewrite Forall_forall in Hps. exact (Hps (k, c) Hin).
      - destruct (o_ignore o); discriminate.
    Qed.
  End Rec.

  (** evaluation of an inferred schema is defined on every JSON value *)
  Theorem infer_defined : forall n seen t s, infer o n seen t = Ok (Some s) -> defined s.
  Proof.
    induction n as [|n IH]; intros seen t s H; [discriminate|]. cbn [infer] in H.
    destruct (Basic.nonempty _ && mem_str _ seen); [discriminate|].
    match type of H with match ?X with _ => _ end = _ => destruct X as [ov|] eqn:Eo end.
    - injection H as <-.
      destruct (Basic.nonempty (type_name (snd (strip_ptrs t)))); [|discriminate].
      destruct (lookup (type_name (snd (strip_ptrs t))) (o_schemas o)) as [x|] eqn:El; [|discriminate].
      subst x. apply Hstd in El. injection El as ->.
      unfold override_null. destruct (negb (o_tsnull o) && fst (strip_ptrs t)).
      + change (if Basic.nonempty (s_type str_schema) then _ else _)
          with (mk_simple [] (Some [null_s; lit "string"%lit]) None None None None None None None None [] None).
        apply (defined_simple re_match e Hd); auto. intros k c [].
      + change str_schema with (mk_simple (lit "string"%lit) None None None None None None None None None [] None).
        apply (defined_simple re_match e Hd); auto. intros k c [].
    - destruct (infer_kind o _ _) as [[s0|]| | |] eqn:Ek; cbn [bind option_map] in H; try discriminate. injection H as <-.
      eapply kind_defined; [|exact Ek]. intros t' s' Ht'. eapply IH; eauto.
  Qed.
End InferDefined.
