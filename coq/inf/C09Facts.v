(** C09 (schema side): the inferred schema of a scalar type accepts exactly the JSON values
    encoding/json decodes into it - the right JSON type and, for sized integers, the range. *)
From Coq Require Import List NArith ZArith QArith Bool Lia.
From JS Require Import Str StrFacts Lit Json Res GoValue Schema CodecBase Basic Env Spec SpecMono GoType Encode Infer InferFacts Accept WellTyped C04Main.
Import ListNotations.
Open Scope list_scope.
Local Open Scope nat_scope.

(** what the decoder accepts for a scalar type (integers written as integers) *)
Definition decodes_scalar (t : gtype) (j : json) : bool :=
  match t, j with
  | TyBool, JBool _ => true
  | TyInt k, JNum q => q_is_int q && opt_ok (fst (int_bounds k)) (fun b => q_leb b q) && opt_ok (snd (int_bounds k)) (fun b => q_leb q b)
  | TyFloat _, JNum _ => true
  | TyString, JStr _ => true
  | _, _ => false
  end.

Definition is_scalar (t : gtype) : bool :=
  match t with TyBool | TyInt _ | TyFloat _ | TyString => true | _ => false end.

Theorem scalar_verdict re_match e o n seen t s :
  e_draft7 e = false -> is_scalar t = true -> infer o (S n) seen t = Ok (Some s) ->
  forall j k C l, exists sg, spec_eval re_match (S k) e C j l s = Some (decodes_scalar t j, sg).
Proof.
  intros Hd Hs Hi j k C l.
  destruct t as [|k0|b32| | | | | | | | | | |]; try discriminate.
  - assert (E : infer o (S n) seen TyBool = Ok (Some (mk_simple (lit "boolean"%lit) None None None None None None None None None [] None))) by reflexivity.
    rewrite E in Hi. injection Hi as <-.
    destruct (leaf_verdict re_match e Hd (lit "boolean"%lit) None None None [] None j k C l) as (sg & ->).
    exists sg. do 2 f_equal. destruct j; try reflexivity. cbn. unfold type_accepts, json_type. destruct (q_is_int q); reflexivity.
  - assert (E : infer o (S n) seen (TyInt k0) = Ok (Some (mk_simple (lit "integer"%lit) None (fst (int_bounds k0)) (snd (int_bounds k0)) None None None None None None [] None))) by reflexivity.
    rewrite E in Hi. injection Hi as <-.
    destruct (leaf_verdict re_match e Hd (lit "integer"%lit) None (fst (int_bounds k0)) (snd (int_bounds k0)) [] None j k C l) as (sg & ->).
    exists sg. do 2 f_equal. rewrite a_type_simple, a_numbers_simple. destruct j; try reflexivity.
    cbn [decodes_scalar]. unfold type_accepts, json_type. destruct (q_is_int q); cbn; reflexivity.
  - assert (E : infer o (S n) seen (TyFloat b32) = Ok (Some (mk_simple (lit "number"%lit) None None None None None None None None None [] None))) by reflexivity.
    rewrite E in Hi. injection Hi as <-.
    destruct (leaf_verdict re_match e Hd (lit "number"%lit) None None None [] None j k C l) as (sg & ->).
    exists sg. do 2 f_equal. destruct j; try reflexivity. cbn. unfold type_accepts, json_type. destruct (q_is_int q); reflexivity.
  - assert (E : infer o (S n) seen TyString = Ok (Some (mk_simple (lit "string"%lit) None None None None None None None None None [] None))) by reflexivity.
    rewrite E in Hi. injection Hi as <-.
    destruct (leaf_verdict re_match e Hd (lit "string"%lit) None None None [] None j k C l) as (sg & ->).
    exists sg. do 2 f_equal. destruct j; try reflexivity. cbn. unfold type_accepts, json_type. destruct (q_is_int q); reflexivity.
Qed.
