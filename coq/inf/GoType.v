(** Go types of the plain-data domain (C04, C09, C16), typed values, and the two field
    selections involved in inference: reflect.VisibleFields (what infer.go ranges over) and
    encoding/json's typeFields (what the encoder emits). *)
From Coq Require Import List NArith ZArith QArith Bool.
From JS Require Import Str Lit Json GoValue Schema Basic.
Import ListNotations.
Open Scope list_scope.
Local Open Scope nat_scope.

Inductive ikind := KInt | KInt8 | KInt16 | KInt32 | KInt64 | KUint | KUint8 | KUint16 | KUint32 | KUint64 | KUintptr.

(** a struct field as reflection shows it *)
Record finfo := mkF {
  fi_name : str;            (* Go name; for an embedded field the type's name *)
  fi_exported : bool;
  fi_embedded : bool;
  fi_hastag : bool;         (* the struct tag has a json key *)
  fi_tag : str;             (* its value *)
  fi_desc : option str      (* the jsonschema key of the struct tag, if present *)
}.

Inductive gtype :=
| TyBool | TyInt (k : ikind) | TyFloat (b32 : bool) | TyString | TyIface
| TyPtr (t : gtype) | TySlice (t : gtype) | TyArray (n : nat) (t : gtype)
| TyMap (kstr : bool) (t : gtype)                 (* kstr: the key kind is string *)
| TyStruct (fs : list (finfo * gtype))
| TyNamed (n : str) (t : gtype)                   (* a defined type; the name is its identity *)
| TyRec (n : str)                                 (* an occurrence of an enclosing defined struct type *)
| TyStd (n : str)                                 (* a standard-library type with a MarshalJSON method *)
| TyBad.                                          (* chan, func, complex, unsafe.Pointer *)

Inductive tval :=
| VBool (b : bool) | VInt (z : Z) | VFloat (q : Q) | VStr (s : str)
| VNil                                            (* nil pointer, slice, map or interface *)
| VPtr (v : tval) | VList (l : list tval) | VMap (m : list (str * tval))
| VAny (j : json)                                 (* a non-nil interface value, by its JSON encoding *)
| VStruct (fs : list tval)                        (* one value per declared field *)
| VStdV (j : json).                               (* a marshaler type's value, by what MarshalJSON returns *)

Inductive kind := KdBool | KdInt (k : ikind) | KdFloat | KdString | KdIface | KdPtr | KdSlice | KdArray | KdMap | KdStruct | KdBad.

Fixpoint kind_of (t : gtype) : kind :=
  match t with
  | TyBool => KdBool | TyInt k => KdInt k | TyFloat _ => KdFloat | TyString => KdString | TyIface => KdIface
  | TyPtr _ => KdPtr | TySlice _ => KdSlice | TyArray _ _ => KdArray | TyMap _ _ => KdMap
  | TyStruct _ => KdStruct | TyNamed _ t => kind_of t | TyRec _ => KdStruct | TyStd _ => KdStruct | TyBad => KdBad
  end.

Fixpoint strip_named (t : gtype) : gtype := match t with TyNamed _ t' => strip_named t' | _ => t end.

(** t.Name(): empty for unnamed types *)
Definition type_name (t : gtype) : str :=
  match t with TyNamed n _ => n | TyRec n => n | TyStd n => n | _ => [] end.

Fixpoint struct_fields (t : gtype) : list (finfo * gtype) :=
  match t with TyStruct fs => fs | TyNamed _ t => struct_fields t | _ => [] end.
(* t.NumField() > 0: a standard marshaler type looks to reflection like a struct with unexported fields only *)
Definition has_fields (t : gtype) : bool :=
  match strip_named t with TyStd _ => true | TyStruct (_ :: _) => true | _ => false end.

(** json struct tags *)
Fixpoint split_on (c : N) (s : str) : list str :=
  match s with
  | [] => [[]]
  | x :: r =>
      match split_on c r with
      | [] => [[x]]
      | h :: t => if N.eqb x c then [] :: h :: t else (x :: h) :: t
      end
  end.
Definition tag_name (tag : str) : str := match split_on 44%N tag with n :: _ => n | [] => [] end.
Definition tag_opts (tag : str) : list str := match split_on 44%N tag with _ :: o => o | [] => [] end.

(* encoding/json isValidTag *)
Definition mem_n (c : N) (l : list N) : bool := existsb (N.eqb c) l.
Definition is_tag_punct (c : N) : bool := mem_n c (lit "!#$%&()*+-./:;<=>?@[]^_{|}~ "%lit).
Definition is_letter_digit (c : N) : bool :=
  (N.leb 48 c && N.leb c 57) || (N.leb 65 c && N.leb c 90) || (N.leb 97 c && N.leb c 122) ||
  ((N.leb 192 c && N.leb c 591) && negb (N.eqb c 215) && negb (N.eqb c 247)).
Definition is_valid_tag (s : str) : bool :=
  match s with [] => false | _ => forallb (fun c => is_tag_punct c || is_letter_digit c) s end.

(** encoding/json: the field list of a struct type *)
Record jfield := mkJ {
  jf_name : str; jf_tagged : bool; jf_index : list nat; jf_type : gtype;
  jf_omitempty : bool; jf_omitzero : bool; jf_quoted : bool;
  jf_info : finfo; jf_decl : gtype;   (* the field as declared *)
  jf_override : bool                  (* an embedded struct replaced by a TypeSchemas entry (inference only) *)
}.

Definition strip_ptr1 (t : gtype) : gtype := match t with TyPtr t' => t' | _ => t end.

(* one struct at one level: the fields recorded, and the embedded structs queued *)
Section Fields.
(* inference: does the (declared) type of an embedded field have a non-nil TypeSchemas entry? *)
Variable ovr : str -> bool.

Definition scan_struct (idx : list nat) (dup : bool) (fs : list (finfo * gtype))
  : list jfield * list (list nat * gtype) :=
  fold_left
    (fun (acc : list jfield * list (list nat * gtype)) (ift : nat * (finfo * gtype)) =>
       let i := fst ift in let fi := fst (snd ift) in let ty := snd (snd ift) in
       let skip :=
         if fi_embedded fi
         then negb (fi_exported fi) && negb (match kind_of (strip_ptr1 ty) with KdStruct => true | _ => false end)
         else negb (fi_exported fi) in
       if skip then acc
       else if fi_hastag fi && str_eqb (fi_tag fi) (lit "-"%lit) then acc
       else
         let name0 := if fi_hastag fi then tag_name (fi_tag fi) else [] in
         let opts := if fi_hastag fi then tag_opts (fi_tag fi) else [] in
         let name := if is_valid_tag name0 then name0 else [] in
         let index := idx ++ [i] in
         let ft := match ty with TyPtr t' => t' | _ => ty end in  (* an unnamed pointer type is followed *)
         let is_struct := match kind_of ft with KdStruct => true | _ => false end in
         (* schemas[sf.Type], else schemas[ft]: an embedded *T is replaced by the entry for T *)
         let override := fi_embedded fi && negb (nonempty name) && is_struct && nonempty (type_name ft) && ovr (type_name ft) in
         if nonempty name || negb (fi_embedded fi) || negb is_struct || override then
           let quoted := mem_str (lit "string"%lit) opts &&
                         match kind_of ft with KdBool | KdInt _ | KdFloat | KdString => true | _ => false end in
           let f := mkJ (if override then 0%N :: (match ty with TyPtr _ => 42%N :: type_name ft | _ => type_name ft end) else if nonempty name then name else fi_name fi) (nonempty name) index ft
                        (mem_str (lit "omitempty"%lit) opts) (mem_str (lit "omitzero"%lit) opts) quoted fi ty override in
           (fst acc ++ (if dup then [f; f] else [f]), snd acc)
         else (fst acc, snd acc ++ [(index, ft)]))
    (combine (seq 0 (length fs)) fs) ([], []).

Fixpoint count_name (n : str) (l : list (list nat * gtype)) : nat :=
  match l with [] => 0 | (_, t) :: r => (if str_eqb (type_name t) n then 1 else 0) + count_name n r end.

(* breadth first over the levels of embedding; [visited]: type names seen at an earlier level *)
Fixpoint jf_levels (fuel : nat) (visited : list str) (level : list (list nat * gtype)) (queued : list (list nat * gtype)) : list jfield :=
  match fuel with
  | O => []
  | S n =>
      match level with
      | [] => []
      | _ =>
          let step :=
            fold_left
              (fun (acc : list str * list jfield * list (list nat * gtype) * list (list nat * gtype)) (it : list nat * gtype) =>
                 let '(vis, fields, next, nextall) := acc in
                 let nm := type_name (snd it) in
                 let is_rec := match snd it with TyRec _ => true | _ => false end in
                 if mem_str nm vis || is_rec then acc
                 else
                   let r := scan_struct (fst it) (Nat.ltb 1 (count_name nm queued)) (struct_fields (snd it)) in
                   (* queue each embedded struct type once per level; count all occurrences *)
                   let next' := fold_left (fun nx e => if Nat.ltb 0 (count_name (type_name (snd e)) nx) then nx else nx ++ [e]) (snd r) next in
                   (nm :: vis, fields ++ fst r, next', nextall ++ snd r))
              level (visited, [], [], []) in
          let '(vis, fields, next, nextall) := step in
          fields ++ jf_levels n vis next nextall
      end
  end.

Fixpoint index_cmp (a b : list nat) : comparison :=
  match a, b with
  | [], [] => Eq | [], _ => Lt | _, [] => Gt
  | x :: a', y :: b' => match Nat.compare x y with Eq => index_cmp a' b' | c => c end
  end.

Definition jf_leb (a b : jfield) : bool :=
  match str_cmp (jf_name a) (jf_name b) with
  | Lt => true | Gt => false
  | Eq =>
      match Nat.compare (length (jf_index a)) (length (jf_index b)) with
      | Lt => true | Gt => false
      | Eq =>
          if Bool.eqb (jf_tagged a) (jf_tagged b)
          then match index_cmp (jf_index a) (jf_index b) with Gt => false | _ => true end
          else jf_tagged a
      end
  end.

(* per name: the dominant field, if any *)
Fixpoint dominant (fuel : nat) (l : list jfield) : list jfield :=
  match fuel with
  | O => []
  | S n =>
      match l with
      | [] => []
      | f :: r =>
          let same := filter (fun g => str_eqb (jf_name g) (jf_name f)) r in
          let rest := filter (fun g => negb (str_eqb (jf_name g) (jf_name f))) r in
          match same with
          | [] => f :: dominant n rest
          | g :: _ =>
              if Nat.eqb (length (jf_index f)) (length (jf_index g)) && Bool.eqb (jf_tagged f) (jf_tagged g)
              then dominant n rest
              else f :: dominant n rest
          end
      end
  end.

Definition json_fields (t : gtype) : list jfield :=
  let all := jf_levels 64 [] [([], t)] [([], t)] in
  let sorted := isort jf_leb all in
  isort (fun a b => match index_cmp (jf_index a) (jf_index b) with Gt => false | _ => true end)
        (dominant (S (length sorted)) sorted).
End Fields.

(** reflect.VisibleFields *)
Record vfield := mkV { vf_info : finfo; vf_type : gtype; vf_index : list nat; vf_hidden : bool }.

Fixpoint set_nth {A} (n : nat) (x : A) (l : list A) : list A :=
  match l, n with
  | [], _ => []
  | _ :: r, O => x :: r
  | y :: r, S n' => y :: set_nth n' x r
  end.

Definition hide (v : vfield) : vfield := mkV (vf_info v) (vf_type v) (vf_index v) true.

Fixpoint vf_walk (fuel : nat) (visiting : list str) (idx : list nat) (t : gtype)
         (st : list vfield * list (str * nat)) : list vfield * list (str * nat) :=
  match fuel with
  | O => st
  | S n =>
      let nm := type_name t in
      let is_rec := match t with TyRec _ => true | _ => false end in
      if (nonempty nm && mem_str nm visiting) || is_rec then st
      else
        fold_left
          (fun (st : list vfield * list (str * nat)) (ift : nat * (finfo * gtype)) =>
             let i := fst ift in let fi := fst (snd ift) in let ty := snd (snd ift) in
             let index := idx ++ [i] in
             let '(fields, byname) := st in
             let '(fields1, add) :=
               match lookup (fi_name fi) byname with
               | Some oi =>
                   match nth_error fields oi with
                   | Some old =>
                       if Nat.eqb (length index) (length (vf_index old)) then (set_nth oi (hide old) fields, false)
                       else if Nat.ltb (length index) (length (vf_index old)) then (set_nth oi (hide old) fields, true)
                       else (fields, false)
                   | None => (fields, true)
                   end
               | None => (fields, true)
               end in
             let st1 := if add then (fields1 ++ [mkV fi ty index false], (fi_name fi, length fields1) :: byname)
                        else (fields1, byname) in
             if fi_embedded fi then
               let ft := strip_ptr1 ty in
               match kind_of ft with
               | KdStruct => vf_walk n (if nonempty nm then nm :: visiting else visiting) index ft st1
               | _ => st1
               end
             else st1)
          (combine (seq 0 (length (struct_fields t))) (struct_fields t)) st
  end.

Definition visible_fields (t : gtype) : list vfield :=
  filter (fun v => negb (vf_hidden v)) (fst (vf_walk 64 [] [] t ([], []))).
