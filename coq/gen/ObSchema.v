(** Obligations that tie the hand-written model to /repo's current sources.
    gen/SourceFacts.v is regenerated on every run by `implrun srcfacts`; each lemma here
    is closed by computation, so a source change that invalidates a structural fact the
    proofs lean on breaks this file (a broken tie, reported by ./check for the properties
    that lean on it). *)
From Coq Require Import List NArith ZArith.
From JS Require Import Str Lit Schema Codec Basic Resolve SourceFacts.
Import ListNotations.
Open Scope list_scope.

(** the Schema struct: field names, type classes, JSON names, all omitempty *)
Lemma schema_fields_ok : src_schema_fields = model_schema_fields.
Proof. vm_compute. reflexivity. Qed.

(** the wrapper structs the codec marshals/unmarshals through *)
Lemma marshal_wrapper_ok : src_marshal_wrapper = model_marshal_wrapper.
Proof. vm_compute. reflexivity. Qed.
Lemma unmarshal_wrapper_ok : src_unmarshal_wrapper = model_unmarshal_wrapper.
Proof. vm_compute. reflexivity. Qed.

(** the $schema constants *)
Lemma versions_ok : src_versions = [draft7_uri; draft7s_uri; draft2020_uri].
Proof. vm_compute. reflexivity. Qed.

