(** Obligations that tie the hand-written model to /repo's current sources.
    gen/SourceFacts.v is regenerated on every run by `implrun srcfacts`; each lemma here
    is closed by computation, so a source change that invalidates a structural fact the
    proofs lean on breaks this file (a broken tie, reported by ./check for the properties
    that lean on it). *)
From Coq Require Import List NArith ZArith.
From JS Require Import Str Lit Schema Codec Basic Resolve SourceFacts.
Import ListNotations.
Open Scope list_scope.

(** every explicit panic / assert site of the package, by function.  Each is accounted
    for in the model: either it is a [Panic] branch, or it is unreachable on the
    property's domain for the reason given. *)
Definition model_panic_sites : list (str * nat) :=
  [ (lit "Resolved.validateDefaults/assert"%lit, 1%nat);   (* nil schema: excluded by checkStructure (heap/Clone.v [check]) *)
    (lit "Schema.checkStructure/assert"%lit, 1%nat);        (* fresh infos map: holds at its only call site *)
    (lit "assert/panic"%lit, 1%nat);                        (* the assert helper itself *)
    (lit "equalValue/panic"%lit, 2%nat);                    (* func / unsupported kinds: outside JSON-shaped instances *)
    (lit "hashValue/panic"%lit, 2%nat);                     (* non-string map key / unsupported kinds: idem *)
    (lit "numPropertiesBounds/panic"%lit, 1%nat);           (* called on maps only (struct instances are refused earlier) *)
    (lit "properties/panic"%lit, 1%nat);                    (* idem *)
    (lit "property/panic"%lit, 1%nat);                      (* idem *)
    (lit "resolver.resolveRef/assert"%lit, 1%nat);          (* lrs.root non-nil: resolve never returns a nil root *)
    (lit "state.applyDefaults/panic"%lit, 1%nat);           (* unreachable: guarded by the enclosing kind test *)
    (lit "state.resolveDynamicRef/assert"%lit, 1%nat);      (* dead code *)
    (lit "state.validate/assert"%lit, 2%nat) ].             (* nil schema; unresolved $dynamicRef: Panic branches of the model *)
Lemma panic_sites_ok : src_panic_sites = model_panic_sites.
Proof. vm_compute. reflexivity. Qed.

