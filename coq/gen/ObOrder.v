(** Obligation for C01 / C02 / C07: the order in which state.validate first consults the keywords
    of the schema (regenerated from the sources on every run: the fields of `schema` in the order
    the function body first mentions them).  The evaluator model (val/Validate.v) is a transcription
    in source order: $ref before everything (so that draft-07 can return before the siblings),
    the assertions, $dynamicRef, the in-place applicators, arrays (prefixItems / items, contains,
    counts, uniqueItems, unevaluatedItems last), objects (properties, patternProperties,
    additionalProperties, propertyNames, counts, required, the dependency keywords,
    unevaluatedProperties last).  A reordering of the source breaks this file. *)
From Coq Require Import List NArith ZArith.
From JS Require Import Str Lit SourceFacts.
Import ListNotations.
Open Scope list_scope.

Definition model_validate_order : list str :=
  [ lit "Ref"%lit;
    lit "Type"%lit;
    lit "Types"%lit;
    lit "Enum"%lit;
    lit "Const"%lit;
    lit "MultipleOf"%lit;
    lit "Minimum"%lit;
    lit "Maximum"%lit;
    lit "ExclusiveMinimum"%lit;
    lit "ExclusiveMaximum"%lit;
    lit "MinLength"%lit;
    lit "MaxLength"%lit;
    lit "Pattern"%lit;
    lit "DynamicRef"%lit;
    lit "AllOf"%lit;
    lit "AnyOf"%lit;
    lit "OneOf"%lit;
    lit "Not"%lit;
    lit "If"%lit;
    lit "Then"%lit;
    lit "Else"%lit;
    lit "ItemsArray"%lit;
    lit "AdditionalItems"%lit;
    lit "Items"%lit;
    lit "PrefixItems"%lit;
    lit "Contains"%lit;
    lit "MinContains"%lit;
    lit "MaxContains"%lit;
    lit "MinItems"%lit;
    lit "MaxItems"%lit;
    lit "UniqueItems"%lit;
    lit "UnevaluatedItems"%lit;
    lit "Properties"%lit;
    lit "PatternProperties"%lit;
    lit "AdditionalProperties"%lit;
    lit "PropertyNames"%lit;
    lit "MinProperties"%lit;
    lit "MaxProperties"%lit;
    lit "Required"%lit;
    lit "DependencyStrings"%lit;
    lit "DependencySchemas"%lit;
    lit "DependentRequired"%lit;
    lit "DependentSchemas"%lit;
    lit "UnevaluatedProperties"%lit ].
Lemma validate_order_ok : src_validate_order = model_validate_order.
Proof. vm_compute. reflexivity. Qed.
