(** Obligations that tie the hand-written model to /repo's current sources.
    gen/SourceFacts.v is regenerated on every run by `implrun srcfacts`; each lemma here
    is closed by computation, so a source change that invalidates a structural fact the
    proofs lean on breaks this file (a broken tie, reported by ./check for the properties
    that lean on it). *)
From Coq Require Import List NArith ZArith.
From JS Require Import Str Lit Schema Codec Basic Resolve SourceFacts.
Import ListNotations.
Open Scope list_scope.

(** C13: the write footprint.  Every assignment, increment, delete/clear/copy/sort/maps.Copy
    call and sync.Map write whose target is reached through a receiver, a parameter or a
    package variable, by file and function (go/ast, see harness/srcfacts.go; writes
    through a local alias of shared state are not seen by this extraction - the race
    harness is what looks for those).  Each is classified: what Validate, ApplyDefaults,
    Marshal, CloneSchemas and For run through writes only per-call values and memo tables,
    which is the form of program [Conc.schedule_independent] is about. *)
Inductive wclass := PerCall     (* a value created by the call itself: annotations, the state's stack, For's seen set, the error being wrapped *)
                  | ResolveTime (* the Resolved under construction and the resolver's own tables: before the Resolved is shared *)
                  | InitTime    (* package initialisation *)
                  | Output      (* the receiver of UnmarshalJSON: the value being produced *)
                  | Memo.       (* sync.Map from reflect.Type to a function of that type *)
Definition model_shared_writes : list (str * wclass) :=
  [ (lit "annotations.go|annotations.merge|a.allItems"%lit, PerCall);
    (lit "annotations.go|annotations.merge|a.allProperties"%lit, PerCall);
    (lit "annotations.go|annotations.merge|a.endIndex"%lit, PerCall);
    (lit "annotations.go|annotations.merge|a.evaluatedIndexes"%lit, PerCall);
    (lit "annotations.go|annotations.merge|a.evaluatedProperties"%lit, PerCall);
    (lit "annotations.go|annotations.noteEndIndex|a.endIndex"%lit, PerCall);
    (lit "annotations.go|annotations.noteIndex|a.evaluatedIndexes"%lit, PerCall);
    (lit "annotations.go|annotations.noteIndex|a.evaluatedIndexes[i]"%lit, PerCall);
    (lit "annotations.go|annotations.noteProperties|a.evaluatedProperties"%lit, PerCall);
    (lit "annotations.go|annotations.noteProperty|a.evaluatedProperties"%lit, PerCall);
    (lit "annotations.go|annotations.noteProperty|a.evaluatedProperties[prop]"%lit, PerCall);
    (lit "annotations.go|merge|maps.Copy(s)"%lit, PerCall);
    (lit "infer.go|forType|seen[name]"%lit, PerCall);
    (lit "infer.go|forType|seen[t]"%lit, PerCall);
    (lit "infer.go|init|initialSchemaMap[reflect.TypeFor[big.Float](..)]"%lit, InitTime);
    (lit "infer.go|init|initialSchemaMap[reflect.TypeFor[big.Int](..)]"%lit, InitTime);
    (lit "infer.go|init|initialSchemaMap[reflect.TypeFor[big.Rat](..)]"%lit, InitTime);
    (lit "infer.go|init|initialSchemaMap[reflect.TypeFor[json.Number](..)]"%lit, InitTime);
    (lit "infer.go|init|initialSchemaMap[reflect.TypeFor[slog.Level](..)]"%lit, InitTime);
    (lit "infer.go|init|initialSchemaMap[reflect.TypeFor[time.Time](..)]"%lit, InitTime);
    (lit "resolve.go|Schema.checkStructure|infos[s]"%lit, ResolveTime);
    (lit "resolve.go|resolveURIs|rs.resolvedInfos[rs.root].uri"%lit, ResolveTime);
    (lit "resolve.go|resolveURIs|rs.resolvedURIs[baseURI.String(..)]"%lit, ResolveTime);
    (lit "resolve.go|resolveURIs|rs.resolvedURIs[info.uri.String(..)]"%lit, ResolveTime);
    (lit "resolve.go|resolver.resolveRef|rs.resolvedInfos[s]"%lit, ResolveTime);
    (lit "resolve.go|resolver.resolve|r.loaded[baseURI.String(..)]"%lit, ResolveTime);
    (lit "resolve.go|resolver.resolve|r.loaded[rs.resolvedInfos[s].uri.String(..)]"%lit, ResolveTime);
    (lit "schema.go|Schema.UnmarshalJSON|*s"%lit, Output);
    (lit "schema.go|Schema.UnmarshalJSON|s.DependencySchemas"%lit, Output);
    (lit "schema.go|Schema.UnmarshalJSON|s.DependencySchemas[k]"%lit, Output);
    (lit "schema.go|Schema.UnmarshalJSON|s.DependencyStrings"%lit, Output);
    (lit "schema.go|Schema.UnmarshalJSON|s.DependencyStrings[k]"%lit, Output);
    (lit "schema.go|Schema.UnmarshalJSON|s.Items"%lit, Output);
    (lit "schema.go|Schema.UnmarshalJSON|s.ItemsArray"%lit, Output);
    (lit "schema.go|init|schemaFieldInfos"%lit, InitTime);
    (lit "schema.go|init|schemaFieldMap[info.jsonName]"%lit, InitTime);
    (lit "schema.go|init|slices.SortFunc(schemaFieldInfos)"%lit, InitTime);
    (lit "schema.go|integer.UnmarshalJSON|*ip"%lit, Output);
    (lit "util.go|jsonNames|jsonNamesMap.Store"%lit, Memo);
    (lit "util.go|wrapf|*errp"%lit, PerCall);
    (lit "validate.go|state.validate|st.stack"%lit, PerCall);
    (lit "validate.go|structPropertiesOf|structProperties.Store"%lit, Memo) ].
Lemma shared_writes_ok : src_shared_writes = map fst model_shared_writes.
Proof. vm_compute. reflexivity. Qed.

(** nothing on the validation / marshalling / cloning / inference paths writes anything but
    per-call values and memo tables *)
Definition starts_with (p s : str) : bool := str_eqb (firstn (length p) s) p.
Lemma call_paths_write_only_own_state :
  forallb (fun wc => match snd wc with
                     | PerCall | Memo => true
                     | InitTime => true
                     | ResolveTime => starts_with (lit "resolve.go|"%lit) (fst wc)
                     | Output => starts_with (lit "schema.go|"%lit) (fst wc)
                     end) model_shared_writes = true.
Proof. vm_compute. reflexivity. Qed.
