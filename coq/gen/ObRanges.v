(** Obligation for C14: everything state.validate ranges over (regenerated from the sources
    on every run) is either ordered - a slice, an integer range, the dynamic-scope stack - or a
    map whose visiting order is proved irrelevant: the instance's members (val/SpecPerm.v,
    spec_eval_comp) or a map of the schema that the relation [srel] lets be permuted
    (val/SchemaPerm.v, spec_eval_srel).  A new loop over a map breaks this file. *)
From Coq Require Import List NArith ZArith.
From JS Require Import Str Lit Schema SchemaRel SourceFacts.
Import ListNotations.
Open Scope list_scope.

Inductive range_class := Ordered | InstanceMembers | SchemaMap.
Definition model_validate_ranges : list (str * range_class) :=
  [ (lit "instance.Len(..)"%lit, Ordered);
    (lit "properties(..)"%lit, InstanceMembers);
    (lit "props"%lit, Ordered);                          (* a sorted slice of names, for error messages *)
    (lit "sames"%lit, Ordered);                          (* one hash bucket: indices in insertion order *)
    (lit "schema.AllOf"%lit, Ordered);
    (lit "schema.AnyOf"%lit, Ordered);
    (lit "schema.DependencySchemas"%lit, SchemaMap);     (* srel: optrel (mrel srel) on s_dependencySchemas *)
    (lit "schema.DependencyStrings"%lit, SchemaMap);     (* srel: optrel (mrel eq) on s_dependencyStrings *)
    (lit "schema.DependentRequired"%lit, SchemaMap);     (* srel: optrel (mrel eq) on s_dependentRequired *)
    (lit "schema.DependentSchemas"%lit, SchemaMap);      (* srel: optrel (mrel srel) on s_dependentSchemas *)
    (lit "schema.Enum"%lit, Ordered);
    (lit "schema.ItemsArray"%lit, Ordered);
    (lit "schema.OneOf"%lit, Ordered);
    (lit "schema.PrefixItems"%lit, Ordered);
    (lit "schema.Properties"%lit, SchemaMap);            (* srel: optrel (mrel srel) on s_properties *)
    (lit "schemaInfo.patternProperties"%lit, SchemaMap); (* the compiled form of s_patternProperties: optrel (mrel srel) *)
    (lit "st.stack"%lit, Ordered) ].
Lemma validate_ranges_ok : src_validate_ranges = map fst model_validate_ranges.
Proof. vm_compute. reflexivity. Qed.
