(** net/url as the package uses it: Parse, ResolveReference, String (of a
    fragment-less URL), IsAbs, Fragment.  Modelled on a restricted alphabet (see
    [safe_path_char]); anything outside it is [Unsupported] and is not generated. *)
From Coq Require Import List NArith ZArith Bool.
From JS Require Import Str Lit.
Import ListNotations.
Open Scope list_scope.
Open Scope N_scope.

Record uri := mkUri {
  u_scheme : str;
  u_opaque : str;
  u_host : str;
  u_omithost : bool;
  u_path : str;
  u_query : str;       (* RawQuery *)
  u_frag : str         (* Fragment, percent-decoded *)
}.

Definition empty_uri : uri := mkUri [] [] [] false [] [] [].

Inductive presult (A : Type) := POk (a : A) | PErr | PUnsupported.
Arguments POk {A} a. Arguments PErr {A}. Arguments PUnsupported {A}.

Definition is_alpha (c : N) : bool := (N.leb 97 c && N.leb c 122) || (N.leb 65 c && N.leb c 90).
Definition is_dig (c : N) : bool := N.leb 48 c && N.leb c 57.
Definition to_lower (c : N) : N := if N.leb 65 c && N.leb c 90 then c + 32 else c.
Definition chr_in (c : N) (l : list N) : bool := existsb (N.eqb c) l.

(* characters that are never escaped in a path and need no RawPath *)
Definition safe_path_char (c : N) : bool :=
  is_alpha c || is_dig c || chr_in c [45; 95; 46; 126; 47; 36; 38; 43; 44; 58; 59; 61; 64].
Definition safe_host_char (c : N) : bool := is_alpha c || is_dig c || chr_in c [45; 46; 95; 126].
Definition safe_query_char (c : N) : bool := safe_path_char c && negb (N.eqb c 35).

(** UTF-8 *)
Definition utf8_encode1 (c : N) : list N :=
  if N.ltb c 128 then [c]
  else if N.ltb c 2048 then [192 + c / 64; 128 + c mod 64]
  else if N.ltb c 65536 then [224 + c / 4096; 128 + (c / 64) mod 64; 128 + c mod 64]
  else [240 + c / 262144; 128 + (c / 4096) mod 64; 128 + (c / 64) mod 64; 128 + c mod 64].
Definition utf8_encode (s : str) : list N := flat_map utf8_encode1 s.

Definition is_cont (b : N) : bool := N.leb 128 b && N.ltb b 192.
Fixpoint utf8_decode_fuel (fuel : nat) (bs : list N) : option str :=
  match fuel with
  | O => None
  | S n =>
      match bs with
      | [] => Some []
      | b :: r =>
          if N.ltb b 128 then option_map (cons b) (utf8_decode_fuel n r)
          else if N.leb 194 b && N.ltb b 224 then
            match r with
            | b1 :: r' =>
                if is_cont b1 then option_map (cons ((b - 192) * 64 + (b1 - 128))) (utf8_decode_fuel n r') else None
            | _ => None
            end
          else if N.leb 224 b && N.ltb b 240 then
            match r with
            | b1 :: b2 :: r' =>
                let c := (b - 224) * 4096 + (b1 - 128) * 64 + (b2 - 128) in
                if is_cont b1 && is_cont b2 && N.leb 2048 c && negb (N.leb 55296 c && N.leb c 57343)
                then option_map (cons c) (utf8_decode_fuel n r') else None
            | _ => None
            end
          else if N.leb 240 b && N.ltb b 245 then
            match r with
            | b1 :: b2 :: b3 :: r' =>
                let c := (b - 240) * 262144 + (b1 - 128) * 4096 + (b2 - 128) * 64 + (b3 - 128) in
                if is_cont b1 && is_cont b2 && is_cont b3 && N.leb 65536 c && N.leb c 1114111
                then option_map (cons c) (utf8_decode_fuel n r') else None
            | _ => None
            end
          else None
      end
  end.
Definition utf8_decode (bs : list N) : option str := utf8_decode_fuel (S (length bs)) bs.

(** percent-decoding of a fragment (unescape in encodeFragment mode), on bytes *)
Definition hex_val (c : N) : option N :=
  if is_dig c then Some (c - 48)
  else if N.leb 97 c && N.leb c 102 then Some (c - 87)
  else if N.leb 65 c && N.leb c 70 then Some (c - 55)
  else None.
Fixpoint pct_decode_bytes (fuel : nat) (bs : list N) : option (list N) :=
  match fuel with
  | O => None
  | S n =>
      match bs with
      | [] => Some []
      | b :: r =>
          if N.eqb b 37 then
            match r with
            | h1 :: h2 :: r' =>
                match hex_val h1, hex_val h2 with
                | Some a, Some c => option_map (cons (a * 16 + c)) (pct_decode_bytes n r')
                | _, _ => None
                end
            | _ => None
            end
          else option_map (cons b) (pct_decode_bytes n r)
      end
  end.

(* POk decoded | PErr (invalid escape: url.Parse fails) | PUnsupported (bytes that are not UTF-8) *)
Definition decode_fragment (f : str) : presult str :=
  let bs := utf8_encode f in
  match pct_decode_bytes (S (length bs)) bs with
  | None => PErr
  | Some d => match utf8_decode d with Some s => POk s | None => PUnsupported end
  end.

(** strings helpers *)
Fixpoint cut_at (c : N) (s : str) (acc : str) : option (str * str) :=
  match s with
  | [] => None
  | x :: r => if N.eqb x c then Some (rev acc, r) else cut_at c r (x :: acc)
  end.
Definition has_prefix2 (c1 c2 : N) (s : str) : bool :=
  match s with x :: y :: _ => N.eqb x c1 && N.eqb y c2 | _ => false end.
Definition has_ctl (s : str) : bool := existsb (fun c => N.ltb c 32 || N.eqb c 127) s.

(** getScheme *)
Fixpoint get_scheme (s : str) (i : nat) (acc : str) (whole : str) : presult (str * str) :=
  match s with
  | [] => POk ([], whole)
  | c :: r =>
      if is_alpha c then get_scheme r (S i) (c :: acc) whole
      else if is_dig c || chr_in c [43; 45; 46] then
        match i with O => POk ([], whole) | _ => get_scheme r (S i) (c :: acc) whole end
      else if N.eqb c 58 then
        match i with O => PErr | _ => POk (rev acc, r) end
      else POk ([], whole)
  end.

Definition nonemptyb (s : str) : bool := match s with [] => false | _ => true end.

Fixpoint last_index (c : N) (s : str) (i : nat) (found : option nat) : option nat :=
  match s with
  | [] => found
  | x :: r => last_index c r (S i) (if N.eqb x c then Some i else found)
  end.

(** url.Parse *)
Definition parse_uri (raw : str) : presult uri :=
  if has_ctl raw then PErr else
  let '(u, frag) := match cut_at 35 raw [] with Some (a, b) => (a, b) | None => (raw, []) end in
  match decode_fragment frag with
  | PErr => PErr
  | PUnsupported => PUnsupported
  | POk fragd =>
      if str_eqb u [42] then POk (mkUri [] [] [] false [42] [] fragd) else
      match get_scheme u 0 [] u with
      | PErr => PErr
      | PUnsupported => PUnsupported
      | POk (scheme0, rest0) =>
          let scheme := map to_lower scheme0 in
          let '(rest, query) := match cut_at 63 rest0 [] with Some (a, b) => (a, b) | None => (rest0, []) end in
          if (match cut_at 63 rest0 [] with Some (_, []) => true | _ => false end) then PUnsupported (* ForceQuery *)
          else if negb (forallb safe_query_char query) then PUnsupported
          else
          let starts_slash := match rest with c :: _ => N.eqb c 47 | [] => false end in
          if negb starts_slash && nonemptyb scheme then
            (if forallb safe_path_char rest then POk (mkUri scheme rest [] false [] query fragd) else PUnsupported)
          else if negb starts_slash &&
                  existsb (N.eqb 58) (match cut_at 47 rest [] with Some (a, _) => a | None => rest end)
          then PErr
          else
          let triple := match rest with a :: b :: c :: _ => N.eqb a 47 && N.eqb b 47 && N.eqb c 47 | _ => false end in
          if (nonemptyb scheme || negb triple) && has_prefix2 47 47 rest then
            let auth0 := skipn 2 rest in
            let '(auth, path) := match cut_at 47 auth0 [] with Some (a, b) => (a, 47 :: b) | None => (auth0, []) end in
            (* host[:port]: the text after the last colon must be digits *)
            let port_ok := match last_index 58 auth 0 None with
                           | Some i => forallb is_dig (skipn (S i) auth)
                           | None => true
                           end in
            if negb (forallb (fun c => safe_host_char c || N.eqb c 58) auth && forallb safe_path_char path)
            then PUnsupported
            else if negb port_ok then PErr
            else POk (mkUri scheme [] auth false path query fragd)
          else
            if forallb safe_path_char rest
            then POk (mkUri scheme [] [] (nonemptyb scheme && starts_slash) rest query fragd)
            else PUnsupported
      end
  end.

(** resolvePath *)
Fixpoint split_on (c : N) (s : str) (cur : str) : list str :=
  match s with
  | [] => [rev cur]
  | x :: r => if N.eqb x c then rev cur :: split_on c r [] else split_on c r (x :: cur)
  end.

Definition dotdot : str := [46; 46].
Definition dot : str := [46].

Fixpoint resolve_elems (elems : list str) (dst : str) (first : bool) : str :=
  match elems with
  | [] => dst
  | e :: r =>
      if str_eqb e dot then resolve_elems r dst false
      else if str_eqb e dotdot then
        let s := tl dst in
        match last_index 47 s 0 None with
        | None => resolve_elems r [47] true
        | Some i => resolve_elems r (47 :: firstn i s) first
        end
      else resolve_elems r ((if first then dst else dst ++ [47]) ++ e) false
  end.

Definition resolvePath (base ref : str) : str :=
  let full :=
    match ref with
    | [] => base
    | c :: _ =>
        if N.eqb c 47 then ref
        else match last_index 47 base 0 None with
             | Some i => firstn (S i) base ++ ref
             | None => ref
             end
    end in
  match full with
  | [] => []
  | _ =>
      let elems := split_on 47 full [] in
      let dst := resolve_elems elems [47] true in
      let lastE := last elems [] in
      let dst := if str_eqb lastE dot || str_eqb lastE dotdot then dst ++ [47] else dst in
      match dst with
      | _ :: 47 :: _ => tl dst
      | _ => dst
      end
  end.

(** URL.ResolveReference *)
Definition resolve_reference (u ref : uri) : uri :=
  let scheme := match u_scheme ref with [] => u_scheme u | s => s end in
  if nonemptyb (u_scheme ref) || nonemptyb (u_host ref) then
    mkUri scheme (u_opaque ref) (u_host ref) (u_omithost ref) (resolvePath (u_path ref) []) (u_query ref) (u_frag ref)
  else if nonemptyb (u_opaque ref) then
    mkUri scheme (u_opaque ref) [] (u_omithost ref) [] (u_query ref) (u_frag ref)
  else
    let inherit := negb (nonemptyb (u_path ref)) && negb (nonemptyb (u_query ref)) in
    let query := if inherit then u_query u else u_query ref in
    let frag := if inherit && negb (nonemptyb (u_frag ref)) then u_frag u else u_frag ref in
    if negb (nonemptyb (u_path ref)) && nonemptyb (u_opaque u) then
      mkUri scheme (u_opaque u) [] (u_omithost ref) [] query frag
    else
      mkUri scheme [] (u_host u) (u_omithost ref) (resolvePath (u_path u) (u_path ref)) query frag.

(** URL.String for a URL whose Fragment is empty *)
Definition uri_string (u : uri) : str :=
  let pre := match u_scheme u with [] => [] | s => s ++ [58] end in
  (if nonemptyb (u_opaque u) then pre ++ u_opaque u
   else
     let auth :=
       if nonemptyb (u_scheme u) || nonemptyb (u_host u) then
         if u_omithost u && negb (nonemptyb (u_host u)) then []
         else (if nonemptyb (u_host u) || nonemptyb (u_path u) then [47; 47] else []) ++ u_host u
       else [] in
     let buf := pre ++ auth in
     let path := u_path u in
     let buf := match path with
                | c :: _ => if negb (N.eqb c 47) && nonemptyb (u_host u) then buf ++ [47] else buf
                | [] => buf
                end in
     let buf := match buf with
                | [] =>
                    if existsb (N.eqb 58) (match cut_at 47 path [] with Some (a, _) => a | None => path end)
                    then [46; 47] else []
                | _ => buf
                end in
     buf ++ path)
  ++ (match u_query u with [] => [] | q => 63 :: q end).

Definition is_abs (u : uri) : bool := nonemptyb (u_scheme u).
Definition drop_frag (u : uri) : uri :=
  mkUri (u_scheme u) (u_opaque u) (u_host u) (u_omithost u) (u_path u) (u_query u) [].
