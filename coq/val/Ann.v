(** annotations.go *)
From Coq Require Import List NArith ZArith Bool.
From JS Require Import Str.
Import ListNotations.
Open Scope list_scope.

Record anns := mkAnns {
  allItems : bool;              (* all items were evaluated *)
  endIndex : nat;               (* 1+largest index evaluated by prefixItems *)
  evalIdx : list nat;           (* evaluatedIndexes: set of indexes evaluated by contains *)
  allProps : bool;              (* allProperties *)
  evalProps : list str          (* evaluatedProperties *)
}.

Definition no_anns : anns := mkAnns false 0 [] false [].

Definition noteIndex (i : nat) (a : anns) : anns :=
  mkAnns (allItems a) (endIndex a) (i :: evalIdx a) (allProps a) (evalProps a).
Definition noteEndIndex (n : nat) (a : anns) : anns :=
  mkAnns (allItems a) (Nat.max n (endIndex a)) (evalIdx a) (allProps a) (evalProps a).
Definition noteProperties (ps : list str) (a : anns) : anns :=
  mkAnns (allItems a) (endIndex a) (evalIdx a) (allProps a) (ps ++ evalProps a).
Definition setAllItems (a : anns) : anns :=
  mkAnns true (endIndex a) (evalIdx a) (allProps a) (evalProps a).
Definition setAllProps (a : anns) : anns :=
  mkAnns (allItems a) (endIndex a) (evalIdx a) true (evalProps a).

(** a.merge(b) *)
Definition merge (a b : anns) : anns :=
  mkAnns (allItems a || allItems b) (Nat.max (endIndex a) (endIndex b)) (evalIdx b ++ evalIdx a)
         (allProps a || allProps b) (evalProps b ++ evalProps a).

