(** C10: Resolved.Validate does not recurse without bound.  Over an environment whose in-place
    calls (the $ref / $dynamicRef targets and the subschemas under allOf, anyOf, oneOf, not,
    if / then / else, dependentSchemas / dependencies) strictly decrease a rank - "schema recursion
    passes through an instance-descending keyword" - a recursion budget of
    (size of the instance + 1) * (largest rank + 1) suffices: the evaluator never runs out of it. *)
From Coq Require Import List NArith ZArith QArith Bool Lia.
From JS Require Import Str StrFacts Lit Json Res GoValue Equal Hash Schema ChildFacts Env Ann Validate NoPanic.
Import ListNotations.
Open Scope list_scope.
Local Open Scope nat_scope.

Definition Term {A} (r : res A) : Prop := r <> OutOfFuel.

Lemma term_bind {A B} (r : res A) (k : A -> res B) : Term r -> (forall a, r = Ok a -> Term (k a)) -> Term (bind r k).
Proof. unfold Term. intros Hr Hk. destruct r; cbn; auto; discriminate. Qed.
Lemma term_attempt {A B} (r : res A) (k : A -> res B) (el : res B) :
  Term r -> (forall a, Term (k a)) -> Term el -> Term (attempt r k el).
Proof. unfold Term. intros Hr Hk He. destruct r; cbn; auto; discriminate. Qed.
Lemma term_guard b : Term (guard b).
Proof. unfold Term, guard. destruct b; discriminate. Qed.
Lemma term_ok {A} (a : A) : Term (Ok a). Proof. discriminate. Qed.
Lemma term_err {A} : Term (@Err A). Proof. discriminate. Qed.
Lemma term_panic {A} : Term (@Panic A). Proof. discriminate. Qed.

(** the size of a Go value: members count their names *)
Fixpoint gsize (g : gv) : nat :=
  match g with
  | GArr l => S ((fix go (l : list gv) : nat := match l with [] => 0 | x :: r => gsize x + go r end) l)
  | GMap m => S ((fix go (m : list (str * gv)) : nat := match m with [] => 0 | (_, x) :: r => 2 + gsize x + go r end) m)
  | GInd v => S (gsize v)
  | _ => 1
  end.

Lemma gsize_arr x l : In x l -> gsize x < gsize (GArr l).
Proof.
  cbn [gsize]. induction l as [|y r IH]; intros H; [contradiction|].
  destruct H as [->|H]; [lia|]. apply IH in H. lia.
Qed.
Lemma gsize_map_val k v m : In (k, v) m -> gsize v < gsize (GMap m).
Proof.
  cbn [gsize]. induction m as [|[k' y] r IH]; intros H; [contradiction|].
  destruct H as [[= -> ->]|H]; [lia|]. apply IH in H. lia.
Qed.
Lemma gsize_map_key k v m : In (k, v) m -> gsize (GStr k) < gsize (GMap m).
Proof.
  cbn [gsize]. induction m as [|[k' y] r IH]; intros H; [contradiction|].
  destruct H as [[= -> ->]|H]; [lia|]. apply IH in H. lia.
Qed.
Lemma gsize_strip g : gsize (strip g) <= gsize g.
Proof. induction g; cbn [strip gsize]; try lia. Qed.
Lemma gsize_pos g : 1 <= gsize g.
Proof. destruct g; cbn [gsize]; lia. Qed.

Section Loops.
  Variable re_match : str -> str -> bool.
  Variable v : vfun.
  Variable Q : gv -> loc -> schema -> Prop.
  Hypothesis Hv : forall x l c, Q x l c -> Term (v x l c).

  Lemma term_all_merge inst : forall cs a, (forall l c, In (l, c) cs -> Q inst l c) -> Term (all_merge v inst cs a).
  Proof.
    induction cs as [|[l c] r IH]; intros a H; cbn [all_merge]; [apply term_ok|].
    apply term_bind; [apply Hv, H; now left|]. intros a' _. apply IH. intros l0 c0 Hin. apply H. now right.
  Qed.
  Lemma term_each_item l c : forall items, (forall x, In x items -> Q x l c) -> Term (each_item v items l c).
  Proof.
    induction items as [|x r IH]; intros H; cbn [each_item]; [apply term_ok|].
    apply term_bind; [apply Hv, H; now left|]. intros _ _. apply IH. intros y Hy. apply H. now right.
  Qed.
  Lemma term_zip_items : forall items cs, (forall x l c, In x items -> In (l, c) cs -> Q x l c) -> Term (zip_items v items cs).
  Proof.
    induction items as [|x r IH]; intros cs H; cbn [zip_items]; [apply term_ok|].
    destruct cs as [|[l c] cr]; [apply term_ok|].
    apply term_bind; [apply Hv, H; now left|]. intros _ _. apply IH. intros y l0 c0 Hy Hin. apply H; now right.
  Qed.
  Lemma term_contains_loop l c : forall items i n a, (forall x, In x items -> Q x l c) -> Term (contains_loop v i items l c n a).
  Proof.
    induction items as [|x r IH]; intros i n a H; cbn [contains_loop]; [apply term_ok|].
    assert (Hr : forall y, In y r -> Q y l c) by (intros y Hy; apply H; now right).
    apply term_attempt; [apply Hv, H; now left|intros _; now apply IH|now apply IH].
  Qed.
  Lemma term_uneval_items l c a : forall items i, (forall x, In x items -> Q x l c) -> Term (uneval_items v i items l c a).
  Proof.
    induction items as [|x r IH]; intros i H; cbn [uneval_items]; [apply term_ok|].
    apply term_bind; [|intros _ _; apply IH; intros y Hy; apply H; now right].
    destruct (_ && _); [|apply term_ok]. apply term_bind; [apply Hv, H; now left|intros; apply term_ok].
  Qed.
  Lemma term_props_loop m : forall ps ev, (forall k l c val, In (k, (l, c)) ps -> lookup k m = Some val -> Q val l c) -> Term (props_loop v m ps ev).
  Proof.
    induction ps as [|[k [l c]] r IH]; intros ev H; cbn [props_loop]; [apply term_ok|].
    assert (Hr : forall k0 l0 c0 val, In (k0, (l0, c0)) r -> lookup k0 m = Some val -> Q val l0 c0) by (intros k0 l0 c0 val Hin; eapply H; right; exact Hin).
    destruct (lookup k m) as [val|] eqn:El; [|now apply IH].
    apply term_bind; [eapply Hv, H; [now left|exact El]|]. intros _ _. now apply IH.
  Qed.
  Lemma term_pattern_inner k val : forall ps ev, (forall p l c, In (p, (l, c)) ps -> Q val l c) -> Term (pattern_inner re_match v k val ps ev).
  Proof.
    induction ps as [|[p [l c]] r IH]; intros ev H; cbn [pattern_inner]; [apply term_ok|].
    assert (Hr : forall k0 l0 c0, In (k0, (l0, c0)) r -> Q val l0 c0) by (intros k0 l0 c0 Hin; eapply H; right; exact Hin).
    destruct (re_match p k); [|now apply IH].
    apply term_bind; [eapply Hv, H; now left|]. intros _ _. now apply IH.
  Qed.
  Lemma term_pattern_loop ps : forall m ev, (forall k val p l c, In (k, val) m -> In (p, (l, c)) ps -> Q val l c) -> Term (pattern_loop re_match v m ps ev).
  Proof.
    induction m as [|[k val] r IH]; intros ev H; cbn [pattern_loop]; [apply term_ok|].
    apply term_bind; [apply term_pattern_inner; intros p l c Hin; eapply H; [now left|exact Hin]|].
    intros ev' _. apply IH. intros k0 val0 p l c Hm Hp. eapply H; [right; exact Hm|exact Hp].
  Qed.
  Lemma term_additional_loop l c : forall m ev, (forall k val, In (k, val) m -> Q val l c) -> Term (additional_loop v m l c ev).
  Proof.
    induction m as [|[k val] r IH]; intros ev H; cbn [additional_loop]; [apply term_ok|].
    assert (Hr : forall k0 val0, In (k0, val0) r -> Q val0 l c) by (intros k0 val0 Hin; eapply H; right; exact Hin).
    destruct (mem_str k ev); [now apply IH|]. apply term_bind; [eapply Hv, H; now left|]. intros _ _. now apply IH.
  Qed.
  Lemma term_names_loop l c : forall m, (forall k val, In (k, val) m -> Q (GStr k) l c) -> Term (names_loop v m l c).
  Proof.
    induction m as [|[k val] r IH]; intros H; cbn [names_loop]; [apply term_ok|].
    apply term_bind; [eapply Hv, H; now left|]. intros _ _. apply IH. intros k0 val0 Hin. eapply H. right. exact Hin.
  Qed.
  Lemma term_dep_required m : forall d, Term (dep_required m d).
  Proof.
    induction d as [|[k reqs] r IH]; cbn [dep_required]; [apply term_ok|].
    apply term_bind; [|intros _ _; exact IH]. destruct (is_some _); [apply term_guard|apply term_ok].
  Qed.
  Lemma term_dep_schemas inst m : forall d a, (forall k l c, In (k, (l, c)) d -> Q inst l c) -> Term (dep_schemas v inst m d a).
  Proof.
    induction d as [|[k [l c]] r IH]; intros a H; cbn [dep_schemas]; [apply term_ok|].
    assert (Hr : forall k0 l0 c0, In (k0, (l0, c0)) r -> Q inst l0 c0) by (intros k0 l0 c0 Hin; eapply H; right; exact Hin).
    destruct (is_some _); [|now apply IH].
    apply term_bind; [eapply Hv, H; now left|]. intros a' _. now apply IH.
  Qed.
  Lemma term_uneval_props l c a : forall m, (forall k val, In (k, val) m -> Q val l c) -> Term (uneval_props v m l c a).
  Proof.
    induction m as [|[k val] r IH]; intros H; cbn [uneval_props]; [apply term_ok|].
    apply term_bind; [|intros _ _; apply IH; intros k0 val0 Hin; eapply H; right; exact Hin].
    destruct (mem_str _ _); [apply term_ok|]. apply term_bind; [eapply Hv, H; now left|intros; apply term_ok].
  Qed.
  Lemma term_anyof_loop inst : forall cs a n, (forall l c, In (l, c) cs -> Q inst l c) -> Term (anyof_loop v inst cs a n).
  Proof.
    induction cs as [|[l c] r IH]; intros a n H; cbn [anyof_loop]; [apply term_ok|].
    assert (Hr : forall l0 c0, In (l0, c0) r -> Q inst l0 c0) by (intros l0 c0 Hin; apply H; now right).
    apply term_attempt; [apply Hv, H; now left|intros a'; now apply IH|now apply IH].
  Qed.
  Lemma term_oneof_loop inst : forall cs a seen, (forall l c, In (l, c) cs -> Q inst l c) -> Term (oneof_loop v inst cs a seen).
  Proof.
    induction cs as [|[l c] r IH]; intros a seen H; cbn [oneof_loop]; [apply term_ok|].
    assert (Hr : forall l0 c0, In (l0, c0) r -> Q inst l0 c0) by (intros l0 c0 Hin; apply H; now right).
    apply term_attempt; [apply Hv, H; now left| |now apply IH].
    intros a'. destruct seen; [apply term_err|now apply IH].
  Qed.
End Loops.

Lemma In_skipn' {A} (x : A) : forall n l, In x (skipn n l) -> In x l.
Proof. induction n as [|n IH]; intros [|y r] H; cbn [skipn] in H; auto. right. now apply IH. Qed.

Definition inplace_key (q : list seg) : bool :=
  match q with
  | SKey k :: _ => mem_str k [lit "allOf"%lit; lit "anyOf"%lit; lit "oneOf"%lit; lit "not"%lit; lit "if"%lit; lit "then"%lit;
                              lit "else"%lit; lit "dependentSchemas"%lit; lit "dependencies"%lit]
  | _ => false
  end.

Section Terminates.
  Variable re_match : str -> str -> bool.
  Variable hash : list tok -> Z.
  Variable e : env.
  Hypothesis OK : EnvOK e.
  Variable rk : loc -> nat.
  Variable R : nat.

  (** in-place calls decrease the rank; ranks are bounded *)
  Record RankOK : Prop := {
    rk_bound : forall l s, Node e l s -> rk l <= R;
    rk_child : forall l s q c, Node e l s -> In (q, c) (children s) -> inplace_key q = true -> rk (child_loc l q) < rk l;
    rk_ref : forall l s i t, Node e l s -> info_at e l = Some i -> nonempty (s_ref s) = true -> ri_ref i = Some t -> rk t < rk l;
    rk_dyn : forall l s i t0, Node e l s -> info_at e l = Some i -> nonempty (s_dynamicRef s) = true -> ri_dynref i = Some t0 ->
               rk t0 < rk l /\ forall l2 i2 t, info_at e l2 = Some i2 -> lookup (ri_dynanchor i) (ri_anchors i2) = Some (t, true) -> rk t < rk l
  }.
  Hypothesis RK : RankOK.

  Lemma dyn_lookup_anchor name : forall stack t, dyn_lookup e stack name = Ok (Some t) ->
    exists l2 i2, info_at e l2 = Some i2 /\ lookup name (ri_anchors i2) = Some (t, true).
  Proof.
    induction stack as [|x r IH]; intros t H; cbn [dyn_lookup] in H; [discriminate|].
    destruct (info_at e x) as [si|]; [|discriminate].
    destruct (info_at e (ri_base si)) as [bi|] eqn:Eb; [|discriminate].
    destruct (lookup name (ri_anchors bi)) as [[t1 [|]]|] eqn:El; try (now apply IH).
    injection H as <-. eauto.
  Qed.
  Lemma term_dyn_lookup name : forall stack, Term (dyn_lookup e stack name).
  Proof.
    induction stack as [|x r IH]; cbn [dyn_lookup]; [apply term_ok|].
    destruct (info_at e x) as [si|]; [|apply term_panic].
    destruct (info_at e (ri_base si)) as [bi|]; [|apply term_panic].
    destruct (lookup name (ri_anchors bi)) as [[t1 [|]]|]; try exact IH. apply term_ok.
  Qed.

  Section Body.
    Variable v : vfun.
    Variables (inst : gv) (l : loc) (s : schema).
    Hypothesis Hs : Node e l s.
    Definition Q (x : gv) (l' : loc) (c' : schema) : Prop :=
      Node e l' c' /\ ((x = inst /\ rk l' < rk l) \/ gsize x < gsize inst).
    Hypothesis Hv : forall x l' c', Q x l' c' -> Term (v x l' c').

    Let child q c (H : In (q, c) (children s)) : Node e (child_loc l q) c := ok_closed e OK l s q c Hs H.

    (* an in-place child *)
    Lemma Q_inplace q c : In (q, c) (children s) -> inplace_key q = true -> Q inst (child_loc l q) c.
    Proof. intros H Hk. split; [now apply child|]. left. split; [reflexivity|]. eapply rk_child; eauto. Qed.
    (* a child applied to a part of the instance *)
    Lemma Q_desc x q c : In (q, c) (children s) -> gsize x < gsize inst -> Q x (child_loc l q) c.
    Proof. intros H Hx. split; [now apply child|]. now right. Qed.

    Lemma term_call_at t : rk t < rk l -> Term (call_at e v inst t).
    Proof.
      intros Hr. unfold call_at. destruct (node_at e t) as [c|] eqn:En; [|apply term_panic].
      apply Hv. split; [exact En|]. left. auto.
    Qed.

    Lemma term_arrays_phase items a0 : inst = GArr items -> Term (arrays_phase hash e v l s items a0).
    Proof.
      intros Ei. assert (Hsub : forall x, In x items -> gsize x < gsize inst) by (intros x Hx; rewrite Ei; now apply gsize_arr).
      unfold arrays_phase. apply term_bind.
      { unfold items_part. destruct (e_draft7 e).
        - destruct (s_itemsArray s) as [ia|] eqn:Eia.
          + apply term_bind.
            * apply (term_zip_items v Q Hv). intros x l0 c0 Hx Hin. apply list_locs_In in Hin as (i & -> & Hn).
              apply Q_desc; [eapply ch_itemsArray; eauto|now apply Hsub].
            * intros _ _. destruct (s_additionalItems s) as [ai|] eqn:Eai; [|apply term_ok].
              apply term_bind; [|intros; apply term_ok]. apply (term_each_item v Q Hv). intros x Hx.
              apply Q_desc; [now apply ch_additionalItems|]. apply Hsub. eapply In_skipn'; eauto.
          + destruct (s_items s) as [it|] eqn:Eit; [|apply term_ok].
            apply term_bind; [|intros; apply term_ok]. apply (term_each_item v Q Hv). intros x Hx.
            apply Q_desc; [now apply ch_items|now apply Hsub].
        - apply term_bind.
          + apply (term_zip_items v Q Hv). intros x l0 c0 Hx Hin. apply list_locs_In in Hin as (i & -> & Hn).
            unfold opt_list in Hn. destruct (s_prefixItems s) as [pi|] eqn:Epi; [|destruct i; discriminate].
            apply Q_desc; [eapply ch_prefixItems; eauto|now apply Hsub].
          + intros _ _. destruct (s_items s) as [it|] eqn:Eit; [|apply term_ok].
            apply term_bind; [|intros; apply term_ok]. apply (term_each_item v Q Hv). intros x Hx.
            apply Q_desc; [now apply ch_items|]. apply Hsub. eapply In_skipn'; eauto. }
      intros a1 _. apply term_bind.
      { unfold contains_part. destruct (s_contains s) as [c|] eqn:Ec; [|apply term_ok].
        apply term_bind; [apply (term_contains_loop v Q Hv); intros x Hx; apply Q_desc; [now apply ch_contains|now apply Hsub]|].
        intros na _. destruct (_ && _); [apply term_err|apply term_ok]. }
      intros na _. apply term_bind.
      { unfold array_counts, check_unique.
        repeat (apply term_bind; [|intros _ _]);
          repeat match goal with
                 | |- Term (match ?x with Some _ => _ | None => _ end) => destruct x
                 | |- Term (if ?b then _ else _) => destruct b
                 end; first [apply term_guard|apply term_ok]. }
      intros _ _. unfold uneval_items_part. destruct (s_unevaluatedItems s) as [u|] eqn:Eu; [|apply term_ok].
      destruct (allItems (snd na)); [apply term_ok|]. apply term_bind; [|intros; apply term_ok].
      apply (term_uneval_items v Q Hv). intros x Hx. apply Q_desc; [now apply ch_unevaluatedItems|now apply Hsub].
    Qed.

    Lemma term_objects_phase m a0 : inst = GMap m -> Term (objects_phase re_match e v l s (GMap m) m a0).
    Proof.
      intros Ei. rewrite <- Ei.
      assert (Hval : forall k x, In (k, x) m -> gsize x < gsize inst) by (intros k x Hx; rewrite Ei; eapply gsize_map_val; eauto).
      assert (Hkey : forall k x, In (k, x) m -> gsize (GStr k) < gsize inst) by (intros k x Hx; rewrite Ei; eapply gsize_map_key; eauto).
      unfold objects_phase. apply term_bind.
      { unfold props_part. apply term_bind.
        - apply (term_props_loop v Q Hv). intros k l0 c0 val Hin Hl. apply map_locs_In in Hin as [-> Hin].
          unfold opt_list in Hin. destruct (s_properties s) as [pm|] eqn:Ep; [|contradiction].
          apply Q_desc; [eapply ch_properties; eauto|]. eapply Hval. eapply lookup_In; eauto.
        - intros ev1 _. apply term_bind.
          + destruct (s_patternProperties s) as [[|p0 pp]|] eqn:Ep; try apply term_ok.
            apply (term_pattern_loop re_match v Q Hv). intros k val p l0 c0 Hm Hin. apply map_locs_In in Hin as [-> Hin].
            apply Q_desc; [eapply ch_patternProperties; eauto|eapply Hval; eauto].
          + intros ev2 _. destruct (s_additionalProperties s) as [ap|] eqn:Ea; [|apply term_ok].
            destruct (_ && _).
            * destruct (forallb _ _); [apply term_ok|apply term_err].
            * apply (term_additional_loop v Q Hv). intros k val Hin. apply Q_desc; [now apply ch_additionalProperties|eapply Hval; eauto]. }
      intros ev3 _. apply term_bind.
      { unfold object_counts. apply term_bind.
        - destruct (s_propertyNames s) as [pn|] eqn:Ep; [|apply term_ok].
          apply (term_names_loop v Q Hv). intros k val Hin. apply Q_desc; [now apply ch_propertyNames|eapply Hkey; eauto].
        - intros _ _.
          repeat (apply term_bind; [|intros _ _]);
            repeat match goal with |- Term (match ?x with Some _ => _ | None => _ end) => destruct x end;
            first [apply term_guard|apply term_ok]. }
      intros _ _. apply term_bind.
      { unfold deps_part. destruct (e_draft7 e); (apply term_bind; [apply term_dep_required|intros _ _]);
          apply (term_dep_schemas v Q Hv); intros k l0 c0 Hin; apply map_locs_In in Hin as [-> Hin]; unfold opt_list in Hin.
        - destruct (s_dependencySchemas s) as [dm|] eqn:Ed; [|contradiction]. apply Q_inplace; [eapply ch_dependencySchemas; eauto|reflexivity].
        - destruct (s_dependentSchemas s) as [dm|] eqn:Ed; [|contradiction]. apply Q_inplace; [eapply ch_dependentSchemas; eauto|reflexivity]. }
      intros a2 _. unfold uneval_props_part. destruct (s_unevaluatedProperties s) as [u|] eqn:Eu; [|apply term_ok].
      destruct (allProps a2); [apply term_ok|]. apply term_bind; [|intros; apply term_ok].
      apply (term_uneval_props v Q Hv). intros k val Hin. apply Q_desc; [now apply ch_unevaluatedProperties|eapply Hval; eauto].
    Qed.

    Lemma term_checks :
      Term (check_type s inst) /\ Term (check_enum s inst) /\ Term (check_const s inst) /\
      Term (check_numbers s inst) /\ Term (check_strings re_match s inst).
    Proof.
      unfold check_type, check_enum, check_const, check_numbers, check_strings.
      repeat split.
      - destruct (_ || _); [|apply term_ok]. destruct (jsonType inst); [|apply term_err].
        destruct (nonempty (s_type s)); apply term_guard.
      - destruct (s_enum s); [apply term_guard|apply term_ok].
      - destruct (s_const s); [apply term_guard|apply term_ok].
      - destruct (_ || _); [|apply term_ok]. destruct (jsonNumber inst); [|apply term_ok].
        repeat (apply term_bind; [|intros _ _]);
          match goal with |- Term (match ?x with Some _ => _ | None => _ end) => destruct x end;
          first [apply term_guard|apply term_ok].
      - destruct inst; try apply term_ok.
        repeat (apply term_bind; [|intros _ _]);
          repeat match goal with
                 | |- Term (match ?x with Some _ => _ | None => _ end) => destruct x
                 | |- Term (if ?b then _ else _) => destruct b
                 end; first [apply term_guard|apply term_ok].
    Qed.

    Lemma term_validate_body stack : Term (validate_body re_match hash e v stack inst l s).
    Proof.
      unfold validate_body.
      destruct term_checks as (Ht & Hen & Hco & Hnu & Hstr).
      destruct (info_at e l) as [i|] eqn:Hi.
      2:{ (* no info: the model panics where it needs one, and terminates *)
        apply term_bind; [destruct (nonempty (s_ref s)); [apply term_panic|apply term_ok]|].
        intros r1 _. destruct (snd r1); [apply term_ok|].
        repeat (apply term_bind; [assumption|intros _ _]).
        destruct (ok_info e OK l s Hs) as (i & Hi' & _). congruence. }
      apply term_bind.
      { destruct (nonempty (s_ref s)) eqn:Enr; [|apply term_ok].
        destruct (ri_ref i) as [t|] eqn:Et; [|apply term_panic].
        apply term_bind; [|intros; apply term_ok]. apply term_call_at. eapply rk_ref; eauto. }
      intros r1 _. destruct (snd r1); [apply term_ok|].
      apply term_bind; [exact Ht|intros _ _].
      apply term_bind; [exact Hen|intros _ _].
      apply term_bind; [exact Hco|intros _ _].
      apply term_bind; [exact Hnu|intros _ _].
      apply term_bind; [exact Hstr|intros _ _].
      apply term_bind.
      { destruct (nonempty (s_dynamicRef s)) eqn:End; [|apply term_ok].
        destruct (ri_dynref i) as [t0|] eqn:Et0; [|apply term_panic].
        destruct (rk_dyn RK l s i t0 Hs Hi End Et0) as [Hr0 Hrd].
        destruct (nonempty (ri_dynanchor i)).
        - apply term_bind.
          + apply term_bind; [apply term_dyn_lookup|intros; apply term_ok].
          + intros t Et. apply term_bind; [|intros; apply term_ok]. apply term_call_at.
            destruct (dyn_lookup e stack (ri_dynanchor i)) as [[d|]| | |] eqn:Ed; cbn [bind] in Et; try discriminate;
              injection Et as <-; [|exact Hr0].
            destruct (dyn_lookup_anchor _ _ _ Ed) as (l2 & i2 & Hi2 & Hl2). eapply Hrd; eauto.
        - apply term_bind; [apply term_ok|]. intros t [= <-].
          apply term_bind; [now apply term_call_at|intros; apply term_ok]. }
      intros a2 _.
      apply term_bind.
      { destruct (s_allOf s) as [cs|] eqn:E; [|apply term_ok].
        apply (term_all_merge v Q Hv). intros l0 c0 Hin. apply list_locs_In in Hin as (k & -> & Hn).
        apply Q_inplace; [eapply ch_allOf; eauto|reflexivity]. }
      intros a3 _.
      apply term_bind.
      { destruct (s_anyOf s) as [cs|] eqn:E; [|apply term_ok].
        apply term_bind.
        - apply (term_anyof_loop v Q Hv). intros l0 c0 Hin. apply list_locs_In in Hin as (k & -> & Hn).
          apply Q_inplace; [eapply ch_anyOf; eauto|reflexivity].
        - intros na _. destruct (Nat.eqb _ _); [apply term_err|apply term_ok]. }
      intros a4 _.
      apply term_bind.
      { destruct (s_oneOf s) as [cs|] eqn:E; [|apply term_ok].
        apply term_bind.
        - apply (term_oneof_loop v Q Hv). intros l0 c0 Hin. apply list_locs_In in Hin as (k & -> & Hn).
          apply Q_inplace; [eapply ch_oneOf; eauto|reflexivity].
        - intros ba _. destruct (fst ba); [apply term_ok|apply term_err]. }
      intros a5 _.
      apply term_bind.
      { destruct (s_not s) as [c|] eqn:E; [|apply term_ok].
        apply term_attempt; [apply Hv, Q_inplace; [now apply ch_not|reflexivity]|intros; apply term_err|apply term_ok]. }
      intros _ _.
      apply term_bind.
      { destruct (s_if s) as [c|] eqn:E; [|apply term_ok].
        apply term_attempt; [apply Hv, Q_inplace; [now apply ch_if|reflexivity]| |].
        - intros a'. destruct (s_then s) as [t|] eqn:Et; [|apply term_ok].
          apply term_bind; [apply Hv, Q_inplace; [now apply ch_then|reflexivity]|intros; apply term_ok].
        - destruct (s_else s) as [t|] eqn:Et; [|apply term_ok].
          apply term_bind; [apply Hv, Q_inplace; [now apply ch_else|reflexivity]|intros; apply term_ok]. }
      intros a6 _.
      apply term_bind.
      { destruct inst eqn:Ei; try apply term_ok. now apply term_arrays_phase. }
      intros a7 _. destruct inst eqn:Ei; try apply term_ok. now apply term_objects_phase.
    Qed.
  End Body.

  (** the budget that suffices: (size of the instance) * (R + 1) + rank of the schema, plus one *)
  Theorem validate_terminates : forall fuel stack inst l s,
    Node e l s -> gsize inst * (R + 1) + rk l < fuel ->
    Term (validate re_match hash fuel e stack inst l s).
  Proof.
    induction fuel as [|n IH]; intros stack inst l s Hs Hf; [lia|]. cbn [validate].
    apply (term_validate_body (validate re_match hash n e (stack ++ [l])) (strip inst) l s Hs).
    intros x l' c' [Hn [[-> Hr]|Hx]].
    - apply IH; [exact Hn|]. pose proof (gsize_strip inst). nia.
    - apply IH; [exact Hn|]. pose proof (gsize_strip inst). pose proof (rk_bound RK l' c' Hn). nia.
  Qed.

  Theorem Validate_terminates fuel inst :
    gsize inst * (R + 1) + R < fuel -> Validate re_match hash fuel e inst <> OutOfFuel.
  Proof.
    intros Hf. unfold Validate. destruct (isValidSchemaVersion _); [|discriminate].
    destruct (node_at e (0%nat, [])) as [root|] eqn:Hr; [|discriminate].
    assert (H : Term (validate re_match hash fuel e [] inst (0%nat, []) root)).
    { apply validate_terminates; [exact Hr|]. pose proof (rk_bound RK _ _ Hr). lia. }
    destruct (validate _ _ _ _ _ _ _ _); cbn; try discriminate. now contradiction H.
  Qed.
End Terminates.

(** * a computable check of the rank condition, for concrete environments *)
Definition rank_okb (e : env) (rk : loc -> nat) (R : nat) : bool :=
  forallb (fun ls : loc * schema =>
    let l := fst ls in let s := snd ls in
    Nat.leb (rk l) R &&
    forallb (fun qc : list seg * schema => negb (inplace_key (fst qc)) || Nat.ltb (rk (child_loc l (fst qc))) (rk l)) (children s) &&
    match info_at e l with
    | None => true
    | Some i =>
        (negb (nonempty (s_ref s)) || match ri_ref i with Some t => Nat.ltb (rk t) (rk l) | None => true end) &&
        (negb (nonempty (s_dynamicRef s)) ||
         match ri_dynref i with
         | Some t0 =>
             Nat.ltb (rk t0) (rk l) &&
             forallb (fun li : loc * rinfo =>
                        match lookup (ri_dynanchor i) (ri_anchors (snd li)) with
                        | Some (t, true) => Nat.ltb (rk t) (rk l)
                        | _ => true
                        end) (e_infos e)
         | None => true
         end)
    end) (e_nodes e).

Lemma lookup_loc_In' {A} l : forall (t : list (loc * A)) v, lookup_loc l t = Some v -> exists l', loc_eqb l l' = true /\ In (l', v) t.
Proof.
  induction t as [|[l' x] r IH]; intros v H; [discriminate|]. cbn [lookup_loc] in H.
  destruct (loc_eqb l l') eqn:E; [injection H as <-; exists l'; split; [exact E|now left]|].
  destruct (IH v H) as (l2 & E2 & Hin). exists l2. split; [exact E2|now right].
Qed.
Lemma loc_eqb_eq' a b : loc_eqb a b = true -> a = b.
Proof.
  destruct a as [d p], b as [d' p']. unfold loc_eqb. cbn [fst snd]. intros H. apply andb_true_iff in H as [H1 H2].
  apply Nat.eqb_eq in H1. subst d'. f_equal.
  revert p' H2. induction p as [|x r IH]; intros [|y r'] H; cbn [path_eqb] in H; try discriminate; [reflexivity|].
  apply andb_true_iff in H as [Hx Hr]. f_equal; [|now apply IH].
  destruct x, y; cbn [seg_eqb] in Hx; try discriminate; [apply str_eqb_eq in Hx|apply Nat.eqb_eq in Hx]; now subst.
Qed.

Theorem rank_okb_sound e rk R : rank_okb e rk R = true -> RankOK e rk R.
Proof.
  intros H. unfold rank_okb in H. rewrite forallb_forall in H.
  assert (Hnode : forall l s, Node e l s -> In (l, s) (e_nodes e)).
  { intros l s Hn. unfold Node, node_at in Hn. apply lookup_loc_In' in Hn as (l' & E & Hin). apply loc_eqb_eq' in E. now subst. }
  constructor.
  - intros l s Hn. specialize (H _ (Hnode l s Hn)). cbn [fst snd] in H.
    apply andb_true_iff in H as [H _]. apply andb_true_iff in H as [H _]. now apply Nat.leb_le.
  - intros l s q c Hn Hc Hk. specialize (H _ (Hnode l s Hn)). cbn [fst snd] in H.
    apply andb_true_iff in H as [H _]. apply andb_true_iff in H as [_ H]. rewrite forallb_forall in H.
    specialize (H _ Hc). cbn [fst] in H. rewrite Hk in H. cbn in H. now apply Nat.ltb_lt.
  - intros l s i t Hn Hi Hne Ht. specialize (H _ (Hnode l s Hn)). cbn [fst snd] in H.
    apply andb_true_iff in H as [_ H]. rewrite Hi in H. apply andb_true_iff in H as [H _].
    rewrite Hne, Ht in H. cbn in H. now apply Nat.ltb_lt.
  - intros l s i t0 Hn Hi Hne Ht. specialize (H _ (Hnode l s Hn)). cbn [fst snd] in H.
    apply andb_true_iff in H as [_ H]. rewrite Hi in H. apply andb_true_iff in H as [_ H].
    rewrite Hne, Ht in H. cbn [negb orb] in H. apply andb_true_iff in H as [H0 Hall]. split; [now apply Nat.ltb_lt|].
    intros l2 i2 t Hi2 Hl. rewrite forallb_forall in Hall.
    unfold info_at in Hi2. apply lookup_loc_In' in Hi2 as (l' & _ & Hin). specialize (Hall _ Hin). cbn [snd] in Hall.
    rewrite Hl in Hall. now apply Nat.ltb_lt.
Qed.

(** * a rank computed from the Resolved (longest chain of in-place calls), for the correspondence runs *)
Definition inplace_callees (e : env) (l : loc) (s : schema) : list loc :=
  map (fun qc : list seg * schema => child_loc l (fst qc)) (filter (fun qc : list seg * schema => inplace_key (fst qc)) (children s)) ++
  match info_at e l with
  | None => []
  | Some i =>
      (if nonempty (s_ref s) then match ri_ref i with Some t => [t] | None => [] end else []) ++
      (if nonempty (s_dynamicRef s) then
         match ri_dynref i with
         | Some t0 =>
             t0 :: flat_map (fun li : loc * rinfo =>
                               match lookup (ri_dynanchor i) (ri_anchors (snd li)) with
                               | Some (t, true) => [t]
                               | _ => []
                               end) (e_infos e)
         | None => []
         end
       else [])
  end.

Definition rank_step (e : env) (tbl : list (loc * nat)) : list (loc * nat) :=
  map (fun ls : loc * schema =>
         (fst ls, fold_right (fun t acc => Nat.max acc (S (match lookup_loc t tbl with Some n => n | None => 0 end))) 0
                             (inplace_callees e (fst ls) (snd ls))))
      (e_nodes e).

Fixpoint rank_iter (e : env) (k : nat) (tbl : list (loc * nat)) : list (loc * nat) :=
  match k with O => tbl | S k' => rank_iter e k' (rank_step e tbl) end.

Definition rank_table (e : env) : list (loc * nat) :=
  rank_iter e (length (e_nodes e)) (map (fun ls : loc * schema => (fst ls, 0)) (e_nodes e)).

(* does the computed rank satisfy the rank condition (it does exactly when no chain of in-place calls closes) *)
Definition rank_auto (e : env) : bool :=
  let tbl := rank_table e in
  rank_okb e (fun l => match lookup_loc l tbl with Some n => n | None => 0 end) (length (e_nodes e)).

Theorem rank_auto_sound e : rank_auto e = true -> exists rk R, RankOK e rk R.
Proof. intros H. eexists. eexists. apply rank_okb_sound. exact H. Qed.
