(** Refinement, object keywords. *)
From Coq Require Import List NArith ZArith QArith Bool Lia Btauto.
From JS Require Import Str StrFacts Lit Json Res GoValue Equal EqualFacts Hash Schema Env Ann Validate Spec RefineBase RefineArr.
Import ListNotations.
Open Scope list_scope.
Local Open Scope nat_scope.

Definition denm (gm : list (str * gv)) : list (str * json) := map (fun kv => (fst kv, den (snd kv))) gm.

Lemma keys_denm gm : keys (denm gm) = keys gm.
Proof. unfold keys, denm. rewrite map_map. reflexivity. Qed.

Lemma lookup_denm k gm : lookup k (denm gm) = option_map den (lookup k gm).
Proof. apply lookup_map. Qed.

Lemma has_key_denm gm k : has_key (denm gm) k = is_some (lookup k gm).
Proof. unfold has_key. rewrite lookup_denm. destruct (lookup k gm); reflexivity. Qed.

Lemma has_all_denm gm req : has_all gm req = forallb (has_key (denm gm)) req.
Proof. unfold has_all. induction req as [|k r IH]; cbn; [reflexivity|]. now rewrite has_key_denm, IH. Qed.

Definition wfm (m : list (str * gv)) : Prop := Forall (fun kv => gv_wf (snd kv) = true) m.

Lemma wfm_lookup k m x : wfm m -> lookup k m = Some x -> gv_wf x = true.
Proof. intros H Hl. apply lookup_In in Hl. unfold wfm in H. rewrite Forall_forall in H. exact (H (k, x) Hl). Qed.

Section Obj.
  Variable re_match : str -> str -> bool.
  Variable v : vfun.
  Variable ev : efun.
  Hypothesis Hagree : forall g l c sr, gv_wf g = true -> ev (den g) l c = Some sr -> agrees (den g) (v g l c) sr.

  (** properties *)
  Lemma props_loop_spec (locf : str -> loc) gm : wfm gm -> forall props rs ev0,
    eval_all (fun kc => match lookup (fst kc) (denm gm) with
                        | Some x => ev x (locf (fst kc)) (snd kc)
                        | None => Some (true, sig0)
                        end) props = Some rs ->
    if all_true rs
    then exists ev', props_loop v gm (map (fun kc => (fst kc, (locf (fst kc), snd kc))) props) ev0 = Ok ev' /\
                     forall k, mem_str k ev' = mem_str k ev0 || (is_some (lookup k props) && is_some (lookup k gm))
    else props_loop v gm (map (fun kc => (fst kc, (locf (fst kc), snd kc))) props) ev0 = Err.
  Proof.
    intros Hw. induction props as [|[k c] r IH]; intros rs ev0 H.
    - apply eval_all_nil in H. subst. cbn. exists ev0. split; [reflexivity|]. intros. now rewrite orb_false_r.
    - apply eval_all_cons in H as ([b sg] & t & Hx & Ht & ->). cbn [fst snd] in Hx.
      cbn [map props_loop fst snd]. rewrite lookup_denm in Hx.
      destruct (lookup k gm) as [x|] eqn:El; cbn [option_map] in Hx.
      + apply Hagree in Hx; [|exact (wfm_lookup _ _ _ Hw El)]. unfold agrees in Hx. cbn [fst snd] in Hx.
        cbn [all_true forallb fst]. destruct b; cbn [andb].
        * destruct Hx as (a1 & Hv & _). rewrite Hv. cbn [bind].
          specialize (IH t (k :: ev0) Ht). unfold all_true in IH. destruct (forallb _ t).
          -- destruct IH as (ev' & He & Hm). exists ev'. split; [exact He|].
             intros k'. rewrite Hm. cbn [mem_str lookup]. destruct (str_eqb k' k) eqn:E; cbn [orb andb is_some].
             ++ apply str_eqb_eq in E. subst k'. rewrite El. cbn. now rewrite orb_true_r.
             ++ reflexivity.
          -- exact IH.
        * now rewrite Hx.
      + inversion Hx; subst b sg. cbn [all_true forallb fst andb].
        specialize (IH t ev0 Ht). unfold all_true in IH. destruct (forallb _ t).
        * destruct IH as (ev' & He & Hm). exists ev'. split; [exact He|].
          intros k'. rewrite Hm. cbn [lookup]. destruct (str_eqb k' k) eqn:E; [|reflexivity].
          apply str_eqb_eq in E. subst k'. rewrite El. cbn [is_some andb].
          destruct (is_some (lookup k r)); reflexivity.
        * exact IH.
  Qed.

  (** patternProperties: for every member, every matching pattern *)
  Lemma pattern_inner_spec (locf : str -> loc) k x : gv_wf x = true -> forall pats rs ev0,
    eval_all (fun pc => if re_match (fst pc) k then ev (den x) (locf (fst pc)) (snd pc) else Some (true, sig0)) pats = Some rs ->
    if all_true rs
    then exists ev', pattern_inner re_match v k x (map (fun pc => (fst pc, (locf (fst pc), snd pc))) pats) ev0 = Ok ev' /\
                     forall k', mem_str k' ev' = mem_str k' ev0 || (str_eqb k' k && existsb (fun pc => re_match (fst pc) k) pats)
    else pattern_inner re_match v k x (map (fun pc => (fst pc, (locf (fst pc), snd pc))) pats) ev0 = Err.
  Proof.
    intros Hwx. induction pats as [|[p c] r IH]; intros rs ev0 H.
    - apply eval_all_nil in H. subst. cbn. exists ev0. split; [reflexivity|]. intros. now rewrite andb_false_r, orb_false_r.
    - apply eval_all_cons in H as ([b sg] & t & Hx & Ht & ->). cbn [fst snd] in Hx.
      cbn [map pattern_inner fst snd existsb].
      destruct (re_match p k) eqn:Em.
      + apply Hagree in Hx; [|exact Hwx]. unfold agrees in Hx. cbn [fst snd] in Hx.
        cbn [all_true forallb fst]. destruct b; cbn [andb].
        * destruct Hx as (a1 & Hv & _). rewrite Hv. cbn [bind].
          specialize (IH t (k :: ev0) Ht). unfold all_true in IH. destruct (forallb _ t).
          -- destruct IH as (ev' & He & Hm). exists ev'. split; [exact He|].
             intros k'. rewrite Hm. cbn [mem_str orb]. destruct (str_eqb k' k); cbn; btauto.
          -- exact IH.
        * now rewrite Hx.
      + inversion Hx; subst b sg. cbn [all_true forallb fst andb orb].
        specialize (IH t ev0 Ht). unfold all_true in IH. destruct (forallb _ t); exact IH.
  Qed.

  Lemma pattern_loop_spec (locf : str -> loc) pats : forall gm rs ev0, wfm gm ->
    eval_all (fun kv => option_map (fun rs => (all_true rs, sig0))
                          (eval_all (fun pc => if re_match (fst pc) (fst kv) then ev (snd kv) (locf (fst pc)) (snd pc)
                                               else Some (true, sig0)) pats)) (denm gm) = Some rs ->
    if all_true rs
    then exists ev', pattern_loop re_match v gm (map (fun pc => (fst pc, (locf (fst pc), snd pc))) pats) ev0 = Ok ev' /\
                     forall k', mem_str k' ev' = mem_str k' ev0 || (mem_str k' (keys gm) && existsb (fun pc => re_match (fst pc) k') pats)
    else pattern_loop re_match v gm (map (fun pc => (fst pc, (locf (fst pc), snd pc))) pats) ev0 = Err.
  Proof.
    induction gm as [|[k x] r IH]; intros rs ev0 Hw H; cbn [denm map] in H.
    - apply eval_all_nil in H. subst. cbn. exists ev0. split; [reflexivity|]. intros. now rewrite orb_false_r.
    - apply eval_all_cons in H as ([b sg] & t & Hx & Ht & ->). cbn [fst snd] in Hx.
      inversion Hw as [|? ? Hwx Hw']; subst. cbn [snd] in Hwx.
      destruct (eval_all _ pats) as [rs1|] eqn:H1; cbn [option_map] in Hx; [|discriminate].
      inversion Hx; subst b sg. clear Hx.
      pose proof (pattern_inner_spec locf k x Hwx pats rs1 ev0 H1) as Hin.
      cbn [pattern_loop all_true forallb fst].
      destruct (all_true rs1); cbn [andb].
      + destruct Hin as (ev1 & He1 & Hm1). rewrite He1. cbn [bind].
        specialize (IH t ev1 Hw' Ht). unfold all_true in IH. destruct (forallb _ t).
        * destruct IH as (ev' & He & Hm). exists ev'. split; [exact He|].
          intros k'. rewrite Hm, Hm1. cbn [keys map fst mem_str].
          destruct (str_eqb k' k) eqn:E; cbn [andb orb].
          -- apply str_eqb_eq in E. subst k'. btauto.
          -- now rewrite orb_false_r.
        * exact IH.
      + rewrite Hin. reflexivity.
  Qed.

  (** propertyNames *)
  Lemma names_loop_spec l c : forall gm rs,
    eval_all (fun kv => ev (JStr (fst kv)) l c) (denm gm) = Some rs ->
    names_loop v gm l c = if all_true rs then Ok tt else Err.
  Proof.
    induction gm as [|[k x] r IH]; intros rs H; cbn [denm map] in H.
    - apply eval_all_nil in H. subst. reflexivity.
    - apply eval_all_cons in H as ([b sg] & t & Hx & Ht & ->). cbn [fst] in Hx.
      change (JStr k) with (den (GStr k)) in Hx.
      apply Hagree in Hx; [|reflexivity]. unfold agrees in Hx. cbn [fst snd] in Hx.
      cbn [names_loop all_true forallb fst]. destruct b; cbn [andb].
      + destruct Hx as (a1 & Hv & _). rewrite Hv. cbn [bind]. now apply IH.
      + now rewrite Hx.
  Qed.
End Obj.

Section Obj2.
  Variable re_match : str -> str -> bool.
  Variable v : vfun.
  Variable ev : efun.
  Hypothesis Hagree : forall g l c sr, gv_wf g = true -> ev (den g) l c = Some sr -> agrees (den g) (v g l c) sr.

  (** additionalProperties, general path: members not evaluated so far.  [f] is the
      static membership test of the specification; the code's accumulator agrees with it
      on the keys still to come because the keys of a Go map are distinct. *)
  Lemma additional_loop_spec l c (f : str -> bool) : forall gm rs ev0, wfm gm ->
    NoDup (keys gm) ->
    (forall k, In k (keys gm) -> mem_str k ev0 = f k) ->
    eval_all (fun kv => ev (snd kv) l c) (filter (fun kv => negb (f (fst kv))) (denm gm)) = Some rs ->
    if all_true rs
    then exists ev', additional_loop v gm l c ev0 = Ok ev' /\
                     (forall k, mem_str k ev' = mem_str k ev0 || (mem_str k (keys gm) && negb (f k)))
    else additional_loop v gm l c ev0 = Err.
  Proof.
    induction gm as [|[k x] r IH]; intros rs ev0 Hw Hnd Hf H; cbn [denm map filter fst] in H.
    - apply eval_all_nil in H. subst. cbn. exists ev0. split; [reflexivity|]. intros. now rewrite orb_false_r.
    - cbn [keys map fst] in Hnd. inversion Hnd as [|? ? Hni Hnd']; subst.
      inversion Hw as [|? ? Hwx Hw']; subst. cbn [snd] in Hwx.
      cbn [additional_loop]. rewrite (Hf k) by (now left).
      assert (Hrest : forall ev1, (forall k', mem_str k' ev1 = mem_str k' ev0 || str_eqb k' k && negb (f k)) ->
                forall k', In k' (keys r) -> mem_str k' ev1 = f k').
      { intros ev1 H1 k' Hk'. rewrite H1, (Hf k') by (now right).
        destruct (str_eqb k' k) eqn:E; [|now rewrite orb_false_r].
        apply str_eqb_eq in E. subst k'. contradiction. }
      destruct (f k) eqn:Ef; cbn [negb] in H.
      + specialize (IH rs ev0 Hw' Hnd' (fun k' Hk' => Hf k' (or_intror Hk')) H).
        destruct (all_true rs).
        * destruct IH as (ev' & He & Hm). exists ev'. split; [exact He|].
          intros k'. rewrite Hm. cbn [keys map fst mem_str].
          destruct (str_eqb k' k) eqn:E; cbn [orb andb]; [|reflexivity].
          apply str_eqb_eq in E. subst k'. rewrite Ef. cbn [negb]. now rewrite !andb_false_r.
        * exact IH.
      + apply eval_all_cons in H as ([b sg] & t & Hx & Ht & ->). cbn [snd] in Hx.
        apply Hagree in Hx; [|exact Hwx]. unfold agrees in Hx. cbn [fst snd] in Hx.
        cbn [all_true forallb fst]. destruct b; cbn [andb].
        * destruct Hx as (a1 & Hv & _). rewrite Hv. cbn [bind].
          assert (Hf1 : forall k', In k' (keys r) -> mem_str k' (k :: ev0) = f k').
          { apply Hrest. intros k'. cbn [mem_str negb]. rewrite andb_true_r. btauto. }
          specialize (IH t (k :: ev0) Hw' Hnd' Hf1 Ht). unfold all_true in IH. destruct (forallb _ t).
          -- destruct IH as (ev' & He & Hm). exists ev'. split; [exact He|].
             intros k'. rewrite Hm. cbn [keys map fst mem_str].
             destruct (str_eqb k' k) eqn:E; cbn [orb andb]; [|reflexivity].
             apply str_eqb_eq in E. subst k'. rewrite Ef. cbn. btauto.
          -- exact IH.
        * now rewrite Hx.
  Qed.

  (** dependentRequired / array-valued dependencies *)
  Lemma dep_required_spec gm : forall d,
    dep_required gm d = guard (forallb (fun kr => negb (has_key (denm gm) (fst kr)) || forallb (has_key (denm gm)) (snd kr)) d).
  Proof.
    induction d as [|[k reqs] r IH]; [reflexivity|].
    cbn [dep_required forallb fst snd]. rewrite has_key_denm, <- has_all_denm, IH.
    destruct (is_some (lookup k gm)); cbn [negb orb].
    - destruct (has_all gm reqs); cbn [guard bind andb]; reflexivity.
    - cbn [bind andb]. reflexivity.
  Qed.

  (** dependentSchemas / schema-valued dependencies: in-place, annotations merged *)
  Lemma dep_schemas_spec (locf : str -> loc) inst gm : gv_wf inst = true -> forall deps rs a,
    eval_all (fun kc => if has_key (denm gm) (fst kc) then ev (den inst) (locf (fst kc)) (snd kc) else Some (true, sig0)) deps = Some rs ->
    if all_true rs
    then exists a', dep_schemas v inst gm (map (fun kc => (fst kc, (locf (fst kc), snd kc))) deps) a = Ok a' /\
                    ext (den inst) a a' (sig_of_true rs)
    else dep_schemas v inst gm (map (fun kc => (fst kc, (locf (fst kc), snd kc))) deps) a = Err.
  Proof.
    intros Hwi. induction deps as [|[k c] r IH]; intros rs a H.
    - apply eval_all_nil in H. subst. cbn. exists a. split; [reflexivity|apply ext_refl].
    - apply eval_all_cons in H as ([b sg] & t & Hx & Ht & ->). cbn [fst snd] in Hx.
      cbn [map dep_schemas fst snd]. rewrite has_key_denm in Hx.
      destruct (is_some (lookup k gm)).
      + apply Hagree in Hx; [|exact Hwi]. unfold agrees in Hx. cbn [fst snd] in Hx.
        cbn [all_true forallb fst]. destruct b; cbn [andb].
        * destruct Hx as (a1 & Hv & Hg). rewrite Hv. cbn [bind].
          specialize (IH t (merge a a1) Ht). unfold all_true in IH. destruct (forallb _ t).
          -- destruct IH as (a' & Ha' & Hext). exists a'. split; [exact Ha'|].
             cbn [sig_of_true fold_right fst snd]. eapply ext_trans; [apply ext_merge; exact Hg|exact Hext].
          -- exact IH.
        * now rewrite Hx.
      + inversion Hx; subst b sg. cbn [all_true forallb fst andb].
        specialize (IH t a Ht). unfold all_true in IH. destruct (forallb _ t).
        * destruct IH as (a' & Ha' & Hext). exists a'. split; [exact Ha'|].
          cbn [sig_of_true fold_right fst snd]. eapply ext_eqv; [|exact Hext].
          split; intros; rewrite ?sinI_union, ?sinP_union; reflexivity.
        * exact IH.
  Qed.

  (** unevaluatedProperties: members the annotations do not cover *)
  Lemma uneval_props_spec l c a sgm : allProps a = false -> forall gm rs, wfm gm ->
    (forall k, In k (keys gm) -> inP a k = sinP sgm k) ->
    eval_all (fun kv => ev (snd kv) l c) (filter (fun kv => negb (mem_str (fst kv) (sP sgm))) (denm gm)) = Some rs ->
    uneval_props v gm l c a = if all_true rs then Ok tt else Err.
  Proof.
    intros HA. induction gm as [|[k x] r IH]; intros rs Hw Hin H; cbn [denm map filter fst] in H.
    - apply eval_all_nil in H. subst. reflexivity.
    - cbn [uneval_props]. inversion Hw as [|? ? Hwx Hw']; subst. cbn [snd] in Hwx.
      assert (Hc : mem_str k (evalProps a) = mem_str k (sP sgm)).
      { specialize (Hin k (or_introl eq_refl)). unfold inP, sinP in Hin. now rewrite HA in Hin. }
      rewrite Hc.
      assert (Hin' : forall k', In k' (keys r) -> inP a k' = sinP sgm k') by (intros; apply Hin; now right).
      destruct (mem_str k (sP sgm)); cbn [negb] in H.
      + cbn [bind]. now apply IH.
      + apply eval_all_cons in H as ([b sg] & t & Hx & Ht & ->). cbn [snd] in Hx.
        apply Hagree in Hx; [|exact Hwx]. unfold agrees in Hx. cbn [fst snd] in Hx.
        cbn [all_true forallb fst]. destruct b; cbn [andb].
        * destruct Hx as (a1 & Hv & _). rewrite Hv. cbn [bind]. now apply IH.
        * now rewrite Hx.
  Qed.
End Obj2.

Lemma mem_str_filter (g : str -> bool) k l : mem_str k (filter g l) = mem_str k l && g k.
Proof.
  induction l as [|x r IH]; cbn [filter mem_str]; [reflexivity|].
  destruct (g x) eqn:Eg; cbn [mem_str]; rewrite IH.
  - destruct (str_eqb k x) eqn:E; cbn [orb]; [|reflexivity].
    apply str_eqb_eq in E. subst. now rewrite Eg.
  - destruct (str_eqb k x) eqn:E; cbn [orb]; [|reflexivity].
    apply str_eqb_eq in E. subst. rewrite Eg. now rewrite andb_false_r.
Qed.

Lemma mem_str_keys_In k (l : list str) : In k l -> mem_str k l = true.
Proof. apply mem_str_In. Qed.

Lemma filter_nil_iff {A} (g : A -> bool) l : filter g l = [] <-> forallb (fun x => negb (g x)) l = true.
Proof.
  induction l as [|x r IH]; cbn; [easy|]. destruct (g x); cbn; [split; discriminate|exact IH].
Qed.

Lemma all_false_all_true rs : (forall r, In r rs -> fst r = false) -> all_true rs = match rs with [] => true | _ => false end.
Proof. destruct rs as [|r t]; intros H; [reflexivity|]. cbn. now rewrite (H r (or_introl eq_refl)). Qed.

Lemma mem_keys_filter (g : str -> bool) gm k :
  NoDup (keys gm) -> In k (keys gm) ->
  mem_str k (keys (filter (fun kv : str * json => g (fst kv)) (denm gm))) = g k.
Proof.
  induction gm as [|[k0 x0] r IH]; intros Hnd Hk; [contradiction|].
  cbn [keys map fst] in Hnd. inversion Hnd as [|? ? Hni Hnd']; subst.
  cbn [denm map filter fst snd].
  assert (Hsub : forall k', In k' (keys (filter (fun kv : str * json => g (fst kv)) (denm r))) -> In k' (keys r)).
  { intros k' H. unfold keys in H. apply in_map_iff in H as ([k1 x1] & <- & H). apply filter_In in H as [H _].
    rewrite <- keys_denm. unfold keys. change k1 with (fst (k1, x1)). now apply in_map. }
  destruct (str_eqb k k0) eqn:E.
  - apply str_eqb_eq in E. subst k0. destruct (g k) eqn:Eg.
    + cbn [keys map fst mem_str]. now rewrite str_eqb_refl.
    + apply mem_str_false. intros H. apply Hni. now apply Hsub.
  - destruct Hk as [Hk|Hk]; [cbn in Hk; subst; now rewrite str_eqb_refl in E|].
    destruct (g k0); cbn [keys map fst mem_str]; rewrite ?E; cbn [orb]; now apply IH.
Qed.

Lemma forallb_filter_denm (g h : str -> bool) gm :
  (forall k, In k (keys gm) -> g k = h k) ->
  forallb (fun kv : str * gv => g (fst kv)) gm
  = match filter (fun kv : str * json => negb (h (fst kv))) (denm gm) with [] => true | _ => false end.
Proof.
  induction gm as [|[k x] r IH]; intros H; [reflexivity|].
  cbn [forallb denm map filter fst snd]. rewrite (H k) by now left.
  destruct (h k); cbn [negb andb]; [|reflexivity].
  apply IH. intros k' Hk'. apply H. now right.
Qed.

Section Obj3.
  Variable re_match : str -> str -> bool.
  Variable e : env.
  Variable v : vfun.
  Variable ev : efun.
  Hypothesis Hagree : forall g l c sr, gv_wf g = true -> ev (den g) l c = Some sr -> agrees (den g) (v g l c) sr.
  Variable l : loc.
  Variable s : schema.
  (** a falsy additionalProperties schema ({"not": {}}, not masked by a draft-07 $ref) rejects every value *)
  Hypothesis Hfalsy : forall ap z, s_additionalProperties s = Some ap -> s_not ap = Some z -> is_zero_schema z = true ->
    negb (e_draft7 e && nonempty (s_ref ap)) = true -> forall x lc sr, ev x lc ap = Some sr -> fst sr = false.

  Lemma pattern_loop_nil gm ev0 : pattern_loop re_match v gm [] ev0 = Ok ev0.
  Proof. revert ev0; induction gm as [|[k x] r IH]; intros ev0; cbn; auto. Qed.

  Lemma eval_all_In {A} (f : A -> sres) xs rs r : eval_all f xs = Some rs -> In r rs -> exists x, In x xs /\ f x = Some r.
  Proof.
    revert rs; induction xs as [|x t IH]; intros rs H Hin.
    - apply eval_all_nil in H. subst. contradiction.
    - apply eval_all_cons in H as (y & t' & Hx & Ht & ->). destruct Hin as [<-|Hin]; [exists x; split; [now left|exact Hx]|].
      destruct (IH t' Ht Hin) as (x' & Hx' & Hf). exists x'. split; [now right|exact Hf].
  Qed.

  Lemma props_part_spec gm r_props r_pats r_add :
    wfm gm -> NoDup (keys gm) ->
    let m := denm gm in
    let props := olist (s_properties s) in
    let pats := olist (s_patternProperties s) in
    let p_props := filter (fun k => match lookup k props with Some _ => true | None => false end) (keys m) in
    let p_pats := filter (fun k => existsb (fun pc => re_match (fst pc) k) pats) (keys m) in
    let additional := filter (fun kv => negb (mem_str (fst kv) p_props) && negb (mem_str (fst kv) p_pats)) m in
    eval_all (fun kc => match lookup (fst kc) m with
                        | Some x => ev x (ch_k l (lit "properties"%lit) (fst kc)) (snd kc)
                        | None => Some (true, sig0)
                        end) props = Some r_props ->
    eval_all (fun kv => option_map (fun rs => (all_true rs, sig0))
                          (eval_all (fun pc => if re_match (fst pc) (fst kv)
                                               then ev (snd kv) (ch_k l (lit "patternProperties"%lit) (fst pc)) (snd pc)
                                               else Some (true, sig0)) pats)) m = Some r_pats ->
    (match s_additionalProperties s with
     | Some c => eval_all (fun kv => ev (snd kv) (ch l (lit "additionalProperties"%lit)) c) additional
     | None => Some []
     end) = Some r_add ->
    let p_add := match s_additionalProperties s with Some _ => keys additional | None => [] end in
    if all_true r_props && all_true r_pats && all_true r_add
    then exists ev3, props_part re_match e v l s gm = Ok ev3 /\
                     forall k, In k (keys gm) -> mem_str k ev3 = mem_str k (p_props ++ p_pats ++ p_add)
    else props_part re_match e v l s gm = Err.
  Proof.
    intros Hw Hnd m props pats p_props p_pats additional Hp Hq Ha p_add.
    unfold props_part.
    pose proof (props_loop_spec v ev Hagree (ch_k l (lit "properties"%lit)) gm Hw props r_props [] Hp) as H1.
    change (map_locs l (lit "properties"%lit) (opt_list (s_properties s)))
      with (map (fun kc : str * schema => (fst kc, (ch_k l (lit "properties"%lit) (fst kc), snd kc))) props).
    destruct (all_true r_props); cbn [andb]; [|rewrite H1; reflexivity].
    destruct H1 as (ev1 & He1 & Hm1). rewrite He1. cbn [bind].
    pose proof (pattern_loop_spec re_match v ev Hagree (ch_k l (lit "patternProperties"%lit)) pats gm r_pats ev1 Hw Hq) as H2.
    assert (Hpat : (match s_patternProperties s with
                    | Some ((_ :: _) as pp) => pattern_loop re_match v gm (map_locs l (lit "patternProperties"%lit) pp) ev1
                    | _ => Ok ev1
                    end)
                   = pattern_loop re_match v gm (map (fun pc : str * schema => (fst pc, (ch_k l (lit "patternProperties"%lit) (fst pc), snd pc))) pats) ev1).
    { subst pats. destruct (s_patternProperties s) as [[|p pp]|]; cbn [olist map]; try (now rewrite pattern_loop_nil). reflexivity. }
    rewrite Hpat. clear Hpat.
    destruct (all_true r_pats); cbn [andb]; [|rewrite H2; reflexivity].
    destruct H2 as (ev2 & He2 & Hm2). rewrite He2. cbn [bind].
    (* what the accumulator knows, against the specification's static sets *)
    set (f := fun k => mem_str k p_props || mem_str k p_pats).
    assert (Hf : forall k, In k (keys gm) -> mem_str k ev2 = f k).
    { intros k Hk. rewrite Hm2, Hm1. subst f p_props p_pats. cbn beta. rewrite !mem_str_filter.
      subst m. rewrite keys_denm. rewrite (mem_str_keys_In k (keys gm) Hk). cbn [mem_str orb andb].
      assert (is_some (lookup k gm) = true) as ->.
      { destruct (lookup k gm) eqn:E; [reflexivity|]. apply lookup_None in E. contradiction. }
      rewrite andb_true_r. unfold is_some. reflexivity. }
    assert (Hadd : additional = filter (fun kv => negb (f (fst kv))) m).
    { subst additional f. apply filter_ext. intros kv. now rewrite negb_orb. }
    destruct (s_additionalProperties s) as [ap|] eqn:Eap.
    - rewrite Hadd in Ha.
      destruct (match s_not ap with Some n => is_zero_schema n | None => false end && negb (e_draft7 e && nonempty (s_ref ap))) eqn:Efal.
      + (* the falsy shortcut *)
        apply andb_true_iff in Efal as [Ez Ed]. destruct (s_not ap) as [z|] eqn:En; [|discriminate].
        assert (Hall : forall r, In r r_add -> fst r = false).
        { intros r Hr. destruct (eval_all_In _ _ _ _ Ha Hr) as (kv & _ & Hkv). eapply Hfalsy; eauto. }
        rewrite (all_false_all_true _ Hall).
        assert (Hforall : forallb (fun kv : str * gv => mem_str (fst kv) ev2) gm
                          = match filter (fun kv => negb (f (fst kv))) m with [] => true | _ => false end).
        { subst m. apply (forallb_filter_denm (fun k => mem_str k ev2) f). exact Hf. }
        assert (Hlen : match r_add with [] => true | _ => false end = match filter (fun kv => negb (f (fst kv))) m with [] => true | _ => false end).
        { pose proof (eval_all_length _ _ _ Ha) as Hl. destruct r_add, (filter (fun kv => negb (f (fst kv))) m); cbn in Hl; try discriminate; reflexivity. }
        rewrite Hforall, <- Hlen. destruct r_add as [|r0 t0] eqn:Er; [|reflexivity].
        exists ev2. split; [reflexivity|].
        intros k Hk. subst p_add. rewrite Hadd.
        assert (filter (fun kv => negb (f (fst kv))) m = []) as ->.
        { pose proof (eval_all_length _ _ _ Ha) as Hl. destruct (filter (fun kv => negb (f (fst kv))) m); [reflexivity|discriminate]. }
        cbn [keys map]. rewrite app_nil_r, mem_str_app. now apply Hf.
      + change (one_loc l (lit "additionalProperties"%lit)) with (ch l (lit "additionalProperties"%lit)).
        pose proof (additional_loop_spec v ev Hagree (ch l (lit "additionalProperties"%lit)) ap f gm r_add ev2 Hw Hnd Hf Ha) as H3.
        destruct (all_true r_add); [|exact H3].
        destruct H3 as (ev3 & He3 & Hm3). exists ev3. split; [exact He3|].
        intros k Hk. rewrite Hm3, (Hf k Hk). subst p_add. rewrite Hadd. rewrite !mem_str_app.
        rewrite (mem_str_keys_In k (keys gm) Hk). cbn [andb].
        assert (Hka : mem_str k (keys (filter (fun kv => negb (f (fst kv))) m)) = negb (f k)).
        { subst m. apply (mem_keys_filter (fun k => negb (f k))); assumption. }
        rewrite Hka. subst f. cbn beta. btauto.
    - inversion Ha; subst r_add. cbn [all_true forallb].
      exists ev2. split; [reflexivity|]. intros k Hk. subst p_add. rewrite app_nil_r, mem_str_app. now apply Hf.
  Qed.
End Obj3.

From Coq Require Import ZifyBool ZifyNat.

Lemma inP_noteProperties ps a k : inP (noteProperties ps a) k = inP a k || mem_str k ps.
Proof. unfold inP, noteProperties. cbn [allProps evalProps]. rewrite mem_str_app. btauto. Qed.
Lemma inP_setAllProps a k : inP (setAllProps a) k = true. Proof. reflexivity. Qed.

Section Obj4.
  Variable re_match : str -> str -> bool.
  Variable e : env.
  Variable v : vfun.
  Variable ev : efun.
  Hypothesis Hagree : forall g l c sr, gv_wf g = true -> ev (den g) l c = Some sr -> agrees (den g) (v g l c) sr.
  Variable l : loc.
  Variable s : schema.
  Hypothesis Hfalsy : forall ap z, s_additionalProperties s = Some ap -> s_not ap = Some z -> is_zero_schema z = true ->
    negb (e_draft7 e && nonempty (s_ref ap)) = true -> forall x lc sr, ev x lc ap = Some sr -> fst sr = false.

  Lemma uneval_props_part_spec gm a2 sgm ok_up p_up :
    wfm gm -> NoDup (keys gm) ->
    (forall k, In k (keys gm) -> inP a2 k = sinP sgm k) ->
    spec_uneval_props ev (JObj (denm gm)) l s sgm = Some (ok_up, p_up) ->
    if ok_up
    then exists a', uneval_props_part v l s gm a2 = Ok a' /\
                    (forall k, In k (keys gm) -> inP a' k = sinP sgm k || mem_str k p_up)
    else uneval_props_part v l s gm a2 = Err.
  Proof.
    intros Hw Hnd Hin Hu. unfold spec_uneval_props in Hu. unfold uneval_props_part.
    destruct (s_unevaluatedProperties s) as [u|].
    - set (un := filter _ (denm gm)) in Hu.
      destruct (eval_all _ un) as [rs|] eqn:Hrs; cbn [option_map] in Hu; [|discriminate].
      injection Hu as <- <-.
      destruct (allProps a2) eqn:HA.
      + assert (Hun : un = []).
        { subst un. apply filter_nil_iff. unfold denm. rewrite forallb_forall. intros [k x] Hkx.
          apply in_map_iff in Hkx as ([k' x'] & [= <- <-] & Hin'). cbn [fst]. rewrite negb_involutive.
          assert (Hk : In k' (keys gm)) by (change k' with (fst (k', x')); now apply in_map).
          specialize (Hin k' Hk). unfold inP, sinP in Hin. rewrite HA in Hin. now symmetry. }
        rewrite Hun in Hrs. apply eval_all_nil in Hrs. subst rs. rewrite Hun. cbn [all_true forallb keys map].
        exists a2. split; [reflexivity|]. intros k Hk. rewrite (Hin k Hk). cbn [mem_str]. now rewrite orb_false_r.
      + change (one_loc l (lit "unevaluatedProperties"%lit)) with (ch l (lit "unevaluatedProperties"%lit)).
        rewrite (uneval_props_spec v ev Hagree _ u a2 sgm HA gm rs Hw Hin Hrs).
        destruct (all_true rs); cbn [bind]; [|reflexivity].
        eexists. split; [reflexivity|]. intros k Hk. rewrite inP_setAllProps. symmetry.
        destruct (sinP sgm k) eqn:Es; [reflexivity|]. cbn [orb].
        subst un. rewrite (mem_keys_filter (fun k => negb (mem_str k (sP sgm))) gm k).
        * unfold sinP in Es. now rewrite Es.
        * exact Hnd.
        * exact Hk.
    - injection Hu as <- <-. exists a2. split; [reflexivity|]. intros k Hk. rewrite (Hin k Hk). cbn [mem_str]. now rewrite orb_false_r.
  Qed.

  (** the whole object phase against spec_objects + the count assertions + unevaluatedProperties *)
  Theorem objects_phase_spec gm a0 sgpre ok_obj sig_obj sig_deps sgm ok_up p_up :
    let m := denm gm in
    let j := JObj m in
    wfm gm -> NoDup (keys gm) ->
    spec_objects re_match e ev j l s m = Some (ok_obj, sig_obj, sig_deps) ->
    (forall k, In k (keys gm) -> inP a0 k = sinP sgpre k) ->
    (forall k, In k (keys gm) -> sinP sgm k = sinP sgpre k || sinP sig_obj k || sinP sig_deps k) ->
    spec_uneval_props ev j l s sgm = Some (ok_up, p_up) ->
    if ok_obj && a_object_counts (e_draft7 e) s j && ok_up
    then exists a', objects_phase re_match e v l s (GMap gm) gm a0 = Ok a' /\
                    (forall k, In k (keys gm) -> inP a' k = sinP sgm k || mem_str k p_up)
    else objects_phase re_match e v l s (GMap gm) gm a0 = Err.
  Proof.
    intros m j Hw Hnd Hs Hpre Hsgm Hu.
    unfold spec_objects, ob_ev_props, ob_ev_pats, ob_ev_add, ob_ev_names, ob_ev_deps in Hs.
    unfold ob_additional, ob_p_props, ob_p_pats, ob_deps, ob_deps_name in Hs.
    set (props := olist (s_properties s)) in *.
    set (pats := olist (s_patternProperties s)) in *.
    set (p_props := filter _ (keys m)) in Hs.
    set (p_pats := filter (fun k => existsb _ pats) (keys m)) in Hs.
    set (additional := filter _ m) in Hs.
    set (deps := if e_draft7 e then olist (s_dependencySchemas s) else olist (s_dependentSchemas s)) in *.
    set (dname := if e_draft7 e then lit "dependencies"%lit else lit "dependentSchemas"%lit) in *.
    destruct (eval_all _ props) as [r_props|] eqn:Hp; [|discriminate].
    destruct (eval_all _ m) as [r_pats|] eqn:Hq; [|discriminate].
    destruct (match s_additionalProperties s with Some c => _ | None => Some [] end) as [r_add|] eqn:Ha; [|discriminate].
    destruct (match s_propertyNames s with Some c => _ | None => Some [] end) as [r_names|] eqn:Hn; [|discriminate].
    destruct (eval_all _ deps) as [r_deps|] eqn:Hd; [|discriminate].
    injection Hs as Hok Hso Hsd.
    unfold objects_phase.
    pose proof (props_part_spec re_match e v ev Hagree l s Hfalsy gm r_props r_pats r_add Hw Hnd Hp Hq Ha) as H1.
    cbn zeta in H1. fold m props pats in H1. fold p_props p_pats in H1. fold additional in H1.
    destruct (all_true r_props && all_true r_pats && all_true r_add) eqn:E1.
    2:{ rewrite H1. cbn [bind]. rewrite <- Hok; try rewrite E1; cbn [andb]; reflexivity. }
    destruct H1 as (ev3 & He3 & Hm3). rewrite He3. cbn [bind].
    (* propertyNames and the counts *)
    unfold object_counts.
    assert (Hnames : (match s_propertyNames s with
                      | Some pn => names_loop v gm (one_loc l (lit "propertyNames"%lit)) pn
                      | None => Ok tt
                      end) = if all_true r_names then Ok tt else Err).
    { destruct (s_propertyNames s) as [pn|].
      - change (one_loc l (lit "propertyNames"%lit)) with (ch l (lit "propertyNames"%lit)).
        apply (names_loop_spec v ev Hagree). exact Hn.
      - injection Hn as <-. reflexivity. }
    rewrite Hnames. clear Hnames.
    destruct (all_true r_names) eqn:E2; cbn [bind].
    2:{ rewrite <- Hok; try rewrite E2; now rewrite ?andb_false_r, ?andb_false_l. }
    (* min/max/required + dependent required, then dependent schemas *)
    unfold a_object_counts, j. cbn beta iota zeta.
    assert (Hlenm : length m = length gm) by (unfold m, denm; apply map_length).
    rewrite Hlenm.
    set (okmin := opt_ok (s_minProperties s) (fun k => Z.leb k (Z.of_nat (length gm)))).
    set (okmax := opt_ok (s_maxProperties s) (fun k => Z.leb (Z.of_nat (length gm)) k)).
    set (okreq := opt_ok (s_required s) (fun req => forallb (has_key m) req)).
    set (okdep := opt_ok (if e_draft7 e then s_dependencyStrings s else s_dependentRequired s) _).
    assert (Hmin : (match s_minProperties s with Some k => guard (negb (Z.ltb (Z.of_nat (length gm)) k)) | None => Ok tt end) = guard okmin).
    { subst okmin. destruct (s_minProperties s); cbn [opt_ok]; [now rewrite z_not_ltb|reflexivity]. }
    assert (Hmax : (match s_maxProperties s with Some k => guard (negb (Z.gtb (Z.of_nat (length gm)) k)) | None => Ok tt end) = guard okmax).
    { subst okmax. destruct (s_maxProperties s); cbn [opt_ok]; [now rewrite z_not_gtb|reflexivity]. }
    assert (Hreq : (match s_required s with Some req => guard (has_all gm req) | None => Ok tt end) = guard okreq).
    { subst okreq. destruct (s_required s); cbn [opt_ok]; [now rewrite has_all_denm|reflexivity]. }
    rewrite Hmin, Hmax, Hreq. rewrite !bind_guard.
    destruct okmin; cbn [andb]; [|now rewrite !andb_false_r].
    destruct okmax; cbn [andb]; [|now rewrite !andb_false_r].
    destruct okreq; cbn [andb]; [|now rewrite !andb_false_r].
    (* deps_part *)
    unfold deps_part.
    assert (Hdr : (if e_draft7 e then dep_required gm (opt_list (s_dependencyStrings s)) else dep_required gm (opt_list (s_dependentRequired s)))
                  = guard okdep).
    { subst okdep. destruct (e_draft7 e).
      - rewrite dep_required_spec. destruct (s_dependencyStrings s); reflexivity.
      - rewrite dep_required_spec. destruct (s_dependentRequired s); reflexivity. }
    assert (Hwi : gv_wf (GMap gm) = true).
    { cbn [gv_wf]. apply andb_true_iff. split; [now apply nodup_strs_NoDup|]. clear -Hw. induction Hw as [|[k x] r Hx Hr IH]; [reflexivity|]. cbn [snd] in Hx. now rewrite Hx, IH. }
    pose proof (dep_schemas_spec v ev Hagree (ch_k l dname) (GMap gm) gm Hwi deps r_deps (noteProperties ev3 a0)) as H4.
    change (den (GMap gm)) with j in H4. specialize (H4 Hd).
    assert (Hdeps : (if e_draft7 e
                     then dep_required gm (opt_list (s_dependencyStrings s));;;
                          dep_schemas v (GMap gm) gm (map_locs l (lit "dependencies"%lit) (opt_list (s_dependencySchemas s))) (noteProperties ev3 a0)
                     else dep_required gm (opt_list (s_dependentRequired s));;;
                          dep_schemas v (GMap gm) gm (map_locs l (lit "dependentSchemas"%lit) (opt_list (s_dependentSchemas s))) (noteProperties ev3 a0))
                    = (guard okdep ;;; dep_schemas v (GMap gm) gm (map (fun kc : str * schema => (fst kc, (ch_k l dname (fst kc), snd kc))) deps) (noteProperties ev3 a0))).
    { rewrite <- Hdr. subst deps dname. destruct (e_draft7 e); reflexivity. }
    rewrite Hdeps. clear Hdeps Hdr. rewrite bind_guard.
    destruct okdep; cbn [andb]; [|now rewrite !andb_false_r].
    destruct (all_true r_deps) eqn:E3.
    2:{ rewrite H4. cbn [bind]. rewrite <- Hok; try rewrite E3; now rewrite ?andb_false_r, ?andb_false_l. }
    destruct H4 as (a2 & Ha2 & Hext). rewrite Ha2. cbn [bind].
    assert (Hokobj : ok_obj = true) by (rewrite <- Hok; try rewrite E1; try rewrite E2; try rewrite E3; reflexivity).
    rewrite Hokobj. cbn [andb].
    assert (Hin2 : forall k, In k (keys gm) -> inP a2 k = sinP sgm k).
    { intros k Hk. destruct Hext as [_ HextP].
      rewrite HextP by (cbn [obj_keys j]; subst m; now rewrite keys_denm).
      rewrite inP_noteProperties, (Hpre k Hk), (Hm3 k Hk), (Hsgm k Hk), <- Hso, <- Hsd.
      unfold sinP at 3. cbn [sP]. reflexivity. }
    exact (uneval_props_part_spec gm a2 sgm ok_up p_up Hw Hnd Hin2 Hu).
  Qed.
End Obj4.
