(** Refinement, assertion keywords: type, enum, const, numbers, strings. *)
From Coq Require Import List NArith ZArith QArith Bool Lia Btauto.
From JS Require Import Str StrFacts Lit Json Res GoValue Equal EqualFacts Hash Schema Env Ann Validate Spec RefineBase RefineArr.
From Coq Require Import ZifyBool.
Import ListNotations.
Open Scope list_scope.
Local Open Scope nat_scope.

Lemma jtype_name_eq t : jtype_name t = jt_name t.
Proof. destruct t; reflexivity. Qed.

Lemma jt_name_integer t : str_eqb (jt_name t) (lit "integer"%lit) = match t with TInteger => true | _ => false end.
Proof. destruct t; vm_compute; reflexivity. Qed.

Lemma type_accepts_alt name j :
  type_accepts name j =
  (str_eqb (jt_name (json_type j)) name ||
   (str_eqb (jt_name (json_type j)) (lit "integer"%lit) && str_eqb name (lit "number"%lit))).
Proof.
  unfold type_accepts. rewrite (str_eqb_sym name). rewrite jt_name_integer.
  destruct (json_type j); cbn [andb]; now rewrite ?andb_false_r, ?andb_true_r.
Qed.

Lemma check_type_spec s g : check_type s (strip g) = guard (a_type s (den g)).
Proof.
  unfold check_type, a_type. rewrite jsonType_den, jtype_name_eq.
  destruct (s_type s) as [|c t] eqn:Et; cbn [nonempty orb].
  - destruct (s_types s) as [ts|]; cbn [is_some]; [|reflexivity].
    f_equal. induction ts as [|x r IH]; cbn [mem_str existsb].
    + now rewrite andb_false_r.
    + rewrite type_accepts_alt, <- IH. rewrite (str_eqb_sym (lit "number"%lit) x). btauto.
  - f_equal. now rewrite type_accepts_alt.
Qed.

Lemma check_enum_spec s g : check_enum s (strip g) = guard (a_enum s (den g)).
Proof.
  unfold check_enum, a_enum. destruct (s_enum s) as [l|]; [|reflexivity].
  f_equal. induction l as [|x r IH]; cbn [existsb]; [reflexivity|].
  now rewrite equalValue_den, den_strip, IH.
Qed.

Lemma check_const_spec s g : check_const s (strip g) = guard (a_const s (den g)).
Proof.
  unfold check_const, a_const. destruct (s_const s) as [c|]; [|reflexivity].
  now rewrite equalValue_den, den_strip.
Qed.

Lemma opt_guard {A} (o : option A) (f : A -> bool) :
  match o with Some x => guard (f x) | None => Ok tt end = guard (opt_ok o f).
Proof. destruct o; reflexivity. Qed.

Lemma guard_and (a b : bool) : (guard a ;;; guard b) = guard (a && b).
Proof. destruct a, b; reflexivity. Qed.

Lemma check_numbers_spec s g : check_numbers s (strip g) = guard (a_numbers s (den g)).
Proof.
  unfold check_numbers, a_numbers. rewrite jsonNumber_den.
  destruct (den g) as [| |n| | |]; try (destruct (_ || _); reflexivity).
  rewrite (opt_guard (s_multipleOf s) (fun m => negb (q_eqb m 0) && q_is_int (n / m))),
          (opt_guard (s_minimum s) (fun b => q_leb b n)),
          (opt_guard (s_maximum s) (fun b => q_leb n b)),
          (opt_guard (s_exclusiveMinimum s) (fun b => q_ltb b n)),
          (opt_guard (s_exclusiveMaximum s) (fun b => q_ltb n b)).
  rewrite !guard_and, !andb_assoc.
  destruct (s_multipleOf s), (s_minimum s), (s_maximum s), (s_exclusiveMinimum s), (s_exclusiveMaximum s);
    cbn [is_some orb]; reflexivity.
Qed.

Section Str.
  Variable re_match : str -> str -> bool.

  Lemma check_strings_spec s g : check_strings re_match s (strip g) = guard (a_strings re_match s (den g)).
  Proof.
    unfold check_strings, a_strings. rewrite <- (den_strip g).
    destruct (strip g) eqn:E; cbn [den]; try reflexivity.
    - (* GStr *)
      rewrite (opt_guard (s_minLength s) (fun m => negb (Z.ltb (Z.of_nat (length s0)) m))),
              (opt_guard (s_maxLength s) (fun m => negb (Z.gtb (Z.of_nat (length s0)) m))).
      assert (Hp : (if nonempty (s_pattern s) then guard (re_match (s_pattern s) s0) else Ok tt)
                   = guard (match s_pattern s with [] => true | p => re_match p s0 end)).
      { destruct (s_pattern s); reflexivity. }
      assert (Hmin : opt_ok (s_minLength s) (fun m => negb (Z.ltb (Z.of_nat (length s0)) m))
                     = opt_ok (s_minLength s) (fun m => Z.leb m (Z.of_nat (length s0)))).
      { destruct (s_minLength s); cbn [opt_ok]; [apply z_not_ltb|reflexivity]. }
      assert (Hmax : opt_ok (s_maxLength s) (fun m => negb (Z.gtb (Z.of_nat (length s0)) m))
                     = opt_ok (s_maxLength s) (fun m => Z.leb (Z.of_nat (length s0)) m)).
      { destruct (s_maxLength s); cbn [opt_ok]; [apply z_not_gtb|reflexivity]. }
      rewrite Hp, Hmin, Hmax, !guard_and, !andb_assoc. reflexivity.
    - exfalso. eapply strip_not_ind; eauto.
  Qed.
End Str.
