(** validate.go: state.validate, transcribed in source order.
    Differences of representation only: schemas are (location, value) pairs; the
    annotations handed to the caller are the returned value (the caller merges them
    or drops them, as it passes &anns or nil); Go map iteration order is the order of
    the association lists. *)
From Coq Require Import List NArith ZArith QArith Bool.
From JS Require Import Str Lit Json Res GoValue Equal Hash Schema Env Ann.
Import ListNotations.
Open Scope list_scope.

Definition jtype_name (t : jtype) : str :=
  match t with
  | TNull => lit "null"%lit | TBoolean => lit "boolean"%lit | TInteger => lit "integer"%lit
  | TNumber => lit "number"%lit | TString => lit "string"%lit | TArray => lit "array"%lit | TObject => lit "object"%lit
  end.

Definition nonempty (s : str) : bool := match s with [] => false | _ => true end.
Definition is_some {A} (o : option A) : bool := match o with Some _ => true | None => false end.

Section Validate.
  (** regexp: MatchString of the compiled pattern (oracle, see DESIGN 5) *)
  Variable re_match : str -> str -> bool.
  (** maphash with the seed drawn by this call: an arbitrary function of the bytes written *)
  Variable hash : list tok -> Z.

  (** type keyword *)
  Definition check_type (s : schema) (inst : gv) : res unit :=
    if nonempty (s_type s) || is_some (s_types s) then
      match jsonType inst with
      | None => Err
      | Some got =>
          let g := jtype_name got in
          if nonempty (s_type s) then
            guard (str_eqb g (s_type s) ||
                   (str_eqb g (lit "integer"%lit) && str_eqb (s_type s) (lit "number"%lit)))
          else
            let ts := match s_types s with Some l => l | None => [] end in
            guard (mem_str g ts || (str_eqb g (lit "integer"%lit) && mem_str (lit "number"%lit) ts))
      end
    else Ok tt.

  Definition check_enum (s : schema) (inst : gv) : res unit :=
    match s_enum s with
    | Some l => guard (existsb (fun e => equalValue e inst) l)
    | None => Ok tt
    end.

  Definition check_const (s : schema) (inst : gv) : res unit :=
    match s_const s with
    | Some c => guard (equalValue c inst)
    | None => Ok tt
    end.

  Definition check_numbers (s : schema) (inst : gv) : res unit :=
    if is_some (s_multipleOf s) || is_some (s_minimum s) || is_some (s_maximum s)
       || is_some (s_exclusiveMinimum s) || is_some (s_exclusiveMaximum s) then
      match jsonNumber inst with
      | None => Ok tt
      | Some n =>
          (match s_multipleOf s with
           | Some m => guard (negb (q_eqb m 0) && q_is_int (n / m))
           | None => Ok tt
           end) ;;;
          (match s_minimum s with Some b => guard (q_leb b n) | None => Ok tt end) ;;;
          (match s_maximum s with Some b => guard (q_leb n b) | None => Ok tt end) ;;;
          (match s_exclusiveMinimum s with Some b => guard (q_ltb b n) | None => Ok tt end) ;;;
          (match s_exclusiveMaximum s with Some b => guard (q_ltb n b) | None => Ok tt end)
      end
    else Ok tt.

  Definition check_strings (s : schema) (inst : gv) : res unit :=
    match inst with
    | GStr sv =>
        let n := Z.of_nat (length sv) in
        (match s_minLength s with Some m => guard (negb (Z.ltb n m)) | None => Ok tt end) ;;;
        (match s_maxLength s with Some m => guard (negb (Z.gtb n m)) | None => Ok tt end) ;;;
        (if nonempty (s_pattern s) then guard (re_match (s_pattern s) sv) else Ok tt)
    | _ => Ok tt
    end.

  (** uniqueItems: the bucket algorithm of validate.go (hashes: hash -> indices, in insertion order) *)
  Fixpoint bucket_get (h : Z) (t : list (Z * list nat)) : list nat :=
    match t with
    | [] => []
    | (h', l) :: r => if Z.eqb h h' then l else bucket_get h r
    end.
  Fixpoint bucket_add (h : Z) (i : nat) (t : list (Z * list nat)) : list (Z * list nat) :=
    match t with
    | [] => [(h, [i])]
    | (h', l) :: r => if Z.eqb h h' then (h', l ++ [i]) :: r else (h', l) :: bucket_add h i r
    end.
  Fixpoint unique_loop (all : list gv) (i : nat) (items : list gv) (t : list (Z * list nat)) : bool :=
    match items with
    | [] => true
    | item :: r =>
        let hv := hash (hash_stream item) in
        if existsb (fun j => equalValue item (nth j all GNil)) (bucket_get hv t) then false
        else unique_loop all (S i) r (bucket_add hv i t)
    end.
  Definition check_unique (s : schema) (items : list gv) : res unit :=
    if s_uniqueItems s && Nat.ltb 1 (length items) then guard (unique_loop items 0 items []) else Ok tt.

  (** one call [st.validate(inst, schema, ...)] on a callee, given by location and value *)
  Definition vfun := gv -> loc -> schema -> res anns.

  (** loop helpers over sub-validations *)
  (* every listed schema must accept [inst]; annotations are merged (callerAnns = &anns) *)
  Fixpoint all_merge (v : vfun) (inst : gv) (cs : list (loc * schema)) (a : anns) : res anns :=
    match cs with
    | [] => Ok a
    | (l, c) :: r => a' <- v inst l c ;; all_merge v inst r (merge a a')
    end.

  (* items i.. of [items] against one schema, annotations dropped (callerAnns = nil) *)
  Fixpoint each_item (v : vfun) (items : list gv) (l : loc) (c : schema) : res unit :=
    match items with
    | [] => Ok tt
    | x :: r => v x l c ;;; each_item v r l c
    end.

  (* prefixItems / items array: pairwise until either list ends *)
  Fixpoint zip_items (v : vfun) (items : list gv) (cs : list (loc * schema)) : res unit :=
    match items, cs with
    | x :: r, (l, c) :: cr => v x l c ;;; zip_items v r cr
    | _, _ => Ok tt
    end.

  Fixpoint index_from {A} (i : nat) (l : list A) : list (nat * A) :=
    match l with
    | [] => []
    | x :: r => (i, x) :: index_from (S i) r
    end.

  Definition list_locs (l : loc) (name : str) (cs : list schema) : list (loc * schema) :=
    map (fun ic => (child_loc l [SKey name; SIdx (fst ic)], snd ic)) (index_from 0 cs).
  Definition map_locs (l : loc) (name : str) (cs : list (str * schema)) : list (str * (loc * schema)) :=
    map (fun kc => (fst kc, (child_loc l [SKey name; SKey (fst kc)], snd kc))) cs.
  Definition one_loc (l : loc) (name : str) : loc := child_loc l [SKey name].

  (* contains: count the matching items and note their indexes *)
  Fixpoint contains_loop (v : vfun) (i : nat) (items : list gv) (l : loc) (c : schema) (n : nat) (a : anns)
    : res (nat * anns) :=
    match items with
    | [] => Ok (n, a)
    | x :: r =>
        attempt (v x l c)
                (fun _ => contains_loop v (S i) r l c (S n) (noteIndex i a))
                (contains_loop v (S i) r l c n a)
    end.

  (* unevaluatedItems: from endIndex on, skipping evaluatedIndexes *)
  Fixpoint uneval_items (v : vfun) (i : nat) (items : list gv) (l : loc) (c : schema) (a : anns) : res unit :=
    match items with
    | [] => Ok tt
    | x :: r =>
        (if Nat.leb (endIndex a) i && negb (mem_nat i (evalIdx a)) then v x l c ;;; Ok tt else Ok tt) ;;;
        uneval_items v (S i) r l c a
    end.

  (* for prop, subschema := range schema.Properties *)
  Fixpoint props_loop (v : vfun) (m : list (str * gv)) (ps : list (str * (loc * schema))) (ev : list str)
    : res (list str) :=
    match ps with
    | [] => Ok ev
    | (k, (l, c)) :: r =>
        match lookup k m with
        | None => props_loop v m r ev
        | Some val => v val l c ;;; props_loop v m r (k :: ev)
        end
    end.

  (* for prop, val := range properties(instance) { for re, schema := range patternProperties {...} } *)
  Fixpoint pattern_inner (v : vfun) (k : str) (val : gv) (ps : list (str * (loc * schema))) (ev : list str)
    : res (list str) :=
    match ps with
    | [] => Ok ev
    | (pat, (l, c)) :: r =>
        if re_match pat k then v val l c ;;; pattern_inner v k val r (k :: ev)
        else pattern_inner v k val r ev
    end.
  Fixpoint pattern_loop (v : vfun) (m : list (str * gv)) (ps : list (str * (loc * schema))) (ev : list str)
    : res (list str) :=
    match m with
    | [] => Ok ev
    | (k, val) :: r => ev' <- pattern_inner v k val ps ev ;; pattern_loop v r ps ev'
    end.

  (* additionalProperties, general path *)
  Fixpoint additional_loop (v : vfun) (m : list (str * gv)) (l : loc) (c : schema) (ev : list str)
    : res (list str) :=
    match m with
    | [] => Ok ev
    | (k, val) :: r =>
        if mem_str k ev then additional_loop v r l c ev
        else v val l c ;;; additional_loop v r l c (k :: ev)
    end.

  Fixpoint names_loop (v : vfun) (m : list (str * gv)) (l : loc) (c : schema) : res unit :=
    match m with
    | [] => Ok tt
    | (k, _) :: r => v (GStr k) l c ;;; names_loop v r l c
    end.

  Definition has_all (m : list (str * gv)) (names : list str) : bool :=
    forallb (fun p => is_some (lookup p m)) names.

  Fixpoint dep_required (m : list (str * gv)) (d : list (str * list str)) : res unit :=
    match d with
    | [] => Ok tt
    | (k, reqs) :: r =>
        (if is_some (lookup k m) then guard (has_all m reqs) else Ok tt) ;;; dep_required m r
    end.

  Fixpoint dep_schemas (v : vfun) (inst : gv) (m : list (str * gv)) (d : list (str * (loc * schema))) (a : anns)
    : res anns :=
    match d with
    | [] => Ok a
    | (k, (l, c)) :: r =>
        if is_some (lookup k m) then a' <- v inst l c ;; dep_schemas v inst m r (merge a a')
        else dep_schemas v inst m r a
    end.

  Fixpoint uneval_props (v : vfun) (m : list (str * gv)) (l : loc) (c : schema) (a : anns) : res unit :=
    match m with
    | [] => Ok tt
    | (k, val) :: r =>
        (if mem_str k (evalProps a) then Ok tt else v val l c ;;; Ok tt) ;;; uneval_props v r l c a
    end.

  (** anyOf: visit every branch, merge the annotations of those that succeed, count them *)
  Fixpoint anyof_loop (v : vfun) (inst : gv) (cs : list (loc * schema)) (a : anns) (n : nat) : res (nat * anns) :=
    match cs with
    | [] => Ok (n, a)
    | (l, c) :: r =>
        attempt (v inst l c)
                (fun a' => anyof_loop v inst r (merge a a') (S n))
                (anyof_loop v inst r a n)
    end.

  (** oneOf: a second success is an immediate error *)
  Fixpoint oneof_loop (v : vfun) (inst : gv) (cs : list (loc * schema)) (a : anns) (seen : bool) : res (bool * anns) :=
    match cs with
    | [] => Ok (seen, a)
    | (l, c) :: r =>
        attempt (v inst l c)
                (fun a' => if seen then Err else oneof_loop v inst r (merge a a') true)
                (oneof_loop v inst r a seen)
    end.

  Definition opt_list {A} (o : option (list A)) : list A := match o with Some l => l | None => [] end.

  (** the dynamic lookup: outermost stack entry whose base declares the dynamic anchor *)
  Fixpoint dyn_lookup (e : env) (stack : list loc) (name : str) : res (option loc) :=
    match stack with
    | [] => Ok None
    | s :: r =>
        match info_at e s with
        | None => Panic
        | Some si =>
            match info_at e (ri_base si) with
            | None => Panic
            | Some bi =>
                match lookup name (ri_anchors bi) with
                | Some (t, true) => Ok (Some t)
                | _ => dyn_lookup e r name
                end
            end
        end
    end.

  Definition call_at (e : env) (v : vfun) (inst : gv) (t : loc) : res anns :=
    match node_at e t with
    | Some c => v inst t c
    | None => Panic
    end.

  (** array phase: items part (draft switch), contains part, counts, unevaluatedItems *)
  Definition items_part (e : env) (v : vfun) (l : loc) (s : schema) (items : list gv) (a0 : anns) : res anns :=
    let len := length items in
    if e_draft7 e then
      match s_itemsArray s with
      | Some ia =>
          zip_items v items (list_locs l (lit "items"%lit) ia) ;;;
          let a := noteEndIndex (Nat.min (length ia) len) a0 in
          match s_additionalItems s with
          | Some ai =>
              each_item v (skipn (length ia) items) (one_loc l (lit "additionalItems"%lit)) ai ;;;
              Ok (setAllItems a)
          | None => Ok a
          end
      | None =>
          match s_items s with
          | Some it => each_item v items (one_loc l (lit "items"%lit)) it ;;; Ok (setAllItems a0)
          | None => Ok a0
          end
      end
    else
      let pi := opt_list (s_prefixItems s) in
      zip_items v items (list_locs l (lit "prefixItems"%lit) pi) ;;;
      let a := noteEndIndex (Nat.min (length pi) len) a0 in
      match s_items s with
      | Some it => each_item v (skipn (length pi) items) (one_loc l (lit "items"%lit)) it ;;; Ok (setAllItems a)
      | None => Ok a
      end.

  Definition contains_part (v : vfun) (l : loc) (s : schema) (items : list gv) (a1 : anns) : res (nat * anns) :=
    match s_contains s with
    | Some c =>
        na <- contains_loop v 0 items (one_loc l (lit "contains"%lit)) c 0 a1 ;;
        (if Nat.eqb (fst na) 0 && (match s_minContains s with None => true | Some m => Z.gtb m 0 end)
         then Err else Ok na)
    | None => Ok (0%nat, a1)
    end.

  Definition array_counts (s : schema) (items : list gv) (nContains : Z) : res unit :=
    (match s_minContains s, s_contains s with
     | Some m, Some _ => guard (negb (Z.ltb nContains m))
     | _, _ => Ok tt
     end) ;;;
    (match s_maxContains s, s_contains s with
     | Some m, Some _ => guard (negb (Z.gtb nContains m))
     | _, _ => Ok tt
     end) ;;;
    (match s_minItems s with Some m => guard (negb (Z.ltb (Z.of_nat (length items)) m)) | None => Ok tt end) ;;;
    (match s_maxItems s with Some m => guard (negb (Z.gtb (Z.of_nat (length items)) m)) | None => Ok tt end) ;;;
    check_unique s items.

  Definition uneval_items_part (v : vfun) (l : loc) (s : schema) (items : list gv) (a2 : anns) : res anns :=
    match s_unevaluatedItems s with
    | Some u =>
        if allItems a2 then Ok a2
        else uneval_items v 0 items (one_loc l (lit "unevaluatedItems"%lit)) u a2 ;;; Ok (setAllItems a2)
    | None => Ok a2
    end.

  Definition arrays_phase (e : env) (v : vfun) (l : loc) (s : schema) (items : list gv) (a0 : anns) : res anns :=
    a1 <- items_part e v l s items a0 ;;
    na <- contains_part v l s items a1 ;;
    array_counts s items (Z.of_nat (fst na)) ;;;
    uneval_items_part v l s items (snd na).

  (** object phase: properties / patternProperties / additionalProperties, then names and
      counts, then dependencies (draft switch), then unevaluatedProperties *)
  Definition props_part (e : env) (v : vfun) (l : loc) (s : schema) (m : list (str * gv)) : res (list str) :=
    ev1 <- props_loop v m (map_locs l (lit "properties"%lit) (opt_list (s_properties s))) [] ;;
    ev2 <-
      (match s_patternProperties s with
       | Some ((_ :: _) as pp) => pattern_loop v m (map_locs l (lit "patternProperties"%lit) pp) ev1
       | _ => Ok ev1
       end) ;;
    match s_additionalProperties s with
    | Some ap =>
        let isFalsy := match s_not ap with Some n => is_zero_schema n | None => false end
                       && negb (e_draft7 e && nonempty (s_ref ap)) in
        if isFalsy then
          (if forallb (fun kv => mem_str (fst kv) ev2) m then Ok ev2 else Err)
        else additional_loop v m (one_loc l (lit "additionalProperties"%lit)) ap ev2
    | None => Ok ev2
    end.

  Definition object_counts (v : vfun) (l : loc) (s : schema) (m : list (str * gv)) : res unit :=
    (match s_propertyNames s with
     | Some pn => names_loop v m (one_loc l (lit "propertyNames"%lit)) pn
     | None => Ok tt
     end) ;;;
    let n := Z.of_nat (length m) in
    (match s_minProperties s with Some k => guard (negb (Z.ltb n k)) | None => Ok tt end) ;;;
    (match s_maxProperties s with Some k => guard (negb (Z.gtb n k)) | None => Ok tt end) ;;;
    (match s_required s with Some req => guard (has_all m req) | None => Ok tt end).

  Definition deps_part (e : env) (v : vfun) (l : loc) (s : schema) (inst : gv) (m : list (str * gv)) (a1 : anns) : res anns :=
    if e_draft7 e then
      dep_required m (opt_list (s_dependencyStrings s)) ;;;
      dep_schemas v inst m (map_locs l (lit "dependencies"%lit) (opt_list (s_dependencySchemas s))) a1
    else
      dep_required m (opt_list (s_dependentRequired s)) ;;;
      dep_schemas v inst m (map_locs l (lit "dependentSchemas"%lit) (opt_list (s_dependentSchemas s))) a1.

  Definition uneval_props_part (v : vfun) (l : loc) (s : schema) (m : list (str * gv)) (a2 : anns) : res anns :=
    match s_unevaluatedProperties s with
    | Some u =>
        if allProps a2 then Ok a2
        else uneval_props v m (one_loc l (lit "unevaluatedProperties"%lit)) u a2 ;;; Ok (setAllProps a2)
    | None => Ok a2
    end.

  Definition objects_phase (e : env) (v : vfun) (l : loc) (s : schema) (inst : gv) (m : list (str * gv)) (a0 : anns)
    : res anns :=
    ev3 <- props_part e v l s m ;;
    let a1 := noteProperties ev3 a0 in
    object_counts v l s m ;;;
    a2 <- deps_part e v l s inst m a1 ;;
    uneval_props_part v l s m a2.

  (** everything after the stack push and the stripping of pointers/interfaces *)
  Definition validate_body (e : env) (v : vfun) (stack : list loc) (inst : gv) (l : loc) (s : schema) : res anns :=
    let info := info_at e l in
    (* $ref *)
    r1 <-
      (if nonempty (s_ref s) then
         match info with
         | None => Panic
         | Some i =>
             match ri_ref i with
             | None => Panic
             | Some t => a <- call_at e v inst t ;; Ok (merge no_anns a, e_draft7 e)
             end
         end
       else Ok (no_anns, false)) ;;
    if snd r1 then Ok no_anns (* draft-07: everything beside $ref is ignored; nothing is handed to the caller *)
    else
    let a1 := fst r1 in
    check_type s inst ;;;
    check_enum s inst ;;;
    check_const s inst ;;;
    check_numbers s inst ;;;
    check_strings s inst ;;;
    (* $dynamicRef *)
    a2 <-
      (if nonempty (s_dynamicRef s) then
         match info with
         | None => Panic
         | Some i =>
             match ri_dynref i with
             | None => Panic
             | Some t0 =>
                 t <- (if nonempty (ri_dynanchor i) then
                         d <- dyn_lookup e stack (ri_dynanchor i) ;;
                         Ok (match d with Some t => t | None => t0 end)
                       else Ok t0) ;;
                 a <- call_at e v inst t ;; Ok (merge a1 a)
             end
         end
       else Ok a1) ;;
    (* allOf *)
    a3 <- (match s_allOf s with
           | Some cs => all_merge v inst (list_locs l (lit "allOf"%lit) cs) a2
           | None => Ok a2
           end) ;;
    (* anyOf *)
    a4 <- (match s_anyOf s with
           | Some cs =>
               na <- anyof_loop v inst (list_locs l (lit "anyOf"%lit) cs) a3 0 ;;
               if Nat.eqb (fst na) 0 then Err else Ok (snd na)
           | None => Ok a3
           end) ;;
    (* oneOf *)
    a5 <- (match s_oneOf s with
           | Some cs =>
               ba <- oneof_loop v inst (list_locs l (lit "oneOf"%lit) cs) a4 false ;;
               if fst ba then Ok (snd ba) else Err
           | None => Ok a4
           end) ;;
    (* not *)
    (match s_not s with
     | Some c => attempt (v inst (one_loc l (lit "not"%lit)) c) (fun _ => Err) (Ok tt)
     | None => Ok tt
     end) ;;;
    (* if / then / else *)
    a6 <- (match s_if s with
           | Some c =>
               attempt (v inst (one_loc l (lit "if"%lit)) c)
                       (fun a' =>
                          let a := merge a5 a' in
                          match s_then s with
                          | Some t => a'' <- v inst (one_loc l (lit "then"%lit)) t ;; Ok (merge a a'')
                          | None => Ok a
                          end)
                       (match s_else s with
                        | Some t => a'' <- v inst (one_loc l (lit "else"%lit)) t ;; Ok (merge a5 a'')
                        | None => Ok a5
                        end)
           | None => Ok a5
           end) ;;
    (* arrays *)
    a7 <- (match inst with
           | GArr items => arrays_phase e v l s items a6
           | _ => Ok a6
           end) ;;
    (* objects *)
    match inst with
    | GMap m => objects_phase e v l s inst m a7
    | _ => Ok a7
    end.

  Fixpoint validate (fuel : nat) (e : env) (stack : list loc) (inst : gv) (l : loc) (s : schema) : res anns :=
    match fuel with
    | O => OutOfFuel
    | S n =>
        let stack' := stack ++ [l] in
        validate_body e (validate n e stack') stack' (strip inst) l s
    end.

  (** Resolved.Validate *)
  Definition isValidSchemaVersion (v : str) : bool :=
    match v with [] => true | _ => false end
    || str_eqb v (lit "http://json-schema.org/draft-07/schema#"%lit)
    || str_eqb v (lit "https://json-schema.org/draft-07/schema#"%lit)
    || str_eqb v (lit "https://json-schema.org/draft/2020-12/schema"%lit).

  Definition Validate (fuel : nat) (e : env) (inst : gv) : res unit :=
    if isValidSchemaVersion (e_version e) then
      match node_at e (0%nat, []) with
      | Some root => validate fuel e [] inst (0%nat, []) root ;;; Ok tt
      | None => Panic
      end
    else Err.
End Validate.
