(** C14: the specification's verdict does not depend on the order of the entries of any map of
    the schema (properties, patternProperties, dependentSchemas, dependentRequired, $defs ...),
    at any depth, nor of the maps of the schemas a reference leads to. *)
From Coq Require Import List NArith ZArith QArith Bool Lia Permutation.
From JS Require Import Str StrFacts Lit Json JsonFacts Res GoValue Schema SchemaRel Basic Env Spec SpecMono SpecPerm.

Import ListNotations.
Open Scope list_scope.
Local Open Scope nat_scope.

(** results up to the order in which annotations were collected *)
Definition seq' (a b : sigma) : Prop :=
  (forall k, mem_str k (sP a) = mem_str k (sP b)) /\ (forall i, mem_nat i (sI a) = mem_nat i (sI b)).
Definition req (r r' : bool * sigma) : Prop := fst r = fst r' /\ seq' (snd r) (snd r').
Definition oreq (o o' : sres) : Prop :=
  match o, o' with Some r, Some r' => req r r' | None, None => True | _, _ => False end.
Definition oleq (o o' : option (list (bool * sigma))) : Prop :=
  match o, o' with Some r, Some r' => Forall2 req r r' | None, None => True | _, _ => False end.

Lemma seq_refl a : seq' a a. Proof. split; auto. Qed.
Lemma req_refl r : req r r. Proof. split; [reflexivity|apply seq_refl]. Qed.
Lemma seq_trans a b c : seq' a b -> seq' b c -> seq' a c.
Proof. intros [H1 H2] [H3 H4]. split; intros; [rewrite H1; apply H3|rewrite H2; apply H4]. Qed.
Lemma seq_sym a b : seq' a b -> seq' b a.
Proof. intros [H1 H2]. split; intros; symmetry; auto. Qed.

Lemma mem_nat_app i a b : mem_nat i (a ++ b) = mem_nat i a || mem_nat i b.
Proof. induction a as [|x r IH]; cbn; [reflexivity|]. now rewrite IH, orb_assoc. Qed.

Lemma sig_union_seq a a' b b' : seq' a a' -> seq' b b' -> seq' (sig_union a b) (sig_union a' b').
Proof.
  intros [H1 H2] [H3 H4]. split; intros; cbn [sig_union sP sI].
  - now rewrite !mem_str_app, H1, H3.
  - now rewrite !mem_nat_app, H2, H4.
Qed.

Lemma all_true_req r r' : Forall2 req r r' -> all_true r = all_true r'.
Proof. induction 1 as [|x y l l' [Hb _] _ IH]; [reflexivity|]. unfold all_true in *. cbn [forallb]. now rewrite Hb, IH. Qed.
Lemma count_true_req r r' : Forall2 req r r' -> count_true r = count_true r'.
Proof. induction 1 as [|x y l l' [Hb _] _ IH]; [reflexivity|]. unfold count_true in *. cbn [filter]. rewrite Hb. destruct (fst y); cbn [length]; now rewrite IH. Qed.
Lemma exists_true_req r r' : Forall2 req r r' -> existsb (fun x : bool * sigma => fst x) r = existsb (fun x => fst x) r'.
Proof. induction 1 as [|x y l l' [Hb _] _ IH]; [reflexivity|]. cbn [existsb]. now rewrite Hb, IH. Qed.
Lemma sig_of_true_req r r' : Forall2 req r r' -> seq' (sig_of_true r) (sig_of_true r').
Proof.
  induction 1 as [|x y l l' [Hb Hs] _ IH]; [apply seq_refl|]. cbn [sig_of_true fold_right]. rewrite Hb.
  destruct (fst y); [|exact IH]. now apply sig_union_seq.
Qed.

(** permutations of result lists *)
Lemma all_true_perm r r' : Permutation r r' -> all_true r = all_true r'.
Proof.
  unfold all_true. induction 1 as [|x l l' _ IH|x y l|l1 l2 l3 _ IH1 _ IH2]; cbn; [reflexivity|now rewrite IH| |congruence].
  destruct (fst x), (fst y); reflexivity.
Qed.
Lemma sig_of_true_perm r r' : Permutation r r' -> seq' (sig_of_true r) (sig_of_true r').
Proof.
  induction 1 as [|x l l' _ IH|x y l|l1 l2 l3 _ IH1 _ IH2]; [apply seq_refl| | |eapply seq_trans; eauto].
  - cbn [sig_of_true fold_right]. destruct (fst x); [|exact IH]. apply sig_union_seq; [apply seq_refl|exact IH].
  - cbn [sig_of_true fold_right]. fold (sig_of_true l).
    destruct (fst x), (fst y); try apply seq_refl.
    split; intros; cbn [sig_union sP sI].
    + rewrite !mem_str_app. destruct (mem_str k (sP (snd x))), (mem_str k (sP (snd y))); reflexivity.
    + rewrite !mem_nat_app. destruct (mem_nat i (sI (snd x))), (mem_nat i (sI (snd y))); reflexivity.
Qed.

Lemma eval_all_perm {A} (f : A -> sres) l l' : Permutation l l' ->
  match eval_all f l, eval_all f l' with
  | Some r, Some r' => Permutation r r'
  | None, None => True
  | _, _ => False
  end.
Proof.
  induction 1 as [|x l l' _ IH|x y l|l1 l2 l3 _ IH1 _ IH2]; cbn [eval_all].
  - constructor.
  - destruct (f x); [|destruct (eval_all f l), (eval_all f l'); try contradiction; exact I].
    destruct (eval_all f l), (eval_all f l'); try contradiction; [now constructor|exact I].
  - destruct (f x), (f y), (eval_all f l); try exact I. apply perm_swap.
  - destruct (eval_all f l1), (eval_all f l2), (eval_all f l3); try contradiction; try exact I. eapply perm_trans; eauto.
Qed.

Lemma eval_all_req {A B} (Q : A -> B -> Prop) (f : A -> sres) (f' : B -> sres) la lb :
  Forall2 Q la lb -> (forall a b, Q a b -> oreq (f a) (f' b)) -> oleq (eval_all f la) (eval_all f' lb).
Proof.
  intros HF Hq. induction HF as [|a b la lb Hab _ IH]; cbn [eval_all]; [constructor|].
  specialize (Hq a b Hab). unfold oreq in Hq. unfold oleq in *.
  destruct (f a), (f' b); try contradiction.
  - destruct (eval_all f la), (eval_all f' lb); try contradiction; [now constructor|exact I].
  - destruct (eval_all f la), (eval_all f' lb); try contradiction; exact I.
Qed.

(** a result list up to order and up to [req] *)
Definition preq (o o' : option (list (bool * sigma))) : Prop :=
  match o, o' with
  | Some r, Some r' => exists r2, Permutation r r2 /\ Forall2 req r2 r'
  | None, None => True
  | _, _ => False
  end.
Lemma preq_all_true r r' : preq (Some r) (Some r') -> all_true r = all_true r'.
Proof. intros (r2 & Hp & Hf). rewrite (all_true_perm _ _ Hp). now apply all_true_req. Qed.
Lemma preq_sig_of_true r r' : preq (Some r) (Some r') -> seq' (sig_of_true r) (sig_of_true r').
Proof. intros (r2 & Hp & Hf). eapply seq_trans; [apply sig_of_true_perm; exact Hp|now apply sig_of_true_req]. Qed.

(** maps related by [mrel] *)
Section MRel.
  Context {A : Type} (R : A -> A -> Prop).
  Variables m m' : list (str * A).
  Hypothesis H : mrel R m m'.

  Lemma mrel_eval (f f' : str * A -> sres) :
    (forall k a b, R a b -> oreq (f (k, a)) (f' (k, b))) -> preq (eval_all f m) (eval_all f' m').
  Proof.
    intros Hf. destruct H as (_ & m2 & Hp & HF).
    pose proof (eval_all_perm f _ _ Hp) as H1.
    pose proof (eval_all_req (fun a b : str * A => fst a = fst b /\ R (snd a) (snd b)) f f' m2 m' HF) as H2.
    assert (Hq : forall a b : str * A, fst a = fst b /\ R (snd a) (snd b) -> oreq (f a) (f' b)).
    { intros [k a] [k' b] [Hk Hr]. cbn in Hk, Hr. subst k'. now apply Hf. }
    specialize (H2 Hq). unfold oleq in H2. unfold preq.
    destruct (eval_all f m), (eval_all f m2), (eval_all f' m'); try contradiction; try exact I.
    eexists; eauto.
  Qed.

  Lemma mrel_keys_perm : Permutation (keys m) (keys m').
  Proof.
    destruct H as (_ & m2 & Hp & HF). unfold keys. eapply perm_trans; [apply Permutation_map; exact Hp|].
    assert (E : map fst m2 = map fst m') by (clear -HF; induction HF as [|a b l l' [Hk _] _ IH]; cbn [map]; [reflexivity|now rewrite Hk, IH]).
    rewrite E. apply Permutation_refl.
  Qed.
  Lemma mrel_nodup' : NoDup (keys m').
  Proof. eapply Permutation_NoDup; [apply mrel_keys_perm|apply H]. Qed.

  Lemma mrel_lookup k :
    match lookup k m, lookup k m' with
    | Some a, Some b => R a b
    | None, None => True
    | _, _ => False
    end.
  Proof.
    pose proof mrel_nodup' as Hnd'. destruct H as (Hnd & m2 & Hp & HF).
    assert (Hnd2 : NoDup (keys m2)) by (eapply Permutation_NoDup; [apply Permutation_map; exact Hp|exact Hnd]).
    assert (E : lookup k m = lookup k m2).
    { destruct (lookup k m) as [a|] eqn:El.
      - apply lookup_In in El. symmetry. apply In_lookup; [exact Hnd2|]. eapply Permutation_in; eauto.
      - destruct (lookup k m2) as [a|] eqn:El2; [|reflexivity]. apply lookup_In in El2.
        apply (Permutation_in _ (Permutation_sym Hp)) in El2. apply (In_lookup _ _ _ Hnd) in El2. congruence. }
    rewrite E. clear -HF. induction HF as [|[k1 a] [k2 b] l l' [Hk Hr] _ IH]; cbn [lookup]; [exact I|].
    cbn in Hk, Hr. subst k2. destruct (str_eqb k k1); [exact Hr|exact IH].
  Qed.
End MRel.

Lemma forallb_perm {A} (f : A -> bool) l l' : Permutation l l' -> forallb f l = forallb f l'.
Proof.
  induction 1 as [|x l l' _ IH|x y l|l1 l2 l3 _ IH1 _ IH2]; cbn; [reflexivity|now rewrite IH| |congruence].
  destruct (f x), (f y); reflexivity.
Qed.
Lemma existsb_perm {A} (f : A -> bool) l l' : Permutation l l' -> existsb f l = existsb f l'.
Proof.
  induction 1 as [|x l l' _ IH|x y l|l1 l2 l3 _ IH1 _ IH2]; cbn; [reflexivity|now rewrite IH| |congruence].
  destruct (f x), (f y); reflexivity.
Qed.

Lemma mrel_eq_perm {A} (m m' : list (str * A)) : mrel eq m m' -> Permutation m m'.
Proof.
  intros (_ & m2 & Hp & HF). assert (E : m2 = m').
  { clear -HF. induction HF as [|[k a] [k' b] l l' [Hk Hv] _ IH]; [reflexivity|]. cbn in Hk, Hv. now subst. }
  now subst.
Qed.

Lemma optrel_olist_mrel_eq {A} (f : str * A -> bool) (o o' : option (list (str * A))) :
  optrel (mrel eq) o o' -> opt_ok o (forallb f) = opt_ok o' (forallb f).
Proof. intros [|a b H]; [reflexivity|]. cbn [opt_ok]. apply forallb_perm. now apply mrel_eq_perm. Qed.

Section Assert.
  Variable re_match : str -> str -> bool.
  Variables s s' : schema.
  Hypothesis H : srel s s'.

  Lemma a_type_srel j : a_type s j = a_type s' j.
  Proof. unfold a_type. now rewrite (srel_type _ _ H), (srel_types _ _ H). Qed.
  Lemma a_enum_srel j : a_enum s j = a_enum s' j.
  Proof. unfold a_enum. now rewrite (srel_enum _ _ H). Qed.
  Lemma a_const_srel j : a_const s j = a_const s' j.
  Proof. unfold a_const. now rewrite (srel_const _ _ H). Qed.
  Lemma a_numbers_srel j : a_numbers s j = a_numbers s' j.
  Proof.
    unfold a_numbers. now rewrite (srel_multipleOf _ _ H), (srel_minimum _ _ H), (srel_maximum _ _ H),
      (srel_exclusiveMinimum _ _ H), (srel_exclusiveMaximum _ _ H).
  Qed.
  Lemma a_strings_srel j : a_strings re_match s j = a_strings re_match s' j.
  Proof. unfold a_strings. now rewrite (srel_minLength _ _ H), (srel_maxLength _ _ H), (srel_pattern _ _ H). Qed.
  Lemma a_array_counts_srel j : a_array_counts s j = a_array_counts s' j.
  Proof. unfold a_array_counts. now rewrite (srel_minItems _ _ H), (srel_maxItems _ _ H), (srel_uniqueItems _ _ H). Qed.
  Lemma a_object_counts_srel d7 j : a_object_counts d7 s j = a_object_counts d7 s' j.
  Proof.
    unfold a_object_counts. destruct j; try reflexivity.
    rewrite (srel_minProperties _ _ H), (srel_maxProperties _ _ H), (srel_required _ _ H). f_equal.
    destruct d7; apply optrel_olist_mrel_eq; [apply (srel_dependencyStrings _ _ H)|apply (srel_dependentRequired _ _ H)].
  Qed.
End Assert.

Section Body.
  Variable re_match : str -> str -> bool.
  Variables e e' : env.
  Hypothesis He7 : e_draft7 e = e_draft7 e'.
  Hypothesis Hinfo : forall l, info_at e l = info_at e' l.
  Hypothesis Hnode : forall l, optrel srel (node_at e l) (node_at e' l).
  Variables ev ev' : efun.
  Hypothesis Hev : forall j l c c', srel c c' -> oreq (ev j l c) (ev' j l c').

  Lemma scope_lookup_eq C a : scope_lookup e C a = scope_lookup e' C a.
  Proof.
    unfold scope_lookup. induction C as [|l r IH]; [reflexivity|].
    rewrite <- (Hinfo l). destruct (info_at e l) as [li|]; [|reflexivity].
    rewrite <- (Hinfo (ri_base li)). destruct (info_at e (ri_base li)) as [bi|]; [|reflexivity].
    destruct (lookup a (ri_anchors bi)) as [[t [|]]|]; try reflexivity; exact IH.
  Qed.

  Lemma one_req j l o o' : optrel srel o o' -> oleq (one ev j l o) (one ev' j l o').
  Proof.
    intros [|c c' Hc]; cbn [one eval_all]; [constructor|].
    specialize (Hev j l c c' Hc). unfold oreq in Hev. destruct (ev j l c), (ev' j l c'); try contradiction; [|exact I].
    cbn. constructor; [exact Hev|constructor].
  Qed.

  Lemma target_req j t : optrel srel (node_at e t) (node_at e' t) ->
    oleq (match node_at e t with Some c => eval_all (fun c => ev j t c) [c] | None => None end)
         (match node_at e' t with Some c => eval_all (fun c => ev' j t c) [c] | None => None end).
  Proof.
    intros [|c c' Hc]; [exact I|]. cbn [eval_all].
    specialize (Hev j t c c' Hc). unfold oreq in Hev. destruct (ev j t c), (ev' j t c'); try contradiction; [|exact I].
    cbn. constructor; [exact Hev|constructor].
  Qed.

  Lemma Forall2_idx {A} (R : A -> A -> Prop) (l l' : list A) : Forall2 R l l' ->
    Forall2 (fun a b : nat * A => fst a = fst b /\ R (snd a) (snd b)) (idx_list l) (idx_list l').
  Proof.
    unfold idx_list. intros HF. rewrite <- (Forall2_len _ _ _ HF). generalize 0.
    induction HF as [|a b l l' Hab _ IH]; intros n; cbn [length seq combine]; [constructor|].
    constructor; [split; [reflexivity|exact Hab]|apply IH].
  Qed.

  Lemma idx_req j l name o o' : optrel (Forall2 srel) o o' ->
    oleq (eval_all (fun ic => ev j (ch_i l name (fst ic)) (snd ic)) (idx_list (olist o)))
         (eval_all (fun ic => ev' j (ch_i l name (fst ic)) (snd ic)) (idx_list (olist o'))).
  Proof.
    intros Ho. assert (HF : Forall2 srel (olist o) (olist o')) by (destruct Ho; [constructor|assumption]).
    eapply eval_all_req; [apply (Forall2_idx srel); exact HF|].
    intros [i c] [i' c'] [Hi Hc]. cbn [fst snd] in *. subst i'. now apply Hev.
  Qed.

  (** arrays *)
  Definition arr_rel (o o' : option (bool * list nat)) : Prop :=
    match o, o' with Some r, Some r' => r = r' | None, None => True | _, _ => False end.

  Lemma matched_req n rs rs' : Forall2 req rs rs' ->
    map fst (filter (fun ir : nat * (bool * sigma) => fst (snd ir)) (combine (seq 0 n) rs)) =
    map fst (filter (fun ir : nat * (bool * sigma) => fst (snd ir)) (combine (seq 0 n) rs')).
  Proof.
    generalize 0. revert rs rs'. induction n as [|n IH]; intros rs rs' k HF; [reflexivity|].
    cbn [seq]. destruct HF as [|x y l l' [Hb _] HF]; [reflexivity|]. cbn [combine filter snd]. rewrite Hb.
    destruct (fst y); cbn [map fst]; [f_equal|]; now apply IH.
  Qed.

  Section Arr.
    Variables s s' : schema.
    Hypothesis H : srel s s'.

    Lemma prefix_list_rel : Forall2 srel (ar_prefix_list e s) (ar_prefix_list e' s').
    Proof.
      unfold ar_prefix_list. rewrite <- He7. destruct (e_draft7 e).
      - destruct (srel_itemsArray _ _ H); [constructor|assumption].
      - destruct (srel_prefixItems _ _ H); [constructor|assumption].
    Qed.

    Lemma rest_schema_rel :
      optrel (fun a b : str * schema => fst a = fst b /\ srel (snd a) (snd b)) (ar_rest_schema e s) (ar_rest_schema e' s').
    Proof.
      unfold ar_rest_schema. rewrite <- He7. destruct (e_draft7 e).
      - destruct (srel_itemsArray _ _ H).
        + destruct (srel_items _ _ H); cbn [option_map]; constructor. split; [reflexivity|assumption].
        + destruct (srel_additionalItems _ _ H); cbn [option_map]; constructor. split; [reflexivity|assumption].
      - destruct (srel_items _ _ H); cbn [option_map]; constructor. split; [reflexivity|assumption].
    Qed.

    Lemma spec_arrays_srel l items : arr_rel (spec_arrays e ev l s items) (spec_arrays e' ev' l s' items).
    Proof.
      unfold spec_arrays.
      pose proof prefix_list_rel as HP. pose proof (Forall2_len _ _ _ HP) as HL.
      (* prefix *)
      assert (H1 : oleq (ar_prefix e ev l s items) (ar_prefix e' ev' l s' items)).
      { unfold ar_prefix. unfold ar_prefix_name. rewrite <- He7.
        eapply eval_all_req with (Q := fun a b : json * (nat * schema) => fst a = fst b /\ fst (snd a) = fst (snd b) /\ srel (snd (snd a)) (snd (snd b))).
        - pose proof (Forall2_idx srel _ _ HP) as HI. clear -HI. revert items.
          induction HI as [|a b la lb [Hi Hc] _ IH]; intros items; destruct items as [|x r]; cbn [combine]; try constructor.
          + cbn [fst snd]. split; [reflexivity|split; [exact Hi|exact Hc]].
          + apply IH.
        - intros [x [i c]] [x' [i' c']] (Hx & Hi & Hc). cbn [fst snd] in *. subst. now apply Hev. }
      (* rest *)
      assert (H2 : oleq (ar_rest e ev l s items) (ar_rest e' ev' l s' items)).
      { unfold ar_rest. rewrite <- HL. destruct rest_schema_rel as [|[nm c] [nm' c'] [Hn Hc]]; [constructor|]. cbn [fst snd] in *. subst nm'.
        eapply eval_all_req with (Q := eq); [clear; induction (skipn _ items); constructor; auto|].
        intros x ? <-. now apply Hev. }
      (* contains *)
      assert (H3 : match ar_contains ev l s items, ar_contains ev' l s' items with
                   | Some (Some r), Some (Some r') => Forall2 req r r'
                   | Some None, Some None => True
                   | None, None => True
                   | _, _ => False
                   end).
      { unfold ar_contains. destruct (srel_contains _ _ H) as [|c c' Hc]; [exact I|].
        assert (Hq : oleq (eval_all (fun x => ev x (ch l (lit "contains"%lit)) c) items) (eval_all (fun x => ev' x (ch l (lit "contains"%lit)) c') items)).
        { eapply eval_all_req with (Q := eq); [clear; induction items; constructor; auto|]. intros x ? <-. now apply Hev. }
        unfold oleq in Hq. destruct (eval_all _ items), (eval_all _ items); try contradiction; cbn [option_map]; [exact Hq|exact I]. }
      unfold oleq in H1, H2.
      destruct (ar_prefix e ev l s items) as [rp|], (ar_prefix e' ev' l s' items) as [rp'|]; try contradiction; [|exact I].
      destruct (ar_rest e ev l s items) as [rr|], (ar_rest e' ev' l s' items) as [rr'|]; try contradiction; [|exact I].
      destruct (ar_contains ev l s items) as [[rc|]|], (ar_contains ev' l s' items) as [[rc'|]|]; try contradiction; try exact I; cbn [arr_rel].
      - rewrite (all_true_req _ _ H1), (all_true_req _ _ H2), (matched_req _ _ _ H3), <- HL,
                (srel_minContains _ _ H), (srel_maxContains _ _ H).
        destruct rest_schema_rel; reflexivity.
      - rewrite (all_true_req _ _ H1), (all_true_req _ _ H2), <- HL. destruct rest_schema_rel; reflexivity.
    Qed.
  End Arr.

  (** objects *)
  Definition obj_rel' (o o' : option (bool * sigma * sigma)) : Prop :=
    match o, o' with
    | Some (b, a1, a2), Some (b', a1', a2') => b = b' /\ seq' a1 a1' /\ seq' a2 a2'
    | None, None => True
    | _, _ => False
    end.

  Lemma optrel_olist_lookup (o o' : option (list (str * schema))) k : optrel (mrel srel) o o' ->
    match lookup k (olist o), lookup k (olist o') with
    | Some a, Some b => srel a b
    | None, None => True
    | _, _ => False
    end.
  Proof. intros [|m m' Hm]; [exact I|]. cbn [olist]. now apply mrel_lookup. Qed.

  Section Obj.
    Variables s s' : schema.
    Hypothesis H : srel s s'.

    Lemma ob_p_props_srel m : ob_p_props s m = ob_p_props s' m.
    Proof.
      unfold ob_p_props. apply filter_ext_in'. intros k.
      pose proof (optrel_olist_lookup _ _ k (srel_properties _ _ H)) as Hl.
      destruct (lookup k (olist (s_properties s))), (lookup k (olist (s_properties s'))); try contradiction; reflexivity.
    Qed.

    Lemma pats_exists (f : str -> bool) :
      existsb (fun pc : str * schema => f (fst pc)) (olist (s_patternProperties s)) =
      existsb (fun pc : str * schema => f (fst pc)) (olist (s_patternProperties s')).
    Proof.
      destruct (srel_patternProperties _ _ H) as [|m m' (_ & m2 & Hp & HF)]; [reflexivity|]. cbn [olist].
      rewrite (existsb_perm _ _ _ Hp). clear -HF.
      induction HF as [|a b l l' [Hk _] _ IH]; [reflexivity|]. cbn [existsb]. now rewrite Hk, IH.
    Qed.

    Lemma ob_p_pats_srel m : ob_p_pats re_match s m = ob_p_pats re_match s' m.
    Proof. unfold ob_p_pats. apply filter_ext_in'. intros k. apply (pats_exists (fun p => re_match p k)). Qed.

    Lemma ob_additional_srel m : ob_additional re_match s m = ob_additional re_match s' m.
    Proof. unfold ob_additional. now rewrite ob_p_props_srel, ob_p_pats_srel. Qed.

    Lemma ob_deps_rel : optrel (mrel srel) (Some (ob_deps e s)) (Some (ob_deps e' s')) \/ (ob_deps e s = [] /\ ob_deps e' s' = []).
    Proof.
      unfold ob_deps. rewrite <- He7. destruct (e_draft7 e).
      - destruct (srel_dependencySchemas _ _ H) as [|m m' Hm]; [right; split; reflexivity|left; now constructor].
      - destruct (srel_dependentSchemas _ _ H) as [|m m' Hm]; [right; split; reflexivity|left; now constructor].
    Qed.

    Lemma spec_objects_srel j l m :
      obj_rel' (spec_objects re_match e ev j l s m) (spec_objects re_match e' ev' j l s' m).
    Proof.
      unfold spec_objects.
      (* properties *)
      assert (H1 : preq (ob_ev_props ev l s m) (ob_ev_props ev' l s' m)).
      { unfold ob_ev_props. destruct (srel_properties _ _ H) as [|p p' Hp]; [cbn; exists []; split; constructor|]. cbn [olist].
        apply (mrel_eval srel p p' Hp (fun kc => match lookup (fst kc) m with Some v => ev v (ch_k l (lit "properties"%lit) (fst kc)) (snd kc) | None => Some (true, sig0) end)
                                      (fun kc => match lookup (fst kc) m with Some v => ev' v (ch_k l (lit "properties"%lit) (fst kc)) (snd kc) | None => Some (true, sig0) end)).
        intros k a b Hab. cbn [fst snd]. destruct (lookup k m); [now apply Hev|apply req_refl]. }
      (* patternProperties *)
      assert (H2 : oleq (ob_ev_pats re_match ev l s m) (ob_ev_pats re_match ev' l s' m)).
      { unfold ob_ev_pats. eapply eval_all_req with (Q := eq); [clear; induction m; constructor; auto|]. intros kv ? <-.
        assert (Hin : preq (eval_all (fun pc : str * schema => if re_match (fst pc) (fst kv) then ev (snd kv) (ch_k l (lit "patternProperties"%lit) (fst pc)) (snd pc) else Some (true, sig0)) (olist (s_patternProperties s)))
                           (eval_all (fun pc : str * schema => if re_match (fst pc) (fst kv) then ev' (snd kv) (ch_k l (lit "patternProperties"%lit) (fst pc)) (snd pc) else Some (true, sig0)) (olist (s_patternProperties s')))).
        { destruct (srel_patternProperties _ _ H) as [|p p' Hp]; [cbn; exists []; split; constructor|]. cbn [olist].
          apply (mrel_eval srel p p' Hp). intros k a b Hab. cbn [fst snd]. destruct (re_match k (fst kv)); [now apply Hev|apply req_refl]. }
        unfold preq in Hin. destruct (eval_all _ (olist (s_patternProperties s))) as [r|], (eval_all _ (olist (s_patternProperties s'))) as [r'|]; try contradiction; cbn [option_map oreq]; [|exact I].
        split; [cbn; now apply preq_all_true|apply seq_refl]. }
      (* additionalProperties *)
      assert (H3 : oleq (ob_ev_add re_match ev l s m) (ob_ev_add re_match ev' l s' m)).
      { unfold ob_ev_add. rewrite <- ob_additional_srel. destruct (srel_additionalProperties _ _ H) as [|c c' Hc]; [constructor|].
        eapply eval_all_req with (Q := eq); [clear; induction (ob_additional re_match s m); constructor; auto|]. intros kv ? <-. now apply Hev. }
      (* propertyNames *)
      assert (H4 : oleq (ob_ev_names ev l s m) (ob_ev_names ev' l s' m)).
      { unfold ob_ev_names. destruct (srel_propertyNames _ _ H) as [|c c' Hc]; [constructor|].
        eapply eval_all_req with (Q := eq); [clear; induction m; constructor; auto|]. intros kv ? <-. now apply Hev. }
      (* dependent schemas *)
      assert (H5 : preq (ob_ev_deps e ev j l s m) (ob_ev_deps e' ev' j l s' m)).
      { unfold ob_ev_deps, ob_deps_name. rewrite <- He7.
        destruct ob_deps_rel as [Hd|[-> ->]]; [|cbn; exists []; split; constructor].
        inversion Hd as [|d d' Hm E1 E2]; subst.
        apply (mrel_eval srel _ _ Hm (fun kc => if has_key m (fst kc) then ev j (ch_k l (if e_draft7 e then lit "dependencies"%lit else lit "dependentSchemas"%lit) (fst kc)) (snd kc) else Some (true, sig0))
                                     (fun kc => if has_key m (fst kc) then ev' j (ch_k l (if e_draft7 e then lit "dependencies"%lit else lit "dependentSchemas"%lit) (fst kc)) (snd kc) else Some (true, sig0))).
        intros k a b Hab. cbn [fst snd]. destruct (has_key m k); [now apply Hev|apply req_refl]. }
      unfold preq in H1, H5. unfold oleq in H2, H3, H4.
      destruct (ob_ev_props ev l s m) as [r1|], (ob_ev_props ev' l s' m) as [r1'|]; try contradiction; [|exact I].
      destruct (ob_ev_pats re_match ev l s m) as [r2|], (ob_ev_pats re_match ev' l s' m) as [r2'|]; try contradiction; [|exact I].
      destruct (ob_ev_add re_match ev l s m) as [r3|], (ob_ev_add re_match ev' l s' m) as [r3'|]; try contradiction; [|exact I].
      destruct (ob_ev_names ev l s m) as [r4|], (ob_ev_names ev' l s' m) as [r4'|]; try contradiction; [|exact I].
      destruct (ob_ev_deps e ev j l s m) as [r5|], (ob_ev_deps e' ev' j l s' m) as [r5'|]; try contradiction; [|exact I].
      cbn [obj_rel'].
      rewrite (preq_all_true _ _ H1), (all_true_req _ _ H2), (all_true_req _ _ H3), (all_true_req _ _ H4), (preq_all_true _ _ H5).
      rewrite <- ob_p_props_srel, <- ob_p_pats_srel, <- ob_additional_srel.
      split; [reflexivity|]. split; [|now apply preq_sig_of_true].
      destruct (srel_additionalProperties _ _ H); apply seq_refl.
    Qed.
  End Obj.

  (** unevaluatedItems / unevaluatedProperties *)
  Definition ui_rel (o o' : option (bool * list nat)) : Prop :=
    match o, o' with Some r, Some r' => r = r' | None, None => True | _, _ => False end.
  Definition up_rel' (o o' : option (bool * list str)) : Prop :=
    match o, o' with Some r, Some r' => r = r' | None, None => True | _, _ => False end.

  Section Uneval.
    Variables s s' : schema.
    Hypothesis H : srel s s'.

    Lemma spec_uneval_items_srel j l sm sm' : seq' sm sm' ->
      ui_rel (spec_uneval_items ev j l s sm) (spec_uneval_items ev' j l s' sm').
    Proof.
      intros [_ Hi]. unfold spec_uneval_items. destruct j; try (destruct (s_unevaluatedItems s), (s_unevaluatedItems s'); reflexivity).
      destruct (srel_unevaluatedItems _ _ H) as [|c c' Hc]; [reflexivity|].
      rewrite (filter_ext_in' (fun ix : nat * json => negb (mem_nat (fst ix) (sI sm))) (fun ix => negb (mem_nat (fst ix) (sI sm'))) _ (fun ix => f_equal negb (Hi (fst ix)))).
      set (un := filter _ (idx_list l0)).
      assert (Hq : oleq (eval_all (fun ix : nat * json => ev (snd ix) (ch l (lit "unevaluatedItems"%lit)) c) un)
                        (eval_all (fun ix : nat * json => ev' (snd ix) (ch l (lit "unevaluatedItems"%lit)) c') un)).
      { eapply eval_all_req with (Q := eq); [clear; induction un; constructor; auto|]. intros x ? <-. now apply Hev. }
      unfold oleq in Hq. destruct (eval_all _ un) as [r|], (eval_all _ un) as [r'|]; try contradiction; cbn [option_map ui_rel]; [|exact I].
      now rewrite (all_true_req _ _ Hq).
    Qed.

    Lemma spec_uneval_props_srel j l sm sm' : seq' sm sm' ->
      up_rel' (spec_uneval_props ev j l s sm) (spec_uneval_props ev' j l s' sm').
    Proof.
      intros [Hp _]. unfold spec_uneval_props. destruct j; try (destruct (s_unevaluatedProperties s), (s_unevaluatedProperties s'); reflexivity).
      destruct (srel_unevaluatedProperties _ _ H) as [|c c' Hc]; [reflexivity|].
      rewrite (filter_ext_in' (fun kv : str * json => negb (mem_str (fst kv) (sP sm))) (fun kv => negb (mem_str (fst kv) (sP sm'))) _ (fun kv => f_equal negb (Hp (fst kv)))).
      set (un := filter _ m).
      assert (Hq : oleq (eval_all (fun kv : str * json => ev (snd kv) (ch l (lit "unevaluatedProperties"%lit)) c) un)
                        (eval_all (fun kv : str * json => ev' (snd kv) (ch l (lit "unevaluatedProperties"%lit)) c') un)).
      { eapply eval_all_req with (Q := eq); [clear; induction un; constructor; auto|]. intros x ? <-. now apply Hev. }
      unfold oleq in Hq. destruct (eval_all _ un) as [r|], (eval_all _ un) as [r'|]; try contradiction; cbn [option_map up_rel']; [|exact I].
      now rewrite (all_true_req _ _ Hq).
    Qed.
  End Uneval.

  Lemma cond_req (r_if r_if' r_then r_then' r_else r_else' : list (bool * sigma)) :
    Forall2 req r_if r_if' -> Forall2 req r_then r_then' -> Forall2 req r_else r_else' ->
    let c := match r_if with
             | [] => (true, sig0)
             | (true, s0) :: _ => (all_true r_then, sig_union s0 (sig_of_true r_then))
             | (false, _) :: _ => (all_true r_else, sig_of_true r_else)
             end in
    let c' := match r_if' with
              | [] => (true, sig0)
              | (true, s0) :: _ => (all_true r_then', sig_union s0 (sig_of_true r_then'))
              | (false, _) :: _ => (all_true r_else', sig_of_true r_else')
              end in
    fst c = fst c' /\ seq' (snd c) (snd c').
  Proof.
    intros Hi Ht He. destruct Hi as [|[b s0] [b' s0'] ri ri' [Hb Hs] _]; cbn [fst snd] in *.
    - split; [reflexivity|apply seq_refl].
    - subst b'. destruct b; cbn [fst snd].
      + split; [now apply all_true_req|]. apply sig_union_seq; [exact Hs|now apply sig_of_true_req].
      + split; [now apply all_true_req|now apply sig_of_true_req].
  Qed.

  (** one schema object *)
  Theorem spec_body_srel C j l s s' : srel s s' ->
    oreq (spec_body re_match e ev C j l s) (spec_body re_match e' ev' C j l s').
  Proof.
    intros H. rewrite !spec_body_unfold. unfold refpart, dynpart.
    rewrite <- (srel_ref _ _ H), <- (srel_dynamicRef _ _ H), <- He7, <- (Hinfo l).
    (* $ref *)
    assert (H1 : oleq (match s_ref s with
                       | [] => Some []
                       | _ => match info_at e l with
                              | Some i => match ri_ref i with
                                          | Some t => match node_at e t with Some c => eval_all (fun c => ev j t c) [c] | None => None end
                                          | None => None end
                              | None => None end end)
                      (match s_ref s with
                       | [] => Some []
                       | _ => match info_at e l with
                              | Some i => match ri_ref i with
                                          | Some t => match node_at e' t with Some c => eval_all (fun c => ev' j t c) [c] | None => None end
                                          | None => None end
                              | None => None end end)).
    { destruct (s_ref s); [constructor|]. destruct (info_at e l) as [i|]; [|exact I]. destruct (ri_ref i) as [t|]; [|exact I].
      apply target_req. apply Hnode. }
    unfold oleq in H1.
    match type of H1 with match ?X with _ => _ end => destruct X as [r_ref|] end;
    match type of H1 with match ?X with _ => _ end => destruct X as [r_ref'|] end; try contradiction; [|exact I].
    destruct (e_draft7 e && _).
    { cbn [oreq]. split; [cbn; now apply all_true_req|apply seq_refl]. }
    (* $dynamicRef *)
    assert (H2 : oleq (match s_dynamicRef s with
                       | [] => Some []
                       | _ => match info_at e l with
                              | Some i => match ri_dynref i with
                                          | Some t0 =>
                                              match (match ri_dynanchor i with [] => Some t0 | a => option_map (fun o => match o with Some t => t | None => t0 end) (scope_lookup e C a) end) with
                                              | Some t => match node_at e t with Some c => eval_all (fun c => ev j t c) [c] | None => None end
                                              | None => None end
                                          | None => None end
                              | None => None end end)
                      (match s_dynamicRef s with
                       | [] => Some []
                       | _ => match info_at e l with
                              | Some i => match ri_dynref i with
                                          | Some t0 =>
                                              match (match ri_dynanchor i with [] => Some t0 | a => option_map (fun o => match o with Some t => t | None => t0 end) (scope_lookup e' C a) end) with
                                              | Some t => match node_at e' t with Some c => eval_all (fun c => ev' j t c) [c] | None => None end
                                              | None => None end
                                          | None => None end
                              | None => None end end)).
    { destruct (s_dynamicRef s); [constructor|]. destruct (info_at e l) as [i|]; [|exact I]. destruct (ri_dynref i) as [t0|]; [|exact I].
      destruct (ri_dynanchor i) as [|a0 ar].
      - apply target_req. apply Hnode.
      - rewrite <- scope_lookup_eq. destruct (option_map _ (scope_lookup e C (a0 :: ar))) as [t|]; [|exact I]. apply target_req. apply Hnode. }
    unfold oleq in H2.
    match type of H2 with match ?X with _ => _ end => destruct X as [r_dyn|] end;
    match type of H2 with match ?X with _ => _ end => destruct X as [r_dyn'|] end; try contradiction; [|exact I].
    pose proof (idx_req j l (lit "allOf"%lit) _ _ (srel_allOf _ _ H)) as H3. unfold oleq in H3.
    destruct (eval_all _ (idx_list (olist (s_allOf s)))) as [r_all|], (eval_all _ (idx_list (olist (s_allOf s')))) as [r_all'|]; try contradiction; [|exact I].
    pose proof (idx_req j l (lit "anyOf"%lit) _ _ (srel_anyOf _ _ H)) as H4. unfold oleq in H4.
    destruct (eval_all _ (idx_list (olist (s_anyOf s)))) as [r_any|], (eval_all _ (idx_list (olist (s_anyOf s')))) as [r_any'|]; try contradiction; [|exact I].
    pose proof (idx_req j l (lit "oneOf"%lit) _ _ (srel_oneOf _ _ H)) as H5. unfold oleq in H5.
    destruct (eval_all _ (idx_list (olist (s_oneOf s)))) as [r_one|], (eval_all _ (idx_list (olist (s_oneOf s')))) as [r_one'|]; try contradiction; [|exact I].
    pose proof (one_req j (ch l (lit "not"%lit)) _ _ (srel_not _ _ H)) as H6. unfold oleq in H6.
    destruct (one ev j _ (s_not s)) as [r_not|], (one ev' j _ (s_not s')) as [r_not'|]; try contradiction; [|exact I].
    pose proof (one_req j (ch l (lit "if"%lit)) _ _ (srel_if _ _ H)) as H7. unfold oleq in H7.
    destruct (one ev j _ (s_if s)) as [r_if|], (one ev' j _ (s_if s')) as [r_if'|]; try contradiction; [|exact I].
    pose proof (one_req j (ch l (lit "then"%lit)) _ _ (srel_then _ _ H)) as H8. unfold oleq in H8.
    destruct (one ev j _ (s_then s)) as [r_then|], (one ev' j _ (s_then s')) as [r_then'|]; try contradiction; [|exact I].
    pose proof (one_req j (ch l (lit "else"%lit)) _ _ (srel_else _ _ H)) as H9. unfold oleq in H9.
    destruct (one ev j _ (s_else s)) as [r_else|], (one ev' j _ (s_else s')) as [r_else'|]; try contradiction; [|exact I].
    pose proof (cond_req _ _ _ _ _ _ H7 H8 H9) as Hc. cbv zeta in Hc.
    destruct (match r_if with [] => _ | _ => _ end) as [ok_cond sig_cond].
    destruct (match r_if' with [] => _ | _ => _ end) as [ok_cond' sig_cond']. cbn [fst snd] in Hc. destruct Hc as [Hc1 Hc2].
    (* arrays *)
    assert (HA : arr_rel (match j with JArr items => spec_arrays e ev l s items | _ => Some (true, []) end)
                         (match j with JArr items => spec_arrays e' ev' l s' items | _ => Some (true, []) end)).
    { destruct j; try reflexivity. now apply spec_arrays_srel. }
    unfold arr_rel in HA.
    destruct (match j with JArr items => spec_arrays e ev l s items | _ => Some (true, []) end) as [[ok_arr i_arr]|],
             (match j with JArr items => spec_arrays e' ev' l s' items | _ => Some (true, []) end) as [[ok_arr' i_arr']|]; try contradiction; [|exact I].
    injection HA as <- <-.
    (* objects *)
    assert (HO : obj_rel' (match j with JObj m => spec_objects re_match e ev j l s m | _ => Some (true, sig0, sig0) end)
                          (match j with JObj m => spec_objects re_match e' ev' j l s' m | _ => Some (true, sig0, sig0) end)).
    { destruct j; try (cbn; repeat split; reflexivity). now apply spec_objects_srel. }
    unfold obj_rel' in HO.
    destruct (match j with JObj m => spec_objects re_match e ev j l s m | _ => Some (true, sig0, sig0) end) as [[[ok_obj sig_obj] sig_deps]|],
             (match j with JObj m => spec_objects re_match e' ev' j l s' m | _ => Some (true, sig0, sig0) end) as [[[ok_obj' sig_obj'] sig_deps']|]; try contradiction; [|exact I].
    destruct HO as (Ho1 & Ho2 & Ho3).
    cbv zeta.
    match goal with |- context [spec_uneval_items ev j l s ?sm] =>
      match goal with |- context [spec_uneval_items ev' j l s' ?sm'] => assert (Hsm : seq' sm sm') end end.
    { repeat apply sig_union_seq; try (now apply sig_of_true_req); try assumption. apply seq_refl. }
    pose proof (spec_uneval_items_srel s s' H j l _ _ Hsm) as HI. unfold ui_rel in HI.
    destruct (spec_uneval_items ev j l s _) as [[ok_ui i_ui]|], (spec_uneval_items ev' j l s' _) as [[ok_ui' i_ui']|]; try contradiction; [|exact I].
    injection HI as <- <-.
    pose proof (spec_uneval_props_srel s s' H j l _ _ Hsm) as HU. unfold up_rel' in HU.
    destruct (spec_uneval_props ev j l s _) as [[ok_up p_up]|], (spec_uneval_props ev' j l s' _) as [[ok_up' p_up']|]; try contradiction; [|exact I].
    injection HU as <- <-.
    rewrite (all_true_req _ _ H1), (a_type_srel s s' H), (a_enum_srel s s' H), (a_const_srel s s' H),
            (a_numbers_srel s s' H), (a_strings_srel re_match s s' H), (all_true_req _ _ H2), (all_true_req _ _ H3),
            (count_true_req _ _ H4), (count_true_req _ _ H5), (exists_true_req _ _ H6), Hc1, Ho1,
            (a_array_counts_srel s s' H), (a_object_counts_srel s s' H).
    assert (Ea : match s_anyOf s with Some _ => Nat.ltb 0 (count_true r_any') | None => true end =
                 match s_anyOf s' with Some _ => Nat.ltb 0 (count_true r_any') | None => true end) by (destruct (srel_anyOf _ _ H); reflexivity).
    assert (Eo : match s_oneOf s with Some _ => Nat.eqb (count_true r_one') 1 | None => true end =
                 match s_oneOf s' with Some _ => Nat.eqb (count_true r_one') 1 | None => true end) by (destruct (srel_oneOf _ _ H); reflexivity).
    rewrite Ea, Eo.
    cbn [oreq]. split; [reflexivity|]. cbn [snd].
    destruct (forallb _ _); [|apply seq_refl].
    apply sig_union_seq; [exact Hsm|apply seq_refl].
  Qed.
End Body.

(** environments that differ only in the order of map entries of their schema objects *)
Definition erel (e e' : env) : Prop :=
  e_version e = e_version e' /\ e_draft7 e = e_draft7 e' /\ (forall l, info_at e l = info_at e' l) /\ (forall l, optrel srel (node_at e l) (node_at e' l)).

Theorem spec_eval_srel re_match e e' : erel e e' -> forall n C j l s s',
  srel s s' -> oreq (spec_eval re_match n e C j l s) (spec_eval re_match n e' C j l s').
Proof.
  intros (_ & H7 & Hi & Hn). induction n as [|n IH]; intros C j l s s' H; [exact I|].
  cbn [spec_eval]. apply spec_body_srel; try assumption.
  intros j0 l0 c c' Hc. now apply IH.
Qed.

(** C14: the verdict of the specification is independent of the order of the entries of every
    map in the resolved schemas *)
Corollary spec_valid_srel re_match n e e' j : erel e e' -> spec_valid re_match n e j = spec_valid re_match n e' j.
Proof.
  intros He. unfold spec_valid. pose proof (proj2 (proj2 (proj2 He)) (0, [])) as Hr.
  destruct Hr as [|root root' Hroot]; [reflexivity|].
  pose proof (spec_eval_srel re_match e e' He n [] j (0, []) root root' Hroot) as H. unfold oreq in H.
  destruct (spec_eval re_match n e [] j (0, []) root) as [[b sg]|], (spec_eval re_match n e' [] j (0, []) root') as [[b' sg']|]; try contradiction; [|reflexivity].
  destruct H as [Hb _]. cbn in Hb. cbn. now rewrite Hb.
Qed.

(** ... and so is Resolved.Validate, wherever the specification defines a verdict *)
From JS Require Import Hash Ann Validate Refine Corollaries.
Theorem Validate_map_order re_match hash n e e' inst b :
  erel e e' -> gv_wf inst = true -> isValidSchemaVersion (e_version e) = true ->
  spec_valid re_match n e (den inst) = Some b ->
  Validate re_match hash n e inst = Validate re_match hash n e' inst.
Proof.
  intros He Hw Hv Hs.
  rewrite (Validate_spec re_match hash n e inst b Hw Hv Hs).
  rewrite (spec_valid_srel re_match n e e' (den inst) He) in Hs.
  rewrite (proj1 He) in Hv.
  now rewrite (Validate_spec re_match hash n e' inst b Hw Hv Hs).
Qed.

