(** C10: Resolved.Validate never panics.  Part A: over an environment whose node table is closed
    under [children] and whose infos name nodes ([EnvOK]), the evaluator takes none of its
    [Panic] branches, for every instance, every recursion budget and every node it is started on. *)
From Coq Require Import List NArith ZArith QArith Bool Lia.
From JS Require Import Str StrFacts Lit Json Res GoValue Equal Hash Schema Env Ann Validate.
Import ListNotations.
Open Scope list_scope.

Definition Safe {A} (r : res A) : Prop := r <> Panic.

Lemma safe_bind {A B} (r : res A) (k : A -> res B) : Safe r -> (forall a, r = Ok a -> Safe (k a)) -> Safe (bind r k).
Proof. unfold Safe. intros Hr Hk. destruct r; cbn; auto; discriminate. Qed.
Lemma safe_attempt {A B} (r : res A) (k : A -> res B) (el : res B) :
  Safe r -> (forall a, Safe (k a)) -> Safe el -> Safe (attempt r k el).
Proof. unfold Safe. intros Hr Hk He. destruct r; cbn; auto; discriminate. Qed.
Lemma safe_guard b : Safe (guard b).
Proof. unfold Safe, guard. destruct b; discriminate. Qed.
Lemma safe_ok {A} (a : A) : Safe (Ok a). Proof. discriminate. Qed.
Lemma safe_err {A} : Safe (@Err A). Proof. discriminate. Qed.

Ltac safe_step :=
  match goal with
  | |- Safe (Ok _) => apply safe_ok
  | |- Safe Err => apply safe_err
  | |- Safe (guard _) => apply safe_guard
  | |- Safe (bind _ _) => apply safe_bind; [|intros ? ?]
  | |- Safe (if ?b then _ else _) => destruct b
  | |- Safe (match ?x with Some _ => _ | None => _ end) => destruct x
  end.

Section Loops.
  Variable re_match : str -> str -> bool.
  Variable hash : list tok -> Z.
  Variable v : vfun.
  (* the callees that are safe to call *)
  Variable P : loc -> schema -> Prop.
  Hypothesis Hv : forall x l c, P l c -> Safe (v x l c).

  Lemma safe_all_merge inst : forall cs a, (forall l c, In (l, c) cs -> P l c) -> Safe (all_merge v inst cs a).
  Proof.
    induction cs as [|[l c] r IH]; intros a H; cbn [all_merge]; [apply safe_ok|].
    apply safe_bind; [apply Hv, H; now left|]. intros a' _. apply IH. intros l0 c0 Hin. apply H. now right.
  Qed.
  Lemma safe_each_item l c : P l c -> forall items, Safe (each_item v items l c).
  Proof.
    intros Hp. induction items as [|x r IH]; cbn [each_item]; [apply safe_ok|].
    apply safe_bind; [now apply Hv|]. intros _ _. exact IH.
  Qed.
  Lemma safe_zip_items : forall items cs, (forall l c, In (l, c) cs -> P l c) -> Safe (zip_items v items cs).
  Proof.
    induction items as [|x r IH]; intros cs H; cbn [zip_items]; [apply safe_ok|].
    destruct cs as [|[l c] cr]; [apply safe_ok|].
    apply safe_bind; [apply Hv, H; now left|]. intros _ _. apply IH. intros l0 c0 Hin. apply H. now right.
  Qed.
  Lemma safe_contains_loop l c : P l c -> forall items i n a, Safe (contains_loop v i items l c n a).
  Proof.
    intros Hp. induction items as [|x r IH]; intros i n a; cbn [contains_loop]; [apply safe_ok|].
    apply safe_attempt; [now apply Hv|intros _; apply IH|apply IH].
  Qed.
  Lemma safe_uneval_items l c a : P l c -> forall items i, Safe (uneval_items v i items l c a).
  Proof.
    intros Hp. induction items as [|x r IH]; intros i; cbn [uneval_items]; [apply safe_ok|].
    apply safe_bind; [|intros _ _; apply IH].
    destruct (_ && _); [|apply safe_ok]. apply safe_bind; [now apply Hv|intros; apply safe_ok].
  Qed.
  Lemma safe_props_loop m : forall ps ev, (forall k l c, In (k, (l, c)) ps -> P l c) -> Safe (props_loop v m ps ev).
  Proof.
    induction ps as [|[k [l c]] r IH]; intros ev H; cbn [props_loop]; [apply safe_ok|].
    assert (Hr : forall k0 l0 c0, In (k0, (l0, c0)) r -> P l0 c0) by (intros k0 l0 c0 Hin; eapply H; right; exact Hin).
    destruct (lookup k m); [|now apply IH].
    apply safe_bind; [eapply Hv, H; now left|]. intros _ _. now apply IH.
  Qed.
  Lemma safe_pattern_inner k val : forall ps ev, (forall p l c, In (p, (l, c)) ps -> P l c) -> Safe (pattern_inner re_match v k val ps ev).
  Proof.
    induction ps as [|[p [l c]] r IH]; intros ev H; cbn [pattern_inner]; [apply safe_ok|].
    assert (Hr : forall k0 l0 c0, In (k0, (l0, c0)) r -> P l0 c0) by (intros k0 l0 c0 Hin; eapply H; right; exact Hin).
    destruct (re_match p k); [|now apply IH].
    apply safe_bind; [eapply Hv, H; now left|]. intros _ _. now apply IH.
  Qed.
  Lemma safe_pattern_loop ps : (forall p l c, In (p, (l, c)) ps -> P l c) -> forall m ev, Safe (pattern_loop re_match v m ps ev).
  Proof.
    intros H. induction m as [|[k val] r IH]; intros ev; cbn [pattern_loop]; [apply safe_ok|].
    apply safe_bind; [now apply safe_pattern_inner|]. intros ev' _. apply IH.
  Qed.
  Lemma safe_additional_loop l c : P l c -> forall m ev, Safe (additional_loop v m l c ev).
  Proof.
    intros Hp. induction m as [|[k val] r IH]; intros ev; cbn [additional_loop]; [apply safe_ok|].
    destruct (mem_str k ev); [apply IH|]. apply safe_bind; [now apply Hv|]. intros _ _. apply IH.
  Qed.
  Lemma safe_names_loop l c : P l c -> forall m, Safe (names_loop v m l c).
  Proof.
    intros Hp. induction m as [|[k val] r IH]; cbn [names_loop]; [apply safe_ok|].
    apply safe_bind; [now apply Hv|]. intros _ _. exact IH.
  Qed.
  Lemma safe_dep_required m : forall d, Safe (dep_required m d).
  Proof.
    induction d as [|[k reqs] r IH]; cbn [dep_required]; [apply safe_ok|].
    apply safe_bind; [|intros _ _; exact IH]. destruct (is_some _); [apply safe_guard|apply safe_ok].
  Qed.
  Lemma safe_dep_schemas inst m : forall d a, (forall k l c, In (k, (l, c)) d -> P l c) -> Safe (dep_schemas v inst m d a).
  Proof.
    induction d as [|[k [l c]] r IH]; intros a H; cbn [dep_schemas]; [apply safe_ok|].
    assert (Hr : forall k0 l0 c0, In (k0, (l0, c0)) r -> P l0 c0) by (intros k0 l0 c0 Hin; eapply H; right; exact Hin).
    destruct (is_some _); [|now apply IH].
    apply safe_bind; [eapply Hv, H; now left|]. intros a' _. now apply IH.
  Qed.
  Lemma safe_uneval_props l c a : P l c -> forall m, Safe (uneval_props v m l c a).
  Proof.
    intros Hp. induction m as [|[k val] r IH]; cbn [uneval_props]; [apply safe_ok|].
    apply safe_bind; [|intros _ _; exact IH].
    destruct (mem_str _ _); [apply safe_ok|]. apply safe_bind; [now apply Hv|intros; apply safe_ok].
  Qed.
  Lemma safe_anyof_loop inst : forall cs a n, (forall l c, In (l, c) cs -> P l c) -> Safe (anyof_loop v inst cs a n).
  Proof.
    induction cs as [|[l c] r IH]; intros a n H; cbn [anyof_loop]; [apply safe_ok|].
    assert (Hr : forall l0 c0, In (l0, c0) r -> P l0 c0) by (intros l0 c0 Hin; apply H; now right).
    apply safe_attempt; [apply Hv, H; now left|intros a'; now apply IH|now apply IH].
  Qed.
  Lemma safe_oneof_loop inst : forall cs a seen, (forall l c, In (l, c) cs -> P l c) -> Safe (oneof_loop v inst cs a seen).
  Proof.
    induction cs as [|[l c] r IH]; intros a seen H; cbn [oneof_loop]; [apply safe_ok|].
    assert (Hr : forall l0 c0, In (l0, c0) r -> P l0 c0) by (intros l0 c0 Hin; apply H; now right).
    apply safe_attempt; [apply Hv, H; now left| |now apply IH].
    intros a'. destruct seen; [apply safe_err|now apply IH].
  Qed.
End Loops.

(** * where the evaluator's callees sit among the children of a schema *)
From Coq Require Import Permutation.
From JS Require Import ChildFacts.

Lemma idx_children_In name : forall l i j c, nth_error l j = Some c -> In ([SKey name; SIdx (i + j)], c) (idx_children name i l).
Proof.
  induction l as [|x r IH]; intros i j c H; [destruct j; discriminate|]. cbn [idx_children].
  destruct j as [|j]; cbn [nth_error] in H.
  - injection H as <-. left. now rewrite Nat.add_0_r.
  - right. replace (i + S j)%nat with (S i + j)%nat by lia. now apply IH.
Qed.
Lemma map_children_In name m k c : In (k, c) m -> In ([SKey name; SKey k], c) (map_children name m).
Proof.
  intros H. unfold map_children. apply in_map_iff. exists (k, c). split; [reflexivity|].
  eapply Permutation_in; [apply sort_by_key_perm|exact H].
Qed.

Ltac find_child tac :=
  unfold children;
  repeat first [ apply in_or_app; left; solve [tac] | apply in_or_app; right ];
  try solve [tac].

Ltac child_one E := rewrite E; now left.
Ltac child_idx E H := rewrite E; apply (idx_children_In _ _ 0%nat); exact H.
Ltac child_map E H := rewrite E; apply map_children_In; exact H.

Section Children.
  Variable s : schema.
  Lemma ch_allOf cs i c : s_allOf s = Some cs -> nth_error cs i = Some c -> In ([SKey (lit "allOf"%lit); SIdx i], c) (children s).
  Proof. intros E H. find_child ltac:(child_idx E H). Qed.
  Lemma ch_anyOf cs i c : s_anyOf s = Some cs -> nth_error cs i = Some c -> In ([SKey (lit "anyOf"%lit); SIdx i], c) (children s).
  Proof. intros E H. find_child ltac:(child_idx E H). Qed.
  Lemma ch_oneOf cs i c : s_oneOf s = Some cs -> nth_error cs i = Some c -> In ([SKey (lit "oneOf"%lit); SIdx i], c) (children s).
  Proof. intros E H. find_child ltac:(child_idx E H). Qed.
  Lemma ch_prefixItems cs i c : s_prefixItems s = Some cs -> nth_error cs i = Some c -> In ([SKey (lit "prefixItems"%lit); SIdx i], c) (children s).
  Proof. intros E H. find_child ltac:(child_idx E H). Qed.
  Lemma ch_itemsArray cs i c : s_itemsArray s = Some cs -> nth_error cs i = Some c -> In ([SKey (lit "items"%lit); SIdx i], c) (children s).
  Proof. intros E H. find_child ltac:(child_idx E H). Qed.
  Lemma ch_properties m k c : s_properties s = Some m -> In (k, c) m -> In ([SKey (lit "properties"%lit); SKey k], c) (children s).
  Proof. intros E H. find_child ltac:(child_map E H). Qed.
  Lemma ch_patternProperties m k c : s_patternProperties s = Some m -> In (k, c) m -> In ([SKey (lit "patternProperties"%lit); SKey k], c) (children s).
  Proof. intros E H. find_child ltac:(child_map E H). Qed.
  Lemma ch_dependentSchemas m k c : s_dependentSchemas s = Some m -> In (k, c) m -> In ([SKey (lit "dependentSchemas"%lit); SKey k], c) (children s).
  Proof. intros E H. find_child ltac:(child_map E H). Qed.
  Lemma ch_dependencySchemas m k c : s_dependencySchemas s = Some m -> In (k, c) m -> In ([SKey (lit "dependencies"%lit); SKey k], c) (children s).
  Proof. intros E H. find_child ltac:(child_map E H). Qed.
  Lemma ch_additionalItems c : s_additionalItems s = Some c -> In ([SKey (lit "additionalItems"%lit)], c) (children s).
  Proof. intros E. find_child ltac:(child_one E). Qed.
  Lemma ch_items c : s_items s = Some c -> In ([SKey (lit "items"%lit)], c) (children s).
  Proof. intros E. find_child ltac:(child_one E). Qed.
  Lemma ch_contains c : s_contains s = Some c -> In ([SKey (lit "contains"%lit)], c) (children s).
  Proof. intros E. find_child ltac:(child_one E). Qed.
  Lemma ch_unevaluatedItems c : s_unevaluatedItems s = Some c -> In ([SKey (lit "unevaluatedItems"%lit)], c) (children s).
  Proof. intros E. find_child ltac:(child_one E). Qed.
  Lemma ch_additionalProperties c : s_additionalProperties s = Some c -> In ([SKey (lit "additionalProperties"%lit)], c) (children s).
  Proof. intros E. find_child ltac:(child_one E). Qed.
  Lemma ch_propertyNames c : s_propertyNames s = Some c -> In ([SKey (lit "propertyNames"%lit)], c) (children s).
  Proof. intros E. find_child ltac:(child_one E). Qed.
  Lemma ch_unevaluatedProperties c : s_unevaluatedProperties s = Some c -> In ([SKey (lit "unevaluatedProperties"%lit)], c) (children s).
  Proof. intros E. find_child ltac:(child_one E). Qed.
  Lemma ch_not c : s_not s = Some c -> In ([SKey (lit "not"%lit)], c) (children s).
  Proof. intros E. find_child ltac:(child_one E). Qed.
  Lemma ch_if c : s_if s = Some c -> In ([SKey (lit "if"%lit)], c) (children s).
  Proof. intros E. find_child ltac:(child_one E). Qed.
  Lemma ch_then c : s_then s = Some c -> In ([SKey (lit "then"%lit)], c) (children s).
  Proof. intros E. find_child ltac:(child_one E). Qed.
  Lemma ch_else c : s_else s = Some c -> In ([SKey (lit "else"%lit)], c) (children s).
  Proof. intros E. find_child ltac:(child_one E). Qed.
End Children.

Lemma index_from_In {A} : forall (l : list A) i j x, In (j, x) (index_from i l) -> exists k, j = (i + k)%nat /\ nth_error l k = Some x.
Proof.
  induction l as [|y r IH]; intros i j x H; [contradiction|]. cbn [index_from] in H. destruct H as [[= <- <-]|H].
  - exists 0%nat. split; [lia|reflexivity].
  - destruct (IH _ _ _ H) as (k & -> & Hk). exists (S k). split; [lia|exact Hk].
Qed.
Lemma list_locs_In l name cs l0 c0 : In (l0, c0) (list_locs l name cs) ->
  exists i, l0 = child_loc l [SKey name; SIdx i] /\ nth_error cs i = Some c0.
Proof.
  unfold list_locs. intros H. apply in_map_iff in H as ([j x] & [= <- <-] & Hin). cbn [fst snd].
  apply index_from_In in Hin as (k & -> & Hk). exists k. split; [reflexivity|exact Hk].
Qed.
Lemma map_locs_In l name m k l0 c0 : In (k, (l0, c0)) (map_locs l name m) ->
  l0 = child_loc l [SKey name; SKey k] /\ In (k, c0) m.
Proof.
  unfold map_locs. intros H. apply in_map_iff in H as ([k1 c1] & [= <- <- <-] & Hin). cbn [fst snd]. auto.
Qed.

(** * the evaluator over a closed environment *)
Section NoPanic.
  Variable re_match : str -> str -> bool.
  Variable hash : list tok -> Z.
  Variable e : env.

  Definition Node (l : loc) (c : schema) : Prop := node_at e l = Some c.
  Definition isNode (l : loc) : Prop := exists c, Node l c.

  (** what Schema.Resolve establishes (Part B) *)
  Record EnvOK : Prop := {
    ok_closed : forall l s q c, Node l s -> In (q, c) (children s) -> Node (child_loc l q) c;
    ok_info : forall l s, Node l s -> exists i, info_at e l = Some i /\
        (exists bi, info_at e (ri_base i) = Some bi /\ forall nm t d, lookup nm (ri_anchors bi) = Some (t, d) -> isNode t) /\
        (nonempty (s_ref s) = true -> exists t, ri_ref i = Some t /\ isNode t) /\
        (nonempty (s_dynamicRef s) = true -> exists t, ri_dynref i = Some t /\ isNode t)
  }.
  Hypothesis OK : EnvOK.

  Lemma safe_dyn_lookup name : forall stack, Forall isNode stack ->
    Safe (dyn_lookup e stack name) /\ forall t, dyn_lookup e stack name = Ok (Some t) -> isNode t.
  Proof.
    induction stack as [|x r IH]; intros H; cbn [dyn_lookup]; [split; [apply safe_ok|discriminate]|].
    inversion H as [|? ? [c Hc] Hr]; subst.
    destruct (ok_info OK x c Hc) as (i & Hi & (bi & Hbi & Hanch) & _). rewrite Hi, Hbi.
    destruct (lookup name (ri_anchors bi)) as [[t [|]]|] eqn:El; try (now apply IH).
    split; [apply safe_ok|]. intros t0 [= <-]. eapply Hanch; eauto.
  Qed.

  Lemma safe_call_at v inst t : (forall x l c, Node l c -> Safe (v x l c)) -> isNode t -> Safe (call_at e v inst t).
  Proof. intros Hv [c Hc]. unfold call_at. unfold Node in Hc. rewrite Hc. now apply Hv. Qed.

  Section Body.
    Variable v : vfun.
    Hypothesis Hv : forall x l c, Node l c -> Safe (v x l c).
    Variables (l : loc) (s : schema).
    Hypothesis Hs : Node l s.

    Let child q c (H : In (q, c) (children s)) : Node (child_loc l q) c := ok_closed OK l s q c Hs H.

    Lemma safe_items_part items a0 : Safe (items_part e v l s items a0).
    Proof.
      unfold items_part. destruct (e_draft7 e).
      - destruct (s_itemsArray s) as [ia|] eqn:Eia.
        + apply safe_bind.
          * apply (safe_zip_items v Node Hv). intros l0 c0 Hin. apply list_locs_In in Hin as (i & -> & Hn).
            apply child. eapply ch_itemsArray; eauto.
          * intros _ _. destruct (s_additionalItems s) as [ai|] eqn:Eai; [|apply safe_ok].
            apply safe_bind; [|intros; apply safe_ok]. apply (safe_each_item v Node Hv). apply child. now apply ch_additionalItems.
        + destruct (s_items s) as [it|] eqn:Eit; [|apply safe_ok].
          apply safe_bind; [|intros; apply safe_ok]. apply (safe_each_item v Node Hv). apply child. now apply ch_items.
      - apply safe_bind.
        + apply (safe_zip_items v Node Hv). intros l0 c0 Hin. apply list_locs_In in Hin as (i & -> & Hn).
          unfold opt_list in Hn. destruct (s_prefixItems s) as [pi|] eqn:Epi; [|destruct i; discriminate].
          apply child. eapply ch_prefixItems; eauto.
        + intros _ _. destruct (s_items s) as [it|] eqn:Eit; [|apply safe_ok].
          apply safe_bind; [|intros; apply safe_ok]. apply (safe_each_item v Node Hv). apply child. now apply ch_items.
    Qed.

    Lemma safe_contains_part items a1 : Safe (contains_part v l s items a1).
    Proof.
      unfold contains_part. destruct (s_contains s) as [c|] eqn:Ec; [|apply safe_ok].
      apply safe_bind; [apply (safe_contains_loop v Node Hv); apply child; now apply ch_contains|].
      intros na _. destruct (_ && _); [apply safe_err|apply safe_ok].
    Qed.

    Lemma safe_array_counts items n : Safe (array_counts hash s items n).
    Proof.
      unfold array_counts, check_unique.
      repeat (apply safe_bind; [|intros _ _]);
        repeat match goal with
               | |- Safe (match ?x with Some _ => _ | None => _ end) => destruct x
               | |- Safe (if ?b then _ else _) => destruct b
               end; first [apply safe_guard|apply safe_ok].
    Qed.

    Lemma safe_uneval_items_part items a2 : Safe (uneval_items_part v l s items a2).
    Proof.
      unfold uneval_items_part. destruct (s_unevaluatedItems s) as [u|] eqn:Eu; [|apply safe_ok].
      destruct (allItems a2); [apply safe_ok|]. apply safe_bind; [|intros; apply safe_ok].
      apply (safe_uneval_items v Node Hv). apply child. now apply ch_unevaluatedItems.
    Qed.

    Lemma safe_arrays_phase items a0 : Safe (arrays_phase hash e v l s items a0).
    Proof.
      unfold arrays_phase. apply safe_bind; [apply safe_items_part|]. intros a1 _.
      apply safe_bind; [apply safe_contains_part|]. intros na _.
      apply safe_bind; [apply safe_array_counts|]. intros _ _. apply safe_uneval_items_part.
    Qed.

    Lemma safe_props_part m : Safe (props_part re_match e v l s m).
    Proof.
      unfold props_part. apply safe_bind.
      - apply (safe_props_loop v Node Hv). intros k l0 c0 Hin. apply map_locs_In in Hin as [-> Hin].
        unfold opt_list in Hin. destruct (s_properties s) as [pm|] eqn:Ep; [|contradiction].
        apply child. eapply ch_properties; eauto.
      - intros ev1 _. apply safe_bind.
        + destruct (s_patternProperties s) as [[|p0 pp]|] eqn:Ep; try apply safe_ok.
          apply (safe_pattern_loop re_match v Node Hv). intros p l0 c0 Hin. apply map_locs_In in Hin as [-> Hin].
          apply child. eapply ch_patternProperties; eauto.
        + intros ev2 _. destruct (s_additionalProperties s) as [ap|] eqn:Ea; [|apply safe_ok].
          destruct (_ && _).
          * destruct (forallb _ _); [apply safe_ok|apply safe_err].
          * apply (safe_additional_loop v Node Hv). apply child. now apply ch_additionalProperties.
    Qed.

    Lemma safe_object_counts m : Safe (object_counts v l s m).
    Proof.
      unfold object_counts. apply safe_bind.
      - destruct (s_propertyNames s) as [pn|] eqn:Ep; [|apply safe_ok].
        apply (safe_names_loop v Node Hv). apply child. now apply ch_propertyNames.
      - intros _ _.
        repeat (apply safe_bind; [|intros _ _]);
          repeat match goal with |- Safe (match ?x with Some _ => _ | None => _ end) => destruct x end;
          first [apply safe_guard|apply safe_ok].
    Qed.

    Lemma safe_deps_part inst m a1 : Safe (deps_part e v l s inst m a1).
    Proof.
      unfold deps_part. destruct (e_draft7 e); (apply safe_bind; [apply safe_dep_required|intros _ _]);
        apply (safe_dep_schemas v Node Hv); intros k l0 c0 Hin; apply map_locs_In in Hin as [-> Hin]; unfold opt_list in Hin.
      - destruct (s_dependencySchemas s) as [dm|] eqn:Ed; [|contradiction]. apply child. eapply ch_dependencySchemas; eauto.
      - destruct (s_dependentSchemas s) as [dm|] eqn:Ed; [|contradiction]. apply child. eapply ch_dependentSchemas; eauto.
    Qed.

    Lemma safe_uneval_props_part m a2 : Safe (uneval_props_part v l s m a2).
    Proof.
      unfold uneval_props_part. destruct (s_unevaluatedProperties s) as [u|] eqn:Eu; [|apply safe_ok].
      destruct (allProps a2); [apply safe_ok|]. apply safe_bind; [|intros; apply safe_ok].
      apply (safe_uneval_props v Node Hv). apply child. now apply ch_unevaluatedProperties.
    Qed.

    Lemma safe_objects_phase inst m a0 : Safe (objects_phase re_match e v l s inst m a0).
    Proof.
      unfold objects_phase. apply safe_bind; [apply safe_props_part|]. intros ev3 _.
      apply safe_bind; [apply safe_object_counts|]. intros _ _.
      apply safe_bind; [apply safe_deps_part|]. intros a2 _. apply safe_uneval_props_part.
    Qed.

    Lemma safe_checks inst :
      Safe (check_type s inst) /\ Safe (check_enum s inst) /\ Safe (check_const s inst) /\
      Safe (check_numbers s inst) /\ Safe (check_strings re_match s inst).
    Proof.
      unfold check_type, check_enum, check_const, check_numbers, check_strings.
      repeat split.
      - destruct (_ || _); [|apply safe_ok]. destruct (jsonType inst); [|apply safe_err].
        destruct (nonempty (s_type s)); apply safe_guard.
      - destruct (s_enum s); [apply safe_guard|apply safe_ok].
      - destruct (s_const s); [apply safe_guard|apply safe_ok].
      - destruct (_ || _); [|apply safe_ok]. destruct (jsonNumber inst); [|apply safe_ok].
        repeat (apply safe_bind; [|intros _ _]);
          match goal with |- Safe (match ?x with Some _ => _ | None => _ end) => destruct x end;
          first [apply safe_guard|apply safe_ok].
      - destruct inst; try apply safe_ok.
        repeat (apply safe_bind; [|intros _ _]);
          repeat match goal with
                 | |- Safe (match ?x with Some _ => _ | None => _ end) => destruct x
                 | |- Safe (if ?b then _ else _) => destruct b
                 end; first [apply safe_guard|apply safe_ok].
    Qed.

    Lemma safe_validate_body stack inst : Forall isNode stack -> Safe (validate_body re_match hash e v stack inst l s).
    Proof.
      intros Hst. unfold validate_body.
      destruct (ok_info OK l s Hs) as (i & Hi & _ & Href & Hdyn). rewrite Hi.
      destruct (safe_checks inst) as (Ht & Hen & Hco & Hnu & Hstr).
      apply safe_bind.
      { destruct (nonempty (s_ref s)); [|apply safe_ok].
        destruct (Href eq_refl) as (t & -> & Ht0).
        apply safe_bind; [now apply safe_call_at|intros; apply safe_ok]. }
      intros r1 _. destruct (snd r1); [apply safe_ok|].
      apply safe_bind; [exact Ht|intros _ _].
      apply safe_bind; [exact Hen|intros _ _].
      apply safe_bind; [exact Hco|intros _ _].
      apply safe_bind; [exact Hnu|intros _ _].
      apply safe_bind; [exact Hstr|intros _ _].
      apply safe_bind.
      { destruct (nonempty (s_dynamicRef s)); [|apply safe_ok].
        destruct (Hdyn eq_refl) as (t0 & -> & Ht0).
        destruct (nonempty (ri_dynanchor i)).
        - destruct (safe_dyn_lookup (ri_dynanchor i) stack Hst) as [Hsafe Hres].
          apply safe_bind.
          + apply safe_bind; [exact Hsafe|intros; apply safe_ok].
          + intros t Et. apply safe_bind; [|intros; apply safe_ok]. apply safe_call_at; [exact Hv|].
            destruct (dyn_lookup e stack (ri_dynanchor i)) as [[d|]| | |] eqn:Ed; cbn [bind] in Et; try discriminate;
              injection Et as <-; [now apply Hres|exact Ht0].
        - apply safe_bind; [apply safe_ok|]. intros t [= <-].
          apply safe_bind; [now apply safe_call_at|intros; apply safe_ok]. }
      intros a2 _.
      apply safe_bind.
      { destruct (s_allOf s) as [cs|] eqn:E; [|apply safe_ok].
        apply (safe_all_merge v Node Hv). intros l0 c0 Hin. apply list_locs_In in Hin as (k & -> & Hn).
        apply child. eapply ch_allOf; eauto. }
      intros a3 _.
      apply safe_bind.
      { destruct (s_anyOf s) as [cs|] eqn:E; [|apply safe_ok].
        apply safe_bind.
        - apply (safe_anyof_loop v Node Hv). intros l0 c0 Hin. apply list_locs_In in Hin as (k & -> & Hn).
          apply child. eapply ch_anyOf; eauto.
        - intros na _. destruct (Nat.eqb _ _); [apply safe_err|apply safe_ok]. }
      intros a4 _.
      apply safe_bind.
      { destruct (s_oneOf s) as [cs|] eqn:E; [|apply safe_ok].
        apply safe_bind.
        - apply (safe_oneof_loop v Node Hv). intros l0 c0 Hin. apply list_locs_In in Hin as (k & -> & Hn).
          apply child. eapply ch_oneOf; eauto.
        - intros ba _. destruct (fst ba); [apply safe_ok|apply safe_err]. }
      intros a5 _.
      apply safe_bind.
      { destruct (s_not s) as [c|] eqn:E; [|apply safe_ok].
        apply safe_attempt; [apply Hv, child; now apply ch_not|intros; apply safe_err|apply safe_ok]. }
      intros _ _.
      apply safe_bind.
      { destruct (s_if s) as [c|] eqn:E; [|apply safe_ok].
        apply safe_attempt; [apply Hv, child; now apply ch_if| |].
        - intros a'. destruct (s_then s) as [t|] eqn:Et; [|apply safe_ok].
          apply safe_bind; [apply Hv, child; now apply ch_then|intros; apply safe_ok].
        - destruct (s_else s) as [t|] eqn:Et; [|apply safe_ok].
          apply safe_bind; [apply Hv, child; now apply ch_else|intros; apply safe_ok]. }
      intros a6 _.
      apply safe_bind.
      { destruct inst; try apply safe_ok. apply safe_arrays_phase. }
      intros a7 _. destruct inst; try apply safe_ok. apply safe_objects_phase.
    Qed.
  End Body.

  (** the evaluator: whatever the budget, the stack of entered schemas and the instance *)
  Theorem validate_no_panic : forall fuel stack inst l s,
    Node l s -> Forall isNode stack -> Safe (validate re_match hash fuel e stack inst l s).
  Proof.
    induction fuel as [|n IH]; intros stack inst l s Hs Hst; cbn [validate]; [discriminate|].
    apply safe_validate_body; [|exact Hs|].
    - intros x l0 c0 Hc. apply IH; [exact Hc|]. apply Forall_app. split; [exact Hst|]. constructor; [now exists s|constructor].
    - apply Forall_app. split; [exact Hst|]. constructor; [now exists s|constructor].
  Qed.

  (** Resolved.Validate: a verdict, an error or an exhausted budget - never a panic *)
  Theorem Validate_no_panic fuel inst : isNode (0%nat, []) -> Validate re_match hash fuel e inst <> Panic.
  Proof.
    intros [root Hr]. unfold Validate. destruct (isValidSchemaVersion _); [|discriminate].
    unfold Node in Hr. rewrite Hr.
    pose proof (validate_no_panic fuel [] inst (0%nat, []) root Hr (Forall_nil _)) as H.
    destruct (validate _ _ _ _ _ _ _ _); cbn; try discriminate. now contradiction H.
  Qed.
End NoPanic.
