(** The specification is a well-defined partial function: more fuel never changes a result. *)
From Coq Require Import List NArith ZArith QArith Bool Lia.
From JS Require Import Str Lit Json GoValue Schema Env Spec.
Import ListNotations.
Open Scope list_scope.
Local Open Scope nat_scope.

Section Mono.
  Variable re_match : str -> str -> bool.

  Definition ev_le (ev ev' : efun) : Prop := forall j l c x, ev j l c = Some x -> ev' j l c = Some x.

  Lemma eval_all_mono {A} (f f' : A -> sres) l rs :
    (forall x y, f x = Some y -> f' x = Some y) -> eval_all f l = Some rs -> eval_all f' l = Some rs.
  Proof.
    intros Hf. revert rs. induction l as [|x r IH]; intros rs H; cbn in *; [exact H|].
    destruct (f x) as [y|] eqn:E; [|discriminate]. rewrite (Hf _ _ E).
    destruct (eval_all f r) as [t|]; [|discriminate]. rewrite (IH t eq_refl). exact H.
  Qed.

  Variables ev ev' : efun.
  Hypothesis Hle : ev_le ev ev'.

  Lemma one_mono j l o rs : one ev j l o = Some rs -> one ev' j l o = Some rs.
  Proof. destruct o; cbn [one]; [|auto]. apply eval_all_mono. intros; now apply Hle. Qed.

  Ltac mono := eapply eval_all_mono; [|eassumption]; intros; now apply Hle.

  Lemma ar_prefix_mono e l s items r : ar_prefix e ev l s items = Some r -> ar_prefix e ev' l s items = Some r.
  Proof. unfold ar_prefix. intros H. mono. Qed.
  Lemma ar_rest_mono e l s items r : ar_rest e ev l s items = Some r -> ar_rest e ev' l s items = Some r.
  Proof. unfold ar_rest. destruct (ar_rest_schema e s) as [[name c]|]; [|auto]. intros H. mono. Qed.
  Lemma ar_contains_mono l s items r : ar_contains ev l s items = Some r -> ar_contains ev' l s items = Some r.
  Proof.
    unfold ar_contains. destruct (s_contains s) as [c|]; [|auto].
    destruct (eval_all (fun x => ev x _ c) items) as [rs|] eqn:E; [|discriminate].
    intros H. erewrite eval_all_mono; [exact H| |exact E]. intros; now apply Hle.
  Qed.

  Lemma spec_arrays_mono e l s items r : spec_arrays e ev l s items = Some r -> spec_arrays e ev' l s items = Some r.
  Proof.
    unfold spec_arrays. intros H.
    destruct (ar_prefix e ev l s items) as [rp|] eqn:E1; [|discriminate]. rewrite (ar_prefix_mono _ _ _ _ _ E1).
    destruct (ar_rest e ev l s items) as [rr|] eqn:E2; [|discriminate]. rewrite (ar_rest_mono _ _ _ _ _ E2).
    destruct (ar_contains ev l s items) as [rc|] eqn:E3; [|discriminate]. rewrite (ar_contains_mono _ _ _ _ E3).
    exact H.
  Qed.

  Lemma ob_ev_props_mono l s m r : ob_ev_props ev l s m = Some r -> ob_ev_props ev' l s m = Some r.
  Proof.
    unfold ob_ev_props. intros H. eapply eval_all_mono; [|exact H].
    intros [k c] y. cbn [fst snd]. destruct (lookup k m); [apply Hle|auto].
  Qed.
  Lemma ob_ev_pats_mono l s m r : ob_ev_pats re_match ev l s m = Some r -> ob_ev_pats re_match ev' l s m = Some r.
  Proof.
    unfold ob_ev_pats. intros H. eapply eval_all_mono; [|exact H].
    intros [k x] y. cbn [fst snd].
    destruct (eval_all _ (olist (s_patternProperties s))) as [rs|] eqn:E; [|discriminate].
    intros Hy. erewrite eval_all_mono; [exact Hy| |exact E].
    intros [p c] y'. cbn [fst snd]. destruct (re_match p k); [apply Hle|auto].
  Qed.
  Lemma ob_ev_add_mono l s m r : ob_ev_add re_match ev l s m = Some r -> ob_ev_add re_match ev' l s m = Some r.
  Proof. unfold ob_ev_add. destruct (s_additionalProperties s); [|auto]. intros H. mono. Qed.
  Lemma ob_ev_names_mono l s m r : ob_ev_names ev l s m = Some r -> ob_ev_names ev' l s m = Some r.
  Proof. unfold ob_ev_names. destruct (s_propertyNames s); [|auto]. intros H. mono. Qed.
  Lemma ob_ev_deps_mono e j l s m r : ob_ev_deps e ev j l s m = Some r -> ob_ev_deps e ev' j l s m = Some r.
  Proof.
    unfold ob_ev_deps. intros H. eapply eval_all_mono; [|exact H].
    intros [k c] y. cbn [fst snd]. destruct (has_key m k); [apply Hle|auto].
  Qed.

  Lemma spec_objects_mono e j l s m r : spec_objects re_match e ev j l s m = Some r -> spec_objects re_match e ev' j l s m = Some r.
  Proof.
    unfold spec_objects. intros H.
    destruct (ob_ev_props ev l s m) as [r1|] eqn:E1; [|discriminate]. rewrite (ob_ev_props_mono _ _ _ _ E1).
    destruct (ob_ev_pats re_match ev l s m) as [r2|] eqn:E2; [|discriminate]. rewrite (ob_ev_pats_mono _ _ _ _ E2).
    destruct (ob_ev_add re_match ev l s m) as [r3|] eqn:E3; [|discriminate]. rewrite (ob_ev_add_mono _ _ _ _ E3).
    destruct (ob_ev_names ev l s m) as [r4|] eqn:E4; [|discriminate]. rewrite (ob_ev_names_mono _ _ _ _ E4).
    destruct (ob_ev_deps e ev j l s m) as [r5|] eqn:E5; [|discriminate]. rewrite (ob_ev_deps_mono _ _ _ _ _ _ E5).
    exact H.
  Qed.

  Lemma spec_uneval_items_mono j l s sg r : spec_uneval_items ev j l s sg = Some r -> spec_uneval_items ev' j l s sg = Some r.
  Proof.
    unfold spec_uneval_items. destruct j; auto. destruct (s_unevaluatedItems s); auto.
    destruct (eval_all _ _) as [rs|] eqn:E; [|discriminate].
    intros H. erewrite eval_all_mono; [exact H| |exact E]. intros; now apply Hle.
  Qed.

  Lemma spec_uneval_props_mono j l s sg r : spec_uneval_props ev j l s sg = Some r -> spec_uneval_props ev' j l s sg = Some r.
  Proof.
    unfold spec_uneval_props. destruct j; auto. destruct (s_unevaluatedProperties s); auto.
    destruct (eval_all _ _) as [rs|] eqn:E; [|discriminate].
    intros H. erewrite eval_all_mono; [exact H| |exact E]. intros; now apply Hle.
  Qed.

  Lemma spec_body_mono e C j l s r : spec_body re_match e ev C j l s = Some r -> spec_body re_match e ev' C j l s = Some r.
  Proof.
    unfold spec_body. intros H.
    destruct (match s_ref s with [] => Some [] | _ => _ end) as [r_ref|] eqn:E1; [|discriminate].
    assert (E1' : match s_ref s with
                  | [] => Some []
                  | _ => match info_at e l with
                         | Some i => match ri_ref i with
                                     | Some t => match node_at e t with Some c => eval_all (fun c => ev' j t c) [c] | None => None end
                                     | None => None
                                     end
                         | None => None
                         end
                  end = Some r_ref).
    { destruct (s_ref s); [exact E1|]. destruct (info_at e l) as [i|]; [|discriminate].
      destruct (ri_ref i) as [t|]; [|discriminate]. destruct (node_at e t); [|discriminate].
      eapply eval_all_mono; [|exact E1]. intros; now apply Hle. }
    rewrite E1'. clear E1'.
    destruct (e_draft7 e && _); [exact H|].
    destruct (match s_dynamicRef s with [] => Some [] | _ => _ end) as [r_dyn|] eqn:E2; [|discriminate].
    assert (E2' : match s_dynamicRef s with
                  | [] => Some []
                  | _ => match info_at e l with
                         | Some i =>
                             match ri_dynref i with
                             | Some t0 =>
                                 match (match ri_dynanchor i with
                                        | [] => Some t0
                                        | a => option_map (fun o => match o with Some t => t | None => t0 end) (scope_lookup e C a)
                                        end) with
                                 | Some t => match node_at e t with Some c => eval_all (fun c => ev' j t c) [c] | None => None end
                                 | None => None
                                 end
                             | None => None
                             end
                         | None => None
                         end
                  end = Some r_dyn).
    { destruct (s_dynamicRef s); [exact E2|]. destruct (info_at e l) as [i|]; [|discriminate].
      destruct (ri_dynref i) as [t0|]; [|discriminate].
      destruct (match ri_dynanchor i with [] => Some t0 | _ => _ end) as [t|]; [|discriminate].
      destruct (node_at e t); [|discriminate].
      eapply eval_all_mono; [|exact E2]. intros; now apply Hle. }
    rewrite E2'. clear E2'.
    destruct (eval_all _ (idx_list (olist (s_allOf s)))) as [r_all|] eqn:E3; [|discriminate].
    rewrite (eval_all_mono _ _ _ _ (fun x y Hx => Hle _ _ _ _ Hx) E3).
    destruct (eval_all _ (idx_list (olist (s_anyOf s)))) as [r_any|] eqn:E4; [|discriminate].
    rewrite (eval_all_mono _ _ _ _ (fun x y Hx => Hle _ _ _ _ Hx) E4).
    destruct (eval_all _ (idx_list (olist (s_oneOf s)))) as [r_one|] eqn:E5; [|discriminate].
    rewrite (eval_all_mono _ _ _ _ (fun x y Hx => Hle _ _ _ _ Hx) E5).
    destruct (one ev j _ (s_not s)) as [r_not|] eqn:E6; [|discriminate]. rewrite (one_mono _ _ _ _ E6).
    destruct (one ev j _ (s_if s)) as [r_if|] eqn:E7; [|discriminate]. rewrite (one_mono _ _ _ _ E7).
    destruct (one ev j _ (s_then s)) as [r_then|] eqn:E8; [|discriminate]. rewrite (one_mono _ _ _ _ E8).
    destruct (one ev j _ (s_else s)) as [r_else|] eqn:E9; [|discriminate]. rewrite (one_mono _ _ _ _ E9).
    destruct (match r_if with [] => _ | _ => _ end) as [ok_cond sig_cond].
    destruct (match j with JArr items => _ | _ => Some (true, []) end) as [[ok_arr i_arr]|] eqn:EA; [|discriminate].
    assert (EA' : match j with JArr items => spec_arrays e ev' l s items | _ => Some (true, []) end = Some (ok_arr, i_arr)).
    { destruct j; try exact EA. now apply spec_arrays_mono. }
    rewrite EA'. clear EA'.
    destruct (match j with JObj m => _ | _ => Some (true, sig0, sig0) end) as [[[ok_obj sig_obj] sig_deps]|] eqn:EO; [|discriminate].
    assert (EO' : match j with JObj m => spec_objects re_match e ev' j l s m | _ => Some (true, sig0, sig0) end = Some (ok_obj, sig_obj, sig_deps)).
    { destruct j; try exact EO. now apply spec_objects_mono. }
    rewrite EO'. clear EO'.
    destruct (spec_uneval_items ev _ _ _ _) as [[ok_ui i_ui]|] eqn:EU; [|discriminate]. rewrite (spec_uneval_items_mono _ _ _ _ _ EU).
    destruct (spec_uneval_props ev _ _ _ _) as [[ok_up p_up]|] eqn:EP; [|discriminate]. rewrite (spec_uneval_props_mono _ _ _ _ _ EP).
    exact H.
  Qed.
End Mono.

Theorem spec_eval_mono re_match n e : forall C j l s r,
  spec_eval re_match n e C j l s = Some r -> spec_eval re_match (S n) e C j l s = Some r.
Proof.
  induction n as [|n IH]; intros C j l s r H; [discriminate|].
  cbn [spec_eval] in *. eapply spec_body_mono; [|exact H].
  intros j' l' c' x Hx. now apply IH.
Qed.

Corollary spec_eval_mono_le re_match n m e C j l s r :
  n <= m -> spec_eval re_match n e C j l s = Some r -> spec_eval re_match m e C j l s = Some r.
Proof. induction 1; [auto|]. intros H0. apply spec_eval_mono. auto. Qed.

(** hence "valid" is well defined: two sufficient fuels give the same answer *)
Corollary spec_eval_deterministic re_match n m e C j l s r r' :
  spec_eval re_match n e C j l s = Some r -> spec_eval re_match m e C j l s = Some r' -> r = r'.
Proof.
  intros H1 H2. destruct (Nat.le_ge_cases n m) as [Hle|Hle].
  - apply (spec_eval_mono_le _ _ _ _ _ _ _ _ _ Hle) in H1. congruence.
  - apply (spec_eval_mono_le _ _ _ _ _ _ _ _ _ Hle) in H2. congruence.
Qed.
