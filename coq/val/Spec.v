(** The validity relation, written as a reference function in the style of the
    specification text (DESIGN Appendix A): every keyword of a schema object is
    evaluated independently, the verdict is the conjunction, the annotation is the
    union of what the keywords evaluated; dependent keywords (additionalProperties,
    items, the unevaluated keywords) read the results of the keywords they depend on.  No
    short-cuts, no compressed bookkeeping, instances are JSON values.
    One function covers both drafts; the draft switches exactly the constructs the
    two specifications differ in. *)
From Coq Require Import List NArith ZArith QArith Bool.
From JS Require Import Str Lit Json GoValue Schema Env.
Import ListNotations.
Open Scope list_scope.

(** sigma: the evaluated property names and item indexes of one instance location *)
Record sigma := mkSigma { sP : list str; sI : list nat }.
Definition sig0 : sigma := mkSigma [] [].
Definition sig_union (a b : sigma) : sigma := mkSigma (sP a ++ sP b) (sI a ++ sI b).

Definition sres := option (bool * sigma).   (* None: out of fuel, or the environment lacks a target *)

Definition jt_name (t : jtype) : str :=
  match t with
  | TNull => lit "null"%lit | TBoolean => lit "boolean"%lit | TInteger => lit "integer"%lit
  | TNumber => lit "number"%lit | TString => lit "string"%lit | TArray => lit "array"%lit
  | TObject => lit "object"%lit
  end.

(** a type name accepts a JSON value *)
Definition type_accepts (name : str) (j : json) : bool :=
  str_eqb name (jt_name (json_type j)) ||
  (str_eqb name (lit "number"%lit) && match json_type j with TInteger => true | _ => false end).

(** assertion keywords: a boolean each *)
Definition a_type (s : schema) (j : json) : bool :=
  match s_type s, s_types s with
  | (_ :: _) as t, _ => type_accepts t j
  | [], Some ts => existsb (fun t => type_accepts t j) ts
  | [], None => true
  end.
Definition a_enum (s : schema) (j : json) : bool :=
  match s_enum s with Some l => existsb (fun e => json_eqb (den e) j) l | None => true end.
Definition a_const (s : schema) (j : json) : bool :=
  match s_const s with Some c => json_eqb (den c) j | None => true end.
Definition opt_ok {A} (o : option A) (f : A -> bool) : bool := match o with Some x => f x | None => true end.
Definition a_numbers (s : schema) (j : json) : bool :=
  match j with
  | JNum n =>
      opt_ok (s_multipleOf s) (fun m => negb (q_eqb m 0) && q_is_int (n / m)) &&
      opt_ok (s_minimum s) (fun b => q_leb b n) &&
      opt_ok (s_maximum s) (fun b => q_leb n b) &&
      opt_ok (s_exclusiveMinimum s) (fun b => q_ltb b n) &&
      opt_ok (s_exclusiveMaximum s) (fun b => q_ltb n b)
  | _ => true
  end.

Section Spec.
  Variable re_match : str -> str -> bool.

  Definition a_strings (s : schema) (j : json) : bool :=
    match j with
    | JStr v =>
        opt_ok (s_minLength s) (fun m => Z.leb m (Z.of_nat (length v))) &&
        opt_ok (s_maxLength s) (fun m => Z.leb (Z.of_nat (length v)) m) &&
        match s_pattern s with [] => true | p => re_match p v end
    | _ => true
    end.

  (** pairwise distinct by JSON equality: every element differs from all earlier ones *)
  Fixpoint distinct_from (seen l : list json) : bool :=
    match l with
    | [] => true
    | x :: r => negb (existsb (fun y => json_eqb x y) seen) && distinct_from (seen ++ [x]) r
    end.
  Definition distinct (l : list json) : bool := distinct_from [] l.

  Definition a_array_counts (s : schema) (j : json) : bool :=
    match j with
    | JArr l =>
        opt_ok (s_minItems s) (fun m => Z.leb m (Z.of_nat (length l))) &&
        opt_ok (s_maxItems s) (fun m => Z.leb (Z.of_nat (length l)) m) &&
        (if s_uniqueItems s then distinct l else true)
    | _ => true
    end.

  Definition has_key (m : list (str * json)) (k : str) : bool :=
    match lookup k m with Some _ => true | None => false end.

  Definition a_object_counts (draft7 : bool) (s : schema) (j : json) : bool :=
    match j with
    | JObj m =>
        opt_ok (s_minProperties s) (fun k => Z.leb k (Z.of_nat (length m))) &&
        opt_ok (s_maxProperties s) (fun k => Z.leb (Z.of_nat (length m)) k) &&
        opt_ok (s_required s) (fun req => forallb (has_key m) req) &&
        opt_ok (if draft7 then s_dependencyStrings s else s_dependentRequired s)
               (fun d => forallb (fun kr => negb (has_key m (fst kr)) || forallb (has_key m) (snd kr)) d)
    | _ => true
    end.

  (** applicators *)
  Definition efun := json -> loc -> schema -> sres.

  (* all sub-evaluations must be defined; collect their results *)
  Fixpoint eval_all {A} (f : A -> sres) (l : list A) : option (list (bool * sigma)) :=
    match l with
    | [] => Some []
    | x :: r =>
        match f x, eval_all f r with
        | Some y, Some t => Some (y :: t)
        | _, _ => None
        end
    end.

  Definition all_true (rs : list (bool * sigma)) : bool := forallb (fun r => fst r) rs.
  Definition count_true (rs : list (bool * sigma)) : nat := length (filter (fun r => fst r) rs).
  (* union of the annotations of the successful ones *)
  Definition sig_of_true (rs : list (bool * sigma)) : sigma :=
    fold_right (fun (r : bool * sigma) acc => if fst r then sig_union (snd r) acc else acc) sig0 rs.

  Definition idx_list {A} (l : list A) : list (nat * A) := combine (seq 0 (length l)) l.

  Definition ch (l : loc) (name : str) : loc := child_loc l [SKey name].
  Definition ch_i (l : loc) (name : str) (i : nat) : loc := child_loc l [SKey name; SIdx i].
  Definition ch_k (l : loc) (name : str) (k : str) : loc := child_loc l [SKey name; SKey k].

  Definition olist {A} (o : option (list A)) : list A := match o with Some l => l | None => [] end.

  (** the schema a reference keyword leads to *)
  Definition scope_lookup (e : env) (C : list loc) (name : str) : option (option loc) :=
    (* outermost resource of the dynamic scope that declares the dynamic anchor;
       the outer None: the environment does not describe a schema of the scope *)
    (fix go (C : list loc) : option (option loc) :=
       match C with
       | [] => Some None
       | l :: r =>
           match info_at e l with
           | Some li =>
               match info_at e (ri_base li) with
               | Some bi =>
                   match lookup name (ri_anchors bi) with
                   | Some (t, true) => Some (Some t)
                   | _ => go r
                   end
               | None => None
               end
           | None => None
           end
       end) C.

  Definition one (ev : efun) (j : json) (l : loc) (o : option schema) : option (list (bool * sigma)) :=
    match o with Some c => eval_all (fun c => ev j l c) [c] | None => Some [] end.

  (** array applicators: prefixItems / items / contains (draft-07: items array / additionalItems) *)
  Definition ar_prefix_list (e : env) (s : schema) : list schema :=
    if e_draft7 e then olist (s_itemsArray s) else olist (s_prefixItems s).
  Definition ar_prefix_name (e : env) : str := if e_draft7 e then lit "items"%lit else lit "prefixItems"%lit.
  Definition ar_rest_schema (e : env) (s : schema) : option (str * schema) :=
    if e_draft7 e
    then match s_itemsArray s with
         | Some _ => option_map (fun c => (lit "additionalItems"%lit, c)) (s_additionalItems s)
         | None => option_map (fun c => (lit "items"%lit, c)) (s_items s)
         end
    else option_map (fun c => (lit "items"%lit, c)) (s_items s).

  (* pairwise, until either list ends *)
  Definition ar_prefix (e : env) (ev : efun) (l : loc) (s : schema) (items : list json) : option (list (bool * sigma)) :=
    eval_all (fun xc => ev (fst xc) (ch_i l (ar_prefix_name e) (fst (snd xc))) (snd (snd xc)))
             (combine items (idx_list (ar_prefix_list e s))).
  Definition ar_rest (e : env) (ev : efun) (l : loc) (s : schema) (items : list json) : option (list (bool * sigma)) :=
    match ar_rest_schema e s with
    | Some (name, c) => eval_all (fun x => ev x (ch l name) c) (skipn (length (ar_prefix_list e s)) items)
    | None => Some []
    end.
  Definition ar_contains (ev : efun) (l : loc) (s : schema) (items : list json) : option (option (list (bool * sigma))) :=
    match s_contains s with
    | Some c => option_map (fun rs => Some rs) (eval_all (fun x => ev x (ch l (lit "contains"%lit)) c) items)
    | None => Some None
    end.

  Definition spec_arrays (e : env) (ev : efun) (l : loc) (s : schema) (items : list json) : option (bool * list nat) :=
    let n := length items in
    let prefix := ar_prefix_list e s in
    let np := Nat.min (length prefix) n in
    match ar_prefix e ev l s items, ar_rest e ev l s items, ar_contains ev l s items with
    | Some r_prefix, Some r_rest, Some r_contains =>
        let i_prefix := seq 0 np in
        let i_rest := match ar_rest_schema e s with Some _ => seq (length prefix) (n - length prefix) | None => [] end in
        let matched := match r_contains with
                       | Some rs => map fst (filter (fun ir => fst (snd ir)) (combine (seq 0 n) rs))
                       | None => []
                       end in
        let ok_contains :=
          match r_contains with
          | Some _ =>
              let c := Z.of_nat (length matched) in
              Z.leb (match s_minContains s with Some m => m | None => 1%Z end) c &&
              opt_ok (s_maxContains s) (fun m => Z.leb c m)
          | None => true
          end in
        Some (all_true r_prefix && all_true r_rest && ok_contains, i_prefix ++ i_rest ++ matched)
    | _, _, _ => None
    end.

  (** object applicators: properties, patternProperties, additionalProperties, propertyNames,
      dependentSchemas (draft-07: schema-valued dependencies) *)
  Definition ob_p_props (s : schema) (m : list (str * json)) : list str :=
    filter (fun k => match lookup k (olist (s_properties s)) with Some _ => true | None => false end) (keys m).
  Definition ob_p_pats (s : schema) (m : list (str * json)) : list str :=
    filter (fun k => existsb (fun pc => re_match (fst pc) k) (olist (s_patternProperties s))) (keys m).
  Definition ob_additional (s : schema) (m : list (str * json)) : list (str * json) :=
    filter (fun kv => negb (mem_str (fst kv) (ob_p_props s m)) && negb (mem_str (fst kv) (ob_p_pats s m))) m.
  Definition ob_deps (e : env) (s : schema) : list (str * schema) :=
    if e_draft7 e then olist (s_dependencySchemas s) else olist (s_dependentSchemas s).
  Definition ob_deps_name (e : env) : str := if e_draft7 e then lit "dependencies"%lit else lit "dependentSchemas"%lit.

  Definition ob_ev_props (ev : efun) (l : loc) (s : schema) (m : list (str * json)) : option (list (bool * sigma)) :=
    eval_all (fun kc => match lookup (fst kc) m with
                        | Some v => ev v (ch_k l (lit "properties"%lit) (fst kc)) (snd kc)
                        | None => Some (true, sig0)
                        end) (olist (s_properties s)).
  Definition ob_ev_pats (ev : efun) (l : loc) (s : schema) (m : list (str * json)) : option (list (bool * sigma)) :=
    eval_all (fun kv => option_map (fun rs => (all_true rs, sig0))
                          (eval_all (fun pc => if re_match (fst pc) (fst kv)
                                               then ev (snd kv) (ch_k l (lit "patternProperties"%lit) (fst pc)) (snd pc)
                                               else Some (true, sig0)) (olist (s_patternProperties s)))) m.
  Definition ob_ev_add (ev : efun) (l : loc) (s : schema) (m : list (str * json)) : option (list (bool * sigma)) :=
    match s_additionalProperties s with
    | Some c => eval_all (fun kv => ev (snd kv) (ch l (lit "additionalProperties"%lit)) c) (ob_additional s m)
    | None => Some []
    end.
  Definition ob_ev_names (ev : efun) (l : loc) (s : schema) (m : list (str * json)) : option (list (bool * sigma)) :=
    match s_propertyNames s with
    | Some c => eval_all (fun kv => ev (JStr (fst kv)) (ch l (lit "propertyNames"%lit)) c) m
    | None => Some []
    end.
  Definition ob_ev_deps (e : env) (ev : efun) (j : json) (l : loc) (s : schema) (m : list (str * json)) : option (list (bool * sigma)) :=
    eval_all (fun kc => if has_key m (fst kc) then ev j (ch_k l (ob_deps_name e) (fst kc)) (snd kc) else Some (true, sig0))
             (ob_deps e s).

  Definition spec_objects (e : env) (ev : efun) (j : json) (l : loc) (s : schema) (m : list (str * json))
    : option (bool * sigma * sigma) :=
    match ob_ev_props ev l s m, ob_ev_pats ev l s m, ob_ev_add ev l s m, ob_ev_names ev l s m, ob_ev_deps e ev j l s m with
    | Some r_props, Some r_pats, Some r_add, Some r_names, Some r_deps =>
        let p_add := match s_additionalProperties s with Some _ => keys (ob_additional s m) | None => [] end in
        Some (all_true r_props && all_true r_pats && all_true r_add && all_true r_names && all_true r_deps,
              mkSigma (ob_p_props s m ++ ob_p_pats s m ++ p_add) [], sig_of_true r_deps)
    | _, _, _, _, _ => None
    end.

  (** unevaluatedItems / unevaluatedProperties apply to what [sig_minus] does not cover *)
  Definition spec_uneval_items (ev : efun) (j : json) (l : loc) (s : schema) (sig_minus : sigma) : option (bool * list nat) :=
    match j, s_unevaluatedItems s with
    | JArr items, Some c =>
        let un := filter (fun ix => negb (mem_nat (fst ix) (sI sig_minus))) (idx_list items) in
        option_map (fun rs => (all_true rs, map fst un))
                   (eval_all (fun ix => ev (snd ix) (ch l (lit "unevaluatedItems"%lit)) c) un)
    | _, _ => Some (true, [])
    end.
  Definition spec_uneval_props (ev : efun) (j : json) (l : loc) (s : schema) (sig_minus : sigma) : option (bool * list str) :=
    match j, s_unevaluatedProperties s with
    | JObj m, Some c =>
        let un := filter (fun kv => negb (mem_str (fst kv) (sP sig_minus))) m in
        option_map (fun rs => (all_true rs, keys un))
                   (eval_all (fun kv => ev (snd kv) (ch l (lit "unevaluatedProperties"%lit)) c) un)
    | _, _ => Some (true, [])
    end.

  (** one schema object, given the evaluator [ev] for subschemas (which already knows
      the extended dynamic scope [C']) *)
  Definition spec_body (e : env) (ev : efun) (C' : list loc) (j : json) (l : loc) (s : schema) : sres :=
    let d7 := e_draft7 e in
    (* $ref *)
    match
      (match s_ref s with
       | [] => Some []
       | _ =>
           match info_at e l with
           | Some i => match ri_ref i with
                       | Some t => match node_at e t with Some c => eval_all (fun c => ev j t c) [c] | None => None end
                       | None => None
                       end
           | None => None
           end
       end)
    with
    | None => None
    | Some r_ref =>
    if d7 && match s_ref s with [] => false | _ => true end then
      (* draft-07: an object with $ref is only its $ref *)
      Some (all_true r_ref, sig0)
    else
    (* $dynamicRef *)
    match
      (match s_dynamicRef s with
       | [] => Some []
       | _ =>
           match info_at e l with
           | Some i =>
               match ri_dynref i with
               | Some t0 =>
                   match (match ri_dynanchor i with
                          | [] => Some t0
                          | a => option_map (fun o => match o with Some t => t | None => t0 end) (scope_lookup e C' a)
                          end) with
                   | Some t => match node_at e t with Some c => eval_all (fun c => ev j t c) [c] | None => None end
                   | None => None
                   end
               | None => None
               end
           | None => None
           end
       end),
      eval_all (fun ic => ev j (ch_i l (lit "allOf"%lit) (fst ic)) (snd ic)) (idx_list (olist (s_allOf s))),
      eval_all (fun ic => ev j (ch_i l (lit "anyOf"%lit) (fst ic)) (snd ic)) (idx_list (olist (s_anyOf s))),
      eval_all (fun ic => ev j (ch_i l (lit "oneOf"%lit) (fst ic)) (snd ic)) (idx_list (olist (s_oneOf s))),
      one ev j (ch l (lit "not"%lit)) (s_not s),
      one ev j (ch l (lit "if"%lit)) (s_if s),
      one ev j (ch l (lit "then"%lit)) (s_then s),
      one ev j (ch l (lit "else"%lit)) (s_else s)
    with
    | Some r_dyn, Some r_all, Some r_any, Some r_one, Some r_not, Some r_if, Some r_then, Some r_else =>
      (* if / then / else *)
      let '(ok_cond, sig_cond) :=
        match r_if with
        | [] => (true, sig0)
        | (true, s0) :: _ => (all_true r_then, sig_union s0 (sig_of_true r_then))
        | (false, _) :: _ => (all_true r_else, sig_of_true r_else)
        end in
      (* arrays *)
      match
        (match j with
         | JArr items => spec_arrays e ev l s items
         | _ => Some (true, [])
         end)
      with
      | None => None
      | Some (ok_arr, i_arr) =>
      (* objects: properties, patternProperties, additionalProperties, propertyNames, dependent schemas *)
      match
        (match j with
         | JObj m => spec_objects e ev j l s m
         | _ => Some (true, sig0, sig0)
         end)
      with
      | None => None
      | Some (ok_obj, sig_obj, sig_deps) =>
        let oks :=
          [ all_true r_ref; a_type s j; a_enum s j; a_const s j; a_numbers s j; a_strings s j;
            all_true r_dyn; all_true r_all;
            (match s_anyOf s with Some _ => Nat.ltb 0 (count_true r_any) | None => true end);
            (match s_oneOf s with Some _ => Nat.eqb (count_true r_one) 1 | None => true end);
            negb (existsb (fun r => fst r) r_not); ok_cond ] in
        (* everything the other keywords of this object evaluated at this location *)
        let sig_minus :=
          sig_union (sig_of_true r_ref) (sig_union (sig_of_true r_dyn) (sig_union (sig_of_true r_all)
          (sig_union (sig_of_true r_any) (sig_union (sig_of_true r_one) (sig_union sig_cond
          (sig_union (mkSigma [] i_arr) (sig_union sig_obj sig_deps))))))) in
        (* unevaluatedItems / unevaluatedProperties apply to the complement *)
        match
          spec_uneval_items ev j l s sig_minus,
          spec_uneval_props ev j l s sig_minus
        with
        | Some (ok_ui, i_ui), Some (ok_up, p_up) =>
            let ok := forallb (fun b => b)
                        (oks ++ [ok_arr; a_array_counts s j; ok_ui; ok_obj; a_object_counts d7 s j; ok_up]) in
            Some (ok, if ok then sig_union sig_minus (mkSigma p_up i_ui) else sig0)
        | _, _ => None
        end
      end
      end
    | _, _, _, _, _, _, _, _ => None
    end
    end.

  Fixpoint spec_eval (fuel : nat) (e : env) (C : list loc) (j : json) (l : loc) (s : schema) : sres :=
    match fuel with
    | O => None
    | S n => let C' := C ++ [l] in spec_body e (spec_eval n e C') C' j l s
    end.

  (** validity of an instance against a resolved root schema *)
  Definition spec_valid (fuel : nat) (e : env) (j : json) : option bool :=
    match node_at e (0%nat, []) with
    | Some root => option_map fst (spec_eval fuel e [] j (0%nat, []) root)
    | None => None
    end.
End Spec.
