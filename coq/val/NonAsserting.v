(** C18: the evaluator does not read the non-asserting keywords, and unknown keywords
    never reach the Schema fields. *)
From Coq Require Import List NArith ZArith QArith Bool.
From JS Require Import Str Lit Json Res GoValue Hash Schema CodecBase Codec Env Ann Validate.
Import ListNotations.

(** two schema objects that agree on every field the evaluator can read *)
Definition same_asserting (s s' : schema) : Prop :=
  s_ref s = s_ref s' /\ s_dynamicRef s = s_dynamicRef s' /\
  s_type s = s_type s' /\ s_types s = s_types s' /\ s_enum s = s_enum s' /\ s_const s = s_const s' /\
  s_multipleOf s = s_multipleOf s' /\ s_minimum s = s_minimum s' /\ s_maximum s = s_maximum s' /\
  s_exclusiveMinimum s = s_exclusiveMinimum s' /\ s_exclusiveMaximum s = s_exclusiveMaximum s' /\
  s_minLength s = s_minLength s' /\ s_maxLength s = s_maxLength s' /\ s_pattern s = s_pattern s' /\
  s_prefixItems s = s_prefixItems s' /\ s_items s = s_items s' /\ s_itemsArray s = s_itemsArray s' /\
  s_minItems s = s_minItems s' /\ s_maxItems s = s_maxItems s' /\ s_additionalItems s = s_additionalItems s' /\
  s_uniqueItems s = s_uniqueItems s' /\ s_contains s = s_contains s' /\ s_minContains s = s_minContains s' /\
  s_maxContains s = s_maxContains s' /\ s_unevaluatedItems s = s_unevaluatedItems s' /\
  s_minProperties s = s_minProperties s' /\ s_maxProperties s = s_maxProperties s' /\ s_required s = s_required s' /\
  s_dependentRequired s = s_dependentRequired s' /\ s_properties s = s_properties s' /\
  s_patternProperties s = s_patternProperties s' /\ s_additionalProperties s = s_additionalProperties s' /\
  s_propertyNames s = s_propertyNames s' /\ s_unevaluatedProperties s = s_unevaluatedProperties s' /\
  s_allOf s = s_allOf s' /\ s_anyOf s = s_anyOf s' /\ s_oneOf s = s_oneOf s' /\ s_not s = s_not s' /\
  s_if s = s_if s' /\ s_then s = s_then s' /\ s_else s = s_else s' /\ s_dependentSchemas s = s_dependentSchemas s' /\
  s_dependencySchemas s = s_dependencySchemas s' /\ s_dependencyStrings s = s_dependencyStrings s'.

(** the evaluation step of one schema object depends on the asserting fields only: title,
    description, $comment, default, examples, deprecated, readOnly, writeOnly, format,
    contentEncoding, contentMediaType, contentSchema, $defs/definitions, $id/$anchor, Extra
    (unknown keywords) and PropertyOrder are never read *)
Theorem validate_body_non_asserting re_match hash e v stack inst l s s' :
  same_asserting s s' ->
  validate_body re_match hash e v stack inst l s = validate_body re_match hash e v stack inst l s'.
Proof.
  intros H. unfold same_asserting in H.
  repeat match type of H with _ /\ _ => let H1 := fresh "E" in destruct H as [H1 H] end.
  unfold validate_body, check_type, check_enum, check_const, check_numbers, check_strings,
         arrays_phase, items_part, contains_part, array_counts, check_unique, uneval_items_part,
         objects_phase, props_part, object_counts, deps_part, uneval_props_part.
  repeat match goal with E : _ = _ |- _ => rewrite <- E; clear E end.
  reflexivity.
Qed.

(** an unknown member name (anything that is not exactly a keyword) leaves the decoded
    fields untouched and cannot make Unmarshal fail *)
Theorem unknown_member_ignored un k v st :
  mem_str k known_names = false -> apply_member un k v st = Ok st.
Proof. intros H. unfold apply_member, canon_name. now rewrite H. Qed.

(** keyword matching is exact: case variants are unknown *)
Example case_variants_unknown :
  mem_str (lit "Type"%lit) known_names = false /\ mem_str (lit "MINLENGTH"%lit) known_names = false /\
  mem_str [105; 116; 101; 109; 383]%N known_names = false /\ mem_str (lit "type"%lit) known_names = true.
Proof. vm_compute. repeat split. Qed.
