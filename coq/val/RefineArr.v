(** Refinement, array keywords. *)
From Coq Require Import List NArith ZArith QArith Bool Lia Btauto.
From JS Require Import Str StrFacts Lit Json Res GoValue Equal EqualFacts Hash Schema Env Ann Validate Spec RefineBase.
Import ListNotations.
Open Scope list_scope.
Local Open Scope nat_scope.

Lemma mem_nat_seq i a n : mem_nat i (seq a n) = Nat.leb a i && Nat.ltb i (a + n).
Proof.
  revert a; induction n as [|n IH]; intros a; cbn [seq mem_nat].
  - destruct (Nat.leb_spec a i), (Nat.ltb_spec i (a + 0)); cbn; try reflexivity; lia.
  - rewrite IH. destruct (Nat.eqb_spec i a), (Nat.leb_spec (S a) i), (Nat.ltb_spec i (S a + n)),
      (Nat.leb_spec a i), (Nat.ltb_spec i (a + S n)); cbn; try reflexivity; lia.
Qed.

Lemma mem_nat_In i l : mem_nat i l = true <-> In i l.
Proof.
  induction l as [|x r IH]; cbn; [easy|]. rewrite orb_true_iff, IH, Nat.eqb_eq. intuition congruence.
Qed.

Lemma eval_all_nil {A} (f : A -> sres) rs : eval_all f [] = Some rs -> rs = [].
Proof. cbn. now intros [= <-]. Qed.

Definition wfl (l : list gv) : Prop := Forall (fun x => gv_wf x = true) l.

Lemma wfl_skipn n l : wfl l -> wfl (skipn n l).
Proof. unfold wfl. revert l; induction n; intros l H; [exact H|]. destruct l; [constructor|]. inversion H; subst. cbn. auto. Qed.

Section Arr.
  Variable v : vfun.
  Variable ev : efun.
  Hypothesis Hagree : forall g l c sr, gv_wf g = true -> ev (den g) l c = Some sr -> agrees (den g) (v g l c) sr.

  (** prefixItems: pairwise, annotations dropped *)
  Lemma zip_items_spec lcs : forall items rs, wfl items ->
    eval_all (fun xc => ev (fst xc) (fst (snd xc)) (snd (snd xc))) (combine (map den items) lcs) = Some rs ->
    zip_items v items lcs = if all_true rs then Ok tt else Err.
  Proof.
    induction lcs as [|[l c] r IH]; intros [|x items] rs Hw H; cbn [combine map] in H;
      try (apply eval_all_nil in H; subst; reflexivity).
    apply eval_all_cons in H as ([b sg] & t & Hx & Ht & ->). cbn [fst snd] in Hx.
    inversion Hw as [|? ? Hwx Hw']; subst.
    apply Hagree in Hx; [|exact Hwx]. unfold agrees in Hx. cbn [fst snd] in Hx.
    cbn [zip_items all_true forallb fst]. destruct b; cbn [andb].
    - destruct Hx as (a1 & Hv & _). rewrite Hv. cbn [bind]. now apply IH.
    - now rewrite Hx.
  Qed.

  (** items: every listed element against one schema, annotations dropped *)
  Lemma each_item_spec l c : forall items rs, wfl items ->
    eval_all (fun x => ev x l c) (map den items) = Some rs ->
    each_item v items l c = if all_true rs then Ok tt else Err.
  Proof.
    induction items as [|x items IH]; intros rs Hw H; cbn [map] in H; [apply eval_all_nil in H; subst; reflexivity|].
    apply eval_all_cons in H as ([b sg] & t & Hx & Ht & ->).
    inversion Hw as [|? ? Hwx Hw']; subst.
    apply Hagree in Hx; [|exact Hwx]. unfold agrees in Hx. cbn [fst snd] in Hx.
    cbn [each_item all_true forallb fst]. destruct b; cbn [andb].
    - destruct Hx as (a1 & Hv & _). rewrite Hv. cbn [bind]. now apply IH.
    - now rewrite Hx.
  Qed.

  Definition matched_from (i : nat) (rs : list (bool * sigma)) : list nat :=
    map fst (filter (fun ir => fst (snd ir)) (combine (seq i (length rs)) rs)).

  Lemma matched_from_cons i b sg t :
    matched_from i ((b, sg) :: t) = (if b then [i] else []) ++ matched_from (S i) t.
  Proof. unfold matched_from. cbn. destruct b; reflexivity. Qed.

  Lemma matched_from_length i rs : length (matched_from i rs) = count_true rs.
  Proof.
    revert i; induction rs as [|[b sg] t IH]; intros i; [reflexivity|].
    rewrite matched_from_cons, app_length, IH. unfold count_true. cbn [filter fst]. destruct b; reflexivity.
  Qed.

  (** contains: matching items are counted and their indexes noted *)
  Lemma contains_loop_spec l c : forall items rs i n a, wfl items ->
    eval_all (fun x => ev x l c) (map den items) = Some rs ->
    exists a', contains_loop v i items l c n a = Ok (n + count_true rs, a') /\
               (forall k, inI a' k = inI a k || mem_nat k (matched_from i rs)) /\
               (forall k, inP a' k = inP a k) /\ allItems a' = allItems a.
  Proof.
    induction items as [|x items IH]; intros rs i n a Hw H; cbn [map] in H.
    - apply eval_all_nil in H; subst. cbn. rewrite Nat.add_0_r. exists a. repeat split; intros; now rewrite ?orb_false_r.
    - apply eval_all_cons in H as ([b sg] & t & Hx & Ht & ->).
      inversion Hw as [|? ? Hwx Hw']; subst.
      apply Hagree in Hx; [|exact Hwx]. unfold agrees in Hx. cbn [fst snd] in Hx.
      cbn [contains_loop]. rewrite matched_from_cons. destruct b.
      + destruct Hx as (a1 & Hv & _). rewrite Hv. cbn [attempt].
        destruct (IH t (S i) (S n) (noteIndex i a) Hw' Ht) as (a' & Ha' & HI & HP & HA).
        exists a'. split; [|split; [|split]].
        * rewrite Ha'. unfold count_true. cbn [filter fst length]. do 2 f_equal. lia.
        * intros k. rewrite HI. unfold inI, noteIndex. cbn [allItems endIndex evalIdx mem_nat app].
          cbn [mem_nat]. btauto.
        * intros k. now rewrite HP.
        * now rewrite HA.
      + rewrite Hx. cbn [attempt].
        destruct (IH t (S i) n a Hw' Ht) as (a' & Ha' & HI & HP & HA).
        exists a'. split; [|split; [|split]]; auto.
  Qed.

  (** unevaluatedItems: applied to the indexes the annotations do not cover *)
  Lemma uneval_items_spec l c a sgm : allItems a = false -> forall items i rs, wfl items ->
    (forall k, i <= k < i + length items -> inI a k = sinI sgm k) ->
    eval_all (fun ix => ev (snd ix) l c)
             (filter (fun ix => negb (mem_nat (fst ix) (sI sgm))) (combine (seq i (length items)) (map den items))) = Some rs ->
    uneval_items v i items l c a = if all_true rs then Ok tt else Err.
  Proof.
    intros HA. induction items as [|x items IH]; intros i rs Hw Hin H; cbn [map length seq combine filter fst] in H.
    - apply eval_all_nil in H; subst. reflexivity.
    - cbn [uneval_items]. inversion Hw as [|? ? Hwx Hw']; subst.
      assert (Hc : Nat.leb (endIndex a) i && negb (mem_nat i (evalIdx a)) = negb (mem_nat i (sI sgm))).
      { specialize (Hin i). cbn [length] in Hin. unfold inI, sinI in Hin. rewrite HA in Hin. cbn [orb] in Hin.
        rewrite <- Hin by lia. rewrite negb_orb. f_equal.
        destruct (Nat.leb_spec (endIndex a) i), (Nat.ltb_spec i (endIndex a)); cbn; try reflexivity; lia. }
      rewrite Hc.
      assert (Hin' : forall k, S i <= k < S i + length items -> inI a k = sinI sgm k).
      { intros k Hk. apply Hin. cbn [length]. lia. }
      destruct (negb (mem_nat i (sI sgm))).
      + apply eval_all_cons in H as ([b sg] & t & Hx & Ht & ->). cbn [snd] in Hx.
        apply Hagree in Hx; [|exact Hwx]. unfold agrees in Hx. cbn [fst snd] in Hx.
        cbn [all_true forallb fst]. destruct b; cbn [andb].
        * destruct Hx as (a1 & Hv & _). rewrite Hv. cbn [bind]. now apply IH.
        * now rewrite Hx.
      + cbn [bind]. now apply IH.
  Qed.
End Arr.

Lemma combine_map_r {A B C} (g : B -> C) (l : list A) (r : list B) :
  combine l (map g r) = map (fun p => (fst p, g (snd p))) (combine l r).
Proof. revert r; induction l; intros [|y r]; cbn; try reflexivity. now rewrite IHl. Qed.

Lemma idx_list_index_from {A} (l : list A) : idx_list l = index_from 0 l.
Proof. unfold idx_list. now rewrite index_from_combine. Qed.

Lemma inI_noteEndIndex n a i : inI (noteEndIndex n a) i = inI a i || Nat.ltb i n.
Proof. unfold inI, noteEndIndex. cbn [allItems endIndex evalIdx]. rewrite ltb_max. btauto. Qed.
Lemma inI_setAllItems a i : inI (setAllItems a) i = true.
Proof. reflexivity. Qed.
Lemma inP_noteEndIndex n a k : inP (noteEndIndex n a) k = inP a k. Proof. reflexivity. Qed.
Lemma inP_setAllItems a k : inP (setAllItems a) k = inP a k. Proof. reflexivity. Qed.

Section ArrPhase.
  Variable hash : list tok -> Z.
  Variable e : env.
  Variable v : vfun.
  Variable ev : efun.
  Hypothesis Hagree : forall g l c sr, gv_wf g = true -> ev (den g) l c = Some sr -> agrees (den g) (v g l c) sr.
  Variable l : loc.
  Variable s : schema.

  (** the common shape of the items branches: a prefix list, then an optional rest schema *)
  Lemma items_shape prefix pname rest a0 gitems rp rr :
    wfl gitems ->
    eval_all (fun xc => ev (fst xc) (ch_i l pname (fst (snd xc))) (snd (snd xc)))
             (combine (map den gitems) (idx_list prefix)) = Some rp ->
    (match rest with
     | Some (name, c) => eval_all (fun x => ev x (ch l name) c) (skipn (length prefix) (map den gitems))
     | None => Some []
     end) = Some rr ->
    let len := length gitems in
    let np := Nat.min (length prefix) len in
    let i_rest := match rest with Some _ => seq (length prefix) (len - length prefix) | None => [] end in
    let M := zip_items v gitems (list_locs l pname prefix) ;;;
             (let a := noteEndIndex np a0 in
              match rest with
              | Some (name, c) => each_item v (skipn (length prefix) gitems) (one_loc l name) c ;;; Ok (setAllItems a)
              | None => Ok a
              end) in
    if all_true rp && all_true rr
    then exists a1, M = Ok a1 /\
                    (forall i, i < len -> inI a1 i = inI a0 i || mem_nat i (seq 0 np ++ i_rest)) /\
                    (forall k, inP a1 k = inP a0 k)
    else M = Err.
  Proof.
    intros Hw Hp Hr len np i_rest M. subst M.
    assert (Hz : zip_items v gitems (list_locs l pname prefix) = if all_true rp then Ok tt else Err).
    { apply (zip_items_spec v ev Hagree); [exact Hw|]. unfold list_locs. rewrite combine_map_r, eval_all_map.
      rewrite <- idx_list_index_from. cbn [fst snd]. exact Hp. }
    rewrite Hz. destruct (all_true rp); cbn [andb bind]; [|reflexivity].
    destruct rest as [[name c]|].
    - rewrite skipn_map in Hr. change (one_loc l name) with (ch l name).
      rewrite (each_item_spec v ev Hagree _ _ _ _ (wfl_skipn _ _ Hw) Hr). destruct (all_true rr); cbn [bind]; [|reflexivity].
      eexists. split; [reflexivity|]. split.
      + intros i Hi. rewrite inI_setAllItems. symmetry. apply orb_true_iff. right.
        subst np i_rest len. rewrite mem_nat_app, (mem_nat_seq i 0), (mem_nat_seq i (length prefix)).
        destruct (Nat.ltb_spec i (0 + Nat.min (length prefix) (length gitems))),
                 (Nat.leb_spec (length prefix) i),
                 (Nat.ltb_spec i (length prefix + (length gitems - length prefix))); cbn; try reflexivity; lia.
      + intros k. now rewrite inP_setAllItems, inP_noteEndIndex.
    - inversion Hr; subst. cbn [all_true forallb].
      eexists. split; [reflexivity|]. split.
      + intros i Hi. rewrite inI_noteEndIndex. f_equal. subst i_rest. rewrite app_nil_r, mem_nat_seq. cbn. reflexivity.
      + intros k. now rewrite inP_noteEndIndex.
  Qed.

  Lemma zip_nil items : zip_items v items [] = Ok tt.
  Proof. destruct items; reflexivity. Qed.

  Lemma items_part_spec a0 gitems rp rr :
    wfl gitems ->
    eval_all (fun xc => ev (fst xc) (ch_i l (ar_prefix_name e) (fst (snd xc))) (snd (snd xc)))
             (combine (map den gitems) (idx_list (ar_prefix_list e s))) = Some rp ->
    (match ar_rest_schema e s with
     | Some (name, c) => eval_all (fun x => ev x (ch l name) c) (skipn (length (ar_prefix_list e s)) (map den gitems))
     | None => Some []
     end) = Some rr ->
    let len := length gitems in
    let np := Nat.min (length (ar_prefix_list e s)) len in
    let i_rest := match ar_rest_schema e s with Some _ => seq (length (ar_prefix_list e s)) (len - length (ar_prefix_list e s)) | None => [] end in
    if all_true rp && all_true rr
    then exists a1, items_part e v l s gitems a0 = Ok a1 /\
                    (forall i, i < len -> inI a1 i = inI a0 i || mem_nat i (seq 0 np ++ i_rest)) /\
                    (forall k, inP a1 k = inP a0 k)
    else items_part e v l s gitems a0 = Err.
  Proof.
    intros Hw Hp Hr. pose proof (items_shape (ar_prefix_list e s) (ar_prefix_name e) (ar_rest_schema e s) a0 gitems rp rr Hw Hp Hr) as H.
    cbn zeta in *. unfold items_part, ar_prefix_list, ar_prefix_name, ar_rest_schema in *.
    destruct (e_draft7 e).
    - destruct (s_itemsArray s) as [ia|].
      + cbn [olist] in *. destruct (s_additionalItems s); cbn [option_map] in *; exact H.
      + cbn [olist length] in *. unfold list_locs in H. cbn [index_from map] in H. rewrite zip_nil in H. cbn [bind skipn] in H.
        destruct (s_items s) as [it|]; cbn [option_map] in *.
        * destruct (all_true rp && all_true rr).
          -- destruct H as (a1 & Ha1 & HI & HP).
             destruct (each_item v gitems (one_loc l (lit "items"%lit)) it) as [[]| | |]; cbn [bind] in *; try discriminate.
             inversion Ha1; subst a1. eexists. split; [reflexivity|]. split.
             ++ intros i Hi. rewrite <- (HI i Hi). reflexivity.
             ++ intros k. rewrite <- (HP k). reflexivity.
          -- destruct (each_item v gitems (one_loc l (lit "items"%lit)) it) as [[]| | |]; cbn [bind] in *; try discriminate; reflexivity.
        * destruct (all_true rp && all_true rr); [|discriminate].
          destruct H as (a1 & Ha1 & HI & HP). inversion Ha1; subst a1.
          exists a0. split; [reflexivity|]. split.
          -- intros i Hi. rewrite <- (HI i Hi). rewrite inI_noteEndIndex. cbn. now rewrite orb_false_r.
          -- reflexivity.
    - change (opt_list (s_prefixItems s)) with (olist (s_prefixItems s)).
      destruct (s_items s); cbn [option_map] in *; exact H.
  Qed.
End ArrPhase.

From Coq Require Import ZifyBool ZifyNat.

Lemma z_not_ltb a b : negb (Z.ltb a b) = Z.leb b a. Proof. lia. Qed.
Lemma z_not_gtb a b : negb (Z.gtb a b) = Z.leb a b. Proof. lia. Qed.

Lemma bind_guard {A} (b : bool) (k : res A) : (guard b ;;; k) = if b then k else Err.
Proof. destruct b; reflexivity. Qed.

Section ArrPhase2.
  Variable hash : list tok -> Z.
  Variable e : env.
  Variable v : vfun.
  Variable ev : efun.
  Hypothesis Hagree : forall g l c sr, gv_wf g = true -> ev (den g) l c = Some sr -> agrees (den g) (v g l c) sr.
  (** uniqueItems decides pairwise distinctness by JSON equality, whatever the hash (Unique.v) *)
  Hypothesis Hunique : forall s items, wfl items ->
    check_unique hash s items = guard (if s_uniqueItems s then distinct (map den items) else true).
  Variable l : loc.
  Variable s : schema.

  (** contains + the count checks, against the specification's [ok_contains] and counts *)
  Lemma contains_counts_spec gitems a1 (rc : option (list (bool * sigma))) :
    wfl gitems ->
    (match s_contains s with
     | Some c => option_map (fun rs => Some rs) (eval_all (fun x => ev x (ch l (lit "contains"%lit)) c) (map den gitems))
     | None => Some None
     end) = Some rc ->
    let n := length gitems in
    let matched := match rc with
                   | Some rs => map fst (filter (fun ir : nat * (bool * sigma) => fst (snd ir)) (combine (seq 0 n) rs))
                   | None => []
                   end in
    let ok_contains :=
      match rc with
      | Some _ =>
          let c := Z.of_nat (length matched) in
          Z.leb (match s_minContains s with Some m => m | None => 1%Z end) c &&
          opt_ok (s_maxContains s) (fun m => Z.leb c m)
      | None => true
      end in
    let M := na <- contains_part v l s gitems a1 ;;
             array_counts hash s gitems (Z.of_nat (fst na)) ;;; Ok (snd na) in
    if ok_contains && a_array_counts s (JArr (map den gitems))
    then exists a2, M = Ok a2 /\ (forall k, inI a2 k = inI a1 k || mem_nat k matched) /\
                    (forall k, inP a2 k = inP a1 k) /\ allItems a2 = allItems a1
    else M = Err.
  Proof.
    intros Hw Hc n matched ok_contains M. subst M. unfold contains_part, array_counts.
    assert (Hcounts :
      ((match s_minItems s with Some m => guard (negb (Z.ltb (Z.of_nat (length gitems)) m)) | None => Ok tt end) ;;;
       (match s_maxItems s with Some m => guard (negb (Z.gtb (Z.of_nat (length gitems)) m)) | None => Ok tt end) ;;;
       check_unique hash s gitems)
      = guard (a_array_counts s (JArr (map den gitems)))).
    { unfold a_array_counts. rewrite map_length, (Hunique s gitems Hw).
      destruct (s_minItems s) as [m|], (s_maxItems s) as [x|]; cbn [opt_ok];
        rewrite ?z_not_ltb, ?z_not_gtb;
        repeat match goal with |- context [guard (Z.leb ?a ?b)] => destruct (Z.leb a b) end;
        cbn [guard bind andb]; try reflexivity;
        destruct (if s_uniqueItems s then _ else _); reflexivity. }
    destruct (s_contains s) as [cs|] eqn:Ecs.
    - destruct (eval_all (fun x => ev x (ch l (lit "contains"%lit)) cs) (map den gitems)) as [rcs|] eqn:Hrcs;
        cbn [option_map] in Hc; [|discriminate].
      inversion Hc; subst rc. clear Hc.
      destruct (contains_loop_spec v ev Hagree (one_loc l (lit "contains"%lit)) cs gitems rcs 0 0 a1 Hw Hrcs)
        as (a2 & Ha2 & HI2 & HP2 & HA2).
      rewrite Ha2. cbn [bind fst snd Nat.add].
      assert (Hm : matched = matched_from 0 rcs).
      { subst matched. unfold matched_from. subst n. rewrite (eval_all_length _ _ _ Hrcs), map_length. reflexivity. }
      assert (Hcnt : count_true rcs = length matched) by (rewrite Hm; symmetry; apply matched_from_length).
      subst ok_contains. cbn zeta. rewrite <- Hcnt.
      set (c := count_true rcs) in *.
      destruct (s_minContains s) as [m|], (s_maxContains s) as [x|]; cbn [opt_ok].
      + destruct (Nat.eqb c 0 && Z.gtb m 0) eqn:E1; cbn [bind fst snd].
        * assert (Z.leb m (Z.of_nat c) = false) as -> by lia. reflexivity.
        * rewrite z_not_ltb, z_not_gtb, !bind_guard, Hcounts.
          destruct (Z.leb m (Z.of_nat c)), (Z.leb (Z.of_nat c) x); cbn [andb]; try reflexivity.
          destruct (a_array_counts s (JArr (map den gitems))); cbn [guard bind]; [|reflexivity].
          exists a2. repeat split; auto. intros k. now rewrite HI2, Hm.
      + destruct (Nat.eqb c 0 && Z.gtb m 0) eqn:E1; cbn [bind fst snd].
        * assert (Z.leb m (Z.of_nat c) = false) as -> by lia. reflexivity.
        * rewrite z_not_ltb, !bind_guard. cbn [bind]. rewrite Hcounts.
          destruct (Z.leb m (Z.of_nat c)); cbn [andb]; try reflexivity.
          destruct (a_array_counts s (JArr (map den gitems))); cbn [guard bind]; [|reflexivity].
          exists a2. repeat split; auto. intros k. now rewrite HI2, Hm.
      + destruct (Nat.eqb c 0 && true) eqn:E1; cbn [bind fst snd].
        * assert (Z.leb 1 (Z.of_nat c) = false) as -> by lia. reflexivity.
        * assert (Z.leb 1 (Z.of_nat c) = true) as -> by lia.
          rewrite z_not_gtb, !bind_guard. cbn [bind]. rewrite Hcounts.
          destruct (Z.leb (Z.of_nat c) x); cbn [andb]; try reflexivity.
          destruct (a_array_counts s (JArr (map den gitems))); cbn [guard bind]; [|reflexivity].
          exists a2. repeat split; auto. intros k. now rewrite HI2, Hm.
      + destruct (Nat.eqb c 0 && true) eqn:E1; cbn [bind fst snd].
        * assert (Z.leb 1 (Z.of_nat c) = false) as -> by lia. reflexivity.
        * assert (Z.leb 1 (Z.of_nat c) = true) as -> by lia. cbn [bind andb]. rewrite Hcounts.
          destruct (a_array_counts s (JArr (map den gitems))); cbn [guard bind]; [|reflexivity].
          exists a2. repeat split; auto. intros k. now rewrite HI2, Hm.
    - inversion Hc; subst rc. subst ok_contains matched. cbn [bind fst snd andb].
      destruct (s_minContains s), (s_maxContains s); cbn [bind]; rewrite Hcounts;
        (destruct (a_array_counts s (JArr (map den gitems))); cbn [guard bind]; [|reflexivity];
         exists a1; repeat split; auto; intros k; now rewrite orb_false_r).
  Qed.
End ArrPhase2.

Lemma In_index_from {A} (d : A) (js : list A) : forall a k, k < length js -> In (a + k, nth k js d) (index_from a js).
Proof.
  induction js as [|y js IH]; intros a k Hk; cbn in *; [lia|].
  destruct k as [|k].
  - left. now rewrite Nat.add_0_r.
  - right. replace (a + S k) with (S a + k) by lia. apply IH. lia.
Qed.

Lemma filter_index_from_nil {A} (f : nat -> bool) (js : list A) : forall a,
  (forall i, a <= i < a + length js -> f i = true) ->
  filter (fun ix : nat * A => negb (f (fst ix))) (index_from a js) = [].
Proof.
  induction js as [|y js IH]; intros a H; cbn [index_from filter fst]; [reflexivity|].
  rewrite H by (cbn [length]; lia). cbn [negb]. apply IH. intros i Hi. apply H. cbn [length]. lia.
Qed.

Section ArrPhase3.
  Variable hash : list tok -> Z.
  Variable e : env.
  Variable v : vfun.
  Variable ev : efun.
  Hypothesis Hagree : forall g l c sr, gv_wf g = true -> ev (den g) l c = Some sr -> agrees (den g) (v g l c) sr.
  Hypothesis Hunique : forall s items, wfl items ->
    check_unique hash s items = guard (if s_uniqueItems s then distinct (map den items) else true).
  Variable l : loc.
  Variable s : schema.

  Lemma uneval_items_part_spec gitems a2 sgm ok_ui i_ui :
    wfl gitems ->
    (forall i, i < length gitems -> inI a2 i = sinI sgm i) ->
    spec_uneval_items ev (JArr (map den gitems)) l s sgm = Some (ok_ui, i_ui) ->
    if ok_ui
    then exists a', uneval_items_part v l s gitems a2 = Ok a' /\
                    (forall i, i < length gitems -> inI a' i = sinI sgm i || mem_nat i i_ui) /\
                    (forall k, inP a' k = inP a2 k)
    else uneval_items_part v l s gitems a2 = Err.
  Proof.
    intros Hw Hin Hu. unfold spec_uneval_items in Hu. unfold uneval_items_part.
    destruct (s_unevaluatedItems s) as [u|].
    - rewrite idx_list_index_from in Hu.
      set (un := filter _ (index_from 0 (map den gitems))) in Hu.
      destruct (eval_all _ un) as [rs|] eqn:Hrs; cbn [option_map] in Hu; [|discriminate].
      inversion Hu; subst ok_ui i_ui. clear Hu.
      destruct (allItems a2) eqn:HA.
      + (* everything already evaluated: the complement is empty *)
        assert (Hun : un = []).
        { subst un. apply (filter_index_from_nil (fun i => mem_nat i (sI sgm))).
          intros i Hi. rewrite map_length in Hi. assert (Hi' : i < length gitems) by lia.
          specialize (Hin i Hi'). unfold inI, sinI in Hin. rewrite HA in Hin. cbn [orb] in Hin. now symmetry. }
        rewrite Hun in Hrs. apply eval_all_nil in Hrs. subst rs. rewrite Hun. cbn [all_true forallb map].
        exists a2. split; [reflexivity|]. split; [|reflexivity].
        intros i Hi. rewrite (Hin i Hi). cbn [mem_nat]. now rewrite orb_false_r.
      + change (one_loc l (lit "unevaluatedItems"%lit)) with (ch l (lit "unevaluatedItems"%lit)).
        rewrite (uneval_items_spec v ev Hagree _ u a2 sgm HA gitems 0 rs Hw).
        * destruct (all_true rs); cbn [bind]; [|reflexivity].
          eexists. split; [reflexivity|]. split; [|reflexivity].
          intros i Hi. rewrite inI_setAllItems. symmetry.
          destruct (sinI sgm i) eqn:Es; [reflexivity|]. cbn [orb].
          apply mem_nat_In. apply in_map_iff.
          exists (i, nth i (map den gitems) JNull). split; [reflexivity|].
          subst un. apply filter_In. split.
          -- apply (In_index_from JNull (map den gitems) 0 i). now rewrite map_length.
          -- cbn [fst]. unfold sinI in Es. now rewrite Es.
        * intros k Hk. apply Hin. lia.
        * rewrite <- (map_length den gitems), <- index_from_combine. exact Hrs.
    - inversion Hu; subst. exists a2. split; [reflexivity|]. split; [|reflexivity].
      intros i Hi. rewrite (Hin i Hi). cbn [mem_nat]. now rewrite orb_false_r.
  Qed.
End ArrPhase3.

Section ArrPhase4.
  Variable hash : list tok -> Z.
  Variable e : env.
  Variable v : vfun.
  Variable ev : efun.
  Hypothesis Hagree : forall g l c sr, gv_wf g = true -> ev (den g) l c = Some sr -> agrees (den g) (v g l c) sr.
  Hypothesis Hunique : forall s items, wfl items ->
    check_unique hash s items = guard (if s_uniqueItems s then distinct (map den items) else true).
  Variable l : loc.
  Variable s : schema.

  (** the whole array phase against spec_arrays + the count assertions + unevaluatedItems *)
  Theorem arrays_phase_spec gitems a0 sgpre ok_arr i_arr sgm ok_ui i_ui :
    let items := map den gitems in
    let j := JArr items in
    wfl gitems ->
    spec_arrays e ev l s items = Some (ok_arr, i_arr) ->
    (forall i, i < length gitems -> inI a0 i = sinI sgpre i) ->
    (forall i, i < length gitems -> sinI sgm i = sinI sgpre i || mem_nat i i_arr) ->
    spec_uneval_items ev j l s sgm = Some (ok_ui, i_ui) ->
    if ok_arr && a_array_counts s j && ok_ui
    then exists a', arrays_phase hash e v l s gitems a0 = Ok a' /\
                    (forall i, i < length gitems -> inI a' i = sinI sgm i || mem_nat i i_ui) /\
                    (forall k, inP a' k = inP a0 k)
    else arrays_phase hash e v l s gitems a0 = Err.
  Proof.
    intros items j Hw Hs Hpre Hsgm Hu.
    unfold spec_arrays, ar_prefix, ar_rest, ar_contains in Hs. cbn zeta in Hs.
    destruct (eval_all _ (combine items (idx_list (ar_prefix_list e s)))) as [rp|] eqn:Hp; [|discriminate].
    destruct (match ar_rest_schema e s with Some (name, c) => _ | None => Some [] end) as [rr|] eqn:Hr; [|discriminate].
    destruct (match s_contains s with Some c => _ | None => Some None end) as [rc|] eqn:Hc; [|discriminate].
    injection Hs as Hok Hia.
    assert (Hlen : length items = length gitems) by apply map_length.
    rewrite Hlen in *.
    unfold arrays_phase.
    pose proof (items_part_spec e v ev Hagree l s a0 gitems rp rr Hw Hp Hr) as H1. cbn zeta in H1.
    destruct (all_true rp && all_true rr) eqn:E1.
    2:{ rewrite H1. cbn [bind]. rewrite <- Hok.
        destruct (all_true rp), (all_true rr); cbn in E1; try discriminate; reflexivity. }
    destruct H1 as (a1 & Ha1 & HI1 & HP1). rewrite Ha1. cbn [bind].
    pose proof (contains_counts_spec hash v ev Hagree Hunique l s gitems a1 rc Hw Hc) as H2. cbn zeta in H2.
    set (matched := match rc with Some rs => _ | None => [] end) in *.
    set (okc := match rc with Some _ => _ | None => true end) in *.
    assert (Hokarr : ok_arr = okc).
    { rewrite <- Hok. destruct (all_true rp), (all_true rr); cbn in E1; try discriminate. reflexivity. }
    rewrite Hokarr.
    (* re-associate the binds of the model: contains_part, array_counts, then unevaluated *)
    assert (Hassoc : forall (k : anns -> res anns),
      (na <- contains_part v l s gitems a1 ;; array_counts hash s gitems (Z.of_nat (fst na)) ;;; k (snd na))
      = (a2 <- (na <- contains_part v l s gitems a1 ;; array_counts hash s gitems (Z.of_nat (fst na)) ;;; Ok (snd na)) ;; k a2)).
    { intros k. destruct (contains_part v l s gitems a1) as [na| | |]; cbn [bind]; try reflexivity.
      destruct (array_counts hash s gitems (Z.of_nat (fst na))) as [[]| | |]; reflexivity. }
    rewrite (Hassoc (fun a2 => uneval_items_part v l s gitems a2)).
    change (JArr (map den gitems)) with j in H2.
    destruct (okc && a_array_counts s j) eqn:E2.
    2:{ rewrite H2. reflexivity. }
    destruct H2 as (a2 & Ha2 & HI2 & HP2 & HA2). rewrite Ha2. cbn [bind].
    assert (Hin2 : forall i, i < length gitems -> inI a2 i = sinI sgm i).
    { intros i Hi. rewrite HI2, (HI1 i Hi), (Hpre i Hi), (Hsgm i Hi), <- Hia, !mem_nat_app.
      fold matched. btauto. }
    pose proof (uneval_items_part_spec hash v ev Hagree Hunique l s gitems a2 sgm ok_ui i_ui Hw Hin2 Hu) as H3.
    destruct ok_ui; cbn [andb].
    - destruct H3 as (a' & Ha' & HI' & HP'). exists a'. split; [exact Ha'|]. split; [exact HI'|].
      intros k. now rewrite HP', HP2, HP1.
    - exact H3.
  Qed.
End ArrPhase4.
