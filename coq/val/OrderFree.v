(** C14 / C08: Resolved.Validate gives the same verdict for JSON-equal instances: any Go
    representation, any order in which a map lists its members. *)
From Coq Require Import List NArith ZArith QArith Bool.
From JS Require Import Str Lit Json JsonFacts Res GoValue EqualSpec Hash Schema Env Ann Validate Spec SpecMono Refine Corollaries SpecPerm.
Import ListNotations.

Theorem Validate_json_value re_match hash n e g g' b :
  gv_wf g = true -> gv_wf g' = true -> jeq (den g) (den g') ->
  isValidSchemaVersion (e_version e) = true ->
  spec_valid re_match n e (den g) = Some b ->
  Validate re_match hash n e g = Validate re_match hash n e g'.
Proof.
  intros W W' Hq Hv Hs.
  rewrite (Validate_spec re_match hash n e g b W Hv Hs).
  rewrite (spec_valid_comp re_match n e (den g) (den g') Hq (json_wf_den g W) (json_wf_den g' W')) in Hs.
  now rewrite (Validate_spec re_match hash n e g' b W' Hv Hs).
Qed.

(** in particular, permuting the members of a map (at the top; deeper ones likewise through jeq) *)
Corollary Validate_member_order re_match hash n e m m' b :
  gv_wf (GMap m) = true -> gv_wf (GMap m') = true -> jeq (den (GMap m)) (den (GMap m')) ->
  isValidSchemaVersion (e_version e) = true ->
  spec_valid re_match n e (den (GMap m)) = Some b ->
  Validate re_match hash n e (GMap m) = Validate re_match hash n e (GMap m').
Proof. apply Validate_json_value. Qed.
