(** C18: the relation [srel] (sch/SchemaRel.v) leaves the annotation-only scalar keywords and the
    unknown keywords of every schema object of the tree unconstrained: setting any of them, on
    either side, at any depth, keeps two trees related - and related trees resolve alike and
    validate alike (res/ResolveRel.v, val/SchemaPerm.v). *)
From Coq Require Import List NArith ZArith QArith Bool Permutation.
From JS Require Import Str Lit Json GoValue Schema SchemaRel.
Import ListNotations.

Ltac decor_l := intros H; inversion H; subst; constructor; cbn; assumption.

Section Decor.
  Variables s s' : schema.
  Lemma srel_set_title x : srel s s' -> srel (set_title x s) s'. Proof. decor_l. Qed.
  Lemma srel_set_description x : srel s s' -> srel (set_description x s) s'. Proof. decor_l. Qed.
  Lemma srel_set_comment x : srel s s' -> srel (set_comment x s) s'. Proof. decor_l. Qed.
  Lemma srel_set_default x : srel s s' -> srel (set_default x s) s'. Proof. decor_l. Qed.
  Lemma srel_set_deprecated x : srel s s' -> srel (set_deprecated x s) s'. Proof. decor_l. Qed.
  Lemma srel_set_readOnly x : srel s s' -> srel (set_readOnly x s) s'. Proof. decor_l. Qed.
  Lemma srel_set_writeOnly x : srel s s' -> srel (set_writeOnly x s) s'. Proof. decor_l. Qed.
  Lemma srel_set_examples x : srel s s' -> srel (set_examples x s) s'. Proof. decor_l. Qed.
  Lemma srel_set_format x : srel s s' -> srel (set_format x s) s'. Proof. decor_l. Qed.
  Lemma srel_set_contentEncoding x : srel s s' -> srel (set_contentEncoding x s) s'. Proof. decor_l. Qed.
  Lemma srel_set_contentMediaType x : srel s s' -> srel (set_contentMediaType x s) s'. Proof. decor_l. Qed.
  Lemma srel_set_extra x : srel s s' -> srel (set_extra x s) s'. Proof. decor_l. Qed.
  (* ... and on the other side *)
  Lemma srel_set_title_r x : srel s s' -> srel s (set_title x s'). Proof. decor_l. Qed.
  Lemma srel_set_description_r x : srel s s' -> srel s (set_description x s'). Proof. decor_l. Qed.
  Lemma srel_set_comment_r x : srel s s' -> srel s (set_comment x s'). Proof. decor_l. Qed.
  Lemma srel_set_default_r x : srel s s' -> srel s (set_default x s'). Proof. decor_l. Qed.
  Lemma srel_set_deprecated_r x : srel s s' -> srel s (set_deprecated x s'). Proof. decor_l. Qed.
  Lemma srel_set_readOnly_r x : srel s s' -> srel s (set_readOnly x s'). Proof. decor_l. Qed.
  Lemma srel_set_writeOnly_r x : srel s s' -> srel s (set_writeOnly x s'). Proof. decor_l. Qed.
  Lemma srel_set_examples_r x : srel s s' -> srel s (set_examples x s'). Proof. decor_l. Qed.
  Lemma srel_set_format_r x : srel s s' -> srel s (set_format x s'). Proof. decor_l. Qed.
  Lemma srel_set_contentEncoding_r x : srel s s' -> srel s (set_contentEncoding x s'). Proof. decor_l. Qed.
  Lemma srel_set_contentMediaType_r x : srel s s' -> srel s (set_contentMediaType x s'). Proof. decor_l. Qed.
  Lemma srel_set_extra_r x : srel s s' -> srel s (set_extra x s'). Proof. decor_l. Qed.
End Decor.
