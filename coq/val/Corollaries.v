(** Consequences of the refinement theorem, in the form the properties state them. *)
From Coq Require Import List NArith ZArith QArith Bool Lia.
From JS Require Import Str StrFacts Lit Json Res GoValue Equal EqualFacts Hash HashFacts Schema Env Ann
     Validate Spec Unique RefineBase RefineAssert Refine.
Import ListNotations.
Open Scope list_scope.
Local Open Scope nat_scope.

(** canonical decoding *)
Lemma den_canon : forall j, den (canon j) = j.
Proof.
  fix IH 1. intros [| | | |l|m]; cbn [canon den]; try reflexivity.
  - f_equal. induction l as [|x r IHl]; cbn; [reflexivity|]. now rewrite IH, IHl.
  - f_equal. induction m as [|[k x] r IHm]; cbn; [reflexivity|]. now rewrite IH, IHm.
Qed.

Lemma gv_wf_canon : forall j, json_wf j = true -> gv_wf (canon j) = true.
Proof.
  fix IH 1. intros [| | | |l|m]; cbn [canon gv_wf json_wf]; try reflexivity.
  - induction l as [|x r IHl]; cbn; [reflexivity|]. intros H. apply andb_true_iff in H as [H1 H2].
    rewrite (IH x H1). cbn. now apply IHl.
  - intros H. apply andb_true_iff in H as [H1 H2]. apply andb_true_iff. split.
    + unfold keys in *. rewrite map_map. cbn. exact H1.
    + clear H1. induction m as [|[k x] r IHm]; cbn in *; [reflexivity|].
      apply andb_true_iff in H2 as [H2 H3]. rewrite (IH x H2). cbn. now apply IHm.
Qed.

Section Cor.
  Variable re_match : str -> str -> bool.
  Variable hash : list tok -> Z.

  (** Resolved.Validate against the specification's verdict *)
  Theorem Validate_spec n e inst b :
    gv_wf inst = true ->
    isValidSchemaVersion (e_version e) = true ->
    spec_valid re_match n e (den inst) = Some b ->
    Validate re_match hash n e inst = if b then Ok tt else Err.
  Proof.
    intros Hw Hv H. unfold Validate, spec_valid in *. rewrite Hv.
    destruct (node_at e (0, [])) as [root|]; [|discriminate].
    destruct (spec_eval re_match n e [] (den inst) (0, []) root) as [[b' sg]|] eqn:Hs; [|discriminate].
    injection H as <-.
    pose proof (validate_refines re_match hash e n [] inst (0, []) root (b', sg) Hw Hs) as Ha.
    unfold agrees in Ha. cbn [fst snd] in Ha. destruct b'.
    - destruct Ha as (a & -> & _). reflexivity.
    - now rewrite Ha.
  Qed.

  (** an unsupported $schema is refused, whatever the instance *)
  Theorem Validate_refuses n e inst :
    isValidSchemaVersion (e_version e) = false -> Validate re_match hash n e inst = Err.
  Proof. intros H. unfold Validate. now rewrite H. Qed.

  (** the verdict does not depend on the Go representation (C08) *)
  Theorem Validate_representation n e g1 g2 b :
    gv_wf g1 = true -> gv_wf g2 = true -> den g1 = den g2 ->
    isValidSchemaVersion (e_version e) = true ->
    spec_valid re_match n e (den g1) = Some b ->
    Validate re_match hash n e g1 = Validate re_match hash n e g2.
  Proof.
    intros H1 H2 Hd Hv Hs.
    rewrite (Validate_spec n e g1 b H1 Hv Hs).
    rewrite Hd in Hs. now rewrite (Validate_spec n e g2 b H2 Hv Hs).
  Qed.

  Theorem Validate_canonical n e g b :
    gv_wf g = true -> json_wf (den g) = true ->
    isValidSchemaVersion (e_version e) = true ->
    spec_valid re_match n e (den g) = Some b ->
    Validate re_match hash n e g = Validate re_match hash n e (canon (den g)).
  Proof.
    intros H1 H2 Hv Hs. eapply Validate_representation; eauto.
    - now apply gv_wf_canon.
    - now rewrite den_canon.
  Qed.

  (** the verdict does not depend on the hash seed (C12, C14) *)
  Theorem Validate_seed (hash' : list tok -> Z) n e g b :
    gv_wf g = true -> isValidSchemaVersion (e_version e) = true ->
    spec_valid re_match n e (den g) = Some b ->
    Validate re_match hash n e g = Validate re_match hash' n e g.
  Proof.
    intros H1 Hv Hs. unfold Validate, spec_valid in *. rewrite Hv.
    destruct (node_at e (0, [])) as [root|]; [|discriminate].
    destruct (spec_eval re_match n e [] (den g) (0, []) root) as [[b' sg]|] eqn:Hs'; [|discriminate].
    pose proof (validate_refines re_match hash e n [] g (0, []) root (b', sg) H1 Hs') as Ha.
    pose proof (validate_refines re_match hash' e n [] g (0, []) root (b', sg) H1 Hs') as Hb.
    unfold agrees in *. cbn [fst snd] in *. destruct b'.
    - destruct Ha as (a & -> & _). destruct Hb as (a' & -> & _). reflexivity.
    - now rewrite Ha, Hb.
  Qed.

  (** a failed schema contributes no annotations (C07: evaluations inside a failing subschema do not count) *)
  Theorem spec_failed_no_annotations e ev C j l s sg :
    spec_body re_match e ev C j l s = Some (false, sg) -> sg = sig0.
  Proof.
    unfold spec_body. intros H.
    destruct (match s_ref s with [] => Some [] | _ => _ end) as [r_ref|]; [|discriminate].
    destruct (e_draft7 e && _); [now injection H as _ <-|].
    destruct (match s_dynamicRef s with [] => Some [] | _ => _ end) as [r_dyn|]; [|discriminate].
    destruct (eval_all _ (idx_list (olist (s_allOf s)))) as [r_all|]; [|discriminate].
    destruct (eval_all _ (idx_list (olist (s_anyOf s)))) as [r_any|]; [|discriminate].
    destruct (eval_all _ (idx_list (olist (s_oneOf s)))) as [r_one|]; [|discriminate].
    destruct (one _ j _ (s_not s)) as [r_not|]; [|discriminate].
    destruct (one _ j _ (s_if s)) as [r_if|]; [|discriminate].
    destruct (one _ j _ (s_then s)) as [r_then|]; [|discriminate].
    destruct (one _ j _ (s_else s)) as [r_else|]; [|discriminate].
    destruct (match r_if with [] => _ | _ => _ end) as [ok_cond sig_cond].
    destruct (match j with JArr items => _ | _ => Some (true, []) end) as [[ok_arr i_arr]|]; [|discriminate].
    destruct (match j with JObj m => _ | _ => Some (true, sig0, sig0) end) as [[[ok_obj sig_obj] sig_deps]|]; [|discriminate].
    destruct (spec_uneval_items _ _ _ _ _) as [[ok_ui i_ui]|]; [|discriminate].
    destruct (spec_uneval_props _ _ _ _ _) as [[ok_up p_up]|]; [|discriminate].
    injection H as H1 H2. rewrite H1 in H2. now symmetry.
  Qed.
End Cor.

(** dynamic scope: the outermost resource that declares the dynamic anchor is chosen (C06) *)
Section Dyn.
  Variable e : env.
  Definition declares (l : loc) (a : str) (t : loc) : Prop :=
    exists li bi, info_at e l = Some li /\ info_at e (ri_base li) = Some bi /\ lookup a (ri_anchors bi) = Some (t, true).
  Definition declares_none (l : loc) (a : str) : Prop :=
    exists li bi, info_at e l = Some li /\ info_at e (ri_base li) = Some bi /\
                  (forall t, lookup a (ri_anchors bi) <> Some (t, true)).

  Lemma scope_lookup_outermost C1 l C2 a t :
    Forall (fun l' => declares_none l' a) C1 -> declares l a t ->
    scope_lookup e (C1 ++ l :: C2) a = Some (Some t).
  Proof.
    intros H1 (li & bi & Hl & Hb & Ha). induction H1 as [|l' r (li' & bi' & Hl' & Hb' & Hn) Hr IH]; cbn.
    - now rewrite Hl, Hb, Ha.
    - rewrite Hl', Hb'. destruct (lookup a (ri_anchors bi')) as [[t' [|]]|] eqn:E; try exact IH.
      exfalso. exact (Hn t' eq_refl).
  Qed.

  Lemma scope_lookup_fallback C a :
    Forall (fun l' => declares_none l' a) C -> scope_lookup e C a = Some None.
  Proof.
    induction 1 as [|l' r (li' & bi' & Hl' & Hb' & Hn) Hr IH]; cbn; [reflexivity|].
    rewrite Hl', Hb'. destruct (lookup a (ri_anchors bi')) as [[t' [|]]|] eqn:E; try exact IH.
    exfalso. exact (Hn t' eq_refl).
  Qed.
End Dyn.
