(** C14 / C08: the specification's verdict depends on the instance only as a JSON value:
    object members may come in any order (Go map iteration order), numbers in any
    representation of the same rational. *)
From Coq Require Import List NArith ZArith QArith Bool Lia Permutation.
From JS Require Import Str StrFacts Lit Json JsonFacts GoValue Schema Env Spec SpecMono.
Import ListNotations.
Open Scope list_scope.
Local Open Scope nat_scope.

(** booleans equal when they are true together *)
Lemma bool_ext (a b : bool) : (a = true <-> b = true) -> a = b.
Proof. destruct a, b; intros [H1 H2]; try reflexivity; [symmetry; now apply H1|now apply H2]. Qed.

(** numbers: the assertions respect equality of rationals *)
Lemma q_leb_comp a a' b b' : a == a' -> b == b' -> q_leb a b = q_leb a' b'.
Proof. intros H1 H2. apply bool_ext. unfold q_leb. rewrite !Qle_bool_iff. now rewrite H1, H2. Qed.
Lemma q_ltb_comp a a' b b' : a == a' -> b == b' -> q_ltb a b = q_ltb a' b'.
Proof. intros H1 H2. unfold q_ltb. f_equal. now apply q_leb_comp. Qed.
Lemma q_eqb_comp a a' b b' : a == a' -> b == b' -> q_eqb a b = q_eqb a' b'.
Proof. intros H1 H2. apply bool_ext. unfold q_eqb. rewrite !Qeq_bool_iff. now rewrite H1, H2. Qed.

Lemma q_is_int_iff q : q_is_int q = true <-> exists z, q == inject_Z z.
Proof.
  unfold q_is_int. rewrite Z.eqb_eq. split.
  - intros H. apply Z.mod_divide in H; [|discriminate]. destruct H as [z Hz]. exists z.
    unfold Qeq, inject_Z. cbn. rewrite Hz. ring.
  - intros [z Hz]. apply Z.mod_divide; [discriminate|]. exists z. unfold Qeq, inject_Z in Hz. cbn in Hz. lia.
Qed.

Lemma q_is_int_comp a b : a == b -> q_is_int a = q_is_int b.
Proof. intros H. apply bool_ext. rewrite !q_is_int_iff. split; intros [z Hz]; exists z; [now rewrite <- H|now rewrite H]. Qed.

Lemma json_type_comp a b : jeq a b -> json_type a = json_type b.
Proof. intros H. inversion H; subst; try reflexivity. cbn. now rewrite (q_is_int_comp x y). Qed.

Lemma jeq_obj_length m m' : json_wf (JObj m) = true -> json_wf (JObj m') = true -> jeq (JObj m) (JObj m') -> length m = length m'.
Proof.
  intros H1 H2 Hq. apply json_wf_obj in H1 as [Hn1 _]. apply json_wf_obj in H2 as [Hn2 _].
  inversion Hq as [| | | | |? ? Hk _]; subst.
  pose proof (same_keys_perm m m' Hn1 Hn2 Hk) as HP. apply Permutation_length in HP. unfold keys in HP. now rewrite !map_length in HP.
Qed.

Lemma wf_lookup k m v : json_wf (JObj m) = true -> lookup k m = Some v -> json_wf v = true.
Proof.
  intros H Hl. apply json_wf_obj in H as [_ Hf]. apply lookup_In in Hl. rewrite Forall_forall in Hf. exact (Hf (k, v) Hl).
Qed.

(** comparing with a JSON value only depends on that value up to JSON equality *)
Lemma json_eqb_comp_r : forall x j j', jeq j j' -> json_wf j = true -> json_wf j' = true -> json_eqb x j = json_eqb x j'.
Proof.
  induction x using json_ind'; intros j j' Hq Hw Hw'.
  - inversion Hq; reflexivity.
  - inversion Hq; reflexivity.
  - inversion Hq; subst; try reflexivity. cbn. now apply q_eqb_comp.
  - inversion Hq; reflexivity.
  - inversion Hq as [| | | |l1 l2 HF|]; subst; try reflexivity. cbn [json_eqb].
    apply json_wf_arr in Hw. apply json_wf_arr in Hw'.
    clear Hq. revert l1 l2 HF Hw Hw'. induction H as [|y r Hy Hr IH]; intros l1 l2 HF Hw Hw'.
    + inversion HF; reflexivity.
    + inversion HF as [|a b ra rb Hab Hrab]; subst; [reflexivity|].
      inversion Hw; inversion Hw'; subst. rewrite (Hy a b Hab) by assumption. f_equal. now apply IH.
  - inversion Hq as [| | | | |m1 m2 Hk Hv]; subst; try reflexivity. cbn [json_eqb].
    rewrite (jeq_obj_length m1 m2 Hw Hw' Hq). f_equal.
    induction H as [|[k v] r Hv0 Hr IH]; [reflexivity|]. cbn [snd] in Hv0.
    destruct (lookup k m1) as [v1|] eqn:E1; destruct (lookup k m2) as [v2|] eqn:E2.
    + rewrite (Hv0 v1 v2 (Hv k v1 v2 E1 E2) (wf_lookup _ _ _ Hw E1) (wf_lookup _ _ _ Hw' E2)). f_equal. exact IH.
    + apply Hk in E2. congruence.
    + apply Hk in E1. congruence.
    + reflexivity.
Qed.

Lemma json_eqb_comp a a' b b' :
  jeq a a' -> jeq b b' -> json_wf a = true -> json_wf a' = true -> json_wf b = true -> json_wf b' = true ->
  json_eqb a b = json_eqb a' b'.
Proof.
  intros Ha Hb Wa Wa' Wb Wb'. apply bool_ext.
  rewrite (json_eqb_jeq a b Wa Wb), (json_eqb_jeq a' b' Wa' Wb'). split; intros H.
  - eapply jeq_trans; [apply jeq_sym; exact Ha|]. eapply jeq_trans; [exact H|exact Hb].
  - eapply jeq_trans; [exact Ha|]. eapply jeq_trans; [exact H|apply jeq_sym; exact Hb].
Qed.

Definition wfl (l : list json) : Prop := Forall (fun x => json_wf x = true) l.

Lemma forallb_ext {A} (f g : A -> bool) l : (forall x, f x = g x) -> forallb f l = forallb g l.
Proof. intros H. induction l; cbn; [reflexivity|]. now rewrite H, IHl. Qed.

Lemma Forall2_len {A B} (R : A -> B -> Prop) l l' : Forall2 R l l' -> length l = length l'.
Proof. induction 1; cbn; auto. Qed.

Section Assertions.
  Variable re_match : str -> str -> bool.

  Lemma type_accepts_comp name j j' : jeq j j' -> type_accepts name j = type_accepts name j'.
  Proof. intros H. unfold type_accepts. now rewrite (json_type_comp j j' H). Qed.

  Lemma a_type_comp s j j' : jeq j j' -> a_type s j = a_type s j'.
  Proof.
    intros H. unfold a_type. destruct (s_type s); [|now apply type_accepts_comp].
    destruct (s_types s) as [ts|]; [|reflexivity]. induction ts as [|t r IH]; [reflexivity|]. cbn [existsb].
    now rewrite (type_accepts_comp t j j' H), IH.
  Qed.

  Lemma a_enum_comp s j j' : jeq j j' -> json_wf j = true -> json_wf j' = true -> a_enum s j = a_enum s j'.
  Proof.
    intros H W W'. unfold a_enum. destruct (s_enum s) as [l|]; [|reflexivity].
    induction l as [|x r IH]; [reflexivity|]. cbn [existsb]. now rewrite (json_eqb_comp_r (den x) j j' H W W'), IH.
  Qed.

  Lemma a_const_comp s j j' : jeq j j' -> json_wf j = true -> json_wf j' = true -> a_const s j = a_const s j'.
  Proof. intros H W W'. unfold a_const. destruct (s_const s); [now apply json_eqb_comp_r|reflexivity]. Qed.

  Lemma a_numbers_comp s j j' : jeq j j' -> a_numbers s j = a_numbers s j'.
  Proof.
    intros H. inversion H as [| |x y Hxy| | |]; subst; try reflexivity. unfold a_numbers.
    assert (Hr : Qeq x x) by reflexivity.
    f_equal; [f_equal; [f_equal; [f_equal|]|]|].
    - destruct (s_multipleOf s) as [m|]; [|reflexivity]. cbn [opt_ok]. f_equal. apply q_is_int_comp. now rewrite Hxy.
    - destruct (s_minimum s) as [b|]; [|reflexivity]. cbn [opt_ok]. apply q_leb_comp; [reflexivity|exact Hxy].
    - destruct (s_maximum s) as [b|]; [|reflexivity]. cbn [opt_ok]. apply q_leb_comp; [exact Hxy|reflexivity].
    - destruct (s_exclusiveMinimum s) as [b|]; [|reflexivity]. cbn [opt_ok]. apply q_ltb_comp; [reflexivity|exact Hxy].
    - destruct (s_exclusiveMaximum s) as [b|]; [|reflexivity]. cbn [opt_ok]. apply q_ltb_comp; [exact Hxy|reflexivity].
  Qed.

  Lemma a_strings_comp s j j' : jeq j j' -> a_strings re_match s j = a_strings re_match s j'.
  Proof. intros H. inversion H; reflexivity. Qed.

  Lemma existsb_eqb_comp x x' seen seen' :
    jeq x x' -> json_wf x = true -> json_wf x' = true -> Forall2 jeq seen seen' -> wfl seen -> wfl seen' ->
    existsb (fun y => json_eqb x y) seen = existsb (fun y => json_eqb x' y) seen'.
  Proof.
    intros Hx Wx Wx' HF. induction HF as [|y y' r r' Hy Hr IH]; intros Ws Ws'; [reflexivity|].
    inversion Ws; inversion Ws'; subst. cbn [existsb]. rewrite (json_eqb_comp x x' y y') by assumption. f_equal. now apply IH.
  Qed.

  Lemma distinct_from_comp : forall l l' seen seen',
    Forall2 jeq l l' -> wfl l -> wfl l' -> Forall2 jeq seen seen' -> wfl seen -> wfl seen' ->
    distinct_from seen l = distinct_from seen' l'.
  Proof.
    induction l as [|x r IH]; intros l' seen seen' HF Wl Wl' HS Ws Ws'; inversion HF as [|? x' ? r' Hx Hr]; subst; [reflexivity|].
    inversion Wl; inversion Wl'; subst. cbn [distinct_from].
    rewrite (existsb_eqb_comp x x' seen seen') by assumption. f_equal.
    apply IH; try assumption.
    - apply Forall2_app; [exact HS|repeat constructor; exact Hx].
    - apply Forall_app. split; [exact Ws|repeat constructor; assumption].
    - apply Forall_app. split; [exact Ws'|repeat constructor; assumption].
  Qed.

  Lemma a_array_counts_comp s j j' : jeq j j' -> json_wf j = true -> json_wf j' = true -> a_array_counts s j = a_array_counts s j'.
  Proof.
    intros H W W'. inversion H as [| | | |l l' HF|]; subst; try reflexivity. unfold a_array_counts.
    rewrite (Forall2_len _ _ _ HF). f_equal. destruct (s_uniqueItems s); [|reflexivity].
    apply json_wf_arr in W. apply json_wf_arr in W'.
    unfold distinct. apply distinct_from_comp; try assumption; constructor.
  Qed.

  Lemma has_key_comp m m' k : jeq (JObj m) (JObj m') -> has_key m k = has_key m' k.
  Proof.
    intros H. inversion H as [| | | | |? ? Hk _]; subst. unfold has_key.
    destruct (lookup k m) eqn:E1; destruct (lookup k m') eqn:E2; try reflexivity.
    - apply Hk in E2. congruence.
    - apply Hk in E1. congruence.
  Qed.

  Lemma a_object_counts_comp d7 s j j' : jeq j j' -> json_wf j = true -> json_wf j' = true -> a_object_counts d7 s j = a_object_counts d7 s j'.
  Proof.
    intros H W W'. inversion H as [| | | | |m m' Hk Hv]; subst; try reflexivity. unfold a_object_counts.
    rewrite (jeq_obj_length m m' W W' H).
    assert (Hhk : forall k, has_key m k = has_key m' k) by (intros; now apply has_key_comp).
    f_equal; [f_equal|].
    - destruct (s_required s) as [req|]; [|reflexivity]. cbn [opt_ok]. apply forallb_ext. exact Hhk.
    - destruct (if d7 then _ else _) as [d|]; [|reflexivity]. cbn [opt_ok]. apply forallb_ext. intros [k r]. cbn [fst snd].
      rewrite Hhk. f_equal. apply forallb_ext. exact Hhk.
  Qed.
End Assertions.

(** results up to the order of evaluated property names *)
Definition sig_eq (a b : sigma) : Prop := (forall k, mem_str k (sP a) = mem_str k (sP b)) /\ sI a = sI b.
Definition res_eq (r r' : bool * sigma) : Prop := fst r = fst r' /\ sig_eq (snd r) (snd r').
Definition ores_eq (o o' : sres) : Prop :=
  match o, o' with Some r, Some r' => res_eq r r' | None, None => True | _, _ => False end.
Definition olist_eq (o o' : option (list (bool * sigma))) : Prop :=
  match o, o' with Some r, Some r' => Forall2 res_eq r r' | None, None => True | _, _ => False end.

Lemma sig_eq_refl a : sig_eq a a. Proof. split; auto. Qed.
Lemma res_eq_refl r : res_eq r r. Proof. split; [reflexivity|apply sig_eq_refl]. Qed.
Lemma ores_eq_refl o : ores_eq o o. Proof. destruct o; [apply res_eq_refl|exact I]. Qed.

Lemma mem_str_app k a b : mem_str k (a ++ b) = mem_str k a || mem_str k b.
Proof. induction a as [|x r IH]; [reflexivity|]. cbn [app mem_str]. now rewrite IH, orb_assoc. Qed.

Lemma sig_union_eq a a' b b' : sig_eq a a' -> sig_eq b b' -> sig_eq (sig_union a b) (sig_union a' b').
Proof.
  intros [H1 H2] [H3 H4]. split; cbn [sig_union sP sI].
  - intros k. now rewrite !mem_str_app, H1, H3.
  - now rewrite H2, H4.
Qed.

Lemma eval_all_rel {A B} (Q : A -> B -> Prop) (f : A -> sres) (f' : B -> sres) la lb :
  Forall2 Q la lb -> (forall a b, Q a b -> ores_eq (f a) (f' b)) -> olist_eq (eval_all f la) (eval_all f' lb).
Proof.
  intros HF Hf. induction HF as [|a b ra rb Hab Hr IH]; [constructor|]. cbn [eval_all].
  pose proof (Hf a b Hab) as H0. unfold ores_eq in H0.
  destruct (f a) as [y|], (f' b) as [y'|]; try contradiction.
  - unfold olist_eq in IH. destruct (eval_all f ra), (eval_all f' rb); try contradiction; [|exact I].
    constructor; assumption.
  - unfold olist_eq in IH. destruct (eval_all f ra), (eval_all f' rb); try contradiction; exact I.
Qed.

Lemma eval_all_same {A} (f f' : A -> sres) l : (forall a, In a l -> ores_eq (f a) (f' a)) -> olist_eq (eval_all f l) (eval_all f' l).
Proof.
  intros H. apply (eval_all_rel (fun a b => a = b /\ In a l)).
  - clear H. assert (Hs : forall l0, (forall a, In a l0 -> In a l) -> Forall2 (fun a b => a = b /\ In a l) l0 l0).
    { induction l0 as [|x r IH]; intros Hin; constructor; [split; [reflexivity|apply Hin; now left]|apply IH; intros; apply Hin; now right]. }
    apply Hs. auto.
  - intros a b [<- Hin]. now apply H.
Qed.

Lemma all_true_rel r r' : Forall2 res_eq r r' -> all_true r = all_true r'.
Proof. induction 1 as [|x y rx ry [Hb _] _ IH]; [reflexivity|]. unfold all_true in *. cbn [forallb]. now rewrite Hb, IH. Qed.
Lemma count_true_rel r r' : Forall2 res_eq r r' -> count_true r = count_true r'.
Proof. induction 1 as [|x y rx ry [Hb _] _ IH]; [reflexivity|]. unfold count_true in *. cbn [filter]. rewrite Hb. destruct (fst y); cbn [length]; now rewrite IH. Qed.
Lemma exists_true_rel r r' : Forall2 res_eq r r' -> existsb (fun x : bool * sigma => fst x) r = existsb (fun x => fst x) r'.
Proof. induction 1 as [|x y rx ry [Hb _] _ IH]; [reflexivity|]. cbn [existsb]. now rewrite Hb, IH. Qed.
Lemma sig_of_true_rel r r' : Forall2 res_eq r r' -> sig_eq (sig_of_true r) (sig_of_true r').
Proof.
  induction 1 as [|x y rx ry [Hb Hs] _ IH]; [apply sig_eq_refl|]. cbn [sig_of_true fold_right]. rewrite Hb.
  destruct (fst y); [apply sig_union_eq; assumption|exact IH].
Qed.

Lemma eval_all_none {A} (f : A -> sres) l : eval_all f l = None <-> exists x, In x l /\ f x = None.
Proof.
  induction l as [|x r IH]; cbn [eval_all].
  - split; [discriminate|intros (x & [] & _)].
  - destruct (f x) as [y|] eqn:E.
    + destruct (eval_all f r) as [t|].
      * split; [discriminate|]. intros (z & [<-|Hz] & Hf); [congruence|].
        exfalso. assert (Hx : exists x0, In x0 r /\ f x0 = None) by eauto. apply IH in Hx. discriminate.
      * split; [intros _|reflexivity]. destruct (proj1 IH eq_refl) as (z & Hz & Hf). exists z. split; [now right|exact Hf].
    + split; [intros _; exists x; split; [now left|exact E]|reflexivity].
Qed.

Lemma all_true_spec {A} (f : A -> sres) l rs : eval_all f l = Some rs ->
  (all_true rs = true <-> forall x, In x l -> exists r, f x = Some r /\ fst r = true).
Proof.
  revert rs. induction l as [|x r IH]; intros rs H; cbn [eval_all] in H.
  - injection H as <-. split; [intros _ x []|reflexivity].
  - destruct (f x) as [y|] eqn:E; [|discriminate]. destruct (eval_all f r) as [t|]; [|discriminate]. injection H as <-.
    unfold all_true in *. cbn [forallb]. rewrite andb_true_iff, (IH t eq_refl). split.
    + intros [Hy Hr] z [<-|Hz]; [eauto|now apply Hr].
    + intros Hall. split.
      * destruct (Hall x (or_introl eq_refl)) as (r0 & Hr0 & Ht). congruence.
      * intros z Hz. apply Hall. now right.
Qed.

Section ObjIter.
  Variables m m' : list (str * json).
  Hypothesis Wm : json_wf (JObj m) = true.
  Hypothesis Wm' : json_wf (JObj m') = true.
  Hypothesis Hq : jeq (JObj m) (JObj m').

  Lemma obj_corr k v : In (k, v) m -> exists v', In (k, v') m' /\ lookup k m = Some v /\ lookup k m' = Some v' /\ jeq v v'.
  Proof.
    intros Hin. pose proof (json_wf_obj m Wm) as [Hn _]. pose proof (In_lookup k v m Hn Hin) as Hl.
    inversion Hq as [| | | | |m1 m2 Hk Hv]; subst.
    destruct (lookup k m') as [v'|] eqn:E.
    - exists v'. split; [now apply lookup_In in E|]. split; [exact Hl|]. split; [reflexivity|]. exact (Hv k v v' Hl E).
    - apply Hk in E. congruence.
  Qed.

  Lemma obj_corr' k v' : In (k, v') m' -> exists v, In (k, v) m /\ lookup k m = Some v /\ lookup k m' = Some v' /\ jeq v v'.
  Proof.
    intros Hin. pose proof (json_wf_obj m' Wm') as [Hn _]. pose proof (In_lookup k v' m' Hn Hin) as Hl.
    inversion Hq as [| | | | |m1 m2 Hk Hv]; subst.
    destruct (lookup k m) as [v|] eqn:E.
    - exists v. split; [now apply lookup_In in E|]. split; [reflexivity|]. split; [exact Hl|]. exact (Hv k v v' E Hl).
    - apply Hk in E. congruence.
  Qed.

  Lemma keys_same k : In k (keys m) <-> In k (keys m').
  Proof.
    unfold keys. rewrite !in_map_iff. split.
    - intros ([k0 v] & <- & Hin). destruct (obj_corr k0 v Hin) as (v' & Hin' & _). exists (k0, v'). auto.
    - intros ([k0 v'] & <- & Hin). destruct (obj_corr' k0 v' Hin) as (v & Hin' & _). exists (k0, v). auto.
  Qed.

  (** iterating the members: whether everything is defined, and whether everything holds, is
      the same for both orders *)
  Lemma obj_iter (F F' : str * json -> sres) (P : str -> bool) :
    (forall k v v', lookup k m = Some v -> lookup k m' = Some v' -> jeq v v' -> ores_eq (F (k, v)) (F' (k, v'))) ->
    match eval_all F (filter (fun kv => P (fst kv)) m), eval_all F' (filter (fun kv => P (fst kv)) m') with
    | Some rs, Some rs' => all_true rs = all_true rs'
    | None, None => True
    | _, _ => False
    end.
  Proof.
    intros HF.
    destruct (eval_all F (filter (fun kv => P (fst kv)) m)) as [rs|] eqn:E1;
      destruct (eval_all F' (filter (fun kv => P (fst kv)) m')) as [rs'|] eqn:E2.
    - apply bool_ext. rewrite (all_true_spec _ _ _ E1), (all_true_spec _ _ _ E2). split; intros H [k v] Hin.
      + apply filter_In in Hin as [Hin HP]. destruct (obj_corr' k v Hin) as (v0 & Hin0 & Hl0 & Hl' & Hj).
        destruct (H (k, v0)) as (r & Hr & Ht); [apply filter_In; split; assumption|].
        pose proof (HF k v0 v Hl0 Hl' Hj) as Ho. rewrite Hr in Ho. destruct (F' (k, v)) as [r'|]; [|contradiction].
        exists r'. split; [reflexivity|]. destruct Ho as [Hb _]. congruence.
      + apply filter_In in Hin as [Hin HP]. destruct (obj_corr k v Hin) as (v0 & Hin0 & Hl0 & Hl' & Hj).
        destruct (H (k, v0)) as (r & Hr & Ht); [apply filter_In; split; assumption|].
        pose proof (HF k v v0 Hl0 Hl' Hj) as Ho. rewrite Hr in Ho. destruct (F (k, v)) as [r'|]; [|contradiction].
        exists r'. split; [reflexivity|]. destruct Ho as [Hb _]. congruence.
    - apply eval_all_none in E2 as ([k v] & Hin & Hf). apply filter_In in Hin as [Hin HP].
      destruct (obj_corr' k v Hin) as (v0 & Hin0 & Hl0 & Hl' & Hj).
      pose proof (HF k v0 v Hl0 Hl' Hj) as Ho. rewrite Hf in Ho.
      destruct (F (k, v0)) eqn:E0; [contradiction|].
      assert (Hn : eval_all F (filter (fun kv => P (fst kv)) m) = None).
      { apply eval_all_none. exists (k, v0). split; [apply filter_In; split; assumption|exact E0]. }
      congruence.
    - apply eval_all_none in E1 as ([k v] & Hin & Hf). apply filter_In in Hin as [Hin HP].
      destruct (obj_corr k v Hin) as (v0 & Hin0 & Hl0 & Hl' & Hj).
      pose proof (HF k v v0 Hl0 Hl' Hj) as Ho. rewrite Hf in Ho.
      destruct (F' (k, v0)) eqn:E0; [contradiction|].
      assert (Hn : eval_all F' (filter (fun kv => P (fst kv)) m') = None).
      { apply eval_all_none. exists (k, v0). split; [apply filter_In; split; assumption|exact E0]. }
      congruence.
    - exact I.
  Qed.

  (** key sets filtered by a predicate on names: the same names *)
  Lemma filter_keys_mem (P : str -> bool) k : mem_str k (filter P (keys m)) = mem_str k (filter P (keys m')).
  Proof.
    apply bool_ext. rewrite !mem_str_In, !filter_In. split; intros [H1 H2]; (split; [now apply keys_same|exact H2]).
  Qed.

  Lemma filter_members_keys_mem (P : str -> bool) k :
    mem_str k (keys (filter (fun kv => P (fst kv)) m)) = mem_str k (keys (filter (fun kv => P (fst kv)) m')).
  Proof.
    apply bool_ext. rewrite !mem_str_In. unfold keys. rewrite !in_map_iff. split.
    - intros ([k0 v] & <- & Hin). apply filter_In in Hin as [Hin HP]. destruct (obj_corr k0 v Hin) as (v' & Hin' & _).
      exists (k0, v'). split; [reflexivity|]. apply filter_In. split; assumption.
    - intros ([k0 v'] & <- & Hin). apply filter_In in Hin as [Hin HP]. destruct (obj_corr' k0 v' Hin) as (v & Hin' & _).
      exists (k0, v). split; [reflexivity|]. apply filter_In. split; assumption.
  Qed.
End ObjIter.

Lemma Forall2_skipn {A B} (R : A -> B -> Prop) n : forall l l', Forall2 R l l' -> Forall2 R (skipn n l) (skipn n l').
Proof. induction n as [|n IH]; intros l l' H; [exact H|]. destruct H; cbn; [constructor|now apply IH]. Qed.

Lemma Forall2_combine_r {A B C} (R : A -> B -> Prop) : forall l l' (z : list C),
  Forall2 R l l' -> Forall2 (fun a b => R (fst a) (fst b) /\ snd a = snd b) (combine l z) (combine l' z).
Proof.
  intros l l' z H. revert z. induction H as [|a b ra rb Hab _ IH]; intros [|c z]; cbn; constructor; auto.
Qed.

Lemma Forall2_combine_l {A B C} (R : A -> B -> Prop) : forall (z : list C) l l',
  Forall2 R l l' -> Forall2 (fun a b => fst a = fst b /\ R (snd a) (snd b)) (combine z l) (combine z l').
Proof.
  induction z as [|c z IH]; intros l l' H; cbn; [constructor|]. destruct H; constructor; auto.
Qed.

Section Compat.
  Variable re_match : str -> str -> bool.
  Variable e : env.
  Variable ev : efun.
  Hypothesis Hev : forall j j' l c, jeq j j' -> json_wf j = true -> json_wf j' = true -> ores_eq (ev j l c) (ev j' l c).

  Definition jw (j j' : json) : Prop := jeq j j' /\ json_wf j = true /\ json_wf j' = true.

  Lemma jw_lists l l' : Forall2 jeq l l' -> wfl l -> wfl l' -> Forall2 jw l l'.
  Proof.
    intros H. induction H as [|a b ra rb Hab _ IH]; intros W W'; [constructor|].
    inversion W; inversion W'; subst. constructor; [repeat split; assumption|now apply IH].
  Qed.

  (* the matched indexes of "contains" *)
  Lemma matched_rel n rs rs' : Forall2 res_eq rs rs' ->
    map fst (filter (fun ir : nat * (bool * sigma) => fst (snd ir)) (combine (seq 0 n) rs)) =
    map fst (filter (fun ir : nat * (bool * sigma) => fst (snd ir)) (combine (seq 0 n) rs')).
  Proof.
    generalize 0 as a. intros a H. revert a n. induction H as [|x y rx ry [Hb _] _ IH]; intros a n.
    - destruct n; reflexivity.
    - destruct n as [|n]; [reflexivity|]. cbn [seq combine filter snd]. rewrite Hb. destruct (fst y); cbn [map fst]; now rewrite IH.
  Qed.

  Lemma spec_arrays_comp l s items items' :
    Forall2 jw items items' ->
    spec_arrays e ev l s items = spec_arrays e ev l s items' \/
    (exists ok i ok' i', spec_arrays e ev l s items = Some (ok, i) /\ spec_arrays e ev l s items' = Some (ok', i') /\ ok = ok' /\ i = i').
  Proof.
    intros HF. unfold spec_arrays, ar_prefix, ar_rest, ar_contains.
    assert (Hlen : length items = length items') by (eapply Forall2_len; eauto). rewrite <- Hlen.
    (* prefix *)
    pose proof (eval_all_rel (fun a b : json * (nat * schema) => jw (fst a) (fst b) /\ snd a = snd b)
                  (fun xc => ev (fst xc) (ch_i l (ar_prefix_name e) (fst (snd xc))) (snd (snd xc)))
                  (fun xc => ev (fst xc) (ch_i l (ar_prefix_name e) (fst (snd xc))) (snd (snd xc)))
                  _ _ (Forall2_combine_r jw items items' (idx_list (ar_prefix_list e s)) HF)) as Hp.
    match type of Hp with ?A -> _ => assert (Ha : A) end.
    { intros [x xc] [y yc] [[Hj [Hw Hw']] Hs]. cbn [fst snd] in *. subst yc. now apply Hev. }
    specialize (Hp Ha). clear Ha.
    (* rest *)
    assert (Hr : olist_eq
              (match ar_rest_schema e s with Some (name, c) => eval_all (fun x => ev x (ch l name) c) (skipn (length (ar_prefix_list e s)) items) | None => Some [] end)
              (match ar_rest_schema e s with Some (name, c) => eval_all (fun x => ev x (ch l name) c) (skipn (length (ar_prefix_list e s)) items') | None => Some [] end)).
    { destruct (ar_rest_schema e s) as [[name c]|]; [|constructor].
      apply (eval_all_rel jw); [now apply Forall2_skipn|]. intros a b (Hj & Hw & Hw'). now apply Hev. }
    (* contains *)
    assert (Hc : match s_contains s with
                 | Some c => olist_eq (eval_all (fun x => ev x (ch l (lit "contains"%lit)) c) items) (eval_all (fun x => ev x (ch l (lit "contains"%lit)) c) items')
                 | None => True
                 end).
    { destruct (s_contains s) as [c|]; [|exact I]. apply (eval_all_rel jw); [exact HF|]. intros a b (Hj & Hw & Hw'). now apply Hev. }
    unfold olist_eq in Hp, Hr.
    destruct (eval_all _ (combine items _)) as [rp|]; destruct (eval_all _ (combine items' _)) as [rp'|]; try contradiction; [|left; reflexivity].
    destruct (match ar_rest_schema e s with Some _ => _ | None => Some [] end) as [rr|];
      destruct (match ar_rest_schema e s with Some (name, c) => eval_all _ (skipn _ items') | None => Some [] end) as [rr'|]; try contradiction; [|left; reflexivity].
    destruct (s_contains s) as [c|].
    - unfold olist_eq in Hc. cbn [option_map].
      destruct (eval_all _ items) as [rc|]; destruct (eval_all _ items') as [rc'|]; try contradiction; [|left; reflexivity].
      cbn [option_map]. right. do 4 eexists. split; [reflexivity|]. split; [reflexivity|].
      rewrite (all_true_rel _ _ Hp), (all_true_rel _ _ Hr), (matched_rel _ _ _ Hc). split; reflexivity.
    - right. do 4 eexists. split; [reflexivity|]. split; [reflexivity|].
      rewrite (all_true_rel _ _ Hp), (all_true_rel _ _ Hr). split; reflexivity.
  Qed.

  Corollary spec_arrays_eq l s items items' :
    Forall2 jw items items' -> spec_arrays e ev l s items = spec_arrays e ev l s items'.
  Proof.
    intros H. destruct (spec_arrays_comp l s items items' H) as [Heq|(ok & i & ok' & i' & H1 & H2 & -> & ->)]; [exact Heq|congruence].
  Qed.

  Lemma filter_true {A} (l : list A) : filter (fun _ => true) l = l.
  Proof. induction l; cbn; congruence. Qed.

  Lemma filter_ext_in' {A} (f g : A -> bool) l : (forall x, f x = g x) -> filter f l = filter g l.
  Proof. intros H. induction l as [|x r IH]; cbn; [reflexivity|]. now rewrite H, IH. Qed.

  Definition obj_rel (o o' : option (bool * sigma * sigma)) : Prop :=
    match o, o' with
    | Some (ok, sg, sd), Some (ok', sg', sd') => ok = ok' /\ sig_eq sg sg' /\ sig_eq sd sd'
    | None, None => True
    | _, _ => False
    end.

  Lemma spec_objects_comp j j' l s m m' :
    j = JObj m -> j' = JObj m' -> jw j j' ->
    obj_rel (spec_objects re_match e ev j l s m) (spec_objects re_match e ev j' l s m').
  Proof.
    intros -> -> (Hq & Wm & Wm'). unfold spec_objects.
    pose proof Hq as Hq0. inversion Hq0 as [| | | | |m1 m2 Hk Hv]; subst.
    (* properties *)
    assert (Hprops : olist_eq (ob_ev_props ev l s m) (ob_ev_props ev l s m')).
    { unfold ob_ev_props. apply eval_all_same. intros [k c] _. cbn [fst snd].
      destruct (lookup k m) as [v|] eqn:E1; destruct (lookup k m') as [v'|] eqn:E2.
      - apply Hev; [exact (Hv k v v' E1 E2)|exact (wf_lookup _ _ _ Wm E1)|exact (wf_lookup _ _ _ Wm' E2)].
      - apply Hk in E2. congruence.
      - apply Hk in E1. congruence.
      - apply res_eq_refl. }
    (* patternProperties *)
    pose proof (obj_iter m m' Wm Wm' Hq
      (fun kv => option_map (fun rs => (all_true rs, sig0))
                   (eval_all (fun pc => if re_match (fst pc) (fst kv) then ev (snd kv) (ch_k l (lit "patternProperties"%lit) (fst pc)) (snd pc) else Some (true, sig0))
                             (olist (s_patternProperties s))))
      (fun kv => option_map (fun rs => (all_true rs, sig0))
                   (eval_all (fun pc => if re_match (fst pc) (fst kv) then ev (snd kv) (ch_k l (lit "patternProperties"%lit) (fst pc)) (snd pc) else Some (true, sig0))
                             (olist (s_patternProperties s))))
      (fun _ => true)) as Hpats.
    rewrite !filter_true in Hpats.
    match type of Hpats with ?A -> _ => assert (Ha : A) end.
    { intros k v v' E1 E2 Hj. cbn [fst snd].
      pose proof (eval_all_same
        (fun pc : str * schema => if re_match (fst pc) k then ev v (ch_k l (lit "patternProperties"%lit) (fst pc)) (snd pc) else Some (true, sig0))
        (fun pc : str * schema => if re_match (fst pc) k then ev v' (ch_k l (lit "patternProperties"%lit) (fst pc)) (snd pc) else Some (true, sig0))
        (olist (s_patternProperties s))) as Hin.
      match type of Hin with ?B -> _ => assert (Hb : B) end.
      { intros [p c] _. cbn [fst snd]. destruct (re_match p k); [|apply res_eq_refl].
        apply Hev; [exact Hj|exact (wf_lookup _ _ _ Wm E1)|exact (wf_lookup _ _ _ Wm' E2)]. }
      specialize (Hin Hb). unfold olist_eq in Hin.
      destruct (eval_all _ (olist (s_patternProperties s))) as [rs|];
        destruct (eval_all (fun pc : str * schema => if re_match (fst pc) k then ev v' _ _ else _) (olist (s_patternProperties s))) as [rs'|]; try contradiction; [|exact I].
      cbn [option_map ores_eq]. split; [cbn; now apply all_true_rel|apply sig_eq_refl]. }
    specialize (Hpats Ha). clear Ha.
    (* the member names covered by properties / patternProperties *)
    assert (Hpp : forall k, mem_str k (ob_p_props s m) = mem_str k (ob_p_props s m')) by (intros; apply (filter_keys_mem m m' Wm Wm' Hq)).
    assert (Hpt : forall k, mem_str k (ob_p_pats re_match s m) = mem_str k (ob_p_pats re_match s m')) by (intros; apply (filter_keys_mem m m' Wm Wm' Hq)).
    (* additionalProperties *)
    set (P := fun k : str => negb (mem_str k (ob_p_props s m)) && negb (mem_str k (ob_p_pats re_match s m))).
    assert (Hadd_m : ob_additional re_match s m = filter (fun kv => P (fst kv)) m) by reflexivity.
    assert (Hadd_m' : ob_additional re_match s m' = filter (fun kv => P (fst kv)) m').
    { unfold ob_additional. apply filter_ext_in'. intros kv. unfold P. now rewrite Hpp, Hpt. }
    assert (Hadd : match ob_ev_add re_match ev l s m, ob_ev_add re_match ev l s m' with
                   | Some rs, Some rs' => all_true rs = all_true rs'
                   | None, None => True
                   | _, _ => False
                   end).
    { unfold ob_ev_add. destruct (s_additionalProperties s) as [c|]; [|reflexivity]. rewrite Hadd_m, Hadd_m'.
      apply (obj_iter m m' Wm Wm' Hq (fun kv => ev (snd kv) (ch l (lit "additionalProperties"%lit)) c)
               (fun kv => ev (snd kv) (ch l (lit "additionalProperties"%lit)) c) P).
      intros k v v' E1 E2 Hj. cbn [snd]. apply Hev; [exact Hj|exact (wf_lookup _ _ _ Wm E1)|exact (wf_lookup _ _ _ Wm' E2)]. }
    (* propertyNames *)
    assert (Hnames : match ob_ev_names ev l s m, ob_ev_names ev l s m' with
                     | Some rs, Some rs' => all_true rs = all_true rs'
                     | None, None => True
                     | _, _ => False
                     end).
    { unfold ob_ev_names. destruct (s_propertyNames s) as [c|]; [|reflexivity].
      pose proof (obj_iter m m' Wm Wm' Hq (fun kv => ev (JStr (fst kv)) (ch l (lit "propertyNames"%lit)) c)
               (fun kv => ev (JStr (fst kv)) (ch l (lit "propertyNames"%lit)) c) (fun _ => true)) as Hn.
      rewrite !filter_true in Hn. apply Hn. intros k v v' _ _ _. cbn [fst]. apply ores_eq_refl. }
    (* dependent schemas *)
    assert (Hdeps : olist_eq (ob_ev_deps e ev (JObj m) l s m) (ob_ev_deps e ev (JObj m') l s m')).
    { unfold ob_ev_deps. apply eval_all_same. intros [k c] _. cbn [fst snd]. rewrite (has_key_comp m m' k Hq).
      destruct (has_key m' k); [now apply Hev|apply res_eq_refl]. }
    unfold olist_eq in Hprops, Hdeps.
    destruct (ob_ev_props ev l s m) as [r1|]; destruct (ob_ev_props ev l s m') as [r1'|]; try contradiction; [|exact I].
    unfold ob_ev_pats.
    destruct (eval_all _ m) as [r2|]; destruct (eval_all _ m') as [r2'|]; try contradiction; [|exact I].
    destruct (ob_ev_add re_match ev l s m) as [r3|]; destruct (ob_ev_add re_match ev l s m') as [r3'|]; try contradiction; [|exact I].
    destruct (ob_ev_names ev l s m) as [r4|]; destruct (ob_ev_names ev l s m') as [r4'|]; try contradiction; [|exact I].
    destruct (ob_ev_deps e ev (JObj m) l s m) as [r5|]; destruct (ob_ev_deps e ev (JObj m') l s m') as [r5'|]; try contradiction; [|exact I].
    cbn [obj_rel]. rewrite (all_true_rel _ _ Hprops), Hpats, Hadd, Hnames, (all_true_rel _ _ Hdeps).
    split; [reflexivity|]. split; [|now apply sig_of_true_rel].
    split; [|reflexivity]. intros k. cbn [sP]. rewrite !mem_str_app, Hpp, Hpt. f_equal. f_equal.
    destruct (s_additionalProperties s); [|reflexivity]. rewrite Hadd_m, Hadd_m'.
    apply (filter_members_keys_mem m m' Wm Wm' Hq).
  Qed.

  Lemma Forall2_filter {A B} (R : A -> B -> Prop) (f : A -> bool) (g : B -> bool) l l' :
    Forall2 R l l' -> (forall a b, R a b -> f a = g b) -> Forall2 R (filter f l) (filter g l').
  Proof.
    intros H Hfg. induction H as [|a b ra rb Hab _ IH]; [constructor|]. cbn [filter]. rewrite (Hfg a b Hab).
    destruct (g b); [constructor; assumption|exact IH].
  Qed.

  Lemma spec_uneval_items_comp j j' l s sm sm' :
    jw j j' -> sI sm = sI sm' -> spec_uneval_items ev j l s sm = spec_uneval_items ev j' l s sm'.
  Proof.
    intros (Hq & W & W') HsI. unfold spec_uneval_items.
    inversion Hq as [| | | |items items' HF|]; subst; try reflexivity.
    destruct (s_unevaluatedItems s) as [c|]; [|reflexivity].
    apply json_wf_arr in W. apply json_wf_arr in W'.
    pose proof (jw_lists _ _ HF W W') as HJ.
    assert (Hun : Forall2 (fun a b : nat * json => fst a = fst b /\ jw (snd a) (snd b))
                    (filter (fun ix => negb (mem_nat (fst ix) (sI sm))) (idx_list items))
                    (filter (fun ix => negb (mem_nat (fst ix) (sI sm'))) (idx_list items'))).
    { apply Forall2_filter.
      - unfold idx_list. rewrite (Forall2_len _ _ _ HF). now apply Forall2_combine_l.
      - intros a b [Hab _]. now rewrite Hab, HsI. }
    pose proof (eval_all_rel _ (fun ix => ev (snd ix) (ch l (lit "unevaluatedItems"%lit)) c)
                  (fun ix => ev (snd ix) (ch l (lit "unevaluatedItems"%lit)) c) _ _ Hun) as He.
    match type of He with ?A -> _ => assert (Ha : A) end.
    { intros a b [_ (Hj & Hw & Hw')]. now apply Hev. }
    specialize (He Ha). unfold olist_eq in He.
    destruct (eval_all _ (filter _ (idx_list items))) as [rs|]; destruct (eval_all _ (filter _ (idx_list items'))) as [rs'|]; try contradiction; [|reflexivity].
    cbn [option_map]. rewrite (all_true_rel _ _ He). do 2 f_equal.
    clear -Hun. induction Hun as [|a b ra rb [Hab _] _ IH]; [reflexivity|]. cbn [map]. now rewrite Hab, IH.
  Qed.

  Definition up_rel (o o' : option (bool * list str)) : Prop :=
    match o, o' with
    | Some (ok, p), Some (ok', p') => ok = ok' /\ forall k, mem_str k p = mem_str k p'
    | None, None => True
    | _, _ => False
    end.

  Lemma spec_uneval_props_comp j j' l s sm sm' :
    jw j j' -> (forall k, mem_str k (sP sm) = mem_str k (sP sm')) ->
    up_rel (spec_uneval_props ev j l s sm) (spec_uneval_props ev j' l s sm').
  Proof.
    intros (Hq & W & W') HsP. unfold spec_uneval_props.
    inversion Hq as [| | | | |m m' Hk Hv]; subst; try (cbn; split; [reflexivity|intros; reflexivity]).
    destruct (s_unevaluatedProperties s) as [c|]; [|cbn; split; [reflexivity|intros; reflexivity]].
    set (P := fun k : str => negb (mem_str k (sP sm))).
    assert (E' : filter (fun kv : str * json => negb (mem_str (fst kv) (sP sm'))) m' = filter (fun kv => P (fst kv)) m').
    { apply filter_ext_in'. intros kv. unfold P. now rewrite HsP. }
    rewrite E'. change (filter (fun kv : str * json => negb (mem_str (fst kv) (sP sm))) m) with (filter (fun kv => P (fst kv)) m).
    pose proof (obj_iter m m' W W' Hq (fun kv => ev (snd kv) (ch l (lit "unevaluatedProperties"%lit)) c)
                  (fun kv => ev (snd kv) (ch l (lit "unevaluatedProperties"%lit)) c) P) as Hi.
    match type of Hi with ?A -> _ => assert (Ha : A) end.
    { intros k v v' E1 E2 Hj. cbn [snd]. apply Hev; [exact Hj|exact (wf_lookup _ _ _ W E1)|exact (wf_lookup _ _ _ W' E2)]. }
    specialize (Hi Ha).
    destruct (eval_all _ (filter _ m)) as [rs|]; destruct (eval_all _ (filter _ m')) as [rs'|]; try contradiction; [|exact I].
    cbn [option_map up_rel]. split; [exact Hi|]. intros k. apply (filter_members_keys_mem m m' W W' Hq).
  Qed.

  Lemma one_comp j j' l o : jw j j' -> olist_eq (one ev j l o) (one ev j' l o).
  Proof.
    intros (Hq & W & W'). unfold one. destruct o as [c|]; [|constructor].
    apply (eval_all_rel (fun a b => a = b)); [repeat constructor|]. intros a b <-. now apply Hev.
  Qed.

  Lemma idx_comp j j' l name (L : list (nat * schema)) : jw j j' ->
    olist_eq (eval_all (fun ic => ev j (ch_i l name (fst ic)) (snd ic)) L) (eval_all (fun ic => ev j' (ch_i l name (fst ic)) (snd ic)) L).
  Proof. intros (Hq & W & W'). apply eval_all_same. intros ic _. now apply Hev. Qed.

  Lemma target_comp j j' t c : jw j j' -> olist_eq (eval_all (fun c => ev j t c) [c]) (eval_all (fun c => ev j' t c) [c]).
  Proof. intros (Hq & W & W'). apply eval_all_same. intros c0 _. now apply Hev. Qed.

  Definition refpart (C : list loc) (j : json) (l : loc) (s : schema) : option (list (bool * sigma)) :=
    match s_ref s with
    | [] => Some []
    | _ =>
        match info_at e l with
        | Some i => match ri_ref i with
                    | Some t => match node_at e t with Some c => eval_all (fun c => ev j t c) [c] | None => None end
                    | None => None
                    end
        | None => None
        end
    end.

  Definition dynpart (C : list loc) (j : json) (l : loc) (s : schema) : option (list (bool * sigma)) :=
    match s_dynamicRef s with
    | [] => Some []
    | _ =>
        match info_at e l with
        | Some i =>
            match ri_dynref i with
            | Some t0 =>
                match (match ri_dynanchor i with
                       | [] => Some t0
                       | a => option_map (fun o => match o with Some t => t | None => t0 end) (scope_lookup e C a)
                       end) with
                | Some t => match node_at e t with Some c => eval_all (fun c => ev j t c) [c] | None => None end
                | None => None
                end
            | None => None
            end
        | None => None
        end
    end.

  Lemma refpart_comp C j j' l s : jw j j' -> olist_eq (refpart C j l s) (refpart C j' l s).
  Proof.
    intros H. unfold refpart. destruct (s_ref s); [constructor|]. destruct (info_at e l) as [i|]; [|exact I].
    destruct (ri_ref i) as [t|]; [|exact I]. destruct (node_at e t); [|exact I]. now apply target_comp.
  Qed.

  Lemma dynpart_comp C j j' l s : jw j j' -> olist_eq (dynpart C j l s) (dynpart C j' l s).
  Proof.
    intros H. unfold dynpart. destruct (s_dynamicRef s); [constructor|]. destruct (info_at e l) as [i|]; [|exact I].
    destruct (ri_dynref i) as [t0|]; [|exact I].
    destruct (match ri_dynanchor i with [] => Some t0 | _ => _ end) as [t|]; [|exact I].
    destruct (node_at e t); [|exact I]. now apply target_comp.
  Qed.

  Lemma spec_body_unfold C j l s :
    spec_body re_match e ev C j l s =
    match refpart C j l s with
    | None => None
    | Some r_ref =>
      if e_draft7 e && match s_ref s with [] => false | _ => true end then Some (all_true r_ref, sig0)
      else
      match dynpart C j l s,
            eval_all (fun ic => ev j (ch_i l (lit "allOf"%lit) (fst ic)) (snd ic)) (idx_list (olist (s_allOf s))),
            eval_all (fun ic => ev j (ch_i l (lit "anyOf"%lit) (fst ic)) (snd ic)) (idx_list (olist (s_anyOf s))),
            eval_all (fun ic => ev j (ch_i l (lit "oneOf"%lit) (fst ic)) (snd ic)) (idx_list (olist (s_oneOf s))),
            one ev j (ch l (lit "not"%lit)) (s_not s),
            one ev j (ch l (lit "if"%lit)) (s_if s),
            one ev j (ch l (lit "then"%lit)) (s_then s),
            one ev j (ch l (lit "else"%lit)) (s_else s)
      with
      | Some r_dyn, Some r_all, Some r_any, Some r_one, Some r_not, Some r_if, Some r_then, Some r_else =>
        let '(ok_cond, sig_cond) :=
          match r_if with
          | [] => (true, sig0)
          | (true, s0) :: _ => (all_true r_then, sig_union s0 (sig_of_true r_then))
          | (false, _) :: _ => (all_true r_else, sig_of_true r_else)
          end in
        match (match j with JArr items => spec_arrays e ev l s items | _ => Some (true, []) end) with
        | None => None
        | Some (ok_arr, i_arr) =>
        match (match j with JObj m => spec_objects re_match e ev j l s m | _ => Some (true, sig0, sig0) end) with
        | None => None
        | Some (ok_obj, sig_obj, sig_deps) =>
          let oks :=
            [ all_true r_ref; a_type s j; a_enum s j; a_const s j; a_numbers s j; a_strings re_match s j;
              all_true r_dyn; all_true r_all;
              (match s_anyOf s with Some _ => Nat.ltb 0 (count_true r_any) | None => true end);
              (match s_oneOf s with Some _ => Nat.eqb (count_true r_one) 1 | None => true end);
              negb (existsb (fun r => fst r) r_not); ok_cond ] in
          let sig_minus :=
            sig_union (sig_of_true r_ref) (sig_union (sig_of_true r_dyn) (sig_union (sig_of_true r_all)
            (sig_union (sig_of_true r_any) (sig_union (sig_of_true r_one) (sig_union sig_cond
            (sig_union (mkSigma [] i_arr) (sig_union sig_obj sig_deps))))))) in
          match spec_uneval_items ev j l s sig_minus, spec_uneval_props ev j l s sig_minus with
          | Some (ok_ui, i_ui), Some (ok_up, p_up) =>
              let ok := forallb (fun b => b)
                          (oks ++ [ok_arr; a_array_counts s j; ok_ui; ok_obj; a_object_counts (e_draft7 e) s j; ok_up]) in
              Some (ok, if ok then sig_union sig_minus (mkSigma p_up i_ui) else sig0)
          | _, _ => None
          end
        end
        end
      | _, _, _, _, _, _, _, _ => None
      end
    end.
  Proof. reflexivity. Qed.

  Lemma cond_comp (r_if r_if' r_then r_then' r_else r_else' : list (bool * sigma)) :
    Forall2 res_eq r_if r_if' -> Forall2 res_eq r_then r_then' -> Forall2 res_eq r_else r_else' ->
    let c := match r_if with
             | [] => (true, sig0)
             | (true, s0) :: _ => (all_true r_then, sig_union s0 (sig_of_true r_then))
             | (false, _) :: _ => (all_true r_else, sig_of_true r_else)
             end in
    let c' := match r_if' with
              | [] => (true, sig0)
              | (true, s0) :: _ => (all_true r_then', sig_union s0 (sig_of_true r_then'))
              | (false, _) :: _ => (all_true r_else', sig_of_true r_else')
              end in
    fst c = fst c' /\ sig_eq (snd c) (snd c').
  Proof.
    intros Hi Ht He. destruct Hi as [|[b s0] [b' s0'] ri ri' [Hb Hs] _]; cbn [fst snd] in *.
    - split; [reflexivity|apply sig_eq_refl].
    - subst b'. destruct b; cbn [fst snd].
      + split; [now apply all_true_rel|]. apply sig_union_eq; [exact Hs|now apply sig_of_true_rel].
      + split; [now apply all_true_rel|now apply sig_of_true_rel].
  Qed.

  (** one schema object: the same verdict, the same evaluated names and items *)
  Theorem spec_body_comp C j j' l s : jw j j' ->
    ores_eq (spec_body re_match e ev C j l s) (spec_body re_match e ev C j' l s).
  Proof.
    intros H. pose proof H as (Hq & W & W'). rewrite !spec_body_unfold.
    pose proof (refpart_comp C j j' l s H) as H1. unfold olist_eq in H1.
    destruct (refpart C j l s) as [r_ref|]; destruct (refpart C j' l s) as [r_ref'|]; try contradiction; [|exact I].
    destruct (e_draft7 e && _).
    { cbn [ores_eq]. split; [cbn; now apply all_true_rel|apply sig_eq_refl]. }
    pose proof (dynpart_comp C j j' l s H) as H2. unfold olist_eq in H2.
    destruct (dynpart C j l s) as [r_dyn|]; destruct (dynpart C j' l s) as [r_dyn'|]; try contradiction; [|exact I].
    pose proof (idx_comp j j' l (lit "allOf"%lit) (idx_list (olist (s_allOf s))) H) as H3. unfold olist_eq in H3.
    destruct (eval_all _ (idx_list (olist (s_allOf s)))) as [r_all|];
      destruct (eval_all (fun ic => ev j' (ch_i l (lit "allOf"%lit) (fst ic)) (snd ic)) _) as [r_all'|]; try contradiction; [|exact I].
    pose proof (idx_comp j j' l (lit "anyOf"%lit) (idx_list (olist (s_anyOf s))) H) as H4. unfold olist_eq in H4.
    destruct (eval_all _ (idx_list (olist (s_anyOf s)))) as [r_any|];
      destruct (eval_all (fun ic => ev j' (ch_i l (lit "anyOf"%lit) (fst ic)) (snd ic)) _) as [r_any'|]; try contradiction; [|exact I].
    pose proof (idx_comp j j' l (lit "oneOf"%lit) (idx_list (olist (s_oneOf s))) H) as H5. unfold olist_eq in H5.
    destruct (eval_all _ (idx_list (olist (s_oneOf s)))) as [r_one|];
      destruct (eval_all (fun ic => ev j' (ch_i l (lit "oneOf"%lit) (fst ic)) (snd ic)) _) as [r_one'|]; try contradiction; [|exact I].
    pose proof (one_comp j j' (ch l (lit "not"%lit)) (s_not s) H) as H6. unfold olist_eq in H6.
    destruct (one ev j _ (s_not s)) as [r_not|]; destruct (one ev j' _ (s_not s)) as [r_not'|]; try contradiction; [|exact I].
    pose proof (one_comp j j' (ch l (lit "if"%lit)) (s_if s) H) as H7. unfold olist_eq in H7.
    destruct (one ev j _ (s_if s)) as [r_if|]; destruct (one ev j' _ (s_if s)) as [r_if'|]; try contradiction; [|exact I].
    pose proof (one_comp j j' (ch l (lit "then"%lit)) (s_then s) H) as H8. unfold olist_eq in H8.
    destruct (one ev j _ (s_then s)) as [r_then|]; destruct (one ev j' _ (s_then s)) as [r_then'|]; try contradiction; [|exact I].
    pose proof (one_comp j j' (ch l (lit "else"%lit)) (s_else s) H) as H9. unfold olist_eq in H9.
    destruct (one ev j _ (s_else s)) as [r_else|]; destruct (one ev j' _ (s_else s)) as [r_else'|]; try contradiction; [|exact I].
    pose proof (cond_comp _ _ _ _ _ _ H7 H8 H9) as Hc. cbv zeta in Hc.
    destruct (match r_if with [] => _ | _ => _ end) as [ok_cond sig_cond].
    destruct (match r_if' with [] => _ | _ => _ end) as [ok_cond' sig_cond']. cbn [fst snd] in Hc. destruct Hc as [Hc1 Hc2].
    (* arrays *)
    assert (HA : (match j with JArr items => spec_arrays e ev l s items | _ => Some (true, []) end)
               = (match j' with JArr items => spec_arrays e ev l s items | _ => Some (true, []) end)).
    { inversion Hq as [| | | |items items' HF|]; subst; try reflexivity.
      apply spec_arrays_eq. apply jw_lists; [exact HF|now apply json_wf_arr|now apply json_wf_arr]. }
    rewrite <- HA. destruct (match j with JArr items => _ | _ => Some (true, []) end) as [[ok_arr i_arr]|]; [|exact I].
    (* objects *)
    assert (HO : obj_rel (match j with JObj m => spec_objects re_match e ev j l s m | _ => Some (true, sig0, sig0) end)
                         (match j' with JObj m => spec_objects re_match e ev j' l s m | _ => Some (true, sig0, sig0) end)).
    { inversion Hq as [| | | | |m m' Hk Hv]; subst; try (cbn; repeat split; reflexivity).
      now apply (spec_objects_comp (JObj m) (JObj m') l s m m'). }
    unfold obj_rel in HO.
    destruct (match j with JObj m => _ | _ => Some (true, sig0, sig0) end) as [[[ok_obj sig_obj] sig_deps]|];
      destruct (match j' with JObj m => _ | _ => Some (true, sig0, sig0) end) as [[[ok_obj' sig_obj'] sig_deps']|]; try contradiction; [|exact I].
    destruct HO as (Ho1 & Ho2 & Ho3).
    (* everything evaluated by the other keywords *)
    cbv zeta.
    match goal with |- context [spec_uneval_items ev j l s ?sm] =>
      match goal with |- context [spec_uneval_items ev j' l s ?sm'] => assert (Hsm : sig_eq sm sm') end end.
    { repeat apply sig_union_eq; try (now apply sig_of_true_rel); try assumption. apply sig_eq_refl. }
    rewrite (spec_uneval_items_comp j j' l s _ _ H (proj2 Hsm)).
    destruct (spec_uneval_items ev j' l s _) as [[ok_ui i_ui]|]; [|exact I].
    pose proof (spec_uneval_props_comp j j' l s _ _ H (proj1 Hsm)) as HU. unfold up_rel in HU.
    destruct (spec_uneval_props ev j l s _) as [[ok_up p_up]|]; destruct (spec_uneval_props ev j' l s _) as [[ok_up' p_up']|]; try contradiction; [|exact I].
    destruct HU as [Hu1 Hu2].
    rewrite (all_true_rel _ _ H1), (a_type_comp s j j' Hq), (a_enum_comp s j j' Hq W W'), (a_const_comp s j j' Hq W W'),
            (a_numbers_comp s j j' Hq), (a_strings_comp re_match s j j' Hq), (all_true_rel _ _ H2), (all_true_rel _ _ H3),
            (count_true_rel _ _ H4), (count_true_rel _ _ H5), (exists_true_rel _ _ H6), Hc1, Ho1, Hu1,
            (a_array_counts_comp s j j' Hq W W'), (a_object_counts_comp (e_draft7 e) s j j' Hq W W').
    cbn [ores_eq]. split; [reflexivity|]. cbn [snd].
    destruct (forallb _ _); [|apply sig_eq_refl].
    apply sig_union_eq; [exact Hsm|]. split; [exact Hu2|reflexivity].
  Qed.
End Compat.

(** C14 / C08: the specification's result is the same for JSON-equal instances - in
    particular for any order of the members of any object in the instance *)
Theorem spec_eval_comp re_match e : forall n C j j' l s,
  jeq j j' -> json_wf j = true -> json_wf j' = true ->
  ores_eq (spec_eval re_match n e C j l s) (spec_eval re_match n e C j' l s).
Proof.
  induction n as [|n IH]; intros C j j' l s Hq W W'; [exact I|].
  cbn [spec_eval]. apply spec_body_comp; [|repeat split; assumption].
  intros a a' l0 c Ha Wa Wa'. now apply IH.
Qed.

Corollary spec_valid_comp re_match n e j j' :
  jeq j j' -> json_wf j = true -> json_wf j' = true -> spec_valid re_match n e j = spec_valid re_match n e j'.
Proof.
  intros Hq W W'. unfold spec_valid. destruct (node_at e (0, [])) as [root|]; [|reflexivity].
  pose proof (spec_eval_comp re_match e n [] j j' (0, []) root Hq W W') as H. unfold ores_eq in H.
  destruct (spec_eval re_match n e [] j (0, []) root) as [[b sg]|]; destruct (spec_eval re_match n e [] j' (0, []) root) as [[b' sg']|]; try contradiction; [|reflexivity].
  destruct H as [Hb _]. cbn in Hb. cbn. now rewrite Hb.
Qed.
