(** uniqueItems: the bucket algorithm of validate.go decides pairwise distinctness by
    Equal, for every bucket function (i.e. for every hash seed) - C12_unique. *)
From Coq Require Import List NArith ZArith QArith Bool Lia.
From JS Require Import Str StrFacts Lit Json Res GoValue Equal EqualFacts Hash HashFacts Schema Env Ann Validate Spec.
Import ListNotations.
Open Scope list_scope.
Local Open Scope nat_scope.

Section Unique.
  Variable hash : list tok -> Z.

  Lemma bucket_get_add h h' i t :
    bucket_get h (bucket_add h' i t) = if Z.eqb h h' then bucket_get h t ++ [i] else bucket_get h t.
  Proof.
    induction t as [|[h0 l0] r IH]; cbn [bucket_add bucket_get].
    - destruct (Z.eqb h h'); reflexivity.
    - destruct (Z.eqb h' h0) eqn:E1; cbn [bucket_get].
      + apply Z.eqb_eq in E1. subst h0. destruct (Z.eqb h h') eqn:E2; reflexivity.
      + destruct (Z.eqb h h0) eqn:E2.
        * apply Z.eqb_eq in E2. subst h0. rewrite Z.eqb_sym in E1. now rewrite E1.
        * exact IH.
  Qed.

  (** the table holds, under each hash value, exactly the earlier indexes with that hash *)
  Definition inv (all : list gv) (n : nat) (t : list (Z * list nat)) : Prop :=
    forall h j, In j (bucket_get h t) <-> (j < n /\ hash (hash_stream (nth j all GNil)) = h).

  Lemma inv_nil all : inv all 0 [].
  Proof. intros h j. cbn. split; [contradiction|lia]. Qed.

  Lemma inv_add all n t :
    inv all n t -> inv all (S n) (bucket_add (hash (hash_stream (nth n all GNil))) n t).
  Proof.
    intros H h j. rewrite bucket_get_add.
    destruct (Z.eqb h (hash (hash_stream (nth n all GNil)))) eqn:E.
    - apply Z.eqb_eq in E. rewrite in_app_iff, (H h j). cbn [In]. split.
      + intros [[H1 H2]|[<-|[]]]; split; auto; lia.
      + intros [H1 H2]. destruct (Nat.eq_dec j n) as [->|Hne]; [right; now left|left; split; auto; lia].
    - apply Z.eqb_neq in E. rewrite (H h j). split; intros [H1 H2]; split; auto; try lia.
      destruct (Nat.eq_dec j n) as [->|Hne]; [congruence|lia].
  Qed.

  Lemma unique_loop_spec pre : forall items t,
    Forall (fun x => gv_wf x = true) (pre ++ items) ->
    inv (pre ++ items) (length pre) t ->
    unique_loop hash (pre ++ items) (length pre) items t = distinct_from (map den pre) (map den items).
  Proof.
    intros items. revert pre. induction items as [|item r IH]; intros pre t Hwf Hinv; [reflexivity|].
    cbn [unique_loop map distinct_from].
    set (all := pre ++ item :: r) in *.
    assert (Hnth : nth (length pre) all GNil = item).
    { subst all. rewrite app_nth2 by lia. now rewrite Nat.sub_diag. }
    assert (Hex : existsb (fun j => equalValue item (nth j all GNil)) (bucket_get (hash (hash_stream item)) t)
                  = existsb (fun y => json_eqb (den item) y) (map den pre)).
    { destruct (existsb (fun y => json_eqb (den item) y) (map den pre)) eqn:E2.
      - apply existsb_exists in E2 as (y & Hy & He). apply in_map_iff in Hy as (p & <- & Hp).
        apply existsb_exists. apply In_nth with (d := GNil) in Hp as (j & Hj & Hpj).
        assert (Hall : nth j all GNil = p) by (subst all; rewrite app_nth1 by lia; exact Hpj).
        exists j. split.
        + apply Hinv. split; [exact Hj|]. rewrite Hall. f_equal. symmetry.
          rewrite Forall_forall in Hwf. apply hash_law.
          * apply Hwf. subst all. apply in_or_app. right. now left.
          * apply Hwf. subst all. apply in_or_app. left. rewrite <- Hpj. now apply nth_In.
          * now rewrite equalValue_den.
        + rewrite Hall. now rewrite equalValue_den.
      - destruct (existsb _ (bucket_get _ t)) eqn:E1; [|reflexivity].
        apply existsb_exists in E1 as (j & Hj & He). apply Hinv in Hj as [Hj _].
        assert (existsb (fun y => json_eqb (den item) y) (map den pre) = true); [|congruence].
        apply existsb_exists. exists (den (nth j all GNil)). split.
        + apply in_map. subst all. rewrite app_nth1 by lia. now apply nth_In.
        + now rewrite <- equalValue_den. }
    rewrite Hex. destruct (existsb _ (map den pre)); cbn [negb andb]; [reflexivity|].
    specialize (IH (pre ++ [item]) (bucket_add (hash (hash_stream item)) (length pre) t)).
    rewrite <- app_assoc in IH. cbn [app] in IH. fold all in IH.
    rewrite app_length in IH. cbn [length] in IH. rewrite Nat.add_1_r in IH.
    rewrite map_app in IH. cbn [map] in IH. apply IH; [exact Hwf|].
    rewrite <- Hnth. now apply inv_add.
  Qed.

  Theorem check_unique_spec s items :
    Forall (fun x => gv_wf x = true) items ->
    check_unique hash s items = guard (if s_uniqueItems s then distinct (map den items) else true).
  Proof.
    intros Hwf. unfold check_unique, distinct.
    destruct (s_uniqueItems s); cbn [andb]; [|reflexivity].
    destruct (Nat.ltb 1 (length items)) eqn:E.
    - f_equal. apply (unique_loop_spec [] items []); [exact Hwf|apply inv_nil].
    - destruct items as [|x [|y r]]; cbn in *; try reflexivity; discriminate.
  Qed.
End Unique.
