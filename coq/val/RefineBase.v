(** Refinement of the evaluator model to the specification: vocabulary and the
    lemmas for in-place applicator loops. *)
From Coq Require Import List NArith ZArith QArith Bool Lia Btauto.
From JS Require Import Str StrFacts Lit Json Res GoValue Equal EqualFacts Hash Schema Env Ann Validate Spec.
Import ListNotations.
Open Scope list_scope.
Local Open Scope nat_scope.

(** what the code's compressed bookkeeping says about an index / a property *)
Definition inI (a : anns) (i : nat) : bool := allItems a || Nat.ltb i (endIndex a) || mem_nat i (evalIdx a).
Definition inP (a : anns) (k : str) : bool := allProps a || mem_str k (evalProps a).
Definition sinI (sg : sigma) (i : nat) : bool := mem_nat i (sI sg).
Definition sinP (sg : sigma) (k : str) : bool := mem_str k (sP sg).

Definition arr_len (j : json) : nat := match j with JArr l => length l | _ => 0 end.
Definition obj_keys (j : json) : list str := match j with JObj m => keys m | _ => [] end.

(** the abstraction gamma of DESIGN Appendix A, as pointwise agreement on the instance *)
Definition gamma_ok (j : json) (a : anns) (sg : sigma) : Prop :=
  (forall i, i < arr_len j -> inI a i = sinI sg i) /\
  (forall k, In k (obj_keys j) -> inP a k = sinP sg k).

(** the model's result agrees with the specification's (verdict, sigma) *)
Definition agrees (j : json) (r : res anns) (sr : bool * sigma) : Prop :=
  if fst sr then exists a, r = Ok a /\ gamma_ok j a (snd sr) else r = Err.

(** [a'] extends [a] by exactly [sg] (on the instance j) *)
Definition ext (j : json) (a a' : anns) (sg : sigma) : Prop :=
  (forall i, i < arr_len j -> inI a' i = inI a i || sinI sg i) /\
  (forall k, In k (obj_keys j) -> inP a' k = inP a k || sinP sg k).

Lemma mem_nat_app i l1 l2 : mem_nat i (l1 ++ l2) = mem_nat i l1 || mem_nat i l2.
Proof. induction l1; cbn; [reflexivity|]. rewrite IHl1. now rewrite orb_assoc. Qed.
Lemma mem_str_app k l1 l2 : mem_str k (l1 ++ l2) = mem_str k l1 || mem_str k l2.
Proof. induction l1; cbn; [reflexivity|]. rewrite IHl1. now rewrite orb_assoc. Qed.

Lemma ltb_max i x y : Nat.ltb i (Nat.max x y) = Nat.ltb i x || Nat.ltb i y.
Proof.
  destruct (Nat.ltb_spec i x), (Nat.ltb_spec i y), (Nat.ltb_spec i (Nat.max x y)); cbn; try reflexivity; lia.
Qed.

Lemma inI_merge a b i : inI (merge a b) i = inI a i || inI b i.
Proof. unfold inI, merge; cbn [allItems endIndex evalIdx]. rewrite ltb_max, mem_nat_app. btauto. Qed.
Lemma inP_merge a b k : inP (merge a b) k = inP a k || inP b k.
Proof. unfold inP, merge; cbn [allProps evalProps]. rewrite mem_str_app. btauto. Qed.
Lemma sinI_union s t i : sinI (sig_union s t) i = sinI s i || sinI t i.
Proof. unfold sinI, sig_union; cbn. apply mem_nat_app. Qed.
Lemma sinP_union s t k : sinP (sig_union s t) k = sinP s k || sinP t k.
Proof. unfold sinP, sig_union; cbn. apply mem_str_app. Qed.
Lemma sinI_sig0 i : sinI sig0 i = false. Proof. reflexivity. Qed.
Lemma sinP_sig0 k : sinP sig0 k = false. Proof. reflexivity. Qed.
Lemma inI_no_anns i : inI no_anns i = false.
Proof. unfold inI, no_anns; cbn. destruct i; reflexivity. Qed.
Lemma inP_no_anns k : inP no_anns k = false. Proof. reflexivity. Qed.

Lemma ext_refl j a : ext j a a sig0.
Proof. split; intros; rewrite ?sinI_sig0, ?sinP_sig0, orb_false_r; reflexivity. Qed.

Lemma ext_merge j a b sg : gamma_ok j b sg -> ext j a (merge a b) sg.
Proof.
  intros [HI HP]. split; intros.
  - rewrite inI_merge, HI; auto.
  - rewrite inP_merge, HP; auto.
Qed.

Lemma ext_trans j a b c s t : ext j a b s -> ext j b c t -> ext j a c (sig_union s t).
Proof.
  intros [H1 H2] [H3 H4]. split; intros.
  - rewrite H3, H1, sinI_union by auto. btauto.
  - rewrite H4, H2, sinP_union by auto. btauto.
Qed.

Lemma gamma_of_ext j a sg : ext j no_anns a sg -> gamma_ok j a sg.
Proof.
  intros [H1 H2]. split; intros.
  - rewrite H1, inI_no_anns by auto. reflexivity.
  - rewrite H2, inP_no_anns by auto. reflexivity.
Qed.

(** pointwise-equal sigmas are interchangeable *)
Definition sig_eqv (j : json) (s t : sigma) : Prop :=
  (forall i, i < arr_len j -> sinI s i = sinI t i) /\ (forall k, In k (obj_keys j) -> sinP s k = sinP t k).
Lemma ext_eqv j a a' s t : sig_eqv j s t -> ext j a a' s -> ext j a a' t.
Proof. intros [E1 E2] [H1 H2]. split; intros; [rewrite H1, E1|rewrite H2, E2]; auto. Qed.

Lemma bind_Ok {A B} (r : res A) (f : A -> res B) a : r = Ok a -> bind r f = f a.
Proof. now intros ->. Qed.
Lemma bind_Err {A B} (r : res A) (f : A -> res B) : r = Err -> bind r f = Err.
Proof. now intros ->. Qed.

Lemma eval_all_cons {A} (f : A -> sres) x l rs :
  eval_all f (x :: l) = Some rs -> exists y t, f x = Some y /\ eval_all f l = Some t /\ rs = y :: t.
Proof.
  cbn. destruct (f x) as [y|]; [|discriminate]. destruct (eval_all f l) as [t|]; [|discriminate].
  intros [= <-]. eauto.
Qed.

Lemma eval_all_map {A B} (g : A -> B) (f : B -> sres) l : eval_all f (map g l) = eval_all (fun x => f (g x)) l.
Proof. induction l; cbn; [reflexivity|]. now rewrite IHl. Qed.

Lemma eval_all_ext {A} (f g : A -> sres) l : (forall x, In x l -> f x = g x) -> eval_all f l = eval_all g l.
Proof.
  induction l; cbn; intros H; [reflexivity|]. rewrite H by now left. rewrite IHl; auto.
Qed.

Lemma eval_all_length {A} (f : A -> sres) l rs : eval_all f l = Some rs -> length rs = length l.
Proof.
  revert rs; induction l; cbn; intros rs H; [now inversion H|].
  destruct (f a); [|discriminate]. destruct (eval_all f l); [|discriminate]. inversion H; subst. cbn. f_equal. auto.
Qed.

Lemma index_from_combine {A} i (l : list A) : index_from i l = combine (seq i (length l)) l.
Proof. revert i; induction l; intros i; cbn; [reflexivity|]. now rewrite IHl. Qed.

Section Loops.
  Variable v : vfun.
  Variable ev : efun.
  (** the recursive calls agree (induction hypothesis of the main theorem) *)
  Hypothesis Hagree : forall g l c sr, gv_wf g = true -> ev (den g) l c = Some sr -> agrees (den g) (v g l c) sr.

  Variable inst : gv.
  Hypothesis Hwf : gv_wf inst = true.
  Let j := den inst.

  Lemma agree_inst l c sr : ev j l c = Some sr -> agrees j (v inst l c) sr.
  Proof. now apply Hagree. Qed.

  (** allOf-style loop: every branch must succeed; annotations are merged *)
  Lemma all_merge_spec lcs : forall rs a,
    eval_all (fun lc => ev j (fst lc) (snd lc)) lcs = Some rs ->
    if all_true rs then exists a', all_merge v inst lcs a = Ok a' /\ ext j a a' (sig_of_true rs)
    else all_merge v inst lcs a = Err.
  Proof.
    induction lcs as [|[l c] r IH]; intros rs a H.
    - inversion H; subst. cbn. exists a. split; [reflexivity|apply ext_refl].
    - apply eval_all_cons in H as ([b sg] & t & Hx & Ht & ->). cbn [fst snd] in Hx.
      apply agree_inst in Hx. unfold agrees in Hx. cbn [fst snd] in Hx.
      cbn [all_merge all_true forallb fst]. destruct b; cbn [andb].
      + destruct Hx as (a1 & Hv & Hg). rewrite Hv. cbn [bind].
        specialize (IH t (merge a a1) Ht). unfold all_true in IH.
        destruct (forallb (fun r => fst r) t).
        * destruct IH as (a' & Ha' & Hext). exists a'. split; [exact Ha'|].
          cbn [sig_of_true fold_right fst snd].
          eapply ext_trans; [apply ext_merge; exact Hg|exact Hext].
        * exact IH.
      + rewrite Hx. reflexivity.
  Qed.

  (** anyOf loop: all branches visited, successes merged and counted *)
  Lemma anyof_loop_spec lcs : forall rs a n,
    eval_all (fun lc => ev j (fst lc) (snd lc)) lcs = Some rs ->
    exists a', anyof_loop v inst lcs a n = Ok (n + count_true rs, a') /\ ext j a a' (sig_of_true rs).
  Proof.
    induction lcs as [|[l c] r IH]; intros rs a n H.
    - inversion H; subst. cbn. rewrite Nat.add_0_r. exists a. split; [reflexivity|apply ext_refl].
    - apply eval_all_cons in H as ([b sg] & t & Hx & Ht & ->). cbn [fst snd] in Hx.
      apply agree_inst in Hx. unfold agrees in Hx. cbn [fst snd] in Hx.
      cbn [anyof_loop]. destruct b.
      + destruct Hx as (a1 & Hv & Hg). rewrite Hv. cbn [attempt].
        destruct (IH t (merge a a1) (S n) Ht) as (a' & Ha' & Hext).
        exists a'. split.
        * rewrite Ha'. unfold count_true. cbn [filter fst length]. f_equal. f_equal. lia.
        * cbn [sig_of_true fold_right fst snd]. eapply ext_trans; [apply ext_merge; exact Hg|exact Hext].
      + rewrite Hx. cbn [attempt].
        destruct (IH t a n Ht) as (a' & Ha' & Hext). exists a'. split; [|exact Hext].
        rewrite Ha'. unfold count_true. cbn [filter fst]. reflexivity.
  Qed.

  (** oneOf loop: a second success is an error *)
  Lemma oneof_loop_spec lcs : forall rs a seen,
    eval_all (fun lc => ev j (fst lc) (snd lc)) lcs = Some rs ->
    match count_true rs, seen with
    | O, _ => exists a', oneof_loop v inst lcs a seen = Ok (seen, a') /\ ext j a a' (sig_of_true rs)
    | S O, false => exists a', oneof_loop v inst lcs a seen = Ok (true, a') /\ ext j a a' (sig_of_true rs)
    | _, _ => oneof_loop v inst lcs a seen = Err
    end.
  Proof.
    induction lcs as [|[l c] r IH]; intros rs a seen H.
    - inversion H; subst. cbn. exists a. split; [reflexivity|apply ext_refl].
    - apply eval_all_cons in H as ([b sg] & t & Hx & Ht & ->). cbn [fst snd] in Hx.
      apply agree_inst in Hx. unfold agrees in Hx. cbn [fst snd] in Hx.
      cbn [oneof_loop]. destruct b.
      + destruct Hx as (a1 & Hv & Hg). rewrite Hv. cbn [attempt].
        unfold count_true. cbn [filter fst length]. fold (count_true t).
        destruct seen.
        * destruct (count_true t); reflexivity.
        * specialize (IH t (merge a a1) true Ht).
          destruct (count_true t) as [|k].
          -- destruct IH as (a' & Ha' & Hext). exists a'. split; [exact Ha'|].
             cbn [sig_of_true fold_right fst snd]. eapply ext_trans; [apply ext_merge; exact Hg|exact Hext].
          -- destruct k; exact IH.
      + rewrite Hx. cbn [attempt]. unfold count_true. cbn [filter fst]. fold (count_true t).
        specialize (IH t a seen Ht). cbn [sig_of_true fold_right fst snd]. exact IH.
  Qed.
End Loops.
