(** The resolved environment: what [Schema.Resolve] computes ([Resolved]). Schemas are
    identified by location (document index, path) instead of by pointer. *)
From Coq Require Import List NArith ZArith QArith Bool.
From JS Require Import Str Json GoValue Schema.
Import ListNotations.
Open Scope list_scope.

Definition seg_eqb (a b : seg) : bool :=
  match a, b with
  | SKey x, SKey y => str_eqb x y
  | SIdx i, SIdx j => Nat.eqb i j
  | _, _ => false
  end.

Fixpoint path_eqb (a b : list seg) : bool :=
  match a, b with
  | [], [] => true
  | x :: a', y :: b' => seg_eqb x y && path_eqb a' b'
  | _, _ => false
  end.

Definition loc := (nat * list seg)%type.
Definition loc_eqb (a b : loc) : bool := Nat.eqb (fst a) (fst b) && path_eqb (snd a) (snd b).

Fixpoint lookup_loc {A} (l : loc) (t : list (loc * A)) : option A :=
  match t with
  | [] => None
  | (l', v) :: r => if loc_eqb l l' then Some v else lookup_loc l r
  end.

(** resolvedInfo, minus what is derivable from the schema itself *)
Record rinfo := mkRinfo {
  ri_base : loc;                               (* base: the enclosing schema resource *)
  ri_anchors : list (str * (loc * bool));      (* anchors of a base: name -> (schema, dynamic?) *)
  ri_ref : option loc;                         (* resolvedRef *)
  ri_dynref : option loc;                      (* resolvedDynamicRef *)
  ri_dynanchor : str                           (* dynamicRefAnchor *)
}.

Record env := mkEnv {
  e_draft7 : bool;                     (* rs.draft == draft7 *)
  e_version : str;                     (* rs.root.Schema *)
  e_nodes : list (loc * schema);       (* every schema object known to rs.resolvedInfos *)
  e_infos : list (loc * rinfo)         (* rs.resolvedInfos *)
}.

Definition node_at (e : env) (l : loc) : option schema := lookup_loc l (e_nodes e).
Definition info_at (e : env) (l : loc) : option rinfo := lookup_loc l (e_infos e).

Definition child_loc (l : loc) (p : list seg) : loc := (fst l, snd l ++ p).
