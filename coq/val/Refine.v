(** The evaluator model refines the specification (C01, C02, C06, C07). *)
From Coq Require Import List NArith ZArith QArith Bool Lia Btauto.
From JS Require Import Str StrFacts Lit Json Res GoValue Equal EqualFacts Hash HashFacts Schema SchemaFacts Env Ann
     Validate Spec Unique RefineBase RefineArr RefineObj RefineAssert.
Import ListNotations.
Open Scope list_scope.
Local Open Scope nat_scope.

Section Refine.
  Variable re_match : str -> str -> bool.
  Variable hash : list tok -> Z.
  Variable e : env.

  (** the empty schema accepts everything (used for the falsy additionalProperties shortcut) *)
  Lemma eval_all_const_true {A} (l : list A) :
    eval_all (fun _ : A => Some (true, sig0)) l = Some (map (fun _ => (true, sig0)) l).
  Proof. induction l; cbn; [reflexivity|]. now rewrite IHl. Qed.

  Lemma all_true_const {A} (l : list A) : all_true (map (fun _ => (true, sig0)) l) = true.
  Proof. induction l; cbn; auto. Qed.

  Lemma spec_body_empty ev C j l sr : spec_body re_match e ev C j l empty_schema = Some sr -> fst sr = true.
  Proof.
    unfold spec_body. cbn [empty_schema s_ref s_dynamicRef s_allOf s_anyOf s_oneOf s_not s_if s_then s_else olist idx_list
                           length seq combine eval_all one andb].
    rewrite andb_false_r.
    assert (Harr : match j with JArr items => spec_arrays e ev l empty_schema items | _ => Some (true, []) end
                   = Some (true, [])).
    { destruct j as [| | | |items|]; try reflexivity.
      unfold spec_arrays, ar_prefix, ar_rest, ar_contains, ar_prefix_list, ar_prefix_name, ar_rest_schema.
      cbn [empty_schema s_itemsArray s_prefixItems s_additionalItems s_items s_contains olist option_map].
      destruct (e_draft7 e); destruct items; reflexivity. }
    rewrite Harr.
    assert (Hobj : match j with JObj m => spec_objects re_match e ev j l empty_schema m | _ => Some (true, sig0, sig0) end
                   = Some (true, match j with JObj m => mkSigma [] [] | _ => sig0 end, sig0)).
    { destruct j as [| | | | |m]; try reflexivity.
      unfold spec_objects, ob_ev_props, ob_ev_pats, ob_ev_add, ob_ev_names, ob_ev_deps, ob_additional, ob_p_props, ob_p_pats, ob_deps, ob_deps_name.
      cbn [empty_schema s_properties s_patternProperties s_additionalProperties s_propertyNames s_dependencySchemas
                        s_dependentSchemas olist eval_all existsb].
      assert (Hd : (if e_draft7 e then @nil (str * schema) else []) = []) by (destruct (e_draft7 e); reflexivity).
      rewrite Hd. cbn [eval_all option_map all_true forallb].
      rewrite (eval_all_const_true m). cbn [all_true forallb andb].
      rewrite all_true_const. cbn [andb].
      f_equal. f_equal. f_equal.
      assert (forall l0 : list str, filter (fun _ : str => false) l0 = []) as Hf by (induction l0; auto).
      now rewrite !Hf. }
    rewrite Hobj.
    unfold spec_uneval_items, spec_uneval_props.
    cbn [empty_schema s_unevaluatedItems s_unevaluatedProperties].
    assert (H1 : forall (A : Type) (x y : A), match j with JArr _ => x | _ => x end = x) by (intros; destruct j; reflexivity).
    intros H.
    destruct (e_draft7 e); destruct j; cbn in H; injection H as <-; reflexivity.
  Qed.

  Lemma forallb_id_false (l : list bool) : In false l -> forallb (fun b => b) l = false.
  Proof. induction l as [|b r IH]; cbn; [contradiction|]. intros [->|H]; [reflexivity|]. rewrite IH by exact H. apply andb_false_r. Qed.

  (** a schema whose "not" is the empty schema rejects every instance (unless draft-07 masks
      it behind a $ref) *)
  Lemma spec_eval_falsy n C x lc ap z sr :
    s_not ap = Some z -> is_zero_schema z = true ->
    negb (e_draft7 e && nonempty (s_ref ap)) = true ->
    spec_eval re_match n e C x lc ap = Some sr -> fst sr = false.
  Proof.
    intros Hnot Hz Hd H. destruct n as [|n]; [discriminate|]. cbn [spec_eval] in H.
    apply is_zero_schema_eq in Hz. subst z.
    unfold spec_body in H.
    destruct (match s_ref ap with [] => Some [] | _ => _ end) as [r_ref|]; [|discriminate].
    apply negb_true_iff in Hd. unfold nonempty in Hd. rewrite Hd in H.
    rewrite Hnot in H. unfold one at 1 in H. cbn [eval_all] in H.
    destruct (match s_dynamicRef ap with [] => Some [] | _ => _ end) as [r_dyn|]; [|discriminate].
    destruct (eval_all _ (idx_list (olist (s_allOf ap)))) as [r_all|]; [|discriminate].
    destruct (eval_all _ (idx_list (olist (s_anyOf ap)))) as [r_any|]; [|discriminate].
    destruct (eval_all _ (idx_list (olist (s_oneOf ap)))) as [r_one|]; [|discriminate].
    destruct (spec_eval re_match n e (C ++ [lc]) x (ch lc (lit "not"%lit)) empty_schema) as [y|] eqn:Hy; [|discriminate].
    assert (Hy1 : fst y = true).
    { destruct n as [|n]; [discriminate|]. cbn [spec_eval] in Hy. eapply spec_body_empty; eauto. }
    destruct (one _ x (ch lc (lit "if"%lit)) (s_if ap)) as [r_if|]; [|discriminate].
    destruct (one _ x (ch lc (lit "then"%lit)) (s_then ap)) as [r_then|]; [|discriminate].
    destruct (one _ x (ch lc (lit "else"%lit)) (s_else ap)) as [r_else|]; [|discriminate].
    destruct (match r_if with [] => _ | _ => _ end) as [ok_cond sig_cond].
    destruct (match x with JArr items => _ | _ => Some (true, []) end) as [[ok_arr i_arr]|]; [|discriminate].
    destruct (match x with JObj m => _ | _ => Some (true, sig0, sig0) end) as [[[ok_obj sig_obj] sig_deps]|]; [|discriminate].
    destruct (spec_uneval_items _ _ _ _ _) as [[ok_ui i_ui]|]; [|discriminate].
    destruct (spec_uneval_props _ _ _ _ _) as [[ok_up p_up]|]; [|discriminate].
    injection H as <-. cbn [fst forallb app existsb].
    rewrite Hy1. cbn [orb negb andb]. now rewrite !andb_false_r.
  Qed.

  Lemma dyn_lookup_spec C a o : scope_lookup e C a = Some o -> dyn_lookup e C a = Ok o.
  Proof.
    induction C as [|c r IH]; cbn; [now intros [= <-]|].
    destruct (info_at e c) as [si|]; [|discriminate].
    destruct (info_at e (ri_base si)) as [bi|]; [|discriminate].
    destruct (lookup a (ri_anchors bi)) as [[t [|]]|]; auto. now intros [= <-].
  Qed.

  Lemma one_some ev j lc c rs : one ev j lc (Some c) = Some rs -> exists y, ev j lc c = Some y /\ rs = [y].
  Proof. unfold one. cbn [eval_all]. destruct (ev j lc c) as [y|]; [|discriminate]. intros [= <-]. eauto. Qed.

  Section Body.
    Variable n : nat.
    Variable C' : list loc.
    Let v := validate re_match hash n e C'.
    Let ev := spec_eval re_match n e C'.
    Hypothesis IH : forall g l c sr, gv_wf g = true -> ev (den g) l c = Some sr -> agrees (den g) (v g l c) sr.
    Variable inst : gv.
    Hypothesis Hw : gv_wf inst = true.
    Let j := den inst.

    Lemma agree_j lc c sr : ev j lc c = Some sr -> agrees j (v inst lc c) sr.
    Proof. now apply IH. Qed.

    (** $ref *)
    Lemma ref_phase l s r_ref :
      (match s_ref s with
       | [] => Some []
       | _ => match info_at e l with
              | Some i => match ri_ref i with
                          | Some t => match node_at e t with Some c => eval_all (fun c => ev j t c) [c] | None => None end
                          | None => None
                          end
              | None => None
              end
       end) = Some r_ref ->
      let M := (if nonempty (s_ref s) then
                  match info_at e l with
                  | None => Panic
                  | Some i => match ri_ref i with
                              | None => Panic
                              | Some t => a <- call_at e v inst t ;; Ok (merge no_anns a, e_draft7 e)
                              end
                  end
                else Ok (no_anns, false)) in
      if all_true r_ref
      then exists a1, M = Ok (a1, e_draft7 e && nonempty (s_ref s)) /\ ext j no_anns a1 (sig_of_true r_ref)
      else M = Err.
    Proof.
      intros H M. subst M. destruct (s_ref s) as [|c0 r0]; cbn [nonempty].
      - injection H as <-. cbn [all_true forallb]. exists no_anns. rewrite andb_false_r. split; [reflexivity|apply ext_refl].
      - destruct (info_at e l) as [i|]; [|discriminate]. destruct (ri_ref i) as [t|]; [|discriminate].
        unfold call_at. destruct (node_at e t) as [c|]; [|discriminate].
        cbn [eval_all] in H. destruct (ev j t c) as [[b sg]|] eqn:Hy; [|discriminate]. injection H as <-.
        apply agree_j in Hy. unfold agrees in Hy. cbn [fst snd] in Hy.
        cbn [all_true forallb fst]. destruct b; cbn [andb].
        + destruct Hy as (a & Hv & Hg). rewrite Hv. cbn [bind]. eexists. rewrite andb_true_r. split; [reflexivity|].
          cbn [sig_of_true fold_right fst snd]. eapply ext_eqv; [|apply ext_merge; exact Hg].
          split; intros; now rewrite ?sinI_union, ?sinP_union, ?sinI_sig0, ?sinP_sig0, ?orb_false_r.
        + now rewrite Hy.
    Qed.

    (** $dynamicRef *)
    Lemma dyn_phase l s a1 r_dyn :
      (match s_dynamicRef s with
       | [] => Some []
       | _ => match info_at e l with
              | Some i =>
                  match ri_dynref i with
                  | Some t0 =>
                      match (match ri_dynanchor i with
                             | [] => Some t0
                             | a => option_map (fun o => match o with Some t => t | None => t0 end) (scope_lookup e C' a)
                             end) with
                      | Some t => match node_at e t with Some c => eval_all (fun c => ev j t c) [c] | None => None end
                      | None => None
                      end
                  | None => None
                  end
              | None => None
              end
       end) = Some r_dyn ->
      let M := (if nonempty (s_dynamicRef s) then
                  match info_at e l with
                  | None => Panic
                  | Some i =>
                      match ri_dynref i with
                      | None => Panic
                      | Some t0 =>
                          t <- (if nonempty (ri_dynanchor i) then
                                  d <- dyn_lookup e C' (ri_dynanchor i) ;;
                                  Ok (match d with Some t => t | None => t0 end)
                                else Ok t0) ;;
                          a <- call_at e v inst t ;; Ok (merge a1 a)
                      end
                  end
                else Ok a1) in
      if all_true r_dyn
      then exists a2, M = Ok a2 /\ ext j a1 a2 (sig_of_true r_dyn)
      else M = Err.
    Proof.
      intros H M. subst M. destruct (s_dynamicRef s) as [|c0 r0]; cbn [nonempty].
      - injection H as <-. cbn [all_true forallb]. exists a1. split; [reflexivity|apply ext_refl].
      - destruct (info_at e l) as [i|]; [|discriminate]. destruct (ri_dynref i) as [t0|]; [|discriminate].
        assert (Ht : exists t, (if nonempty (ri_dynanchor i)
                                then d <- dyn_lookup e C' (ri_dynanchor i) ;; Ok (match d with Some t => t | None => t0 end)
                                else Ok t0) = Ok t /\
                               match node_at e t with Some c => eval_all (fun c => ev j t c) [c] | None => None end = Some r_dyn).
        { destruct (ri_dynanchor i) as [|a ar]; cbn [nonempty].
          - exists t0. split; [reflexivity|exact H].
          - destruct (scope_lookup e C' (a :: ar)) as [o|] eqn:Es; cbn [option_map] in H; [|discriminate].
            rewrite (dyn_lookup_spec _ _ _ Es). cbn [bind]. eexists. split; [reflexivity|exact H]. }
        destruct Ht as (t & Ht & H'). rewrite Ht. cbn [bind].
        unfold call_at. destruct (node_at e t) as [c|]; [|discriminate].
        cbn [eval_all] in H'. destruct (ev j t c) as [[b sg]|] eqn:Hy; [|discriminate]. injection H' as <-.
        apply agree_j in Hy. unfold agrees in Hy. cbn [fst snd] in Hy.
        cbn [all_true forallb fst]. destruct b; cbn [andb].
        + destruct Hy as (a & Hv & Hg). rewrite Hv. cbn [bind]. eexists. split; [reflexivity|].
          cbn [sig_of_true fold_right fst snd]. eapply ext_eqv; [|apply ext_merge; exact Hg].
          split; intros; now rewrite ?sinI_union, ?sinP_union, ?sinI_sig0, ?sinP_sig0, ?orb_false_r.
        + now rewrite Hy.
    Qed.

    (** not *)
    Lemma not_phase l s r_not :
      one ev j (ch l (lit "not"%lit)) (s_not s) = Some r_not ->
      (match s_not s with
       | Some c => attempt (v inst (one_loc l (lit "not"%lit)) c) (fun _ => Err) (Ok tt)
       | None => Ok tt
       end) = if negb (existsb (fun r => fst r) r_not) then Ok tt else Err.
    Proof.
      intros H. destruct (s_not s) as [c|].
      - apply one_some in H as ([b sg] & Hy & ->). change (one_loc l (lit "not"%lit)) with (ch l (lit "not"%lit)).
        apply agree_j in Hy. unfold agrees in Hy. cbn [fst snd] in Hy. cbn [existsb fst orb].
        destruct b; cbn [negb].
        + destruct Hy as (a & Hv & _). now rewrite Hv.
        + now rewrite Hy.
      - injection H as <-. reflexivity.
    Qed.

    (** if / then / else *)
    Lemma cond_phase l s a5 r_if r_then r_else :
      one ev j (ch l (lit "if"%lit)) (s_if s) = Some r_if ->
      one ev j (ch l (lit "then"%lit)) (s_then s) = Some r_then ->
      one ev j (ch l (lit "else"%lit)) (s_else s) = Some r_else ->
      let oc := match r_if with
                | [] => (true, sig0)
                | (true, s0) :: _ => (all_true r_then, sig_union s0 (sig_of_true r_then))
                | (false, _) :: _ => (all_true r_else, sig_of_true r_else)
                end in
      let M := match s_if s with
               | Some c =>
                   attempt (v inst (one_loc l (lit "if"%lit)) c)
                           (fun a' =>
                              let a := merge a5 a' in
                              match s_then s with
                              | Some t => a'' <- v inst (one_loc l (lit "then"%lit)) t ;; Ok (merge a a'')
                              | None => Ok a
                              end)
                           (match s_else s with
                            | Some t => a'' <- v inst (one_loc l (lit "else"%lit)) t ;; Ok (merge a5 a'')
                            | None => Ok a5
                            end)
               | None => Ok a5
               end in
      if fst oc then exists a6, M = Ok a6 /\ ext j a5 a6 (snd oc) else M = Err.
    Proof.
      intros Hi Ht He oc M. subst oc M.
      change (one_loc l (lit "if"%lit)) with (ch l (lit "if"%lit)).
      change (one_loc l (lit "then"%lit)) with (ch l (lit "then"%lit)).
      change (one_loc l (lit "else"%lit)) with (ch l (lit "else"%lit)).
      destruct (s_if s) as [c|].
      - apply one_some in Hi as ([b s0] & Hy & ->).
        apply agree_j in Hy. unfold agrees in Hy. cbn [fst snd] in Hy.
        destruct b.
        + destruct Hy as (a' & Hv & Hg). rewrite Hv. cbn [attempt fst snd].
          destruct (s_then s) as [t|].
          * apply one_some in Ht as ([b1 s1] & Hy1 & ->).
            apply agree_j in Hy1. unfold agrees in Hy1. cbn [fst snd] in Hy1.
            cbn [all_true forallb fst andb sig_of_true fold_right snd]. destruct b1.
            -- destruct Hy1 as (a'' & Hv1 & Hg1). rewrite Hv1. cbn [bind]. eexists. split; [reflexivity|].
               eapply ext_trans; [apply ext_merge; exact Hg|]. eapply ext_eqv; [|apply ext_merge; exact Hg1].
               split; intros; now rewrite ?sinI_union, ?sinP_union, ?sinI_sig0, ?sinP_sig0, ?orb_false_r.
            -- now rewrite Hy1.
          * injection Ht as <-. cbn [all_true forallb sig_of_true fold_right]. eexists. split; [reflexivity|].
            eapply ext_eqv; [|apply ext_merge; exact Hg].
            split; intros; now rewrite ?sinI_union, ?sinP_union, ?sinI_sig0, ?sinP_sig0, ?orb_false_r.
        + rewrite Hy. cbn [attempt fst snd].
          destruct (s_else s) as [t|].
          * apply one_some in He as ([b1 s1] & Hy1 & ->).
            apply agree_j in Hy1. unfold agrees in Hy1. cbn [fst snd] in Hy1.
            cbn [all_true forallb fst andb sig_of_true fold_right snd]. destruct b1.
            -- destruct Hy1 as (a'' & Hv1 & Hg1). rewrite Hv1. cbn [bind]. eexists. split; [reflexivity|].
               eapply ext_eqv; [|apply ext_merge; exact Hg1].
               split; intros; now rewrite ?sinI_union, ?sinP_union, ?sinI_sig0, ?sinP_sig0, ?orb_false_r.
            -- now rewrite Hy1.
          * injection He as <-. cbn [all_true forallb sig_of_true fold_right]. exists a5. split; [reflexivity|apply ext_refl].
      - injection Hi as <-. cbn [fst snd]. exists a5. split; [reflexivity|apply ext_refl].
    Qed.

    Lemma list_locs_eval l name cs :
      eval_all (fun lc => ev j (fst lc) (snd lc)) (list_locs l name cs)
      = eval_all (fun ic => ev j (ch_i l name (fst ic)) (snd ic)) (idx_list cs).
    Proof. unfold list_locs. rewrite eval_all_map, idx_list_index_from. reflexivity. Qed.

    Lemma gamma_sig0 a : gamma_ok j a sig0 -> True. Proof. trivial. Qed.

    Lemma body_spec l s sr :
      strip inst = inst ->
      spec_body re_match e ev C' j l s = Some sr ->
      agrees j (validate_body re_match hash e v C' inst l s) sr.
    Proof.
      intros Hst H. unfold spec_body in H.
      destruct (match s_ref s with [] => Some [] | _ => _ end) as [r_ref|] eqn:Href; [|discriminate].
      pose proof (ref_phase l s r_ref Href) as P1. cbn zeta in P1.
      unfold validate_body.
      change (match s_ref s with [] => false | _ :: _ => true end) with (nonempty (s_ref s)) in H.
      destruct (e_draft7 e && nonempty (s_ref s)) eqn:Ed7.
      { (* draft-07: only the $ref *)
        injection H as <-. unfold agrees. cbn [fst snd].
        destruct (all_true r_ref).
        - destruct P1 as (a1 & -> & _). cbn [bind snd]. exists no_anns. split; [reflexivity|].
          split; intros; now rewrite ?inI_no_anns, ?inP_no_anns.
        - now rewrite P1. }
      destruct (match s_dynamicRef s with [] => Some [] | _ => _ end) as [r_dyn|] eqn:Hdyn; [|discriminate].
      destruct (eval_all _ (idx_list (olist (s_allOf s)))) as [r_all|] eqn:Hall; [|discriminate].
      destruct (eval_all _ (idx_list (olist (s_anyOf s)))) as [r_any|] eqn:Hany; [|discriminate].
      destruct (eval_all _ (idx_list (olist (s_oneOf s)))) as [r_one|] eqn:Hone; [|discriminate].
      destruct (one _ j (ch l (lit "not"%lit)) (s_not s)) as [r_not|] eqn:Hnot; [|discriminate].
      destruct (one _ j (ch l (lit "if"%lit)) (s_if s)) as [r_if|] eqn:Hif; [|discriminate].
      destruct (one _ j (ch l (lit "then"%lit)) (s_then s)) as [r_then|] eqn:Hthen; [|discriminate].
      destruct (one _ j (ch l (lit "else"%lit)) (s_else s)) as [r_else|] eqn:Helse; [|discriminate].
      pose proof (cond_phase l s) as P6.
      destruct (match r_if with [] => (true, sig0) | _ => _ end) as [ok_cond sig_cond] eqn:Econd.
      destruct (match j with JArr items => _ | _ => Some (true, []) end) as [[ok_arr i_arr]|] eqn:Harr; [|discriminate].
      destruct (match j with JObj m => _ | _ => Some (true, sig0, sig0) end) as [[[ok_obj sig_obj] sig_deps]|] eqn:Hobj; [|discriminate].
      set (sig_minus := sig_union (sig_of_true r_ref) _) in H.
      destruct (spec_uneval_items ev j l s sig_minus) as [[ok_ui i_ui]|] eqn:Hui; [|discriminate].
      destruct (spec_uneval_props ev j l s sig_minus) as [[ok_up p_up]|] eqn:Hup; [|discriminate].
      injection H as <-. unfold agrees. cbn [fst snd app].
      (* $ref *)
      destruct (all_true r_ref) eqn:E1; [|rewrite P1; reflexivity].
      destruct P1 as (a1 & -> & X1). cbn [bind fst snd].
      (* type, enum, const, numbers, strings *)
      rewrite <- Hst.
      rewrite check_type_spec, check_enum_spec, check_const_spec, check_numbers_spec, check_strings_spec.
      rewrite Hst. fold j.
      rewrite !bind_guard.
      destruct (a_type s j); [|reflexivity].
      destruct (a_enum s j); [|reflexivity].
      destruct (a_const s j); [|reflexivity].
      destruct (a_numbers s j); [|reflexivity].
      destruct (a_strings re_match s j); [|reflexivity].
      (* $dynamicRef *)
      pose proof (dyn_phase l s a1 r_dyn Hdyn) as P2. cbn zeta in P2.
      destruct (all_true r_dyn) eqn:E2; [|rewrite P2; reflexivity].
      destruct P2 as (a2 & -> & X2). cbn [bind].
      (* allOf *)
      assert (Mall : (match s_allOf s with
                      | Some cs => all_merge v inst (list_locs l (lit "allOf"%lit) cs) a2
                      | None => Ok a2
                      end) = all_merge v inst (list_locs l (lit "allOf"%lit) (olist (s_allOf s))) a2)
        by (destruct (s_allOf s); reflexivity).
      rewrite Mall. clear Mall.
      rewrite <- list_locs_eval in Hall.
      pose proof (all_merge_spec v ev IH inst Hw _ _ a2 Hall) as P3.
      destruct (all_true r_all) eqn:E3; [|rewrite P3; reflexivity].
      destruct P3 as (a3 & -> & X3). cbn [bind].
      (* anyOf *)
      rewrite <- list_locs_eval in Hany.
      destruct (anyof_loop_spec v ev IH inst Hw _ _ a3 0 Hany) as (a4' & P4 & X4).
      assert (Many : if match s_anyOf s with Some _ => Nat.ltb 0 (count_true r_any) | None => true end
                     then exists a4, (match s_anyOf s with
                                      | Some cs => na <- anyof_loop v inst (list_locs l (lit "anyOf"%lit) cs) a3 0 ;;
                                                   (if Nat.eqb (fst na) 0 then Err else Ok (snd na))
                                      | None => Ok a3
                                      end) = Ok a4 /\ ext j a3 a4 (sig_of_true r_any)
                     else (match s_anyOf s with
                           | Some cs => na <- anyof_loop v inst (list_locs l (lit "anyOf"%lit) cs) a3 0 ;;
                                        (if Nat.eqb (fst na) 0 then Err else Ok (snd na))
                           | None => Ok a3
                           end) = Err).
      { destruct (s_anyOf s) as [cs|]; cbn [olist] in *.
        - rewrite P4. cbn [bind fst snd Nat.add].
          destruct (count_true r_any); cbn [Nat.ltb Nat.leb Nat.eqb]; [reflexivity|].
          exists a4'. split; [reflexivity|exact X4].
        - cbn [list_locs index_from map eval_all] in Hany. injection Hany as <-. exists a3. split; [reflexivity|apply ext_refl]. }
      clear P4 X4 a4'.
      destruct (match s_anyOf s with Some _ => Nat.ltb 0 (count_true r_any) | None => true end); [|rewrite Many; reflexivity].
      destruct Many as (a4 & -> & X4). cbn [bind].
      (* oneOf *)
      rewrite <- list_locs_eval in Hone.
      pose proof (oneof_loop_spec v ev IH inst Hw _ _ a4 false Hone) as P5.
      assert (Mone : if match s_oneOf s with Some _ => Nat.eqb (count_true r_one) 1 | None => true end
                     then exists a5, (match s_oneOf s with
                                      | Some cs => ba <- oneof_loop v inst (list_locs l (lit "oneOf"%lit) cs) a4 false ;;
                                                   (if fst ba then Ok (snd ba) else Err)
                                      | None => Ok a4
                                      end) = Ok a5 /\ ext j a4 a5 (sig_of_true r_one)
                     else (match s_oneOf s with
                           | Some cs => ba <- oneof_loop v inst (list_locs l (lit "oneOf"%lit) cs) a4 false ;;
                                        (if fst ba then Ok (snd ba) else Err)
                           | None => Ok a4
                           end) = Err).
      { destruct (s_oneOf s) as [cs|]; cbn [olist] in *.
        - destruct (count_true r_one) as [|[|k]]; cbn [Nat.eqb].
          + destruct P5 as (a' & -> & X). reflexivity.
          + destruct P5 as (a' & -> & X). cbn [bind fst snd]. exists a'. split; [reflexivity|exact X].
          + rewrite P5. reflexivity.
        - cbn [list_locs index_from map eval_all] in Hone. injection Hone as <-. exists a4. split; [reflexivity|apply ext_refl]. }
      clear P5.
      destruct (match s_oneOf s with Some _ => Nat.eqb (count_true r_one) 1 | None => true end); [|rewrite Mone; reflexivity].
      destruct Mone as (a5 & -> & X5). cbn [bind].
      (* not *)
      rewrite (not_phase l s r_not Hnot).
      destruct (negb (existsb (fun r => fst r) r_not)); [|reflexivity]. cbn [bind].
      (* if / then / else *)
      specialize (P6 a5 r_if r_then r_else Hif Hthen Helse). cbn zeta in P6. rewrite Econd in P6. cbn [fst snd] in P6.
      destruct ok_cond; [|rewrite P6; reflexivity].
      destruct P6 as (a6 & -> & X6). cbn [bind].
      (* what the in-place keywords evaluated so far *)
      set (sgpre := sig_union (sig_of_true r_ref) (sig_union (sig_of_true r_dyn) (sig_union (sig_of_true r_all)
                    (sig_union (sig_of_true r_any) (sig_union (sig_of_true r_one) sig_cond))))).
      assert (Xpre : ext j no_anns a6 sgpre).
      { subst sgpre. eapply ext_trans; [exact X1|]. eapply ext_trans; [exact X2|]. eapply ext_trans; [exact X3|].
        eapply ext_trans; [exact X4|]. eapply ext_trans; [exact X5|exact X6]. }
      apply gamma_of_ext in Xpre. destruct Xpre as [XI XP].
      assert (HsI : forall i, sinI sig_minus i = sinI sgpre i || mem_nat i i_arr || sinI sig_obj i || sinI sig_deps i).
      { intros i. subst sig_minus sgpre. rewrite !sinI_union. unfold sinI at 7. cbn [sI]. btauto. }
      assert (HsP : forall k, sinP sig_minus k = sinP sgpre k || sinP sig_obj k || sinP sig_deps k).
      { intros k. subst sig_minus sgpre. rewrite !sinP_union. unfold sinP at 7. cbn [sP mem_str]. btauto. }
      clearbody sig_minus sgpre.
      destruct inst as [| | | | | |gitems|gm|g'] eqn:Einst; subst j; cbn [den] in *;
        try (injection Harr as <- <-; injection Hobj as <- <- <-; cbn [spec_uneval_items spec_uneval_props] in Hui, Hup;
             injection Hui as <- <-; injection Hup as <- <-;
             cbn [a_array_counts a_object_counts forallb andb bind];
             eexists; split; [reflexivity|]; split; cbn [arr_len obj_keys]; intros; [lia|contradiction]).
      - (* arrays *)
        injection Hobj as <- <- <-. cbn [spec_uneval_props] in Hup. injection Hup as <- <-.
        cbn [a_object_counts forallb andb].
        apply gv_wf_arr in Hw.
        pose proof (arrays_phase_spec hash e v ev IH (fun s0 items0 H0 => check_unique_spec hash s0 items0 H0)
                      l s gitems a6 sgpre ok_arr i_arr sig_minus ok_ui i_ui Hw Harr) as PA.
        cbn zeta in PA. rewrite !andb_true_r.
        assert (PA' := PA (fun i Hi => XI i (eq_ind _ (fun n => i < n) Hi _ (eq_sym (map_length den gitems))))
                          (fun i _ => eq_trans (HsI i) (eq_trans (f_equal (fun b => b || sinI sig0 i) (orb_false_r _)) (orb_false_r _))) Hui).
        clear PA.
        destruct (ok_arr && a_array_counts s (JArr (map den gitems)) && ok_ui) eqn:EA.
        + apply andb_true_iff in EA as [EA ->]. apply andb_true_iff in EA as [-> ->]. cbn [andb].
          destruct PA' as (a' & -> & HI' & HP'). cbn [bind]. exists a'. split; [reflexivity|]. split.
          * cbn [arr_len]. rewrite map_length. intros i Hi. rewrite (HI' i Hi), sinI_union. unfold sinI at 3. cbn [sI]. reflexivity.
          * cbn [obj_keys]. intros k [].
        + rewrite PA'. cbn [bind].
          destruct ok_arr, (a_array_counts s (JArr (map den gitems))), ok_ui; cbn in EA; try discriminate; reflexivity.
      - (* objects *)
        injection Harr as <- <-. cbn [spec_uneval_items] in Hui. injection Hui as <- <-.
        cbn [a_array_counts forallb andb bind].
        apply gv_wf_map in Hw as [Hnd Hwm].
        change (map (fun kv : str * gv => (fst kv, den (snd kv))) gm) with (denm gm) in *.
        pose proof (objects_phase_spec re_match e v ev IH l s
                      (fun ap z _ Hn Hz Hd x lc sr0 Hx => spec_eval_falsy n C' x lc ap z sr0 Hn Hz Hd Hx)
                      gm a6 sgpre ok_obj sig_obj sig_deps sig_minus ok_up p_up Hwm Hnd Hobj) as PO.
        cbn zeta in PO.
        assert (PO' := PO (fun k Hk => XP k (eq_ind _ (fun ks => In k ks) Hk _ (eq_sym (keys_denm gm))))
                          (fun k _ => HsP k) Hup).
        clear PO.
        destruct (ok_obj && a_object_counts (e_draft7 e) s (JObj (denm gm)) && ok_up) eqn:EO.
        + apply andb_true_iff in EO as [EO ->]. apply andb_true_iff in EO as [-> ->]. cbn [andb].
          destruct PO' as (a' & -> & HP'). exists a'. split; [reflexivity|]. split.
          * cbn [arr_len]. intros i Hi. lia.
          * cbn [obj_keys]. rewrite keys_denm. intros k Hk. rewrite (HP' k Hk), sinP_union. unfold sinP at 3. cbn [sP]. reflexivity.
        + rewrite PO'.
          destruct ok_obj, (a_object_counts (e_draft7 e) s (JObj (denm gm))), ok_up; cbn in EO; try discriminate; reflexivity.
      - (* an indirection cannot be its own stripping *)
        exfalso. cbn [strip] in Hst. exact (strip_not_ind _ _ Hst).
    Qed.
  End Body.

  (** The evaluator agrees with the specification whenever the specification is defined
      (same fuel); instances in any Go representation, by their denotation. *)
  Theorem validate_refines : forall n C inst l s sr,
    gv_wf inst = true ->
    spec_eval re_match n e C (den inst) l s = Some sr ->
    agrees (den inst) (validate re_match hash n e C inst l s) sr.
  Proof.
    induction n as [|n IHn]; intros C inst l s sr Hw H; [discriminate|].
    cbn [spec_eval validate] in *.
    rewrite <- (den_strip inst) in H |- *.
    apply body_spec.
    - intros g l0 c sr0 Hg Hs. now apply IHn.
    - now apply gv_wf_strip.
    - apply strip_idem.
    - exact H.
  Qed.
End Refine.
