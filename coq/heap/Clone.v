(** CloneSchemas on pointer graphs (C20).  A heap maps addresses to Schema objects whose
    subschema-valued fields hold addresses.  The non-schema fields of an object are an
    opaque payload [D] (CloneSchemas copies them with [s2 := *s]; slices and maps of
    non-schema values are shared, as documented).  [kids] lists the subschema pointers in
    schemaFieldInfos order, keyed by their location segment. *)
From Coq Require Import List NArith Arith Bool Lia.
Import ListNotations.
Open Scope list_scope.

Section Clone.
  Variable D : Type.      (* non-schema fields *)
  Variable K : Type.      (* position of a child: keyword, index / key *)

  Definition addr := nat.
  Record hnode := mkNode { hn_data : D; hn_kids : list (K * addr) }.
  Definition heap := list hnode.   (* address = index; allocation appends *)

  (* the tree a heap address denotes *)
  Inductive tree := T (d : D) (kids : list (K * tree)).

  Fixpoint abs (fuel : nat) (h : heap) (a : addr) : option tree :=
    match fuel with
    | O => None
    | S n =>
        match nth_error h a with
        | None => None
        | Some nd =>
            option_map (T (hn_data nd))
              ((fix go (ks : list (K * addr)) : option (list (K * tree)) :=
                  match ks with
                  | [] => Some []
                  | (k, c) :: r =>
                      match abs n h c, go r with
                      | Some t, Some ts => Some ((k, t) :: ts)
                      | _, _ => None
                      end
                  end) (hn_kids nd))
        end
    end.

  (** CloneSchemas: copy the object, clone every child, allocate *)
  Fixpoint clone (fuel : nat) (h : heap) (a : addr) : option (heap * addr) :=
    match fuel with
    | O => None
    | S n =>
        match nth_error h a with
        | None => None
        | Some nd =>
            match
              (fix go (ks : list (K * addr)) (h : heap) : option (heap * list (K * addr)) :=
                 match ks with
                 | [] => Some (h, [])
                 | (k, c) :: r =>
                     match clone n h c with
                     | Some (h1, c') =>
                         match go r h1 with
                         | Some (h2, r') => Some (h2, (k, c') :: r')
                         | None => None
                         end
                     | None => None
                     end
                 end) (hn_kids nd) h
            with
            | Some (h', kids') => Some (h' ++ [mkNode (hn_data nd) kids'], length h')
            | None => None
            end
        end
    end.

  Definition clone_kids (n : nat) : list (K * addr) -> heap -> option (heap * list (K * addr)) :=
    fix go (ks : list (K * addr)) (h : heap) : option (heap * list (K * addr)) :=
      match ks with
      | [] => Some (h, [])
      | (k, c) :: r =>
          match clone n h c with
          | Some (h1, c') =>
              match go r h1 with
              | Some (h2, r') => Some (h2, (k, c') :: r')
              | None => None
              end
          | None => None
          end
      end.

  Lemma clone_unfold n h a :
    clone (S n) h a =
    match nth_error h a with
    | None => None
    | Some nd =>
        match clone_kids n (hn_kids nd) h with
        | Some (h', kids') => Some (h' ++ [mkNode (hn_data nd) kids'], length h')
        | None => None
        end
    end.
  Proof. reflexivity. Qed.

  (** frame: the heap only grows; old objects are untouched; the copy is a new address *)
  Lemma clone_frame : forall n h a h' a',
    clone n h a = Some (h', a') ->
    (exists ext, h' = h ++ ext) /\ length h <= a' < length h'.
  Proof.
    induction n as [|n IH]; intros h a h' a' H; [discriminate|].
    rewrite clone_unfold in H. destruct (nth_error h a) as [nd|]; [|discriminate].
    destruct (clone_kids n (hn_kids nd) h) as [[h1 kids']|] eqn:Ek; [|discriminate].
    injection H as <- <-.
    assert (Hk : forall ks h0 h1 ks', clone_kids n ks h0 = Some (h1, ks') -> exists ext, h1 = h0 ++ ext).
    { induction ks as [|[k c] r IHr]; intros h0 h2 ks' Hc; cbn in Hc.
      - injection Hc as <- <-. exists []. now rewrite app_nil_r.
      - destruct (clone n h0 c) as [[h3 c']|] eqn:Ec; [|discriminate].
        destruct (clone_kids n r h3) as [[h4 r']|] eqn:Er; [|discriminate]. injection Hc as <- <-.
        destruct (IH _ _ _ _ Ec) as [[e1 ->] _]. destruct (IHr _ _ _ Er) as [e2 ->].
        exists (e1 ++ e2). now rewrite app_assoc. }
    destruct (Hk _ _ _ _ Ek) as [ext ->]. split.
    - exists (ext ++ [mkNode (hn_data nd) kids']). now rewrite app_assoc.
    - rewrite !app_length. cbn. lia.
  Qed.

  (** new objects only point to new objects *)
  Definition P (h0 h2 : heap) : Prop :=
    exists ext, h2 = h0 ++ ext /\ forall nd, In nd ext -> forall k c, In (k, c) (hn_kids nd) -> length h0 <= c.

  Lemma P_refl h : P h h.
  Proof. exists []. split; [now rewrite app_nil_r|]. intros nd []. Qed.

  Lemma P_trans h0 h1 h2 : P h0 h1 -> P h1 h2 -> P h0 h2.
  Proof.
    intros (e1 & -> & H1) (e2 & -> & H2). exists (e1 ++ e2). split; [now rewrite app_assoc|].
    intros nd Hin k c Hk. apply in_app_or in Hin as [Hin|Hin].
    - eapply H1; eauto.
    - specialize (H2 nd Hin k c Hk). rewrite app_length in H2. lia.
  Qed.

  Lemma P_len h0 h2 : P h0 h2 -> length h0 <= length h2.
  Proof. intros (e & -> & _). rewrite app_length. lia. Qed.

  Lemma clone_P : forall n h a h' a',
    clone n h a = Some (h', a') -> P h h' /\ length h <= a' < length h'.
  Proof.
    induction n as [|n IH]; intros h a h' a' H; [discriminate|].
    rewrite clone_unfold in H. destruct (nth_error h a) as [nd|]; [|discriminate].
    destruct (clone_kids n (hn_kids nd) h) as [[h1 kids']|] eqn:Ek; [|discriminate].
    injection H as <- <-.
    assert (Hk : forall ks h0 h2 ks', clone_kids n ks h0 = Some (h2, ks') ->
               P h0 h2 /\ forall k c, In (k, c) ks' -> length h0 <= c).
    { induction ks as [|[k c] r IHr]; intros h0 h2 ks' Hc; cbn in Hc.
      - injection Hc as <- <-. split; [apply P_refl|intros k c []].
      - destruct (clone n h0 c) as [[h3 c']|] eqn:Ec; [|discriminate].
        destruct (clone_kids n r h3) as [[h4 r']|] eqn:Er; [|discriminate]. injection Hc as <- <-.
        destruct (IH _ _ _ _ Ec) as [P1 [L1 _]]. destruct (IHr _ _ _ Er) as [P2 L2].
        split; [eapply P_trans; eauto|].
        intros k0 c0 [[= <- <-]|Hin]; [exact L1|]. specialize (L2 _ _ Hin). apply P_len in P1. lia. }
    destruct (Hk _ _ _ _ Ek) as [(e & -> & He) Lk]. split.
    - exists (e ++ [mkNode (hn_data nd) kids']). split; [now rewrite app_assoc|].
      intros nd0 Hin k c Hkc. apply in_app_or in Hin as [Hin|[<-|[]]]; [eapply He; eauto|].
      cbn [hn_kids] in Hkc. eapply Lk; eauto.
    - rewrite !app_length. cbn. lia.
  Qed.

  (** reachability through subschema pointers *)
  Inductive reach (h : heap) : addr -> addr -> Prop :=
  | reach_refl a : reach h a a
  | reach_step a nd k c b : nth_error h a = Some nd -> In (k, c) (hn_kids nd) -> reach h c b -> reach h a b.

  (** C20_disjoint: every object reachable from the clone is new - the clone shares no
      Schema object with the original (nor with anything else that existed), at any depth *)
  Theorem clone_fresh n h a h' a' :
    clone n h a = Some (h', a') -> forall b, reach h' a' b -> length h <= b.
  Proof.
    intros H. destruct (clone_P _ _ _ _ _ H) as [(e & -> & He) [L _]]. clear H.
    intros b Hr. revert L. induction Hr as [x|x nd k c b Hn Hk Hr IH]; intros L; [exact L|].
    apply IH. rewrite nth_error_app2 in Hn by exact L. apply nth_error_In in Hn. eapply He; eauto.
  Qed.

  (** C20_frame: the original objects are untouched *)
  Theorem clone_preserves n h a h' a' :
    clone n h a = Some (h', a') -> forall x nd, nth_error h x = Some nd -> nth_error h' x = Some nd.
  Proof.
    intros H x nd Hx. destruct (clone_P _ _ _ _ _ H) as [(e & -> & _) _].
    rewrite nth_error_app1; [exact Hx|]. apply nth_error_Some. congruence.
  Qed.

  (** abs is stable under heap growth *)
  Lemma abs_ext : forall n h e a t, abs n h a = Some t -> abs n (h ++ e) a = Some t.
  Proof.
    induction n as [|n IH]; intros h e a t H; [discriminate|]. cbn [abs] in *.
    destruct (nth_error h a) as [nd|] eqn:En; [|discriminate].
    rewrite nth_error_app1 by (apply nth_error_Some; congruence). rewrite En.
    revert t H. generalize (hn_kids nd) as ks. intros ks.
    assert (Hgo : forall ks ts,
      (fix go (ks : list (K * addr)) : option (list (K * tree)) :=
         match ks with [] => Some [] | (k, c) :: r => match abs n h c, go r with Some t, Some ts => Some ((k, t) :: ts) | _, _ => None end end) ks = Some ts ->
      (fix go (ks : list (K * addr)) : option (list (K * tree)) :=
         match ks with [] => Some [] | (k, c) :: r => match abs n (h ++ e) c, go r with Some t, Some ts => Some ((k, t) :: ts) | _, _ => None end end) ks = Some ts).
    { induction ks0 as [|[k c] r IHr]; intros ts Hts; [exact Hts|].
      destruct (abs n h c) as [t0|] eqn:Ea; [|discriminate]. rewrite (IH _ e _ _ Ea).
      destruct ((fix go (ks : list (K * addr)) : option (list (K * tree)) := match ks with [] => Some [] | (k, c) :: r => match abs n h c, go r with Some t, Some ts => Some ((k, t) :: ts) | _, _ => None end end) r) as [ts0|] eqn:Eg; [|discriminate].
      rewrite (IHr _ eq_refl). exact Hts. }
    intros t H.
    destruct ((fix go (ks : list (K * addr)) : option (list (K * tree)) := match ks with [] => Some [] | (k, c) :: r => match abs n h c, go r with Some t, Some ts => Some ((k, t) :: ts) | _, _ => None end end) ks) as [ts|] eqn:Eg; [|discriminate].
    now rewrite (Hgo _ _ Eg).
  Qed.

  Definition abs_kids (n : nat) (h : heap) : list (K * addr) -> option (list (K * tree)) :=
    fix go (ks : list (K * addr)) : option (list (K * tree)) :=
      match ks with
      | [] => Some []
      | (k, c) :: r => match abs n h c, go r with Some t, Some ts => Some ((k, t) :: ts) | _, _ => None end
      end.

  Lemma abs_unfold n h a :
    abs (S n) h a = match nth_error h a with
                    | None => None
                    | Some nd => option_map (T (hn_data nd)) (abs_kids n h (hn_kids nd))
                    end.
  Proof. reflexivity. Qed.

  Lemma abs_kids_ext n h e ks ts : abs_kids n h ks = Some ts -> abs_kids n (h ++ e) ks = Some ts.
  Proof.
    revert ts; induction ks as [|[k c] r IH]; intros ts H; cbn in *; [exact H|].
    destruct (abs n h c) as [t|] eqn:Ea; [|discriminate]. rewrite (abs_ext _ _ e _ _ Ea).
    destruct (abs_kids n h r) as [ts0|]; [|discriminate]. now rewrite (IH _ eq_refl).
  Qed.

  (** C20_equal: the clone denotes the same tree as the original *)
  Theorem clone_abs : forall n h a h' a',
    clone n h a = Some (h', a') -> forall m t, abs m h a = Some t -> abs m h' a' = Some t.
  Proof.
    induction n as [|n IH]; intros h a h' a' H m t Ha; [discriminate|].
    rewrite clone_unfold in H. destruct (nth_error h a) as [nd|] eqn:En; [|discriminate].
    destruct (clone_kids n (hn_kids nd) h) as [[h1 kids']|] eqn:Ek; [|discriminate].
    injection H as <- <-.
    destruct m as [|m]; [discriminate|]. rewrite abs_unfold in Ha |- *. rewrite En in Ha.
    rewrite nth_error_app2 by apply Nat.le_refl. rewrite Nat.sub_diag. cbn [nth_error hn_data hn_kids].
    destruct (abs_kids m h (hn_kids nd)) as [ts|] eqn:Ets; [|discriminate]. cbn [option_map] in Ha. injection Ha as <-.
    assert (Hk : forall ks h0 h2 ks' ts0, clone_kids n ks h0 = Some (h2, ks') -> abs_kids m h0 ks = Some ts0 ->
               abs_kids m h2 ks' = Some ts0).
    { induction ks as [|[k c] r IHr]; intros h0 h2 ks' ts0 Hc Hts; cbn in Hc, Hts.
      - injection Hc as <- <-. exact Hts.
      - destruct (clone n h0 c) as [[h3 c']|] eqn:Ec; [|discriminate].
        destruct (clone_kids n r h3) as [[h4 r']|] eqn:Er; [|discriminate]. injection Hc as <- <-.
        destruct (abs m h0 c) as [tc|] eqn:Eac; [|discriminate].
        destruct (abs_kids m h0 r) as [tr|] eqn:Ear; [|discriminate]. injection Hts as <-.
        pose proof (IH _ _ _ _ Ec _ _ Eac) as Hc'.
        destruct (clone_P _ _ _ _ _ Ec) as [(e1 & -> & _) _].
        assert (Er' : clone_kids n r (h0 ++ e1) = Some (h4, r')) by exact Er.
        assert (P4 : exists e2, h4 = (h0 ++ e1) ++ e2).
        { clear -Er' IH. revert Er'. generalize (h0 ++ e1) as hh. revert h4 r'.
          induction r as [|[k1 c1] r1 IH1]; intros h4 r' hh Hx; cbn in Hx.
          - injection Hx as <- <-. exists []. now rewrite app_nil_r.
          - destruct (clone n hh c1) as [[h5 c1']|] eqn:E5; [|discriminate].
            destruct (clone_kids n r1 h5) as [[h6 r1']|] eqn:E6; [|discriminate]. injection Hx as <- <-.
            destruct (clone_P _ _ _ _ _ E5) as [(e5 & -> & _) _]. destruct (IH1 _ _ _ E6) as (e6 & ->).
            exists (e5 ++ e6). now rewrite app_assoc. }
        destruct P4 as (e2 & ->).
        cbn [abs_kids]. rewrite (abs_ext _ _ e2 _ _ Hc').
        rewrite (IHr _ _ _ _ Er' (abs_kids_ext _ _ e1 _ _ Ear)). reflexivity. }
    rewrite (abs_kids_ext _ _ [mkNode (hn_data nd) kids'] _ _ (Hk _ _ _ _ _ Ek Ets)). reflexivity.
  Qed.

  (** assignment to one Schema object: replace the node at address [b] *)
  Fixpoint upd (h : heap) (b : addr) (nd : hnode) : heap :=
    match h, b with
    | [], _ => []
    | _ :: r, O => nd :: r
    | x :: r, S b' => x :: upd r b' nd
    end.

  Lemma nth_error_upd_other : forall h b nd x, x <> b -> nth_error (upd h b nd) x = nth_error h x.
  Proof.
    induction h as [|y r IH]; intros b nd x Hx; [destruct b; reflexivity|].
    destruct b as [|b]; destruct x as [|x]; cbn; try reflexivity; [congruence|].
    apply IH. congruence.
  Qed.

  Lemma nth_error_upd_same : forall h b nd, b < length h -> nth_error (upd h b nd) b = Some nd.
  Proof.
    induction h as [|y r IH]; intros b nd Hb; cbn in Hb; [lia|].
    destruct b as [|b]; cbn; [reflexivity|]. apply IH. lia.
  Qed.

  Lemma upd_app_ge : forall h e b nd, length h <= b -> upd (h ++ e) b nd = h ++ upd e (b - length h) nd.
  Proof.
    induction h as [|y r IH]; intros e b nd Hb; cbn in *; [now rewrite Nat.sub_0_r|].
    destruct b as [|b]; [lia|]. cbn. f_equal. apply IH. lia.
  Qed.

  (** the tree at [a] depends only on the objects reachable from [a] *)
  Lemma abs_agree : forall m h h2 a,
    (forall b, reach h a b -> nth_error h2 b = nth_error h b) -> abs m h2 a = abs m h a.
  Proof.
    induction m as [|m IH]; intros h h2 a H; [reflexivity|].
    rewrite !abs_unfold. rewrite (H a (reach_refl h a)).
    destruct (nth_error h a) as [nd|] eqn:En; [|reflexivity]. f_equal.
    assert (Hk : forall ks, (forall k c, In (k, c) ks -> In (k, c) (hn_kids nd)) ->
                 abs_kids m h2 ks = abs_kids m h ks).
    { induction ks as [|[k c] r IHr]; intros Hin; [reflexivity|]. cbn [abs_kids].
      rewrite (IH h h2 c).
      - rewrite IHr; [reflexivity|]. intros k0 c0 H0. apply Hin. now right.
      - intros b Hr. apply H. eapply reach_step; [exact En| |exact Hr]. apply Hin. now left. }
    apply Hk. auto.
  Qed.

  (** C20_mutate_clone: assigning to any object of the clone (all of them are new, by
      [clone_fresh]) leaves every tree of the original heap as it was *)
  Theorem clone_mutate_clone n h a h' a' :
    clone n h a = Some (h', a') ->
    forall b nd', length h <= b ->
    forall m x t, abs m h x = Some t -> abs m (upd h' b nd') x = Some t.
  Proof.
    intros H b nd' Hb m x t Hx. destruct (clone_P _ _ _ _ _ H) as [(e & -> & _) _].
    rewrite upd_app_ge by exact Hb. now apply abs_ext.
  Qed.

  (** C20_mutate_original: assigning to any object that existed before the call (the
      original tree included) leaves the tree of the clone as it was *)
  Theorem clone_mutate_original n h a h' a' :
    clone n h a = Some (h', a') ->
    forall b nd', b < length h ->
    forall m, abs m (upd h' b nd') a' = abs m h' a'.
  Proof.
    intros H b nd' Hb m. apply abs_agree. intros x Hr.
    apply nth_error_upd_other. pose proof (clone_fresh _ _ _ _ _ H x Hr). lia.
  Qed.

  (** checkStructure on pointer graphs: walk from [a] with the set of objects seen so far;
      an object met twice (sharing or a cycle) or a dangling / nil child is an error *)
  Fixpoint check (fuel : nat) (h : heap) (seen : list addr) (a : addr) : option (list addr) :=
    match fuel with
    | O => None
    | S n =>
        if existsb (Nat.eqb a) seen then None else
        match nth_error h a with
        | None => None
        | Some nd =>
            (fix go (ks : list (K * addr)) (seen : list addr) : option (list addr) :=
               match ks with
               | [] => Some seen
               | (_, c) :: r => match check n h seen c with Some s1 => go r s1 | None => None end
               end) (hn_kids nd) (a :: seen)
        end
    end.

  Definition check_kids (n : nat) (h : heap) : list (K * addr) -> list addr -> option (list addr) :=
    fix go (ks : list (K * addr)) (seen : list addr) : option (list addr) :=
      match ks with
      | [] => Some seen
      | (_, c) :: r => match check n h seen c with Some s1 => go r s1 | None => None end
      end.

  Lemma check_unfold n h seen a :
    check (S n) h seen a =
    if existsb (Nat.eqb a) seen then None else
    match nth_error h a with
    | None => None
    | Some nd => check_kids n h (hn_kids nd) (a :: seen)
    end.
  Proof. reflexivity. Qed.

  Lemma existsb_eqb_false a seen : ~ In a seen -> existsb (Nat.eqb a) seen = false.
  Proof.
    intros H. destruct (existsb (Nat.eqb a) seen) eqn:E; [|reflexivity].
    apply existsb_exists in E as (x & Hx & Heq). apply Nat.eqb_eq in Heq. subst x. contradiction.
  Qed.

  (** a successful walk only adds objects of the heap, each once *)
  Lemma check_sound : forall n h seen a s',
    check n h seen a = Some s' ->
    (forall x, In x s' -> In x seen \/ x < length h) /\ (NoDup seen -> NoDup s') /\ incl seen s' /\ In a s'.
  Proof.
    induction n as [|n IH]; intros h seen a s' H; [discriminate|].
    rewrite check_unfold in H. destruct (existsb (Nat.eqb a) seen) eqn:Ex; [discriminate|].
    destruct (nth_error h a) as [nd|] eqn:En; [|discriminate].
    assert (La : a < length h) by (apply nth_error_Some; congruence).
    assert (Na : ~ In a seen).
    { intros Hin. assert (existsb (Nat.eqb a) seen = true); [|congruence].
      apply existsb_exists. exists a. split; [exact Hin|apply Nat.eqb_refl]. }
    assert (Hk : forall ks s0 s1, check_kids n h ks s0 = Some s1 ->
               (forall x, In x s1 -> In x s0 \/ x < length h) /\ (NoDup s0 -> NoDup s1) /\ incl s0 s1).
    { induction ks as [|[k c] r IHr]; intros s0 s1 Hc; cbn in Hc.
      - injection Hc as <-. repeat split; auto. apply incl_refl.
      - destruct (check n h s0 c) as [s2|] eqn:Ec; [|discriminate].
        destruct (IH _ _ _ _ Ec) as (B1 & N1 & I1 & _). destruct (IHr _ _ Hc) as (B2 & N2 & I2).
        repeat split.
        + intros x Hx. destruct (B2 x Hx) as [Hx2|]; [|now right]. apply B1. exact Hx2.
        + auto.
        + eapply incl_tran; eauto. }
    destruct (Hk _ _ _ H) as (B & N & I). repeat split.
    - intros x Hx. destruct (B x Hx) as [[<-|Hx0]|]; auto.
    - intros Nd. apply N. constructor; assumption.
    - eapply incl_tran; [|exact I]. apply incl_tl, incl_refl.
    - apply I. now left.
  Qed.

  (** C20_parent: checkStructure, having walked anything that existed before the call
      (the original tree in particular), walks the clone without meeting an object twice *)
  Lemma clone_check : forall n h a h' a',
    clone n h a = Some (h', a') -> forall m t, abs m h a = Some t ->
    forall e seen, (forall x, In x seen -> x < length h \/ length h' <= x) ->
    exists s', check m (h' ++ e) seen a' = Some s' /\
               forall x, In x s' -> In x seen \/ length h <= x < length h'.
  Proof.
    induction n as [|n IH]; intros h a h' a' H m t Ha e seen Hs; [discriminate|].
    rewrite clone_unfold in H. destruct (nth_error h a) as [nd|] eqn:En; [|discriminate].
    destruct (clone_kids n (hn_kids nd) h) as [[h1 kids']|] eqn:Ek; [|discriminate].
    injection H as <- <-.
    destruct m as [|m]; [discriminate|]. rewrite abs_unfold in Ha. rewrite En in Ha.
    destruct (abs_kids m h (hn_kids nd)) as [ts|] eqn:Ets; [|discriminate]. clear Ha.
    assert (Hk : forall ks h0 h2 ks' ts0, clone_kids n ks h0 = Some (h2, ks') -> abs_kids m h0 ks = Some ts0 ->
               length h0 <= length h2 /\
               forall e0 s0, (forall x, In x s0 -> x < length h0 \/ length h2 <= x) ->
               exists s1, check_kids m (h2 ++ e0) ks' s0 = Some s1 /\
                          forall x, In x s1 -> In x s0 \/ length h0 <= x < length h2).
    { induction ks as [|[k c] r IHr]; intros h0 h2 ks' ts0 Hc Hts; cbn in Hc, Hts.
      - injection Hc as <- <-. split; [lia|]. intros e0 s0 _. exists s0. split; [reflexivity|auto].
      - destruct (clone n h0 c) as [[h3 c']|] eqn:Ec; [|discriminate].
        destruct (clone_kids n r h3) as [[h4 r']|] eqn:Er; [|discriminate]. injection Hc as <- <-.
        destruct (abs m h0 c) as [tc|] eqn:Eac; [|discriminate].
        destruct (abs_kids m h0 r) as [tr|] eqn:Ear; [|discriminate].
        destruct (clone_P _ _ _ _ _ Ec) as [(e1 & -> & _) _].
        destruct (IHr _ _ _ _ Er (abs_kids_ext _ _ e1 _ _ Ear)) as [L34 Hr].
        assert (L03 : length h0 <= length (h0 ++ e1)) by (rewrite app_length; lia).
        split; [lia|]. intros e0 s0 Hs0.
        assert (P4 : exists e2, h4 = (h0 ++ e1) ++ e2).
        { clear -Er IH. revert Er. generalize (h0 ++ e1) as hh. revert h4 r'.
          induction r as [|[k1 c1] r1 IH1]; intros h4 r' hh Hx; cbn in Hx.
          - injection Hx as <- <-. exists []. now rewrite app_nil_r.
          - destruct (clone n hh c1) as [[h5 c1']|] eqn:E5; [|discriminate].
            destruct (clone_kids n r1 h5) as [[h6 r1']|] eqn:E6; [|discriminate]. injection Hx as <- <-.
            destruct (clone_P _ _ _ _ _ E5) as [(e5 & -> & _) _]. destruct (IH1 _ _ _ E6) as (e6 & ->).
            exists (e5 ++ e6). now rewrite app_assoc. }
        destruct P4 as (e2 & E4).
        destruct (IH _ _ _ _ Ec _ _ Eac (e2 ++ e0) s0) as (s1 & C1 & B1).
        { intros x Hx. destruct (Hs0 x Hx); [now left|right; lia]. }
        destruct (Hr e0 s1) as (s2 & C2 & B2).
        { intros x Hx. destruct (B1 x Hx) as [Hx0|Hx0]; [|left; lia].
          destruct (Hs0 x Hx0); [left; lia|now right]. }
        exists s2. split.
        + cbn [check_kids]. rewrite E4, <- app_assoc, C1. rewrite E4, <- app_assoc in C2. exact C2.
        + intros x Hx. destruct (B2 x Hx) as [Hx1|Hx1]; [|right; lia].
          destruct (B1 x Hx1) as [Hx0|Hx0]; [now left|right; lia]. }
    destruct (Hk _ _ _ _ _ Ek Ets) as [L01 Hkk].
    assert (Na : ~ In (length h1) seen).
    { intros Hin. destruct (Hs _ Hin) as [Hl|Hl]; [lia|]. rewrite app_length in Hl. cbn in Hl. lia. }
    rewrite check_unfold, (existsb_eqb_false _ _ Na).
    rewrite <- app_assoc. rewrite nth_error_app2 by apply Nat.le_refl. rewrite Nat.sub_diag.
    cbn [nth_error app hn_kids].
    destruct (Hkk ([mkNode (hn_data nd) kids'] ++ e) (length h1 :: seen)) as (s1 & C1 & B1).
    { intros x [<-|Hx]; [now right|]. destruct (Hs x Hx) as [Hl|Hl]; [now left|].
      rewrite app_length in Hl. cbn in Hl. right; lia. }
    exists s1. split; [exact C1|].
    intros x Hx. rewrite app_length. cbn. destruct (B1 x Hx) as [[<-|Hx0]|Hx0]; [right; lia|now left|right; lia].
  Qed.

  Theorem clone_parent n h a h' a' m t seen s1 :
    clone n h a = Some (h', a') -> abs m h a = Some t ->
    (forall x, In x seen -> x < length h) -> NoDup seen ->
    check m h seen a = Some s1 ->
    exists s2, check m h' s1 a' = Some s2 /\ NoDup s2 /\ In a s2 /\ In a' s2.
  Proof.
    intros Hc Ha Hs Nd Hck.
    destruct (check_sound _ _ _ _ _ Hck) as (B & N & I & Ia).
    destruct (clone_check _ _ _ _ _ Hc _ _ Ha [] s1) as (s2 & C2 & _).
    { intros x Hx. left. destruct (B x Hx) as [Hx0|]; [auto|assumption]. }
    rewrite app_nil_r in C2. exists s2. split; [exact C2|].
    destruct (check_sound _ _ _ _ _ C2) as (_ & N2 & I2 & Ia2). auto.
  Qed.

  (** sharing and cycles are rejected: an object already seen ends the walk with an error *)
  Lemma check_rejects_seen n h seen a : In a seen -> check n h seen a = None.
  Proof.
    intros Hin. destruct n as [|n]; [reflexivity|]. rewrite check_unfold.
    assert (E : existsb (Nat.eqb a) seen = true).
    { apply existsb_exists. exists a. split; [exact Hin|apply Nat.eqb_refl]. }
    now rewrite E.
  Qed.

  (** any history of assignments *)
  Definition upds (h : heap) (ops : list (addr * hnode)) : heap :=
    fold_left (fun hh o => upd hh (fst o) (snd o)) ops h.

  (** C20_history_clone: after any sequence of assignments to objects of the clone, every
      tree of the original heap is as it was *)
  Theorem clone_history_clone n h a h' a' :
    clone n h a = Some (h', a') ->
    forall ops, Forall (fun o => length h <= fst o) ops ->
    forall m x t, abs m h x = Some t -> abs m (upds h' ops) x = Some t.
  Proof.
    intros H ops Hops m x t Hx. destruct (clone_P _ _ _ _ _ H) as [(e & -> & _) _]. clear H.
    revert e. induction Hops as [|o ops Ho _ IH]; intros e; cbn [upds fold_left].
    - now apply abs_ext.
    - rewrite upd_app_ge by exact Ho. apply IH.
  Qed.

  Lemma upds_other : forall ops h x, Forall (fun o => fst o <> x) ops -> nth_error (upds h ops) x = nth_error h x.
  Proof.
    induction ops as [|o ops IH]; intros h x Hops; [reflexivity|]. cbn [upds fold_left].
    inversion Hops as [|? ? Ho Hr]; subst. unfold upds in IH. rewrite IH by exact Hr.
    apply nth_error_upd_other. congruence.
  Qed.

  (** C20_history_original: after any sequence of assignments to objects that existed before
      the call, the tree of the clone is as it was *)
  Theorem clone_history_original n h a h' a' :
    clone n h a = Some (h', a') ->
    forall ops, Forall (fun o => fst o < length h) ops ->
    forall m, abs m (upds h' ops) a' = abs m h' a'.
  Proof.
    intros H ops Hops m. apply abs_agree. intros x Hr.
    pose proof (clone_fresh _ _ _ _ _ H x Hr) as Lx. apply upds_other.
    eapply Forall_impl; [|exact Hops]. intros o Ho. cbv beta in *. unfold addr in *. lia.
  Qed.

  (** C20_total: CloneSchemas succeeds on every finite tree (with the budget that reads it) *)
  Theorem clone_total : forall m h a t, abs m h a = Some t -> exists h' a', clone m h a = Some (h', a').
  Proof.
    induction m as [|m IH]; intros h a t Ha; [discriminate|].
    rewrite abs_unfold in Ha. rewrite clone_unfold.
    destruct (nth_error h a) as [nd|] eqn:En; [|discriminate].
    destruct (abs_kids m h (hn_kids nd)) as [ts|] eqn:Ets; [|discriminate]. clear Ha.
    assert (Hk : forall ks h0 ts0, abs_kids m h0 ks = Some ts0 -> exists h2 ks', clone_kids m ks h0 = Some (h2, ks')).
    { induction ks as [|[k c] r IHr]; intros h0 ts0 Hts; cbn in Hts |- *.
      - eauto.
      - destruct (abs m h0 c) as [tc|] eqn:Eac; [|discriminate].
        destruct (abs_kids m h0 r) as [tr|] eqn:Ear; [|discriminate].
        destruct (IH _ _ _ Eac) as (h3 & c' & Ec). rewrite Ec.
        destruct (clone_P _ _ _ _ _ Ec) as [(e1 & -> & _) _].
        destruct (IHr _ _ (abs_kids_ext _ _ e1 _ _ Ear)) as (h4 & r' & Er). rewrite Er. eauto. }
    destruct (Hk _ _ _ Ets) as (h2 & ks' & Ek). rewrite Ek. eauto.
  Qed.

  (** the walk is stable under heap growth *)
  Lemma check_ext : forall n h e seen a s, check n h seen a = Some s -> check n (h ++ e) seen a = Some s.
  Proof.
    induction n as [|n IH]; intros h e seen a s H; [discriminate|].
    rewrite check_unfold in H |- *. destruct (existsb (Nat.eqb a) seen); [discriminate|].
    destruct (nth_error h a) as [nd|] eqn:En; [|discriminate].
    rewrite nth_error_app1 by (apply nth_error_Some; congruence). rewrite En.
    revert H. generalize (a :: seen) as s0. generalize (hn_kids nd) as ks.
    induction ks as [|[k c] r IHr]; intros s0 H; cbn in H |- *; [exact H|].
    destruct (check n h s0 c) as [s2|] eqn:Ec; [|discriminate]. rewrite (IH _ e _ _ _ Ec). now apply IHr.
  Qed.

  (** only the seen objects that live in the heap matter *)
  Definition seq_on (h : heap) (s s' : list addr) : Prop := forall x, x < length h -> (In x s <-> In x s').

  Lemma existsb_eqb_iff a seen : existsb (Nat.eqb a) seen = true <-> In a seen.
  Proof.
    split.
    - intros E. apply existsb_exists in E as (x & Hx & Heq). apply Nat.eqb_eq in Heq. now subst.
    - intros Hin. apply existsb_exists. exists a. split; [exact Hin|apply Nat.eqb_refl].
  Qed.

  Lemma check_seen_equiv : forall n h seen seen' a s,
    check n h seen a = Some s -> seq_on h seen seen' ->
    exists s', check n h seen' a = Some s' /\ seq_on h s s' /\ (forall x, In x s' -> In x seen' \/ x < length h).
  Proof.
    induction n as [|n IH]; intros h seen seen' a s H Hq; [discriminate|].
    rewrite check_unfold in H |- *. destruct (existsb (Nat.eqb a) seen) eqn:Ex; [discriminate|].
    destruct (nth_error h a) as [nd|] eqn:En; [|discriminate].
    assert (La : a < length h) by (apply nth_error_Some; congruence).
    assert (Ex' : existsb (Nat.eqb a) seen' = false).
    { destruct (existsb (Nat.eqb a) seen') eqn:E; [|reflexivity].
      apply existsb_eqb_iff in E. apply (Hq a La) in E. apply existsb_eqb_iff in E. congruence. }
    rewrite Ex'.
    assert (Hq0 : seq_on h (a :: seen) (a :: seen')).
    { intros x Hx. cbn. specialize (Hq x Hx). tauto. }
    assert (B0 : forall x, In x (a :: seen') -> In x seen' \/ x < length h).
    { intros x [<-|Hx]; auto. }
    revert H Hq0 B0. generalize (a :: seen) as s0. generalize (a :: seen') as s0'. generalize (hn_kids nd) as ks.
    induction ks as [|[k c] r IHr]; intros s0' s0 H Hq0 B0; cbn in H |- *.
    - injection H as <-. exists s0'. auto.
    - destruct (check n h s0 c) as [s2|] eqn:Ec; [|discriminate].
      destruct (IH _ _ _ _ _ Ec Hq0) as (s2' & Ec' & Hq2 & B2). rewrite Ec'.
      apply (IHr _ _ H Hq2). intros x Hx. destruct (B2 x Hx) as [Hx0|]; auto.
  Qed.

  (** C20_common_parent: if the original is a tree (the structure check accepts it), a new
      parent holding the original and the clone under any two positions is accepted too *)
  Theorem clone_common_parent n h a h' a' m t s1 d k1 k2 :
    clone n h a = Some (h', a') -> abs m h a = Some t -> check m h [] a = Some s1 ->
    exists s, check (S m) (h' ++ [mkNode d [(k1, a); (k2, a')]]) [] (length h') = Some s.
  Proof.
    intros Hc Ha Hck. set (p := mkNode d [(k1, a); (k2, a')]).
    destruct (clone_P _ _ _ _ _ Hc) as [(e & Eh & _) _].
    assert (Lh : length h <= length h') by (rewrite Eh, app_length; lia).
    destruct (check_seen_equiv _ _ _ [length h'] _ _ Hck) as (s1' & C1 & _ & B1).
    { intros x Hx. cbn. split; [tauto|]. intros [<-|[]]. lia. }
    rewrite check_unfold. cbn [existsb].
    rewrite nth_error_app2 by apply Nat.le_refl. rewrite Nat.sub_diag. cbn [nth_error p hn_kids check_kids].
    assert (C1' : check m (h' ++ [p]) [length h'] a = Some s1').
    { replace (h' ++ [p]) with (h ++ (e ++ [p])) by (rewrite Eh; apply app_assoc). now apply check_ext. }
    unfold addr in *. rewrite C1'.
    destruct (clone_check _ _ _ _ _ Hc _ _ Ha [p] s1') as (s2 & C2 & _).
    { intros x Hx. destruct (B1 x Hx) as [[<-|[]]|Hl]; [right; lia|now left]. }
    unfold addr in *. rewrite C2. eauto.
  Qed.

  (** what checkStructure accepts is a tree of heap objects: the objects walked are pairwise
      distinct, all allocated, and include the root *)
  Theorem check_accepts_tree n h a s :
    check n h [] a = Some s -> NoDup s /\ (forall x, In x s -> x < length h) /\ In a s.
  Proof.
    intros H. destruct (check_sound _ _ _ _ _ H) as (B & N & _ & Ia). repeat split.
    - apply N. constructor.
    - intros x Hx. destruct (B x Hx) as [[]|]; assumption.
    - exact Ia.
  Qed.

  (** every child of an accepted object was itself walked, from a seen set that had grown *)
  Lemma check_kids_each n h : forall ks s0 s1, check_kids n h ks s0 = Some s1 ->
    forall k c, In (k, c) ks -> exists sc sc', incl s0 sc /\ check n h sc c = Some sc'.
  Proof.
    induction ks as [|[k0 c0] r IHr]; intros s0 s1 H k c Hin; [destruct Hin|]. cbn in H.
    destruct (check n h s0 c0) as [s2|] eqn:Ec; [|discriminate].
    destruct Hin as [[= <- <-]|Hin].
    - exists s0, s2. split; [apply incl_refl|exact Ec].
    - destruct (IHr _ _ H _ _ Hin) as (sc & sc' & I & C). exists sc, sc'. split; [|exact C].
      destruct (check_sound _ _ _ _ _ Ec) as (_ & _ & I0 & _). eapply incl_tran; eauto.
  Qed.

  (** nothing reachable from an accepted object had been seen before *)
  Lemma check_reach_unseen : forall n h seen a s, check n h seen a = Some s ->
    forall b, reach h a b -> ~ In b seen.
  Proof.
    induction n as [|n IH]; intros h seen a s H b Hr; [discriminate|].
    rewrite check_unfold in H. destruct (existsb (Nat.eqb a) seen) eqn:Ex; [discriminate|].
    destruct (nth_error h a) as [nd|] eqn:En; [|discriminate].
    destruct Hr as [a|a nd' k c b Hn Hk Hr].
    - intros Hin. apply existsb_eqb_iff in Hin. congruence.
    - rewrite En in Hn. injection Hn as <-.
      destruct (check_kids_each _ _ _ _ _ H _ _ Hk) as (sc & sc' & I & C).
      intros Hin. apply (IH _ _ _ _ C _ Hr). apply I. now right.
  Qed.

  (** cycles are rejected: an object that reaches itself through a child is never accepted,
      whatever the budget and the set seen so far *)
  Theorem check_rejects_cycle n h seen a nd k c :
    nth_error h a = Some nd -> In (k, c) (hn_kids nd) -> reach h c a -> check n h seen a = None.
  Proof.
    intros En Hk Hr. destruct (check n h seen a) as [s|] eqn:H; [exfalso|reflexivity].
    destruct n as [|n]; [discriminate|]. rewrite check_unfold in H.
    destruct (existsb (Nat.eqb a) seen); [discriminate|]. rewrite En in H.
    destruct (check_kids_each _ _ _ _ _ H _ _ Hk) as (sc & sc' & I & C).
    apply (check_reach_unseen _ _ _ _ _ C _ Hr). apply I. now left.
  Qed.
End Clone.
