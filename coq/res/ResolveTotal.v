(** C10 for Schema.Resolve: the model of Resolve never takes one of its [Panic] branches (the
    lookups into the tables built by resolveURIs, the cache of loaded documents and the
    per-document location tables always succeed), for every schema tree, base URI and loader. *)
From Coq Require Import List NArith ZArith QArith Bool Lia.
From JS Require Import Str StrFacts Lit Json Res GoValue Schema Basic Pointer PointerFacts ChildFacts Env Uri Resolve ResolveFacts Addressable.
Import ListNotations.
Open Scope list_scope.
Local Open Scope nat_scope.

Lemma seg_eqb_refl a : seg_eqb a a = true.
Proof. destruct a; cbn; [apply str_eqb_eq; reflexivity|apply Nat.eqb_refl]. Qed.
Lemma path_eqb_refl p : path_eqb p p = true.
Proof. induction p as [|a r IH]; [reflexivity|]. cbn. now rewrite seg_eqb_refl, IH. Qed.
Lemma seg_eqb_eq a b : seg_eqb a b = true -> a = b.
Proof.
  destruct a, b; cbn; intros H; try discriminate.
  - apply str_eqb_eq in H. now subst.
  - apply Nat.eqb_eq in H. now subst.
Qed.
Lemma path_eqb_eq p : forall q, path_eqb p q = true -> p = q.
Proof.
  induction p as [|a r IH]; intros [|b q] H; cbn in H; try discriminate; [reflexivity|].
  apply andb_true_iff in H as [H1 H2]. apply seg_eqb_eq in H1. apply IH in H2. now subst.
Qed.

Definition has {A} (p : list seg) (t : list (list seg * A)) : Prop := exists v, lookup_path p t = Some v.

Lemma has_self {A} p (v : A) t : has p ((p, v) :: t).
Proof. exists v. cbn. now rewrite path_eqb_refl. Qed.
Lemma has_cons {A} p q (v : A) t : has p t -> has p ((q, v) :: t).
Proof. intros [w H]. unfold has. cbn. destruct (path_eqb p q); eauto. Qed.
Lemma lookup_path_In {A} p (t : list (list seg * A)) v : lookup_path p t = Some v -> In (p, v) t.
Proof.
  induction t as [|[q w] r IH]; cbn; [discriminate|]. destruct (path_eqb p q) eqn:E.
  - intros [= ->]. apply path_eqb_eq in E. subst. now left.
  - intros H. right. now apply IH.
Qed.

Lemma size_pos s : 0 < size s.
Proof. rewrite size_unfold. lia. Qed.

(** the tables of one document: every recorded base is a resource root with a URI, every
    recorded URI names a location of the tree *)
Definition DIok (root : schema) (di : docinfo) : Prop :=
  (forall q b, In (q, b) (di_base di) -> has b (di_uri di)) /\
  (forall u q, In (u, q) (di_uris di) -> subschema_at root q <> None).

Lemma setAnchor_base di base name p dyn : di_base (setAnchor di base name p dyn) = di_base di.
Proof. unfold setAnchor. destruct name; [reflexivity|]. destruct (is_some _); reflexivity. Qed.
Lemma setAnchor_uri di base name p dyn : di_uri (setAnchor di base name p dyn) = di_uri di.
Proof. unfold setAnchor. destruct name; [reflexivity|]. destruct (is_some _); reflexivity. Qed.
Lemma setAnchor_uris di base name p dyn : di_uris (setAnchor di base name p dyn) = di_uris di.
Proof. unfold setAnchor. destruct name; [reflexivity|]. destruct (is_some _); reflexivity. Qed.
Lemma setAnchor_draft di base name p dyn : di_draft7 (setAnchor di base name p dyn) = di_draft7 di.
Proof. unfold setAnchor. destruct name; [reflexivity|]. destruct (is_some _); reflexivity. Qed.

Lemma DIok_setAnchor root di base name p dyn : DIok root di -> DIok root (setAnchor di base name p dyn).
Proof. unfold DIok. now rewrite setAnchor_base, setAnchor_uri, setAnchor_uris. Qed.

Section Walk.
  Variable root : schema.

  (* what a walk establishes *)
  Definition walk_post (di di' : docinfo) (nodes : list (list seg * schema)) : Prop :=
    DIok root di' /\
    (forall b, has b (di_uri di) -> has b (di_uri di')) /\
    (forall q, has q (di_base di) -> has q (di_base di')) /\
    (forall q x, In (q, x) nodes -> has q (di_base di')).
  Definition walk_res (r : res docinfo) (di : docinfo) (nodes : list (list seg * schema)) : Prop :=
    match r with
    | Ok di' => walk_post di di' nodes
    | Err => True
    | Panic | OutOfFuel => False
    end.

  Definition kids_loop (n : nat) (p base1 : list seg) :=
    fix kids (cs : list (list seg * schema)) (di : docinfo) : res docinfo :=
      match cs with
      | [] => Ok di
      | (q, c) :: r => di' <- ru_walk n di (p ++ q) c base1 ;; kids r di'
      end.

  Lemma ru_walk_ok : forall n di p s base,
    size s <= n ->
    (forall q x, In (q, x) (all_sub_fuel n p s) -> good_node x) ->
    subschema_at root p = Some s -> DIok root di -> has base (di_uri di) ->
    walk_res (ru_walk n di p s base) di (all_sub_fuel n p s).
  Proof.
    induction n as [|n IH]; intros di p s base Hsz Hgood Hat Hok Hbase.
    { pose proof (size_pos s). lia. }
    assert (Hgs : good_node s) by (apply (Hgood p s); cbn [all_sub_fuel]; now left).
    change (ru_walk (S n) di p s base) with
      (step <-
          (if nonempty (s_id s) && negb (di_draft7 di && nonempty (s_ref s)) then
             match parse_uri (s_id s) with
             | POk idURI =>
                 if negb (di_draft7 di) && nonempty (u_frag idURI) then Err
                 else if di_draft7 di && nonempty (u_frag idURI) then
                   Ok (setAnchor di base (trim_hash (s_id s)) p false, base)
                 else
                   match lookup_path base (di_uri di) with
                   | None => Panic
                   | Some bu =>
                       let u := resolve_reference bu idURI in
                       if negb (is_abs u) then Err
                       else Ok (mkDoc (di_root di) (di_draft7 di) ((uri_string u, p) :: di_uris di)
                                      (di_base di) ((p, u) :: di_uri di) (di_anchors di), p)
                   end
             | _ => Err
             end
           else Ok (di, base)) ;;
        let di1 := fst step in
        let base1 := snd step in
        let di2 := mkDoc (di_root di1) (di_draft7 di1) (di_uris di1) ((p, base1) :: di_base di1) (di_uri di1) (di_anchors di1) in
        let di3 := if di_draft7 di2 then di2
                   else setAnchor (setAnchor di2 base1 (s_anchor s) p false) base1 (s_dynamicAnchor s) p true in
        kids_loop n p base1 (children s) di3).
    match goal with |- walk_res (step <- ?X ;; _) _ _ => destruct X as [[di1 base1]| | |] eqn:Es end; cbn [bind walk_res]; try exact I.
    3:{ (* the step never runs out of budget *)
        destruct (nonempty (s_id s) && _); [|discriminate]. destruct (parse_uri (s_id s)); try discriminate.
        destruct (negb (di_draft7 di) && _); [discriminate|]. destruct (di_draft7 di && _); [discriminate|].
        destruct (lookup_path base (di_uri di)); [|discriminate]. cbn zeta in Es. destruct (negb (is_abs _)); discriminate. }
    2:{ (* nor panics: the base is a recorded resource root *)
        destruct (nonempty (s_id s) && _); [|discriminate]. destruct (parse_uri (s_id s)); try discriminate.
        destruct (negb (di_draft7 di) && _); [discriminate|]. destruct (di_draft7 di && _); [discriminate|].
        destruct Hbase as [bu Hbu]. rewrite Hbu in Es. cbn zeta in Es. destruct (negb (is_abs _)); discriminate. }
    (* after the step *)
    assert (H1 : DIok root di1 /\ has base1 (di_uri di1) /\ (forall b, has b (di_uri di) -> has b (di_uri di1)) /\ di_base di1 = di_base di).
    { destruct (nonempty (s_id s) && _).
      2:{ injection Es as <- <-. repeat split; auto; apply Hok. }
      destruct (parse_uri (s_id s)) as [idURI| |]; try discriminate.
      destruct (negb (di_draft7 di) && _); [discriminate|]. destruct (di_draft7 di && _).
      { injection Es as <- <-. split; [now apply DIok_setAnchor|]. rewrite setAnchor_uri, setAnchor_base. auto. }
      destruct Hbase as [bu Hbu]. rewrite Hbu in Es. cbn zeta in Es. destruct (negb (is_abs _)); [discriminate|].
      injection Es as <- <-. cbn [di_uri di_base di_uris].
      split; [|split; [apply has_self|split; [intros b Hb; now apply has_cons|reflexivity]]].
      destruct Hok as [HB HU]. split; cbn [di_uri di_base di_uris].
      - intros q b Hin. apply has_cons. eapply HB; eauto.
      - intros u q [[= <- <-]|Hin]; [congruence|eapply HU; eauto]. }
    destruct H1 as (Hok1 & Hb1 & Hmono1 & Hbase1).
    cbn [fst snd]. cbn zeta.
    set (di2 := mkDoc (di_root di1) (di_draft7 di1) (di_uris di1) ((p, base1) :: di_base di1) (di_uri di1) (di_anchors di1)).
    assert (Hok2 : DIok root di2).
    { destruct Hok1 as [HB HU]. split; cbn [di2 di_uri di_base di_uris]; [|exact HU].
      intros q b [[= <- <-]|Hin]; [exact Hb1|eapply HB; eauto]. }
    set (di3 := if di_draft7 di2 then di2 else setAnchor (setAnchor di2 base1 (s_anchor s) p false) base1 (s_dynamicAnchor s) p true).
    assert (H3 : DIok root di3 /\ di_uri di3 = di_uri di1 /\ di_base di3 = (p, base1) :: di_base di1).
    { unfold di3. destruct (di_draft7 di2); [now split|]. split; [now apply DIok_setAnchor, DIok_setAnchor|]. now rewrite !setAnchor_uri, !setAnchor_base. }
    clearbody di3. destruct H3 as (Hok3 & Hu3 & Hb3).
    (* the children *)
    assert (Hloop : forall cs di_cur,
              (forall q c, In (q, c) cs -> In (q, c) (children s)) ->
              DIok root di_cur -> has base1 (di_uri di_cur) ->
              walk_res (kids_loop n p base1 cs di_cur) di_cur (flat_map (fun pc => all_sub_fuel n (p ++ fst pc) (snd pc)) cs)).
    { induction cs as [|[q c] r IHr]; intros dc Hsub Hokc Hbc.
      - cbn [kids_loop walk_res flat_map]. repeat split; auto; try apply Hokc. intros q x [].
      - cbn [kids_loop flat_map fst snd].
        assert (Hc : In (q, c) (children s)) by (apply Hsub; now left).
        pose proof (children_size s q c Hc) as Hlt.
        pose proof (IH dc (p ++ q) c base1) as Hw.
        destruct (ru_walk n dc (p ++ q) c base1) as [dc'| | |] eqn:Ew; cbn [bind walk_res] in Hw |- *.
        + destruct Hw as (Hok' & Hum & Hbm & Hcov); try assumption.
          * lia.
          * intros q0 x Hin. apply (Hgood q0 x). cbn [all_sub_fuel]. right. apply in_flat_map. exists (q, c). split; [exact Hc|exact Hin].
          * eapply subschema_at_app; [exact Hat|]. destruct Hgs as [Hb Hm]. now apply children_subschema.
          * pose proof (IHr dc' (fun q0 c0 Hin => Hsub q0 c0 (or_intror Hin)) Hok' (Hum _ Hbc)) as Hr.
            destruct (kids_loop n p base1 r dc') as [df| | |]; cbn [walk_res] in Hr |- *; try exact Hr.
            destruct Hr as (Hokf & Humf & Hbmf & Hcovf). repeat split; try apply Hokf; auto.
            intros q0 x Hin. apply in_app_or in Hin as [Hin|Hin]; [apply Hbmf; eapply Hcov; eauto|eapply Hcovf; eauto].
        + exact I.
        + apply Hw; try assumption; [lia| |].
          * intros q0 x Hin. apply (Hgood q0 x). cbn [all_sub_fuel]. right. apply in_flat_map. exists (q, c). split; [exact Hc|exact Hin].
          * eapply subschema_at_app; [exact Hat|]. destruct Hgs as [Hb Hm]. now apply children_subschema.
        + apply Hw; try assumption; [lia| |].
          * intros q0 x Hin. apply (Hgood q0 x). cbn [all_sub_fuel]. right. apply in_flat_map. exists (q, c). split; [exact Hc|exact Hin].
          * eapply subschema_at_app; [exact Hat|]. destruct Hgs as [Hb Hm]. now apply children_subschema. }
    pose proof (Hloop (children s) di3 (fun q c H => H) Hok3 ltac:(rewrite Hu3; exact Hb1)) as Hr.
    destruct (kids_loop n p base1 (children s) di3) as [df| | |]; cbn [walk_res] in Hr |- *; try exact Hr.
    destruct Hr as (Hokf & Humf & Hbmf & Hcovf). split; [exact Hokf|]. split; [|split].
    - intros b Hb. apply Humf. rewrite Hu3. now apply Hmono1.
    - intros q Hq. apply Hbmf. rewrite Hb3, Hbase1. now apply has_cons.
    - intros q x Hin. cbn [all_sub_fuel] in Hin. destruct Hin as [[= <- <-]|Hin].
      + apply Hbmf. rewrite Hb3. apply has_self.
      + now apply (Hcovf q x).
  Qed.
End Walk.

(** schema trees that Go values can represent: maps have no duplicate keys *)
Definition wfs (s : schema) : Prop := forall p x, In (p, x) (all_sub s) -> maps_nodup x.

Section Total.
  Variable re_ok : str -> bool.
  Variable loader : option (list (str * option schema)).
  Variable rootDraft7 : bool.
  Hypothesis Hload : forall u s, call_loader loader u = Some s -> wfs s.

  (* the resolver's state: cache entries name loaded documents; every document's tables are sound *)
  Definition WF (st : rstate) : Prop :=
    (forall u k, lookup u (r_cache st) = Some k -> k < length (r_docs st)) /\
    (forall k dk, nth_error (r_docs st) k = Some dk -> DIok (di_root dk) dk).

  Definition step_res {A} (r : res (rstate * A)) (st : rstate) (P : rstate -> A -> Prop) : Prop :=
    match r with
    | Ok (st', a) => WF st' /\ ext st st' /\ P st' a
    | Panic => False
    | _ => True
    end.

  Lemma ext_nth st st' k dk : ext st st' -> nth_error (r_docs st) k = Some dk -> nth_error (r_docs st') k = Some dk.
  Proof.
    intros [extra He] H. rewrite He. rewrite nth_error_app1; [exact H|]. apply nth_error_Some. congruence.
  Qed.
  Lemma ext_len st st' : ext st st' -> length (r_docs st) <= length (r_docs st').
  Proof. intros [extra He]. rewrite He, app_length. lia. Qed.

  Section Rec.
    Variable rec : rstate -> schema -> uri -> res (rstate * nat).
    Hypothesis Hrec : forall st ls u, WF st -> wfs ls ->
      step_res (rec st ls u) st (fun st' k => k < length (r_docs st')).

    Lemma resolveRef_total di d st p ref :
      WF st -> nth_error (r_docs st) d = Some di -> has p (di_base di) ->
      step_res (resolveRef loader rec di d st p ref) st (fun _ _ => True).
    Proof.
      intros Hwf Hd Hp. unfold resolveRef.
      destruct (parse_uri ref) as [u0| |]; cbn [step_res]; try exact I.
      destruct Hp as [base Hbase]. rewrite Hbase.
      pose proof (proj2 Hwf d di Hd) as [HB HU].
      destruct (HB p base (lookup_path_In _ _ _ Hbase)) as [bu Hbu]. rewrite Hbu. cbn zeta.
      set (refURI := resolve_reference bu u0).
      (* the target document *)
      assert (Ht : step_res
                (match lookup (uri_string (drop_frag refURI)) (di_uris di) with
                 | Some q => Ok (st, (d, q))
                 | None =>
                     match lookup (uri_string (drop_frag refURI)) (r_cache st) with
                     | Some d' => Ok (st, (d', []))
                     | None =>
                         match call_loader loader (uri_string (drop_frag refURI)) with
                         | None => Err
                         | Some ls =>
                             r <- rec (mkR (r_docs st) (r_cache st) (r_refs st) (r_calls st ++ [uri_string (drop_frag refURI)])) ls (drop_frag refURI) ;;
                             Ok (fst r, (snd r, []))
                         end
                     end
                 end) st
                (fun st2 dq => exists di', nth_error (r_docs st2) (fst dq) = Some di' /\ subschema_at (di_root di') (snd dq) <> None)).
      { destruct (lookup _ (di_uris di)) as [q|] eqn:Eu.
        - cbn [step_res fst snd]. split; [exact Hwf|]. split; [apply ext_refl|]. exists di. split; [exact Hd|].
          eapply HU. eapply lookup_In. exact Eu.
        - destruct (lookup _ (r_cache st)) as [d'|] eqn:Ec.
          + cbn [step_res fst snd]. split; [exact Hwf|]. split; [apply ext_refl|].
            pose proof (proj1 Hwf _ _ Ec) as Hlt. apply nth_error_Some in Hlt.
            destruct (nth_error (r_docs st) d') as [di'|]; [|congruence]. exists di'. split; [reflexivity|]. cbn [subschema_at]. discriminate.
          + destruct (call_loader loader _) as [ls|] eqn:El; [|exact I].
            set (st0 := mkR _ _ _ _).
            assert (Hwf0 : WF st0) by (split; [apply (proj1 Hwf)|apply (proj2 Hwf)]).
            pose proof (Hrec st0 ls (drop_frag refURI) Hwf0 (Hload _ _ El)) as Hr.
            destruct (rec st0 ls (drop_frag refURI)) as [[st' k]| | |]; cbn [bind step_res fst snd] in Hr |- *; try exact Hr.
            destruct Hr as (Hwf' & He & Hk). split; [exact Hwf'|]. split; [exact He|].
            apply nth_error_Some in Hk. destruct (nth_error (r_docs st') k) as [di'|]; [|congruence].
            exists di'. split; [reflexivity|]. cbn [subschema_at]. discriminate. }
      match goal with |- step_res (tgt <- ?X ;; _) _ _ => destruct X as [[st2 [d' q]]| | |] end; cbn [bind step_res] in Ht |- *; try exact Ht.
      destruct Ht as (Hwf2 & He2 & di' & Hd' & Hsub). cbn [fst snd] in Hd', Hsub |- *.
      rewrite Hd'.
      destruct (u_frag refURI) as [|c fr].
      - cbn [step_res]. auto.
      - destruct (negb (N.eqb c 47)).
        + destruct (lookup _ (anchors_of di' q)) as [[t dyn]|]; cbn [step_res]; auto.
        + destruct (subschema_at (di_root di') q) as [rs|]; [|congruence].
          destruct (dereferenceJSONPointer rs (c :: fr)) as [r| | |] eqn:Ep; cbn [bind step_res]; auto.
          * (* dereferenceJSONPointer has no Panic result *)
            unfold dereferenceJSONPointer in Ep. destruct (parseJSONPointer (c :: fr)) as [segs| | |] eqn:Eparse; cbn [bind] in Ep.
            -- revert Ep. generalize (@nil seg). generalize (PSchema rs). clear. induction segs as [|sg r IH]; intros v path; cbn [deref_walk].
               ++ destruct v; discriminate.
               ++ destruct v as [s0| |l|m|]; try discriminate.
                  ** destruct (lookup_field sg s0); [apply IH|discriminate].
                  ** destruct (index_below sg (length l)); [|discriminate]. destruct (nth_error l n); [apply IH|discriminate].
                  ** destruct (lookup sg m); [apply IH|discriminate].
            -- discriminate.
            -- unfold parseJSONPointer in Eparse. destruct (N.eqb c c_slash); [|discriminate]. destruct (forallb _ _); discriminate.
            -- unfold parseJSONPointer in Eparse. destruct (N.eqb c c_slash); [|discriminate]. destruct (forallb _ _); discriminate.
    Qed.

    Lemma resolveRefs_total di d : forall nodes st,
      WF st -> nth_error (r_docs st) d = Some di ->
      (forall p c, In (p, c) nodes -> has p (di_base di)) ->
      match resolveRefs loader rec di d nodes st with
      | Ok st' => WF st' /\ ext st st'
      | Panic => False
      | _ => True
      end.
    Proof.
      induction nodes as [|[p c] r IH]; intros st Hwf Hd Hcov; cbn [resolveRefs].
      - split; [exact Hwf|apply ext_refl].
      - assert (Hp : has p (di_base di)) by (apply (Hcov p c); now left).
        (* $ref *)
        assert (H1 : match (if nonempty (s_ref c) then
                              x <- resolveRef loader rec di d st p (s_ref c) ;;
                              Ok (set_ref (fst x) (d, p) (fun ri => mkRef (Some (fst (snd x))) (rf_dynref ri) (rf_dynanchor ri)))
                            else Ok st) with
                     | Ok st1 => WF st1 /\ ext st st1
                     | Panic => False
                     | _ => True
                     end).
        { destruct (nonempty (s_ref c)); [|split; [exact Hwf|apply ext_refl]].
          pose proof (resolveRef_total di d st p (s_ref c) Hwf Hd Hp) as Hr.
          destruct (resolveRef loader rec di d st p (s_ref c)) as [[st1 x]| | |]; cbn [bind step_res fst snd] in Hr |- *; try exact Hr.
          destruct Hr as (Hwf1 & He1 & _). split; [|exact He1]. split; [apply (proj1 Hwf1)|apply (proj2 Hwf1)]. }
        match goal with |- match (st1 <- ?X ;; _) with _ => _ end => destruct X as [st1| | |] end; cbn [bind] in H1 |- *; try exact H1.
        destruct H1 as [Hwf1 He1].
        pose proof (ext_nth _ _ _ _ He1 Hd) as Hd1.
        assert (H2 : match (if nonempty (s_dynamicRef c) then
                              x <- resolveRef loader rec di d st1 p (s_dynamicRef c) ;;
                              Ok (set_ref (fst x) (d, p) (fun ri => mkRef (rf_ref ri) (Some (fst (snd x))) (snd (snd x))))
                            else Ok st1) with
                     | Ok st2 => WF st2 /\ ext st1 st2
                     | Panic => False
                     | _ => True
                     end).
        { destruct (nonempty (s_dynamicRef c)); [|split; [exact Hwf1|apply ext_refl]].
          pose proof (resolveRef_total di d st1 p (s_dynamicRef c) Hwf1 Hd1 Hp) as Hr.
          destruct (resolveRef loader rec di d st1 p (s_dynamicRef c)) as [[st2 x]| | |]; cbn [bind step_res fst snd] in Hr |- *; try exact Hr.
          destruct Hr as (Hwf2 & He2 & _). split; [|exact He2]. split; [apply (proj1 Hwf2)|apply (proj2 Hwf2)]. }
        match goal with |- match (st2 <- ?X ;; _) with _ => _ end => destruct X as [st2| | |] end; cbn [bind] in H2 |- *; try exact H2.
        destruct H2 as [Hwf2 He2].
        pose proof (IH st2 Hwf2 (ext_nth _ _ _ _ He2 Hd1) (fun p0 c0 Hin => Hcov p0 c0 (or_intror Hin))) as Hr.
        destruct (resolveRefs loader rec di d r st2) as [st'| | |]; try exact Hr.
        destruct Hr as [Hwf' He']. split; [exact Hwf'|]. eapply ext_trans; [exact He1|]. eapply ext_trans; [exact He2|exact He'].
    Qed.
  End Rec.

  Lemma check_good s : check re_ok s = true -> wfs s -> forall p x, In (p, x) (all_sub s) -> good_node x.
  Proof.
    intros Hc Hw p x Hin. split; [|eapply Hw; eauto].
    unfold check in Hc. rewrite forallb_forall in Hc. specialize (Hc (p, x) Hin). cbn [snd] in Hc.
    unfold checkLocal in Hc. do 3 (apply andb_true_iff in Hc as [Hc _]). exact Hc.
  Qed.

  (** resolver.resolve: never a panic, whatever the budget *)
  Lemma resolve_doc_total : forall n st s b, WF st -> wfs s ->
    step_res (resolve_doc re_ok loader rootDraft7 n st s b) st (fun st' k => k < length (r_docs st')).
  Proof.
    induction n as [|n IH]; intros st s b Hwf Hs; [exact I|]. cbn [resolve_doc].
    destruct (nonempty (u_frag b)); [exact I|].
    destruct (negb (check re_ok s)) eqn:Ec; [exact I|]. apply negb_false_iff in Ec.
    pose proof (check_good s Ec Hs) as Hgood.
    set (d7 := if nonempty (s_schema s) then detectDraft7 s else rootDraft7).
    (* resolveURIs *)
    assert (Hw : walk_res s (ru_walk (size s) (mkDoc s d7 [(uri_string b, [])] [] [([], b)] []) [] s [])
                   (mkDoc s d7 [(uri_string b, [])] [] [([], b)] []) (all_sub_fuel (size s) [] s)).
    { apply ru_walk_ok; [apply le_n|exact Hgood|reflexivity| |apply has_self].
      split; cbn [di_base di_uris di_uri]; [intros q b0 []|intros u q [[= <- <-]|[]]; cbn [subschema_at]; discriminate]. }
    unfold resolveURIs.
    destruct (ru_walk (size s) _ [] s []) as [di| | |] eqn:Eu; cbn [bind step_res walk_res] in Hw |- *; try exact I; try contradiction.
    destruct Hw as (Hok & _ & _ & Hcov).
    pose proof (ru_walk_root _ _ _ _ _ _ Eu) as Hroot. cbn [di_root] in Hroot.
    set (rootURI := match lookup_path [] (di_uri di) with Some u => uri_string u | None => [] end).
    set (st1 := mkR (r_docs st ++ [di]) ((rootURI, length (r_docs st)) :: (uri_string b, length (r_docs st)) :: r_cache st) (r_refs st) (r_calls st)).
    assert (Hwf1 : WF st1).
    { split; cbn [st1 r_cache r_docs].
      - intros u k Hl. rewrite app_length. cbn [length]. cbn [lookup] in Hl.
        destruct (str_eqb u rootURI); [injection Hl as <-; lia|]. destruct (str_eqb u (uri_string b)); [injection Hl as <-; lia|].
        pose proof (proj1 Hwf u k Hl). lia.
      - intros k dk Hk. destruct (Nat.lt_ge_cases k (length (r_docs st))) as [Hlt|Hge].
        + rewrite nth_error_app1 in Hk by exact Hlt. now apply (proj2 Hwf k).
        + rewrite nth_error_app2 in Hk by exact Hge. destruct (k - length (r_docs st)) as [|k']; [|destruct k'; discriminate].
          injection Hk as <-. rewrite Hroot. exact Hok. }
    assert (Hd1 : nth_error (r_docs st1) (length (r_docs st)) = Some di).
    { cbn [st1 r_docs]. rewrite nth_error_app2 by lia. now rewrite Nat.sub_diag. }
    pose proof (resolveRefs_total (resolve_doc re_ok loader rootDraft7 n) IH di (length (r_docs st)) (all_sub s) st1 Hwf1 Hd1 Hcov) as Hr.
    destruct (resolveRefs loader _ di (length (r_docs st)) (all_sub s) st1) as [st'| | |]; cbn [bind step_res]; try exact Hr.
    destruct Hr as [Hwf' He']. split; [exact Hwf'|]. split.
    - destruct He' as [extra He]. exists ([di] ++ extra). rewrite He. cbn [st1 r_docs]. now rewrite <- app_assoc.
    - apply ext_len in He'. cbn [st1 r_docs] in He'. rewrite app_length in He'. cbn [length] in He'. lia.
  Qed.
End Total.

(** Schema.Resolve returns a Resolved or an error, never panics - for every schema tree, base
    URI, loader (whatever it returns, including nothing) and regexp oracle *)
Theorem Resolve_no_panic re_ok fuel root baseURI loader :
  wfs root -> (forall u s, call_loader loader u = Some s -> wfs s) ->
  Resolve re_ok fuel root baseURI loader <> Panic.
Proof.
  intros Hroot Hload. unfold Resolve.
  destruct (match baseURI with [] => POk empty_uri | _ => parse_uri baseURI end) as [base0| |]; try discriminate.
  set (base := norm_base baseURI base0) in *; clearbody base.
  pose proof (resolve_doc_total re_ok loader (detectDraft7 root) Hload fuel (mkR [] [] [] []) root base) as H.
  destruct (resolve_doc re_ok loader (detectDraft7 root) fuel (mkR [] [] [] []) root base) as [[st d]| | |]; cbn [bind step_res] in H |- *; try discriminate.
  exfalso. apply H; [|exact Hroot]. split; cbn [r_cache r_docs]; [intros u k Hl; discriminate|intros [|k] dk Hk; discriminate].
Qed.

(** ** ... and never hangs: the depth of nested document loads is bounded by the number of
    documents the loader can return, because a document is cached before its references are
    followed *)
Lemma filter_len_le {A} (f g : A -> bool) l :
  (forall x, In x l -> f x = true -> g x = true) -> length (filter f l) <= length (filter g l).
Proof.
  induction l as [|x r IH]; intros H; [apply le_n|]. cbn [filter].
  assert (IH' := IH (fun y Hy => H y (or_intror Hy))).
  destruct (f x) eqn:Ef.
  - rewrite (H x (or_introl eq_refl) Ef). cbn [length]. lia.
  - destruct (g x); cbn [length]; lia.
Qed.
Lemma filter_len_lt {A} (f g : A -> bool) l x :
  (forall y, In y l -> f y = true -> g y = true) -> In x l -> g x = true -> f x = false ->
  length (filter f l) < length (filter g l).
Proof.
  induction l as [|y r IH]; intros H Hin Hg Hf; [contradiction|]. cbn [filter].
  destruct Hin as [->|Hin].
  - rewrite Hf, Hg. cbn [length]. pose proof (filter_len_le f g r (fun z Hz => H z (or_intror Hz))). lia.
  - assert (IH' := IH (fun z Hz => H z (or_intror Hz)) Hin Hg Hf).
    destruct (f y) eqn:Ef.
    + rewrite (H y (or_introl eq_refl) Ef). cbn [length]. lia.
    + destruct (g y); cbn [length]; lia.
Qed.

Section Fuel.
  Variable re_ok : str -> bool.
  Variable loader : option (list (str * option schema)).
  Variable rootDraft7 : bool.
  Hypothesis Hload : forall u s, call_loader loader u = Some s -> wfs s.

  Definition loadable : list str := match loader with Some tbl => keys tbl | None => [] end.
  Definition uncached (st : rstate) (u : str) : bool := negb (is_some (lookup u (r_cache st))).
  Definition pend (st : rstate) : nat := length (filter (uncached st) loadable).
  Definition pend_after (st : rstate) (b : str) : nat :=
    length (filter (fun u => uncached st u && negb (str_eqb u b)) loadable).

  (* the cache only grows *)
  Definition CM (st st' : rstate) : Prop := forall u, uncached st' u = true -> uncached st u = true.
  Lemma CM_refl st : CM st st. Proof. intros u H; exact H. Qed.
  Lemma CM_trans a b c : CM a b -> CM b c -> CM a c. Proof. intros H1 H2 u H. auto. Qed.
  Lemma CM_pend st st' : CM st st' -> pend st' <= pend st.
  Proof. intros H. apply filter_len_le. intros u _. apply H. Qed.

  Lemma call_loader_loadable u s : call_loader loader u = Some s -> In u loadable.
  Proof.
    unfold call_loader, loadable. destruct loader as [tbl|]; [|discriminate].
    destruct (lookup u tbl) as [o|] eqn:El; [|discriminate]. intros _. apply lookup_In in El. apply (in_map fst) in El. exact El.
  Qed.

  Definition fuel_res {A} (r : res (rstate * A)) (st : rstate) : Prop :=
    match r with Ok (st', _) => CM st st' | OutOfFuel => False | _ => True end.

  Section Rec.
    Variable n : nat.
    Variable rec : rstate -> schema -> uri -> res (rstate * nat).
    Hypothesis Hrec : forall st ls u, wfs ls -> pend_after st (uri_string u) < n -> fuel_res (rec st ls u) st.

    Lemma resolveRef_fuel di d st p ref : pend st <= n -> fuel_res (resolveRef loader rec di d st p ref) st.
    Proof.
      intros Hn. unfold resolveRef.
      destruct (parse_uri ref) as [u0| |]; cbn [fuel_res]; try exact I.
      destruct (lookup_path p (di_base di)) as [base|]; [|exact I].
      destruct (lookup_path base (di_uri di)) as [bu|]; [|exact I]. cbn zeta.
      set (refURI := resolve_reference bu u0).
      assert (Ht : fuel_res
                (match lookup (uri_string (drop_frag refURI)) (di_uris di) with
                 | Some q => Ok (st, (d, q))
                 | None =>
                     match lookup (uri_string (drop_frag refURI)) (r_cache st) with
                     | Some d' => Ok (st, (d', []))
                     | None =>
                         match call_loader loader (uri_string (drop_frag refURI)) with
                         | None => Err
                         | Some ls =>
                             r <- rec (mkR (r_docs st) (r_cache st) (r_refs st) (r_calls st ++ [uri_string (drop_frag refURI)])) ls (drop_frag refURI) ;;
                             Ok (fst r, (snd r, []))
                         end
                     end
                 end) st).
      { destruct (lookup _ (di_uris di)); [apply CM_refl|].
        destruct (lookup _ (r_cache st)) eqn:Ec; [apply CM_refl|].
        destruct (call_loader loader _) as [ls|] eqn:El; [|exact I].
        set (st0 := mkR _ _ _ _).
        assert (Hlt : pend_after st0 (uri_string (drop_frag refURI)) < n).
        { eapply Nat.lt_le_trans; [|exact Hn]. unfold pend_after, pend.
          apply (filter_len_lt _ _ _ (uri_string (drop_frag refURI))).
          - intros y _ Hy. apply andb_true_iff in Hy as [Hy _]. exact Hy.
          - eapply call_loader_loadable; eauto.
          - unfold uncached. now rewrite Ec.
          - assert (E : str_eqb (uri_string (drop_frag refURI)) (uri_string (drop_frag refURI)) = true) by (now apply str_eqb_eq).
            rewrite E. now rewrite andb_false_r. }
        pose proof (Hrec st0 ls (drop_frag refURI) (Hload _ _ El) Hlt) as Hr.
        destruct (rec st0 ls (drop_frag refURI)) as [[st' k]| | |]; cbn [bind fuel_res fst] in Hr |- *; try exact Hr. }
      match goal with |- fuel_res (tgt <- ?X ;; _) _ => destruct X as [[st2 [d' q]]| | |] end; cbn [bind fuel_res] in Ht |- *; try exact Ht.
      cbn [fst snd].
      destruct (nth_error (r_docs st2) d') as [di'|]; [|exact I].
      destruct (u_frag refURI) as [|c fr]; [exact Ht|].
      destruct (negb (N.eqb c 47)).
      - destruct (lookup _ (anchors_of di' q)) as [[t dyn]|]; [exact Ht|exact I].
      - destruct (subschema_at (di_root di') q) as [rs|]; [|exact I].
        destruct (dereferenceJSONPointer rs (c :: fr)) as [r| | |] eqn:Ep; cbn [bind fuel_res]; try exact I; [exact Ht|].
        (* dereferenceJSONPointer has no OutOfFuel result *)
        unfold dereferenceJSONPointer in Ep. destruct (parseJSONPointer (c :: fr)) as [segs| | |] eqn:Eparse; cbn [bind] in Ep.
        + revert Ep. generalize (@nil seg). generalize (PSchema rs). clear. induction segs as [|sg r IH]; intros v path; cbn [deref_walk].
          * destruct v; discriminate.
          * destruct v as [s0| |l|m|]; try discriminate.
            -- destruct (lookup_field sg s0); [apply IH|discriminate].
            -- destruct (index_below sg (length l)); [|discriminate]. destruct (nth_error l n); [apply IH|discriminate].
            -- destruct (lookup sg m); [apply IH|discriminate].
        + discriminate.
        + unfold parseJSONPointer in Eparse. destruct (N.eqb c c_slash); [|discriminate]. destruct (forallb _ _); discriminate.
        + unfold parseJSONPointer in Eparse. destruct (N.eqb c c_slash); [|discriminate]. destruct (forallb _ _); discriminate.
    Qed.

    Lemma set_ref_CM st st' l f : CM st st' -> CM st (set_ref st' l f).
    Proof. intros H u Hu. apply H. exact Hu. Qed.

    Lemma resolveRefs_fuel di d : forall nodes st, pend st <= n ->
      match resolveRefs loader rec di d nodes st with Ok st' => CM st st' | OutOfFuel => False | _ => True end.
    Proof.
      induction nodes as [|[p c] r IH]; intros st Hn; cbn [resolveRefs]; [apply CM_refl|].
      assert (H1 : match (if nonempty (s_ref c) then
                            x <- resolveRef loader rec di d st p (s_ref c) ;;
                            Ok (set_ref (fst x) (d, p) (fun ri => mkRef (Some (fst (snd x))) (rf_dynref ri) (rf_dynanchor ri)))
                          else Ok st) with Ok st1 => CM st st1 | OutOfFuel => False | _ => True end).
      { destruct (nonempty (s_ref c)); [|apply CM_refl].
        pose proof (resolveRef_fuel di d st p (s_ref c) Hn) as Hr.
        destruct (resolveRef loader rec di d st p (s_ref c)) as [[st1 x]| | |]; cbn [bind fuel_res fst snd] in Hr |- *; try exact Hr.
        all: try (now apply set_ref_CM). }
      match goal with |- match (st1 <- ?X ;; _) with _ => _ end => destruct X as [st1| | |] end; cbn [bind] in H1 |- *; try exact H1.
      assert (Hn1 : pend st1 <= n) by (pose proof (CM_pend _ _ H1); lia).
      assert (H2 : match (if nonempty (s_dynamicRef c) then
                            x <- resolveRef loader rec di d st1 p (s_dynamicRef c) ;;
                            Ok (set_ref (fst x) (d, p) (fun ri => mkRef (rf_ref ri) (Some (fst (snd x))) (snd (snd x))))
                          else Ok st1) with Ok st2 => CM st1 st2 | OutOfFuel => False | _ => True end).
      { destruct (nonempty (s_dynamicRef c)); [|apply CM_refl].
        pose proof (resolveRef_fuel di d st1 p (s_dynamicRef c) Hn1) as Hr.
        destruct (resolveRef loader rec di d st1 p (s_dynamicRef c)) as [[st2 x]| | |]; cbn [bind fuel_res fst snd] in Hr |- *; try exact Hr.
        all: try (now apply set_ref_CM). }
      match goal with |- match (st2 <- ?X ;; _) with _ => _ end => destruct X as [st2| | |] end; cbn [bind] in H2 |- *; try exact H2.
      assert (Hn2 : pend st2 <= n) by (pose proof (CM_pend _ _ H2); lia).
      pose proof (IH st2 Hn2) as Hr.
      destruct (resolveRefs loader rec di d r st2) as [st'| | |]; try exact Hr.
      eapply CM_trans; [exact H1|]. eapply CM_trans; [exact H2|exact Hr].
    Qed.
  End Rec.

  Lemma resolve_doc_fuel : forall n st s b, wfs s -> pend_after st (uri_string b) < n ->
    fuel_res (resolve_doc re_ok loader rootDraft7 n st s b) st.
  Proof.
    induction n as [|n IH]; intros st s b Hs Hn; [lia|]. cbn [resolve_doc].
    destruct (nonempty (u_frag b)); [exact I|].
    destruct (negb (check re_ok s)) eqn:Ec; [exact I|]. apply negb_false_iff in Ec.
    pose proof (check_good re_ok s Ec Hs) as Hgood.
    set (d7 := if nonempty (s_schema s) then detectDraft7 s else rootDraft7).
    assert (Hw : walk_res s (ru_walk (size s) (mkDoc s d7 [(uri_string b, [])] [] [([], b)] []) [] s [])
                   (mkDoc s d7 [(uri_string b, [])] [] [([], b)] []) (all_sub_fuel (size s) [] s)).
    { apply ru_walk_ok; [apply le_n|exact Hgood|reflexivity| |apply has_self].
      split; cbn [di_base di_uris di_uri]; [intros q b0 []|intros u q [[= <- <-]|[]]; cbn [subschema_at]; discriminate]. }
    unfold resolveURIs.
    destruct (ru_walk (size s) _ [] s []) as [di| | |] eqn:Eu; cbn [bind fuel_res walk_res] in Hw |- *; try exact I; try contradiction.
    set (rootURI := match lookup_path [] (di_uri di) with Some u => uri_string u | None => [] end).
    set (st1 := mkR (r_docs st ++ [di]) ((rootURI, length (r_docs st)) :: (uri_string b, length (r_docs st)) :: r_cache st) (r_refs st) (r_calls st)).
    assert (Hcm1 : CM st st1).
    { intros u. unfold uncached. cbn [st1 r_cache lookup]. destruct (str_eqb u rootURI); [discriminate|]. destruct (str_eqb u (uri_string b)); [discriminate|]. auto. }
    assert (Hp1 : pend st1 <= n).
    { assert (pend st1 <= pend_after st (uri_string b)); [|lia]. apply filter_len_le. intros u _. unfold uncached. cbn [st1 r_cache lookup].
      destruct (str_eqb u rootURI); [discriminate|]. destruct (str_eqb u (uri_string b)); [discriminate|]. intros ->. reflexivity. }
    pose proof (resolveRefs_fuel n (resolve_doc re_ok loader rootDraft7 n) (fun st0 ls u Hls Hlt => IH st0 ls u Hls Hlt) di (length (r_docs st)) (all_sub s) st1 Hp1) as Hr.
    destruct (resolveRefs loader _ di (length (r_docs st)) (all_sub s) st1) as [st'| | |]; cbn [bind fuel_res]; try exact Hr.
    eapply CM_trans; eauto.
  Qed.
End Fuel.

(** with a budget above the number of entries of the loader's table, Resolve returns *)
Theorem Resolve_returns re_ok fuel root baseURI loader :
  wfs root -> (forall u s, call_loader loader u = Some s -> wfs s) ->
  length (loadable loader) < fuel ->
  (exists e calls, Resolve re_ok fuel root baseURI loader = Ok (e, calls)) \/ Resolve re_ok fuel root baseURI loader = Err.
Proof.
  intros Hroot Hload Hfuel.
  pose proof (Resolve_no_panic re_ok fuel root baseURI loader Hroot Hload) as Hnp.
  assert (Hnf : Resolve re_ok fuel root baseURI loader <> OutOfFuel).
  { unfold Resolve.
    destruct (match baseURI with [] => POk empty_uri | _ => parse_uri baseURI end) as [base0| |]; try discriminate.
  set (base := norm_base baseURI base0) in *; clearbody base.
    pose proof (resolve_doc_fuel re_ok loader (detectDraft7 root) Hload fuel (mkR [] [] [] []) root base Hroot) as H.
    destruct (resolve_doc re_ok loader (detectDraft7 root) fuel (mkR [] [] [] []) root base) as [[st d]| | |]; cbn [bind fuel_res] in H |- *; try discriminate.
    exfalso. apply H. eapply Nat.le_lt_trans; [|exact Hfuel]. unfold pend_after.
    etransitivity; [apply (filter_len_le _ (fun _ => true)); reflexivity|]. clear. induction (loadable loader); cbn; lia. }
  destruct (Resolve re_ok fuel root baseURI loader) as [[e calls]| | |]; try congruence; eauto.
Qed.

(** ** the Loader is asked at most once for each URI (C03) *)
Lemma NoDup_app_one {A} (l : list A) x : NoDup l -> ~ In x l -> NoDup (l ++ [x]).
Proof.
  induction 1 as [|y r Hy Hnd IH]; intros Hx; cbn; [constructor; [intros []|constructor]|].
  constructor.
  - intros Hin. apply in_app_or in Hin as [Hin|[->|[]]]; [contradiction|]. apply Hx. now left.
  - apply IH. intros Hin. apply Hx. now right.
Qed.

Section Once.
  Variable re_ok : str -> bool.
  Variable loader : option (list (str * option schema)).
  Variable rootDraft7 : bool.

  Definition Once (st : rstate) (extra : option str) : Prop :=
    NoDup (r_calls st) /\ forall u, In u (r_calls st) -> uncached st u = false \/ Some u = extra.

  Lemma Once_CM st st' x : r_calls st' = r_calls st -> CM st st' -> Once st x -> Once st' x.
  Proof.
    intros Hc Hm [Hnd Hall]. split; rewrite Hc; [exact Hnd|]. intros u Hu. destruct (Hall u Hu) as [H|H]; [left|now right].
    destruct (uncached st' u) eqn:E; [|reflexivity]. apply Hm in E. congruence.
  Qed.

  Lemma Once_set_ref st l f x : Once st x -> Once (set_ref st l f) x.
  Proof. intros H. exact H. Qed.
  Lemma CM_set_ref st st' l f : CM st st' -> CM st (set_ref st' l f).
  Proof. intros H u Hu. apply H. exact Hu. Qed.

  Section Rec.
    Variable rec : rstate -> schema -> uri -> res (rstate * nat).
    Hypothesis Hrec : forall st ls u r, rec st ls u = Ok r -> Once st (Some (uri_string u)) -> Once (fst r) None /\ CM st (fst r).

    Lemma resolveRef_once di d st p ref x :
      resolveRef loader rec di d st p ref = Ok x -> Once st None -> Once (fst x) None /\ CM st (fst x).
    Proof.
      unfold resolveRef. intros H Ho.
      destruct (parse_uri ref) as [u0| |]; try discriminate.
      destruct (lookup_path p (di_base di)) as [base|]; [|discriminate].
      destruct (lookup_path base (di_uri di)) as [bu|]; [|discriminate]. cbn zeta in H.
      set (refURI := resolve_reference bu u0) in *.
      match type of H with (tgt <- ?X ;; _) = _ => destruct X as [[st2 [d' q]]| | |] eqn:Et end; cbn [bind] in H; try discriminate.
      assert (H2 : Once st2 None /\ CM st st2).
      { destruct (lookup _ (di_uris di)); [injection Et as <- _ _; split; [exact Ho|apply CM_refl]|].
        destruct (lookup _ (r_cache st)) eqn:Ec; [injection Et as <- _ _; split; [exact Ho|apply CM_refl]|].
        destruct (call_loader loader _) as [ls|]; [|discriminate].
        destruct (rec _ ls _) as [r| | |] eqn:Er; cbn [bind] in Et; try discriminate. injection Et as <- _ _.
        apply Hrec in Er; [exact Er|].
        destruct Ho as [Hnd Hall]. split; cbn [r_calls].
        - apply NoDup_app_one; [exact Hnd|]. intros Hin. destruct (Hall _ Hin) as [Hc|Hc]; [|discriminate].
          unfold uncached in Hc. rewrite Ec in Hc. discriminate.
        - intros u Hu. apply in_app_or in Hu as [Hu|[<-|[]]]; [|now right].
          destruct (Hall u Hu) as [Hc|Hc]; [left; exact Hc|discriminate]. }
      cbn [fst snd] in H.
      destruct (nth_error (r_docs st2) d') as [di'|]; [|discriminate].
      destruct (u_frag refURI) as [|c fr]; [injection H as <-; exact H2|].
      destruct (negb (N.eqb c 47)).
      - destruct (lookup _ (anchors_of di' q)) as [[t dyn]|]; [|discriminate]. injection H as <-. exact H2.
      - destruct (subschema_at _ q) as [rs|]; [|discriminate].
        destruct (dereferenceJSONPointer rs _) as [r| | |]; cbn [bind] in H; try discriminate. injection H as <-. exact H2.
    Qed.

    Lemma resolveRefs_once di d : forall nodes st st',
      resolveRefs loader rec di d nodes st = Ok st' -> Once st None -> Once st' None /\ CM st st'.
    Proof.
      induction nodes as [|[p c] r IH]; intros st st' H Ho; cbn [resolveRefs] in H.
      - injection H as <-. split; [exact Ho|apply CM_refl].
      - match type of H with (st1 <- ?X ;; _) = _ => destruct X as [st1| | |] eqn:E1 end; cbn [bind] in H; try discriminate.
        match type of H with (st2 <- ?X ;; _) = _ => destruct X as [st2| | |] eqn:E2 end; cbn [bind] in H; try discriminate.
        assert (H1 : Once st1 None /\ CM st st1).
        { destruct (nonempty (s_ref c)); [|injection E1 as <-; split; [exact Ho|apply CM_refl]].
          destruct (resolveRef loader rec di d st p (s_ref c)) as [x| | |] eqn:Ex; cbn [bind] in E1; try discriminate.
          injection E1 as <-. apply resolveRef_once in Ex; [|exact Ho]. destruct Ex as [Hox Hmx].
          split; [now apply Once_set_ref|now apply CM_set_ref]. }
        destruct H1 as [Ho1 Hm1].
        assert (H2 : Once st2 None /\ CM st1 st2).
        { destruct (nonempty (s_dynamicRef c)); [|injection E2 as <-; split; [exact Ho1|apply CM_refl]].
          destruct (resolveRef loader rec di d st1 p (s_dynamicRef c)) as [x| | |] eqn:Ex; cbn [bind] in E2; try discriminate.
          injection E2 as <-. apply resolveRef_once in Ex; [|exact Ho1]. destruct Ex as [Hox Hmx].
          split; [now apply Once_set_ref|now apply CM_set_ref]. }
        destruct H2 as [Ho2 Hm2].
        destruct (IH st2 st' H Ho2) as [Ho' Hm']. split; [exact Ho'|]. eapply CM_trans; [exact Hm1|]. eapply CM_trans; eauto.
    Qed.
  End Rec.

  Lemma resolve_doc_once : forall n st s b st' d,
    resolve_doc re_ok loader rootDraft7 n st s b = Ok (st', d) -> Once st (Some (uri_string b)) -> Once st' None /\ CM st st'.
  Proof.
    induction n as [|n IH]; intros st s b st' d H Ho; [discriminate|]. cbn [resolve_doc] in H.
    destruct (nonempty (u_frag b)); [discriminate|].
    destruct (negb (check re_ok s)); [discriminate|].
    destruct (resolveURIs s _ b) as [di| | |]; cbn [bind] in H; try discriminate.
    match type of H with (st0 <- ?X ;; _) = _ => destruct X as [st2| | |] eqn:Er end; cbn [bind] in H; try discriminate.
    injection H as <- <-.
    match type of Er with resolveRefs _ _ _ _ _ ?S1 = _ => set (st1 := S1) in * end.
    assert (Hm1 : CM st st1).
    { intros u. unfold uncached. cbn [st1 r_cache lookup]. destruct (str_eqb u _); [discriminate|]. destruct (str_eqb u (uri_string b)); [discriminate|]. auto. }
    assert (Ho1 : Once st1 None).
    { destruct Ho as [Hnd Hall]. split; [exact Hnd|]. intros u Hu. left. cbn [st1 r_calls] in Hu.
      destruct (Hall u Hu) as [Hc|Hc].
      - destruct (uncached st1 u) eqn:E; [|reflexivity]. apply Hm1 in E. congruence.
      - injection Hc as ->. unfold uncached. cbn [st1 r_cache lookup]. destruct (str_eqb (uri_string b) _); [reflexivity|].
        assert (E : str_eqb (uri_string b) (uri_string b) = true) by (now apply str_eqb_eq). now rewrite E. }
    apply resolveRefs_once in Er; [|intros st0 ls u [r k] Hr Hor; eapply IH; eauto|exact Ho1].
    destruct Er as [Ho2 Hm2]. split; [exact Ho2|]. eapply CM_trans; eauto.
  Qed.
End Once.

Theorem Resolve_loads_once re_ok fuel root baseURI loader e calls :
  Resolve re_ok fuel root baseURI loader = Ok (e, calls) -> NoDup calls.
Proof.
  unfold Resolve. intros H.
  destruct (match baseURI with [] => POk empty_uri | _ => parse_uri baseURI end) as [base0| |]; try discriminate.
  set (base := norm_base baseURI base0) in *; clearbody base.
  destruct (resolve_doc re_ok loader (detectDraft7 root) fuel (mkR [] [] [] []) root base) as [[st d]| | |] eqn:Er; cbn [bind] in H; try discriminate.
  injection H as _ <-. apply resolve_doc_once in Er; [exact (proj1 (proj1 Er))|].
  split; cbn [r_calls]; [constructor|intros u []].
Qed.

(** a decision procedure for [wfs] (for examples and for the extracted runner) *)
Definition maps_nodupb (s : schema) : bool :=
  nodup_strs (keys (omap (s_defs s))) && nodup_strs (keys (omap (s_definitions s))) &&
  nodup_strs (keys (omap (s_dependencySchemas s))) && nodup_strs (keys (omap (s_dependentSchemas s))) &&
  nodup_strs (keys (omap (s_patternProperties s))) && nodup_strs (keys (omap (s_properties s))).
Definition wfsb (s : schema) : bool := forallb (fun px => maps_nodupb (snd px)) (all_sub s).
Lemma wfsb_spec s : wfsb s = true -> wfs s.
Proof.
  unfold wfsb, wfs. rewrite forallb_forall. intros H p x Hin. specialize (H (p, x) Hin). cbn [snd] in H.
  unfold maps_nodupb in H. repeat (apply andb_true_iff in H as [H ?]).
  unfold maps_nodup. repeat split; now apply nodup_strs_NoDup.
Qed.
